From Coq Require Import Reals Lra Psatz.
Open Scope R_scope.
Definition sgn (x:R) : R := if Rlt_dec 0 x then 1 else if Rlt_dec x 0 then -1 else 0.
Definition dy_mid (p sl sr : R) := (sgn sl + sgn sr) * Rmin (Rabs p / 2) (Rmin (Rabs sr) (Rabs sl)).
Lemma dy_mid_bounds p sl sr : let d := dy_mid p sl sr in
  0 <= d*sr /\ Rabs d <= 2*Rabs sr /\ 0 <= d*sl /\ Rabs d <= 2*Rabs sl.
Proof.
  cbv zeta. unfold dy_mid. set (m := Rmin (Rabs p / 2) (Rmin (Rabs sr) (Rabs sl))).
  assert (Hm0: 0 <= m). { unfold m. repeat apply Rmin_glb; try apply Rabs_pos. pose proof (Rabs_pos p); lra. }
  assert (Hmr: m <= Rabs sr). { unfold m. eapply Rle_trans; [apply Rmin_r|apply Rmin_l]. }
  assert (Hml: m <= Rabs sl). { unfold m. eapply Rle_trans; [apply Rmin_r|apply Rmin_r]. }
  clearbody m. unfold sgn.
  destruct (Rlt_dec 0 sl), (Rlt_dec sl 0), (Rlt_dec 0 sr), (Rlt_dec sr 0); try lra;
  try rewrite (Rabs_pos_eq sl) in * by lra; try rewrite (Rabs_pos_eq sr) in * by lra;
  try rewrite (Rabs_left sl) in * by lra; try rewrite (Rabs_left sr) in * by lra;
  try (assert (sl = 0) by lra; subst sl; rewrite Rabs_R0 in * );
  try (assert (sr = 0) by lra; subst sr; rewrite Rabs_R0 in * );
  try (assert (m = 0) by lra; subst m);
  repeat split; try (apply Rabs_le); try split; try nra.
Qed.
