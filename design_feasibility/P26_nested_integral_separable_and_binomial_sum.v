From Coq Require Import Reals Lra.
From Coquelicot Require Import Coquelicot.
Open Scope R_scope.
(* Integrate_2D with an exact inner/outer integrator: separable integrand gives the product *)
Section N.
Variables g h : R -> R.
Hypothesis gc : forall x, continuous g x.
Hypothesis hc : forall y, continuous h y.
Variables x1 x2 y1 y2 : R.
Definition integrate_2d (I : (R -> R) -> R -> R -> R) (f : R -> R -> R) :=
  I (fun x => I (fun y => f x y) y1 y2) x1 x2.          (* outer variable x gets (x1,x2), inner y gets (y1,y2) *)
Lemma inner x : RInt (fun y => g x * h y) y1 y2 = g x * RInt h y1 y2.
Proof.
  apply is_RInt_unique. apply (is_RInt_ext (fun y => scal (g x) (h y))). { intros; reflexivity. }
  apply (is_RInt_scal h y1 y2 (g x) (RInt h y1 y2)). apply (@RInt_correct R_CompleteNormedModule). apply (@ex_RInt_continuous R_CompleteNormedModule). intros; apply hc.
Qed.
Theorem separable : integrate_2d (fun f a b => RInt f a b) (fun x y => g x * h y) = RInt g x1 x2 * RInt h y1 y2.
Proof.
  unfold integrate_2d. apply is_RInt_unique.
  apply (is_RInt_ext (fun x => scal (RInt h y1 y2) (g x))). { intros x _. rewrite inner. unfold scal; cbn; unfold mult; cbn. ring. }
  replace (RInt g x1 x2 * RInt h y1 y2) with (scal (RInt h y1 y2) (RInt g x1 x2)) by (unfold scal; cbn; unfold mult; cbn; ring).
  apply (is_RInt_scal g x1 x2 (RInt h y1 y2) (RInt g x1 x2)). apply (@RInt_correct R_CompleteNormedModule). apply (@ex_RInt_continuous R_CompleteNormedModule). intros; apply gc.
Qed.
End N.
(* binomial PMF sums to one *)
Lemma pmf_binomial_sums_to_one (n:nat) (p:R) :
  sum_f_R0 (fun k => Binomial.C n k * p ^ k * (1-p) ^ (n - k)) n = 1.
Proof. rewrite <- binomial. replace (p + (1 - p)) with 1 by ring. apply pow1. Qed.
Print Assumptions separable.
