From Coq Require Import List ZArith Lia Bool.
Import ListNotations.
Open Scope Z_scope.

Section Ord.
Variable T : Type.
Variable ltb : T -> T -> bool.
Definition lt x y := ltb x y = true.
Hypothesis lt_irrefl : forall x, ~ lt x x.
Hypothesis lt_trans : forall x y z, lt x y -> lt y z -> lt x z.
Hypothesis lt_total : forall x y, lt x y \/ x = y \/ lt y x.
Definition geb x y := negb (ltb x y).   (* x >= y  in C++ is !(x<y) for non-NaN *)

Variable d : T.
Variable xs : list T.
Definition xv (i:Z) : T := nth (Z.to_nat i) xs d.
Definition N := Z.of_nat (length xs).
Definition increasing := forall i j, 0 <= i -> i < j -> j < N -> lt (xv i) (xv j).

Fixpoint bisect (fuel:nat) (x:T) (jl jr : Z) : Z :=
  match fuel with
  | O => jl
  | S f => if 1 <? jr - jl then
             let jm := Z.shiftr (jr + jl) 1 in
             if geb x (xv jm) then bisect f x jm jr else bisect f x jl jm
           else jl
  end.

Lemma bisect_spec : increasing -> forall fuel x jl jr,
  0 <= jl -> jl < jr -> jr < N -> (Z.of_nat fuel >= jr - jl) ->
  ~ lt x (xv jl) -> (lt x (xv jr) \/ jr = N-1) ->
  let j := bisect fuel x jl jr in
  jl <= j /\ j < jr /\ ~ lt x (xv j) /\ (lt x (xv (j+1)) \/ j+1 = N-1).
Proof.
  intros Hinc fuel. induction fuel as [|f IH]; intros x jl jr H0 Hlr HrN Hfuel Hlo Hhi; cbn [bisect].
  - lia.
  - destruct (1 <? jr - jl) eqn:E.
    + apply Z.ltb_lt in E. rewrite Z.shiftr_div_pow2 by lia. change (2^1) with 2.
      set (jm := (jr + jl) / 2). assert (Hjm: jl < jm < jr) by (unfold jm; Z.div_mod_to_equations; lia).
      unfold geb. destruct (ltb x (xv jm)) eqn:Em; cbn [negb].
      * assert (IH' := IH x jl jm ltac:(lia) ltac:(lia) ltac:(lia) ltac:(lia) Hlo (or_introl Em)).
        cbv zeta in IH'. destruct IH' as (a&b&c&e). repeat split; try lia; auto.
      * assert (Hge: ~ lt x (xv jm)) by (unfold lt; rewrite Em; discriminate).
        assert (IH' := IH x jm jr ltac:(lia) ltac:(lia) ltac:(lia) ltac:(lia) Hge Hhi).
        cbv zeta in IH'. destruct IH' as (a&b&c&e). repeat split; try lia; auto.
    + apply Z.ltb_ge in E. assert (jr = jl + 1) by lia. subst jr. repeat split; try lia; auto.
Qed.
End Ord.
Print Assumptions bisect_spec.
