From Coq Require Import List ZArith Lia Bool.
Import ListNotations.
Open Scope Z_scope.

Section Ord.
Variable T : Type.
Variable ltb : T -> T -> bool.
Definition lt x y := ltb x y = true.
Hypothesis lt_irrefl : forall x, ~ lt x x.
Hypothesis lt_trans : forall x y z, lt x y -> lt y z -> lt x z.
Hypothesis lt_total : forall x y, lt x y \/ x = y \/ lt y x.
Definition geb x y := negb (ltb x y).   (* x >= y *)
Definition gtb x y := ltb y x.          (* x > y  *)

Variable d : T.
Variable xs : list T.
Definition xv (i:Z) : T := nth (Z.to_nat i) xs d.
Definition N := Z.of_nat (length xs).
Definition increasing := forall i j, 0 <= i -> i < j -> j < N -> lt (xv i) (xv j).
Definition le x y := ~ lt y x.

Fixpoint bisect (fuel:nat) (x:T) (jl jr : Z) : Z :=
  match fuel with
  | O => jl
  | S f => if 1 <? jr - jl then
             let jm := Z.shiftr (jr + jl) 1 in
             if geb x (xv jm) then bisect f x jm jr else bisect f x jl jm
           else jl
  end.

Lemma bisect_spec : forall fuel x jl jr,
  0 <= jl -> jl < jr -> jr <= N-1 -> (Z.of_nat fuel >= jr - jl) ->
  le (xv jl) x -> le x (xv jr) ->
  let j := bisect fuel x jl jr in
  jl <= j /\ j < jr /\ le (xv j) x /\ le x (xv (j+1)) /\ (lt x (xv jr) -> lt x (xv (j+1))).
Proof.
  unfold le. intros fuel. induction fuel as [|f IH]; intros x jl jr H0 Hlr HrN Hfuel Hlo Hhi; cbn [bisect].
  - lia.
  - destruct (1 <? jr - jl) eqn:E.
    + apply Z.ltb_lt in E. rewrite Z.shiftr_div_pow2 by lia. change (2^1) with 2.
      set (jm := (jr + jl) / 2). assert (Hjm: jl < jm < jr) by (unfold jm; Z.div_mod_to_equations; lia).
      unfold geb. destruct (ltb x (xv jm)) eqn:Em; cbn [negb].
      * assert (Hle: ~ lt (xv jm) x) by (intro C; apply (lt_irrefl x); eapply lt_trans; eauto).
        assert (IH' := IH x jl jm ltac:(lia) ltac:(lia) ltac:(lia) ltac:(lia) Hlo Hle).
        cbv zeta in IH'. destruct IH' as (a&b&c&e&g). repeat split; try lia; auto.
      * assert (Hge: ~ lt x (xv jm)) by (unfold lt; rewrite Em; discriminate).
        assert (IH' := IH x jm jr ltac:(lia) ltac:(lia) ltac:(lia) ltac:(lia) Hge Hhi).
        cbv zeta in IH'. destruct IH' as (a&b&c&e&g). repeat split; try lia; auto.
    + apply Z.ltb_ge in E. assert (jr = jl + 1) by lia. subst jr. repeat split; try lia; auto.
Qed.

(* Hunt up: jd = jLast, ju = jd + dj; while (x > xv ju) { jd = ju; ju += dj; if (ju > N-1) {ju = N-1; break} else dj += dj } *)
Fixpoint hunt_up (fuel:nat) (x:T) (jd ju dj : Z) : Z * Z :=
  match fuel with
  | O => (jd, ju)
  | S f => if gtb x (xv ju) then
             let jd' := ju in let ju' := ju + dj in
             if N - 1 <? ju' then (jd', N - 1) else hunt_up f x jd' ju' (dj + dj)
           else (jd, ju)
  end.
(* Hunt down: ju = jLast, jd = ju - dj; while (x < xv jd) { ju = jd; jd -= dj; if (jd < 0) {jd = 0; break} else dj += dj } *)
Fixpoint hunt_down (fuel:nat) (x:T) (jd ju dj : Z) : Z * Z :=
  match fuel with
  | O => (jd, ju)
  | S f => if ltb x (xv jd) then
             let ju' := jd in let jd' := jd - dj in
             if jd' <? 0 then (0, ju') else hunt_down f x jd' ju' (dj + dj)
           else (jd, ju)
  end.

Definition hunt (x:T) (jLast : Z) : Z :=
  let fuel := length xs in
  if gtb x (xv jLast) then
    let '(jd, ju) := hunt_up fuel x jLast (jLast + 1) 1 in
    if 1 <? ju - jd then bisect fuel x jd ju else jd
  else if ltb x (xv jLast) then
    let '(jd, ju) := hunt_down fuel x (jLast - 1) jLast 1 in
    if 1 <? ju - jd then bisect fuel x jd ju else jd
  else jLast.

(* in-domain hypothesis:  xv 0 <= x <= xv (N-1) *)
Lemma hunt_up_spec : forall fuel x jd ju dj,
  0 <= jd -> jd < ju -> ju <= N-1 -> 1 <= dj -> Z.of_nat fuel >= N - ju ->
  lt (xv jd) x -> le x (xv (N-1)) -> increasing ->
  let '(a,b) := hunt_up fuel x jd ju dj in
  0 <= a /\ a < b /\ b <= N-1 /\ lt (xv a) x /\ le x (xv b).
Proof.
  unfold le. intros fuel. induction fuel as [|f IH]; intros x jd ju dj H0 Hlt HN Hdj Hf Hlo Hdom Hinc; cbn [hunt_up].
  - assert (ju = N-1) by lia. subst ju. repeat split; auto; lia.
  - unfold gtb. destruct (ltb (xv ju) x) eqn:E.
    + cbv zeta. destruct (N - 1 <? ju + dj) eqn:E2.
      * apply Z.ltb_lt in E2. repeat split; try lia; auto.
        (* need ju < N-1: since xv ju < x <= xv (N-1) *)
        destruct (Z.eq_dec ju (N-1)) as [->|]; [exfalso; apply Hdom; exact E|lia].
      * apply Z.ltb_ge in E2.
        apply IH; auto; try lia.
    + repeat split; auto; try lia. unfold lt. rewrite E. discriminate.
Qed.

Lemma hunt_down_spec : forall fuel x jd ju dj,
  0 <= jd -> jd < ju -> ju <= N-1 -> 1 <= dj -> Z.of_nat fuel >= jd + 1 ->
  lt x (xv ju) -> le (xv 0) x -> increasing ->
  let '(a,b) := hunt_down fuel x jd ju dj in
  0 <= a /\ a < b /\ b <= N-1 /\ le (xv a) x /\ lt x (xv b).
Proof.
  unfold le. intros fuel. induction fuel as [|f IH]; intros x jd ju dj H0 Hlt HN Hdj Hf Hhi Hdom Hinc; cbn [hunt_down].
  - lia.
  - destruct (ltb x (xv jd)) eqn:E.
    + cbv zeta. destruct (jd - dj <? 0) eqn:E2.
      * apply Z.ltb_lt in E2. repeat split; try lia; auto.
        destruct (Z.eq_dec jd 0) as [->|]; [exfalso; apply Hdom; exact E|lia].
      * apply Z.ltb_ge in E2. apply IH; auto; try lia.
    + repeat split; auto; try lia. unfold lt. rewrite E. discriminate.
Qed.

Theorem hunt_spec x jLast : increasing -> 2 <= N -> 0 <= jLast <= N-2 ->
  le (xv 0) x -> le x (xv (N-1)) ->
  let j := hunt x jLast in
  0 <= j <= N-2 /\ le (xv j) x /\ le x (xv (j+1)).
Proof.
  intros Hinc HN Hj Hlo Hhi. unfold hunt. unfold gtb.
  destruct (ltb (xv jLast) x) eqn:E1.
  - pose proof (hunt_up_spec (length xs) x jLast (jLast+1) 1) as H.
    destruct (hunt_up (length xs) x jLast (jLast + 1) 1) as [a b].
    destruct H as (Ha&Hab&Hb&Hax&Hxb); auto; try lia. { unfold N. lia. }
    assert (Hax': le (xv a) x) by (unfold le; intro C; apply (lt_irrefl x); eapply lt_trans; eauto).
    destruct (1 <? b - a) eqn:E3.
    + apply Z.ltb_lt in E3.
      pose proof (bisect_spec (length xs) x a b) as B. cbv zeta in B.
      destruct B as (B1&B2&B3&B4&B5); auto; try lia. { unfold N in *. lia. }
      repeat split; auto; lia.
    + apply Z.ltb_ge in E3. assert (b = a+1) by lia. subst b. repeat split; auto; lia.
  - destruct (ltb x (xv jLast)) eqn:E2.
    + assert (HjL: 1 <= jLast). { destruct (Z.eq_dec jLast 0) as [->|]; [exfalso; apply Hlo; exact E2|lia]. }
      pose proof (hunt_down_spec (length xs) x (jLast-1) jLast 1) as H.
      destruct (hunt_down (length xs) x (jLast - 1) jLast 1) as [a b].
      destruct H as (Ha&Hab&Hb&Hax&Hxb); auto; try lia. { unfold N in *. lia. }
      assert (Hxb': le x (xv b)) by (unfold le; intro C; apply (lt_irrefl x); eapply lt_trans; eauto).
      destruct (1 <? b - a) eqn:E3.
      * apply Z.ltb_lt in E3.
        pose proof (bisect_spec (length xs) x a b) as B. cbv zeta in B.
        destruct B as (B1&B2&B3&B4&B5); auto; try lia. { unfold N in *. lia. }
        repeat split; auto; lia.
      * apply Z.ltb_ge in E3. assert (b = a+1) by lia. subst b. repeat split; auto; lia.
    + (* x = xv jLast *)
      assert (x = xv jLast). { destruct (lt_total x (xv jLast)) as [L|[L|L]]; auto; unfold lt in L; congruence. }
      subst x. split; [lia|]. split.
      * unfold le. apply lt_irrefl.
      * unfold le. intro C. apply (lt_irrefl (xv jLast)). eapply lt_trans; [|exact C]. apply Hinc; lia.
Qed.

(* uniqueness: for x that is not a tabulated abscissa the segment is unique, hence history free *)
Theorem segment_unique x i j : increasing -> 0 <= i <= N-2 -> 0 <= j <= N-2 ->
  (forall k, 0 <= k < N -> x <> xv k) ->
  le (xv i) x -> le x (xv (i+1)) -> le (xv j) x -> le x (xv (j+1)) -> i = j.
Proof.
  unfold le. intros Hinc Hi Hj Hnk A1 A2 B1 B2.
  destruct (Z.lt_trichotomy i j) as [L|[L|L]]; auto; exfalso.
  - (* i+1 <= j : x <= xv(i+1) <= xv j <= x, and x <> knots *)
    assert (lt x (xv (i+1))). { destruct (lt_total x (xv (i+1))) as [H|[H|H]]; auto; [exfalso; eapply Hnk; [|exact H]; lia|contradiction]. }
    destruct (Z.eq_dec (i+1) j) as [<-|]; [contradiction|].
    apply B1. eapply lt_trans; [exact H|]. apply Hinc; lia.
  - assert (lt x (xv (j+1))). { destruct (lt_total x (xv (j+1))) as [H|[H|H]]; auto; [exfalso; eapply Hnk; [|exact H]; lia|contradiction]. }
    destruct (Z.eq_dec (j+1) i) as [<-|]; [contradiction|].
    apply A1. eapply lt_trans; [exact H|]. apply Hinc; lia.
Qed.
End Ord.

Print Assumptions hunt_spec.
Print Assumptions segment_unique.
