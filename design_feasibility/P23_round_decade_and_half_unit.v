From Coq Require Import Reals Lra Lia ZArith Psatz.
Open Scope R_scope.

(* floor as in std::floor *)
Definition floorZ (x:R) : Z := Int_part x.
Lemma floor_spec x : IZR (floorZ x) <= x < IZR (floorZ x) + 1.
Proof. unfold floorZ. pose proof (base_Int_part x). lra. Qed.

Definition log10 (x:R) := ln x / ln 10.
Lemma ln10_pos : 0 < ln 10.
Proof. rewrite <- ln_1. apply ln_increasing; lra. Qed.

(* decade of a positive number: 10^k <= N < 10^(k+1) with k = floor(log10 N) *)
Lemma decade N : 0 < N -> let k := floorZ (log10 N) in powerRZ 10 k <= N < powerRZ 10 (k+1).
Proof.
  intros HN k. pose proof (floor_spec (log10 N)) as [H1 H2]. fold k in H1, H2.
  pose proof ln10_pos as L.
  rewrite !powerRZ_Rpower by lra. unfold Rpower.
  unfold log10 in *. rewrite plus_IZR.
  assert (A: IZR k * ln 10 <= ln N). { apply Rmult_le_reg_r with (/ ln 10). apply Rinv_0_lt_compat; lra. rewrite Rmult_assoc, Rinv_r by lra. lra. }
  assert (B: ln N < (IZR k + 1) * ln 10). { apply Rmult_lt_reg_r with (/ ln 10). apply Rinv_0_lt_compat; lra. rewrite Rmult_assoc, Rinv_r by lra. unfold Rdiv in H2. lra. }
  split.
  - apply Rle_trans with (exp (ln N)); [|right; apply exp_ln; lra].
    destruct A as [A|A]; [left; apply exp_increasing; exact A|right; rewrite A; reflexivity].
  - apply Rle_lt_trans with (exp (ln N)); [right; symmetry; apply exp_ln; lra|]. apply exp_increasing. exact B.
Qed.

(* Round for N > 0, d >= 1 significant digits, as in the source *)
Definition round_pos (N:R) (d:Z) : R :=
  let k := floorZ (log10 N) in
  let pre := N * powerRZ 10 (-k) in
  let pre2 := IZR (floorZ (pre * powerRZ 10 (d-1) + /2)) in
  pre2 * powerRZ 10 (-1*d+1) * powerRZ 10 k.

(* it is rounding half-up to a multiple of q = 10^(k-d+1) *)
Lemma round_pos_form N d : 0 < N -> let k := floorZ (log10 N) in let q := powerRZ 10 (k-d+1) in
  round_pos N d = IZR (floorZ (N/q + /2)) * q.
Proof.
  intros HN k q. unfold round_pos. fold k.
  assert (T: (10:R) <> 0) by lra.
  replace (N * powerRZ 10 (-k) * powerRZ 10 (d-1)) with (N / q).
  - rewrite Rmult_assoc, <- powerRZ_add by lra. unfold q. f_equal. f_equal. lia.
  - unfold q, Rdiv. rewrite Rmult_assoc, <- powerRZ_add by lra. rewrite <- powerRZ_neg'. f_equal. f_equal. lia.
Qed.

Theorem round_within_half_unit N d : 0 < N -> let k := floorZ (log10 N) in let q := powerRZ 10 (k-d+1) in
  Rabs (round_pos N d - N) <= q/2.
Proof.
  intros HN k q. rewrite round_pos_form by assumption. fold k q.
  assert (Hq: 0 < q) by (apply powerRZ_lt; lra).
  clearbody q. clear k.
  assert (E: N = (N/q) * q) by (field; lra).
  set (t := N/q) in *. pose proof (floor_spec (t + /2)) as [F1 F2]. set (n := IZR (floorZ (t + /2))) in *.
  clearbody t n. rewrite E. apply Rabs_le. split; nra.
Qed.
Print Assumptions round_within_half_unit.
