From Coq Require Import Reals Lra Psatz.
Open Scope R_scope.
(* Ridder step stays inside the bracket: x4 = x3 + (x3-x1)*sg*f3/sqrt(f3^2-f1*f2), sg = +-1 *)
Lemma ridder_ratio f1 f2 f3 : f1*f2 < 0 -> Rabs (f3 / sqrt (f3*f3 - f1*f2)) < 1.
Proof.
  intros H. set (D := f3*f3 - f1*f2). assert (HD: 0 < D) by (unfold D; nra).
  assert (Hs: 0 < sqrt D) by (apply sqrt_lt_R0; exact HD).
  unfold Rdiv. rewrite Rabs_mult, Rabs_Rinv by lra. rewrite (Rabs_pos_eq (sqrt D)) by lra.
  apply Rmult_lt_reg_r with (sqrt D); [exact Hs|]. rewrite Rmult_assoc, Rinv_l by lra. rewrite Rmult_1_r, Rmult_1_l.
  rewrite <- sqrt_Rsqr_abs. apply sqrt_lt_1; unfold Rsqr, D; nra.
Qed.
Lemma ridder_inside x1 x2 f1 f2 f3 sg : f1*f2 < 0 -> (sg = 1 \/ sg = -1) ->
  let x3 := (x1+x2)/2 in let x4 := x3 + (x3-x1)*sg*f3/sqrt (f3*f3 - f1*f2) in
  Rmin x1 x2 <= x4 <= Rmax x1 x2.
Proof.
  intros H Hsg x3 x4. pose proof (ridder_ratio f1 f2 f3 H) as R.
  set (r := f3 / sqrt (f3*f3 - f1*f2)) in *. apply Rabs_def2 in R.
  assert (E: x4 = x3 + (x3-x1)*sg*r) by (unfold x4, r; field; apply Rgt_not_eq, sqrt_lt_R0; nra).
  rewrite E. unfold x3. unfold Rmin, Rmax. destruct (Rle_dec x1 x2); destruct Hsg; subst sg; split; nra.
Qed.
