From Coq Require Import Reals Lra Psatz Nsatz.
Open Scope R_scope.
Section Rot.
Variables c s n1 n2 n3 : R.
Hypothesis cs : c*c + s*s = 1.
Hypothesis nn : n1*n1 + n2*n2 + n3*n3 = 1.
(* entries as in Rotation_Matrix *)
Definition r11 := c + n1*n1*(1-c). Definition r12 := n1*n2*(1-c) - n3*s. Definition r13 := n1*n3*(1-c) + n2*s.
Definition r21 := n1*n2*(1-c) + n3*s. Definition r22 := c + n2*n2*(1-c). Definition r23 := n2*n3*(1-c) - n1*s.
Definition r31 := n1*n3*(1-c) - n2*s. Definition r32 := n2*n3*(1-c) + n1*s. Definition r33 := c + n3*n3*(1-c).
Ltac go := unfold r11,r12,r13,r21,r22,r23,r31,r32,r33.
(* polynomial identity modulo the two constraints: P = Q + A*(c²+s²-1) + B*(n·n-1) *)
Lemma orth_11 : r11*r11 + r21*r21 + r31*r31 = 1.
Proof. go. nsatz. Qed.
Lemma orth_12 : r11*r12 + r21*r22 + r31*r32 = 0.
Proof. go. nsatz. Qed.
Lemma axis_fixed_1 : r11*n1 + r12*n2 + r13*n3 = n1.
Proof. go. nsatz. Qed.
Lemma det_one : r11*(r22*r33 - r23*r32) - r12*(r21*r33 - r23*r31) + r13*(r21*r32 - r22*r31) = 1.
Proof. go. nsatz. Qed.
End Rot.
