From Coq Require Import Reals Lra Lia.
Open Scope R_scope.
Section L.
Variables x a fpmin : R.
(* intended coefficients: a_i = -i(i-a), b_i = x + 2i + 1 - a *)
Definition an (i:nat) : R := - INR i * (INR i - a).
Definition bn (i:nat) : R := x + 2 * INR i + 1 - a.
(* loop state after n iterations, with the index advanced (the repaired code) *)
Record st := { b : R; c : R; d : R; h : R }.
Definition init : st := {| b := x + 1 - a; c := / fpmin; d := / (x + 1 - a); h := / (x + 1 - a) |}.
Definition step (i:nat) (s:st) : st :=
  let b' := b s + 2 in let d1 := an i * d s + b' in let c' := b' + an i / c s in let d' := / d1 in
  {| b := b'; c := c'; d := d'; h := h s * (d' * c') |}.
Fixpoint run (n:nat) : st := match n with O => init | S k => step (S k) (run k) end.
(* the two solutions of U_i = b_i U_{i-1} + a_i U_{i-2} *)
Fixpoint AB (u0 um1 : R) (n:nat) : R * R :=   (* (U_n, U_{n-1}) *)
  match n with O => (u0, um1) | S k => let '(u, up) := AB u0 um1 k in (bn (S k) * u + an (S k) * up, u) end.
Definition A n := fst (AB (bn 0) 1 n).      Definition Am n := snd (AB (bn 0) 1 n).
Definition Bt n := fst (AB 1 fpmin n).      Definition Btm n := snd (AB 1 fpmin n).

Lemma b_run n : b (run n) = bn n.
Proof. induction n; cbn [run step b init]. unfold bn; cbn; lra. rewrite IHn. unfold bn. rewrite S_INR. lra. Qed.

Theorem lentz_is_convergent : fpmin <> 0 -> forall n,
  (forall k, (k <= n)%nat -> A k <> 0 /\ Bt k <> 0) ->
  d (run n) = Am n / A n /\ c (run n) = Bt n / Btm n /\ h (run n) = Bt n / A n.
Proof.
  intros Hf. induction n as [|n IH]; intros Hnz.
  - destruct (Hnz 0%nat (le_n _)) as [HA HB]. unfold A, Am, Bt, Btm in *. cbn in *. unfold bn in *. cbn in *.
    replace (x + 2*0 + 1 - a) with (x + 1 - a) in * by ring. repeat split; field; auto.
  - assert (Hn: forall k, (k <= n)%nat -> A k <> 0 /\ Bt k <> 0) by (intros; apply Hnz; lia).
    destruct (IH Hn) as (Id&Ic&Ih). destruct (Hnz (S n) (le_n _)) as [HA HB]. destruct (Hn n (le_n _)) as [HAn HBn].
    cbn [run]. unfold step; cbn [b c d h]. rewrite Id, Ic, Ih, b_run.
    unfold A, Am, Bt, Btm in *. cbn [AB] in *.
    destruct (AB (bn 0) 1 n) as [u up]. destruct (AB 1 fpmin n) as [v vp]. cbn [fst snd] in *.
    replace (bn n + 2) with (bn (S n)) by (unfold bn; rewrite S_INR; lra).
    set (bb := bn (S n)) in *. set (aa := an (S n)) in *.
    assert (E1: aa * (up / u) + bb = (bb * u + aa * up) / u) by (field; auto).
    assert (E2: bb + aa / (v / vp) = (bb * v + aa * vp) / v).
    { destruct (Req_dec vp 0) as [Z|Z]. 
      - subst vp. unfold Rdiv at 2. rewrite Rinv_0, Rmult_0_r. unfold Rdiv at 1. rewrite Rinv_0. field. auto.
      - field. split; auto. }
    rewrite E1, E2. repeat split; try (field; auto).
Qed.
End L.
Print Assumptions lentz_is_convergent.
