From Coq Require Import Reals Lra.
From Coquelicot Require Import Coquelicot.
Open Scope R_scope.
Definition seg (a b c d xj x : R) := a*(x-xj)^3 + b*(x-xj)^2 + c*(x-xj) + d.
Definition d1 (a b c xj x : R) := 3*a*(x-xj)^2 + 2*b*(x-xj) + c.
Definition d2 (a b xj x : R) := 6*a*(x-xj) + 2*b.
Definition d3 (a : R) := 6*a.
Lemma D1 a b c d xj x : is_derive (seg a b c d xj) x (d1 a b c xj x).
Proof. unfold seg, d1. auto_derive; auto. ring. Qed.
Lemma D2 a b c xj x : is_derive (d1 a b c xj) x (d2 a b xj x).
Proof. unfold d1, d2. auto_derive; auto. ring. Qed.
Lemma D3 a b xj x : is_derive (d2 a b xj) x (d3 a).
Proof. unfold d2, d3. auto_derive; auto. ring. Qed.
Lemma Dn2 a b c d xj x : is_derive_n (seg a b c d xj) 2 x (d2 a b xj x).
Proof.
  apply (is_derive_ext (d1 a b c xj)). 2: apply D2.
  intros t. symmetry. apply is_derive_unique, D1.
Qed.
(* Chasles over two adjacent segments for a curve that agrees with each cubic on the open interval *)
Lemma two_segments (g f1 f2 : R -> R) x0 x1 x2 I1 I2 : x0 < x1 < x2 ->
  (forall x, x0 < x < x1 -> g x = f1 x) -> (forall x, x1 < x < x2 -> g x = f2 x) ->
  is_RInt f1 x0 x1 I1 -> is_RInt f2 x1 x2 I2 -> is_RInt g x0 x2 (I1 + I2).
Proof.
  intros H E1 E2 H1 H2. apply (is_RInt_Chasles g x0 x1 x2).
  - apply (is_RInt_ext f1); [|exact H1]. intros x. rewrite Rmin_left, Rmax_right by lra. intros Hx. symmetry; auto.
  - apply (is_RInt_ext f2); [|exact H2]. intros x. rewrite Rmin_left, Rmax_right by lra. intros Hx. symmetry; auto.
Qed.
