From Coq Require Import Reals Lra Lia List Psatz.
Import ListNotations.
Open Scope R_scope.

Section S.
Variable f : R -> R.
(* Adaptive_Simpson_Integration with the depth as structural argument; returns value and number of evaluations *)
Fixpoint asr (bottom : nat) (a b eps S fa fb fc : R) {struct bottom} : R * nat :=
  let c := (a+b)/2 in let h := b - a in let d := (a+c)/2 in let e := (b+c)/2 in
  let fd := f d in let fe := f e in
  let Sl := h/12*(fa + 4*fd + fc) in let Sr := h/12*(fc + 4*fe + fb) in let S2 := Sl + Sr in
  match bottom with
  | O => (S2 + (S2 - S)/15, 2%nat)
  | S n => if Rle_dec (Rabs (S2 - S)) (15*eps) then (S2 + (S2 - S)/15, 2%nat)
           else let '(v1,n1) := asr n a c (eps/2) Sl fa fc fd in
                let '(v2,n2) := asr n c b (eps/2) Sr fc fb fe in (v1+v2, (2+n1+n2)%nat)
  end.
Definition simp a b := (b-a)/6*(f a + 4*f ((a+b)/2) + f b).
Definition integrate (a b eps : R) (depth : nat) : R * nat :=
  let '(v,n) := asr depth a b (Rabs eps) (simp a b) (f a) (f b) (f ((a+b)/2)) in (v, (3+n)%nat).
End S.

(* quintics *)
Definition p5 c0 c1 c2 c3 c4 c5 x := c0 + c1*x + c2*x^2 + c3*x^3 + c4*x^4 + c5*x^5.
Definition P5 c0 c1 c2 c3 c4 c5 x := c0*x + c1*x^2/2 + c2*x^3/3 + c3*x^4/4 + c4*x^5/5 + c5*x^6/6.

Lemma boole c0 c1 c2 c3 c4 c5 a b : let f := p5 c0 c1 c2 c3 c4 c5 in
  let S := simp f a b in let S2 := simp f a ((a+b)/2) + simp f ((a+b)/2) b in
  S2 + (S2 - S)/15 = P5 c0 c1 c2 c3 c4 c5 b - P5 c0 c1 c2 c3 c4 c5 a.
Proof. cbv zeta. unfold simp, p5, P5. field. Qed.

Theorem quintic_exact c0 c1 c2 c3 c4 c5 : let f := p5 c0 c1 c2 c3 c4 c5 in
  forall depth a b eps,
  fst (asr f depth a b eps (simp f a b) (f a) (f b) (f ((a+b)/2))) = P5 c0 c1 c2 c3 c4 c5 b - P5 c0 c1 c2 c3 c4 c5 a.
Proof.
  intros f depth. induction depth as [|n IH]; intros a b eps.
  - cbn [asr fst]. unfold f, simp, p5, P5. field.
  - cbn [asr]. match goal with |- context [Rle_dec ?x ?y] => destruct (Rle_dec x y) end.
    + cbn [fst]. unfold f, simp, p5, P5. field.
    + specialize (IH a ((a+b)/2) (eps/2)) as IH1. specialize (IH ((a+b)/2) b (eps/2)) as IH2.
      (* the arguments handed down are exactly simp on the halves and the inherited values *)
      replace ((b - a) / 12 * (f a + 4 * f ((a + (a + b) / 2) / 2) + f ((a + b) / 2))) with (simp f a ((a+b)/2)) by (unfold simp; field).
      replace ((b - a) / 12 * (f ((a + b) / 2) + 4 * f ((b + (a + b) / 2) / 2) + f b)) with (simp f ((a+b)/2) b)
        by (unfold simp; replace (((a+b)/2 + b)/2) with ((b + (a+b)/2)/2) by field; field).
      replace ((b + (a + b) / 2) / 2) with (((a+b)/2 + b)/2) by field.
      destruct (asr f n a ((a+b)/2) (eps/2) _ _ _ _) as [v1 n1] eqn:E1.
      destruct (asr f n ((a+b)/2) b (eps/2) _ _ _ _) as [v2 n2] eqn:E2.
      cbn [fst] in *. rewrite IH1, IH2. ring.
Qed.

Theorem eval_count (f:R->R) : forall depth a b eps S0 fa fb fc,
  (snd (asr f depth a b eps S0 fa fb fc) + 2 <= 2 * 2 ^ (depth + 1))%nat.
Proof.
  induction depth as [|n IH]; intros; cbn [asr].
  - cbn. lia.
  - match goal with |- context [Rle_dec ?x ?y] => destruct (Rle_dec x y) end.
    + cbn [snd]. replace (S n + 1)%nat with (S (n+1)) by lia. cbn [Nat.pow]. assert (1 <= 2^(n+1))%nat by (apply Nat.neq_0_lt_0, Nat.pow_nonzero; lia). lia.
    + match goal with |- context [asr f n ?a1 ?b1 ?e1 ?s1 ?x1 ?y1 ?z1] => pose proof (IH a1 b1 e1 s1 x1 y1 z1) as H1; destruct (asr f n a1 b1 e1 s1 x1 y1 z1) as [v1 n1] end.
      match goal with |- context [asr f n ?a1 ?b1 ?e1 ?s1 ?x1 ?y1 ?z1] => pose proof (IH a1 b1 e1 s1 x1 y1 z1) as H2; destruct (asr f n a1 b1 e1 s1 x1 y1 z1) as [v2 n2] end.
      cbn [snd] in *. replace (S n + 1)%nat with (S (n+1)) by lia. cbn [Nat.pow]. lia.
Qed.
(* integrate: 3 + n <= 2^(depth+2) + 1 *)
Corollary integrate_count f a b eps depth : (snd (integrate f a b eps depth) <= 2 ^ (depth + 2) + 1)%nat.
Proof.
  unfold integrate. pose proof (eval_count f depth a b (Rabs eps) (simp f a b) (f a) (f b) (f ((a+b)/2))) as H.
  destruct (asr f depth a b (Rabs eps) _ _ _ _) as [v n]. cbn [snd] in *.
  replace (depth + 2)%nat with (S (depth+1)) by lia. cbn [Nat.pow]. lia.
Qed.
