From Coq Require Import Reals Lra Psatz.
Open Scope R_scope.
Lemma phi_lower al be u : 0 <= al <= 2 -> 0 <= be <= 2 -> 0 <= u <= 1 ->
  0 <= al*u*(1-u)^2 - be*u^2*(1-u) + 3*u^2 - 2*u^3.
Proof. intros Ha Hb Hu.
  assert (H1: 0 <= al*u*(1-u)^2). { apply Rmult_le_pos. nra. apply pow2_ge_0. }
  assert (H2: be*u^2*(1-u) <= 2*u^2*(1-u)). { assert (0 <= u^2*(1-u)) by nra. nra. }
  nra. Qed.
Lemma phi_upper al be u : 0 <= al <= 2 -> 0 <= be <= 2 -> 0 <= u <= 1 ->
  al*u*(1-u)^2 - be*u^2*(1-u) + 3*u^2 - 2*u^3 <= 1.
Proof. intros Ha Hb Hu.
  assert (H0: 0<= u*(1-u)^2). { apply Rmult_le_pos. lra. apply pow2_ge_0. }
  assert (H1: al*u*(1-u)^2 <= 2*u*(1-u)^2) by nra.
  assert (H2: 0 <= be*u^2*(1-u)). { assert (0 <= u^2*(1-u)) by nra. nra. }
  nra. Qed.
Lemma q_nonneg al be u : 0 <= al <= 2 -> 0 <= be <= 2 -> 0 <= u <= 1 ->
  0 <= al*(1-u)*(1-3*u) + be*u*(3*u-2) + 6*u*(1-u).
Proof. intros Ha Hb Hu.
  destruct (Rle_dec u (1/3)) as [H13|H13]; [|destruct (Rle_dec u (2/3)) as [H23|H23]].
  - assert (0 <= al*((1-u)*(1-3*u))). { apply Rmult_le_pos. lra. nra. }
    assert (be*(u*(2-3*u)) <= 2*(u*(2-3*u))). { assert (0 <= u*(2-3*u)) by nra. nra. } nra.
  - assert (al*((1-u)*(3*u-1)) <= 2*((1-u)*(3*u-1))). { assert (0 <= (1-u)*(3*u-1)) by nra. nra. }
    assert (be*(u*(2-3*u)) <= 2*(u*(2-3*u))). { assert (0 <= u*(2-3*u)) by nra. nra. } nra.
  - assert (al*((1-u)*(3*u-1)) <= 2*((1-u)*(3*u-1))). { assert (0 <= (1-u)*(3*u-1)) by nra. nra. }
    assert (0 <= be*(u*(3*u-2))). { apply Rmult_le_pos. lra. nra. } nra.
Qed.
