From Coq Require Import Reals Lra Psatz.
From Coquelicot Require Import Coquelicot.
Open Scope R_scope.
Definition gauss (t:R) := exp (- (t*t)).
Definition erf (x:R) := 2 / sqrt PI * RInt gauss 0 x.
Lemma gauss_cont t : continuous gauss t.
Proof. apply (ex_derive_continuous gauss). unfold gauss. auto_derive. auto. Qed.
Lemma erf_derive x : is_derive erf x (2 / sqrt PI * exp (-(x*x))).
Proof.
  unfold erf. auto_derive.
  - split; [|split; [|exact I]].
    + apply (ex_RInt_continuous gauss). intros z _. apply gauss_cont.
    + apply filter_forall. intros y. apply continuity_pt_filterlim. apply gauss_cont.
  - unfold gauss. ring.
Qed.
(* Maxwell-Boltzmann: CDF' = PDF for x>0, a>0 *)
Definition pdf_mb (x a : R) := sqrt (2/PI) * x*x/a/a/a * exp (-x*x/2/a/a).
Definition cdf_mb (x a : R) := erf (x / sqrt 2 / a) - sqrt (2/PI) * x / a * exp (-x*x/2/a/a).
Lemma sqrt2PI : sqrt (2/PI) = 2 / sqrt PI / sqrt 2.
Proof.
  assert (0 < PI) by apply PI_RGT_0. assert (0 < sqrt PI) by (apply sqrt_lt_R0; lra). assert (0 < sqrt 2) by (apply sqrt_lt_R0; lra).
  assert (Hs: sqrt 2 * sqrt 2 = 2) by (apply sqrt_sqrt; lra).
  rewrite sqrt_div_alt by lra. set (s2 := sqrt 2) in *. set (sp := sqrt PI) in *.
  apply Rmult_eq_reg_r with (s2 * sp); [|nra]. field_simplify; [|lra|lra]. nra.
Qed.
Lemma cdf_mb_derive x a : 0 < a -> is_derive (fun x => cdf_mb x a) x (pdf_mb x a).
Proof.
  intros Ha. unfold cdf_mb, pdf_mb, erf.
  assert (H2: 0 < sqrt 2) by (apply sqrt_lt_R0; lra).
  auto_derive.
  - repeat split; auto.
    + apply (ex_RInt_continuous gauss). intros z _. apply gauss_cont.
    + apply filter_forall. intros y. apply continuity_pt_filterlim. apply gauss_cont.
  - rewrite sqrt2PI. unfold gauss.
    assert (Hs: sqrt 2 * sqrt 2 = 2) by (apply sqrt_sqrt; lra).
    assert (0 < sqrt PI) by (apply sqrt_lt_R0; apply PI_RGT_0).
    replace (x * / sqrt 2 * / a * (x * / sqrt 2 * / a)) with (x*x/2/a/a).
    2:{ rewrite <- Hs at 1. field. split; lra. }
    replace (- x * x / 2 / a / a) with (- (x*x/2/a/a)) by (field; lra).
    replace (- x * x * / 2 * / a * / a) with (- (x*x/2/a/a)) by (field; lra).
    set (E := exp _). set (s2 := sqrt 2) in *. set (sp := sqrt PI) in *.
    clearbody E s2 sp. field. repeat split; lra.
Qed.
Print Assumptions cdf_mb_derive.
