From Coq Require Import List Reals Lra Lia.
Import ListNotations.

Record NumOps (T:Type) := {
  n0 : T; n1 : T;
  nadd : T -> T -> T; nsub : T -> T -> T; nmul : T -> T -> T; ndiv : T -> T -> T;
  nabs : T -> T; nltb : T -> T -> bool; nofZ : Z -> T
}.
Arguments n0 {T}. Arguments n1 {T}. Arguments nadd {T}. Arguments nsub {T}. Arguments nmul {T}.
Arguments ndiv {T}. Arguments nabs {T}. Arguments nltb {T}. Arguments nofZ {T}.

Section Gen.
Context {T:Type} (O:NumOps T).
Local Notation "x + y" := (nadd O x y). Local Notation "x - y" := (nsub O x y).
Local Notation "x * y" := (nmul O x y). Local Notation "x / y" := (ndiv O x y).
Definition nsign (x:T) : T := if nltb O (n0 O) x then n1 O else if nltb O x (n0 O) then (n0 O - n1 O) else n0 O.
Definition nmin (x y:T) : T := if nltb O y x then y else x.
Definition half : T := n1 O / (n1 O + n1 O).
(* interior slope *)
Definition steffen_mid (hl hr sl sr : T) : T :=
  let p := (sl * hr + sr * hl) / (hl + hr) in
  (nsign sl + nsign sr) * nmin (nabs O p / (n1 O + n1 O)) (nmin (nabs O sr) (nabs O sl)).
Definition seg_eval (a b c d xj x : T) : T :=
  let dx := x - xj in a * (dx*dx*dx) + b * (dx*dx) + c * dx + d.
End Gen.

Definition ROps : NumOps R := {| n0 := 0%R; n1 := 1%R; nadd := Rplus; nsub := Rminus; nmul := Rmult; ndiv := Rdiv;
  nabs := Rabs; nltb := fun x y => if Rlt_dec x y then true else false; nofZ := IZR |}.

Require Import Extraction ExtrOcamlBasic.
Extraction "P01_gen.ml" steffen_mid seg_eval.
