#!/usr/bin/env python3
"""Design-phase prototype of the formula translator (T-tie).

Usage: cxx2gallina_proto.py <source.cpp> <function> [<function> ...]
Dumps the clang JSON AST of each function and prints a Gallina definition that is
polymorphic in the number type (record NumOps).  Supported subset: int/double/complex
expressions, if/else-if/return chains, switch on an int with break, std::exit -> Exit.
Anything else raises Unsupported (a broken tie, reported by the check).
"""
import json, subprocess, sys, re
from fractions import Fraction

class Unsupported(Exception):
    pass

def ast_of(src, fn, incs):
    cmd = ["clang++", "-std=c++14", "-fsyntax-only"] + [f"-I{i}" for i in incs] + [
        "-Xclang", "-ast-dump=json", "-Xclang", f"-ast-dump-filter={fn}", src]
    out = subprocess.run(cmd, capture_output=True, text=True).stdout
    dec = json.JSONDecoder(); i = 0; docs = []
    while i < len(out):
        while i < len(out) and out[i].isspace(): i += 1
        if i >= len(out): break
        o, i = dec.raw_decode(out, i); docs.append(o)
    for d in docs:
        if d.get("kind") == "FunctionDecl" and d.get("name") == fn and any(
                c.get("kind") == "CompoundStmt" for c in d.get("inner", [])):
            return d
    raise Unsupported(f"no definition of {fn}")

def ty(n):
    q = n.get("type", {}).get("qualType", "")
    q = q.replace("const ", "").strip()
    if q in ("int", "unsigned int", "long", "unsigned long"): return "int"
    if q == "double": return "double"
    if q == "bool": return "bool"
    if "complex<double>" in q: return "complex"
    return q

class Tr:
    def __init__(self, src_text):
        self.src = src_text
    # ---------- expressions
    def lit(self, n, suffix=""):
        b = n["range"]["begin"]; tok = self.src[b["offset"]: b["offset"] + b["tokLen"]]
        if suffix and tok.endswith(suffix): tok = tok[:-len(suffix)]
        if not re.fullmatch(r"[0-9.]+([eE][-+]?[0-9]+)?", tok):
            raise Unsupported(f"literal token {tok!r}")
        q = Fraction(tok)
        return f"(nlit O ({q.numerator}) ({q.denominator}))"
    def E(self, n):
        k = n["kind"]
        if k in ("ImplicitCastExpr", "CStyleCastExpr"):
            ck = n.get("castKind"); inner = n["inner"][-1]
            if ck in ("LValueToRValue", "NoOp", "FunctionToPointerDecay", "ConstructorConversion"):
                return self.E(inner)
            if ck == "IntegralToFloating": return f"(nofZ O {self.E(inner)})"
            if ck == "IntegralCast": return self.E(inner)
            raise Unsupported(f"cast {ck}")
        if k in ("ParenExpr", "ExprWithCleanups", "MaterializeTemporaryExpr", "ConstantExpr", "CXXBindTemporaryExpr"):
            return self.E(n["inner"][0])
        if k == "IntegerLiteral": return f"({n['value']})%Z"
        if k == "FloatingLiteral": return self.lit(n)
        if k == "DeclRefExpr": return n["referencedDecl"]["name"]
        if k == "UserDefinedLiteral":            # 1.0i
            f = [c for c in n["inner"] if c["kind"] == "FloatingLiteral"]
            if not f: raise Unsupported("user-defined literal")
            return f"(n0 O, {self.lit(f[0], 'i')})"
        if k == "CXXConstructExpr" and ty(n) == "complex":
            args = [a for a in n["inner"] if a["kind"] != "CXXDefaultArgExpr"]
            if len(args) == 1 and ty(args[0]) == "complex": return self.E(args[0])
            if len(args) == 1: return f"({self.E(args[0])}, n0 O)"
            if len(args) == 2: return f"({self.E(args[0])}, {self.E(args[1])})"
            raise Unsupported("complex ctor")
        if k == "UnaryOperator":
            a = n["inner"][0]; op = n["opcode"]; t = ty(n)
            if op == "-": return f"(- {self.E(a)})%Z" if t == "int" else f"(nneg O {self.E(a)})"
            if op == "!": return f"(negb {self.E(a)})"
            raise Unsupported(f"unary {op}")
        if k == "BinaryOperator":
            a, b = n["inner"]; op = n["opcode"]; ta = ty(a)
            A, B = self.E(a), self.E(b)
            if op in ("&&", "||"): return f"({'andb' if op=='&&' else 'orb'} {A} {B})"
            if ta == "int":
                m = {"+": "Z.add", "-": "Z.sub", "*": "Z.mul", "/": "Z.quot", "==": "Z.eqb",
                     "<": "Z.ltb", "<=": "Z.leb", ">": "Z.gtb", ">=": "Z.geb"}
                if op == "!=": return f"(negb (Z.eqb {A} {B}))"
                if op in m: return f"({m[op]} {A} {B})"
            if ta == "double":
                m = {"+": "nadd", "-": "nsub", "*": "nmul", "/": "ndiv", "<": "nltb", "<=": "nleb", "==": "neqb"}
                if op == ">": return f"(nltb O {B} {A})"
                if op == ">=": return f"(nleb O {B} {A})"
                if op == "!=": return f"(negb (neqb O {A} {B}))"
                if op in m: return f"({m[op]} O {A} {B})"
            raise Unsupported(f"binary {op} on {ta}")
        if k == "CallExpr":
            f = self.E(n["inner"][0]); args = [self.E(a) for a in n["inner"][1:]]
            m = {"sqrt": "nsqrt", "fabs": "nabs", "exp": "nexp", "log": "nln", "sin": "nsin", "cos": "ncos",
                 "acos": "nacos", "floor": "nfloor", "erf": "nerf"}
            if f in m and len(args) == 1: return f"({m[f]} O {args[0]})"
            if f == "pow" and len(args) == 2: return f"(npow O {args[0]} {args[1]})"
            raise Unsupported(f"call {f}")
        if k == "CXXOperatorCallExpr":
            opn = self.E(n["inner"][0]); args = n["inner"][1:]
            ts = [ty(a) for a in args]; xs = [self.E(a) for a in args]
            name = {"operator*": "mul", "operator/": "div", "operator+": "add", "operator-": "sub"}.get(opn)
            if name and len(args) == 2:
                if ts == ["complex", "complex"]: return f"(c{name} O {xs[0]} {xs[1]})"
                if ts == ["complex", "double"]:  return f"(c{name}_r O {xs[0]} {xs[1]})"
                if ts == ["double", "complex"]:  return f"(r{name}_c O {xs[0]} {xs[1]})"
            if opn == "operator-" and len(args) == 1: return f"(cneg O {xs[0]})"
            raise Unsupported(f"operator {opn} {ts}")
        raise Unsupported(f"expression {k}")
    # ---------- statements: continuation style (knext = what follows, kbreak = after the switch)
    def S(self, stmts, knext, kbreak):
        if not stmts: return knext
        s, rest = stmts[0], stmts[1:]
        k = s["kind"]
        if k == "ReturnStmt": return f"Ok {self.E(s['inner'][0])}"
        if k == "BreakStmt":
            if kbreak is None: raise Unsupported("break outside switch")
            return kbreak
        if k == "CompoundStmt": return self.S(s.get("inner", []) + rest, knext, kbreak)
        if k == "IfStmt":
            parts = s["inner"]; c = self.E(parts[0]); after = self.S(rest, knext, kbreak)
            th = self.S([parts[1]], after, kbreak)
            el = self.S([parts[2]], after, kbreak) if len(parts) > 2 else after
            return f"(if {c} then {th} else {el})"
        if k == "SwitchStmt":
            scrut = self.E(s["inner"][0]); body = s["inner"][1]["inner"]; after = self.S(rest, knext, kbreak)
            # split into (label, statements); fall-through into the next label is not supported
            groups = []; cur = None
            for b in body:
                if b["kind"] == "CaseStmt":
                    cur = [b["inner"][0], [b["inner"][1]]]; groups.append(cur)
                elif b["kind"] == "DefaultStmt":
                    cur = [None, [b["inner"][0]]]; groups.append(cur)
                else: cur[1].append(b)
            out = after
            for lab, ss in reversed(groups):
                br = self.S(ss, "FALLTHROUGH", after)
                if "FALLTHROUGH" in br: raise Unsupported("case falls through")
                out = br if lab is None else f"(if Z.eqb {scrut} {self.E(lab)} then {br} else {out})"
            return out
        if k == "CallExpr":
            f = self.E(s["inner"][0])
            if f == "exit": return "Exit"
            raise Unsupported(f"statement call {f}")
        if k == "CXXOperatorCallExpr" and "ostream" in s.get("type", {}).get("qualType", ""):
            return self.S(rest, knext, kbreak)          # diagnostics are not modelled
        raise Unsupported(f"statement {k}")

def translate(src, fn, incs):
    d = ast_of(src, fn, incs); text = open(src).read()
    params = [(p["name"], ty(p)) for p in d["inner"] if p["kind"] == "ParmVarDecl"]
    body = [c for c in d["inner"] if c["kind"] == "CompoundStmt"][0]
    g = Tr(text).S(body["inner"], "Exit", None)
    ps = " ".join(f"({n} : {'Z' if t=='int' else 'T'})" for n, t in params)
    rt = {"complex": "(T*T)", "double": "T", "int": "Z"}[ty({"type": {"qualType": d["type"]["qualType"].split("(")[0]}})]
    return f"Definition {fn} {{T}} (O : NumOps T) {ps} : outcome {rt} :=\n  {g}.\n"

if __name__ == "__main__":
    src = sys.argv[1]
    for fn in sys.argv[2:]:
        print(translate(src, fn, ["/repo/include", "/repo/_build/generated"]))
