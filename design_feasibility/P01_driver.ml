open P01_gen
let fops = { n0 = 0.0; n1 = 1.0; nadd = ( +. ); nsub = ( -. ); nmul = ( *. ); ndiv = ( /. ); nabs = abs_float;
  nltb = (fun x y -> x < y); nofZ = (fun _ -> 0.0) }
let () = Printf.printf "%h %h\n" (steffen_mid fops 1.0 2.0 0.5 3.0) (seg_eval fops 1. 2. 3. 4. 0.5 1.7)
