From Coq Require Import Reals Lra Psatz List.
Import ListNotations.
Open Scope R_scope.

(* Model of Find_Root (Ridder) over R, with the trace of evaluation points. *)
Inductive outcome := Root (x:R) | ErrNoBracket | ErrNoReach | MaxIter (x:R).
Definition ltb (a b:R) : bool := if Rlt_dec a b then true else false.
Definition eqb (a b:R) : bool := if Req_EM_T a b then true else false.
Definition sgn (x:R) : R := if ltb 0 x then 1 else if eqb x 0 then 0 else -1.      (* int Sign(double) *)
Definition sign2 (x y:R) : R := if eqb (sgn x) (sgn y) then x else -1*x.          (* double Sign(x,y) *)

Lemma sgn_cases x : (0 < x /\ sgn x = 1) \/ (x = 0 /\ sgn x = 0) \/ (x < 0 /\ sgn x = -1).
Proof. unfold sgn, ltb, eqb. destruct (Rlt_dec 0 x); [left; split; auto|]. destruct (Req_EM_T x 0); [right; left; split; auto|right; right; split; [lra|auto]]. Qed.
Lemma sign2_neq a b : b <> 0 -> negb (eqb (sign2 a b) a) = true -> a * b < 0.
Proof.
  intros Hb. unfold sign2. destruct (eqb (sgn a) (sgn b)) eqn:E.
  - unfold eqb at 1. destruct (Req_EM_T a a); [discriminate|congruence].
  - unfold eqb in *. destruct (Req_EM_T (sgn a) (sgn b)) as [|Hne]; [discriminate|].
    destruct (Req_EM_T (-1 * a) a) as [Ha|Ha]; [discriminate|]. intros _.
    destruct (sgn_cases a) as [[A1 A2]|[[A1 A2]|[A1 A2]]], (sgn_cases b) as [[B1 B2]|[[B1 B2]|[B1 B2]]];
      rewrite A2, B2 in Hne; try lra; try nra.
Qed.
Section FR.
Variable f : R -> R.
Variable acc : R.
Record st := { x1:R; x2:R; f1:R; f2:R; res:R }.
(* one iteration: returns either a final outcome or the next state; second component = points evaluated *)
Definition step (s:st) : (outcome + st) * list R :=
  let x3 := (x1 s + x2 s)/2 in let f3 := f x3 in
  let x4 := x3 + (x3 - x1 s) * sgn (f1 s - f2 s) * f3 / sqrt (f3*f3 - f1 s * f2 s) in
  if ltb (Rabs (x4 - res s)) acc then (inl (Root x4), [x3]) else
  let f4 := f x4 in
  if eqb f4 0 then (inl (Root x4), [x3;x4]) else
  if negb (eqb (sign2 f3 f4) f3) then (inr {| x1:=x3; x2:=x4; f1:=f3; f2:=f4; res:=x4 |}, [x3;x4])
  else if negb (eqb (sign2 (f1 s) f4) (f1 s)) then (inr {| x1:=x1 s; x2:=x4; f1:=f1 s; f2:=f4; res:=x4 |}, [x3;x4])
  else if negb (eqb (sign2 (f2 s) f4) (f2 s)) then (inr {| x1:=x4; x2:=x2 s; f1:=f4; f2:=f2 s; res:=x4 |}, [x3;x4])
  else (inl ErrNoReach, [x3;x4]).
Fixpoint loop (fuel:nat) (s:st) : outcome * list R :=
  match fuel with
  | O => (MaxIter (res s), [res s])          (* the warning path evaluates func(result) once more *)
  | S n => match step s with
           | (inl o, tr) => (o, tr)
           | (inr s', tr) => let '(o, tr') := loop n s' in (o, tr ++ tr')
           end
  end.
Definition find_root (a b : R) : outcome * list R :=
  let xl := if ltb b a then b else a in let xr := if ltb b a then a else b in
  let fl := f xl in let fr := f xr in
  if negb (ltb (fl*fr) 0) then
    (if eqb fl 0 then (Root xl, [xl;xr]) else if eqb fr 0 then (Root xr, [xl;xr]) else (ErrNoBracket, [xl;xr]))
  else let '(o,tr) := loop 50 {| x1:=xl; x2:=xr; f1:=fl; f2:=fr; res:= -99/10 * 10^99 |} in (o, xl::xr::tr).

(* bracket invariant *)
Definition Inv (lo hi : R) (s:st) := f1 s = f (x1 s) /\ f2 s = f (x2 s) /\ f1 s * f2 s < 0 /\
  lo <= x1 s <= hi /\ lo <= x2 s <= hi.

Lemma ridder_ratio a b c : a*b < 0 -> Rabs (c / sqrt (c*c - a*b)) < 1.
Proof.
  intros H. set (D := c*c - a*b). assert (HD: 0 < D) by (unfold D; nra).
  assert (Hs: 0 < sqrt D) by (apply sqrt_lt_R0; exact HD).
  unfold Rdiv. rewrite Rabs_mult, Rabs_inv. rewrite (Rabs_pos_eq (sqrt D)) by lra.
  apply Rmult_lt_reg_r with (sqrt D); [exact Hs|]. rewrite Rmult_assoc, Rinv_l by lra. rewrite Rmult_1_r, Rmult_1_l.
  rewrite <- sqrt_Rsqr_abs. apply sqrt_lt_1; unfold Rsqr, D; nra.
Qed.
Lemma sgn_pm x : x <> 0 -> sgn x = 1 \/ sgn x = -1.
Proof. intros H. unfold sgn, ltb, eqb. destruct (Rlt_dec 0 x); auto. destruct (Req_EM_T x 0); [contradiction|auto]. Qed.

Lemma x34_inside lo hi s : Inv lo hi s ->
  let x3 := (x1 s + x2 s)/2 in let f3 := f x3 in
  let x4 := x3 + (x3 - x1 s) * sgn (f1 s - f2 s) * f3 / sqrt (f3*f3 - f1 s * f2 s) in
  lo <= x3 <= hi /\ lo <= x4 <= hi.
Proof.
  intros (E1&E2&Hs&H1&H2) x3 f3 x4.
  assert (Hne: f1 s - f2 s <> 0) by nra.
  pose proof (ridder_ratio (f1 s) (f2 s) f3 Hs) as R. apply Rabs_def2 in R.
  set (r := f3 / sqrt (f3*f3 - f1 s * f2 s)) in *.
  assert (E: x4 = x3 + (x3 - x1 s) * sgn (f1 s - f2 s) * r).
  { unfold x4, r. field. apply Rgt_not_eq, sqrt_lt_R0. nra. }
  split; [unfold x3; lra|]. rewrite E. unfold x3.
  destruct (sgn_pm _ Hne) as [->| ->]; split; nra.
Qed.

(* every step preserves the invariant and only evaluates inside [lo,hi] *)
Lemma step_inv lo hi s : Inv lo hi s ->
  (forall x, In x (snd (step s)) -> lo <= x <= hi) /\
  (forall s', fst (step s) = inr s' -> Inv lo hi s' /\ res s' = x2 s' \/ Inv lo hi s' /\ res s' = x1 s').
Proof.
  intros HI. pose proof (x34_inside lo hi s HI) as [H3 H4]. cbv zeta in H3, H4.
  destruct HI as (E1&E2&Hs&H1&H2). unfold step.
  set (x3 := (x1 s + x2 s)/2) in *. set (f3 := f x3) in *.
  set (x4 := x3 + (x3 - x1 s) * sgn (f1 s - f2 s) * f3 / sqrt (f3*f3 - f1 s * f2 s)) in *.
  assert (In34: forall x, In x [x3;x4] -> lo <= x <= hi) by (intros x [<-|[<-|[]]]; assumption).
  assert (In3: forall x, In x [x3] -> lo <= x <= hi) by (intros x [<-|[]]; assumption).
  destruct (ltb (Rabs (x4 - res s)) acc); [split; [exact In3|intros ? C; discriminate]|].
  destruct (eqb (f x4) 0) eqn:E0; [split; [exact In34|intros ? C; discriminate]|].
  assert (F4: f x4 <> 0) by (unfold eqb in E0; destruct (Req_EM_T (f x4) 0); [discriminate|assumption]).
  assert (S2: forall a, negb (eqb (sign2 a (f x4)) a) = true -> a * f x4 < 0) by (intros a; apply sign2_neq; exact F4).
  destruct (negb (eqb (sign2 f3 (f x4)) f3)) eqn:Ca.
  { split; [exact In34|]. intros s' E; inversion E; subst s'. left. unfold Inv; cbn. repeat split; try tauto; try lra. apply S2; exact Ca. }
  destruct (negb (eqb (sign2 (f1 s) (f x4)) (f1 s))) eqn:Cb.
  { split; [exact In34|]. intros s' E; inversion E; subst s'. left. unfold Inv; cbn. repeat split; try tauto; try lra. apply S2; exact Cb. }
  destruct (negb (eqb (sign2 (f2 s) (f x4)) (f2 s))) eqn:Cc.
  { split; [exact In34|]. intros s' E; inversion E; subst s'. right. unfold Inv; cbn. repeat split; try tauto; try lra.
    specialize (S2 _ Cc). nra. }
  split; [exact In34|intros ? C; discriminate].
Qed.
End FR.
