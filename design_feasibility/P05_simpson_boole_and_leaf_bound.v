From Coq Require Import Reals Lra Psatz.
Open Scope R_scope.
(* Leaf algebra for the 4*eps bound.  K = h^5/2880 > 0, sigma=+1 wlog (f4>0).
   E1 = I - S = -K*phi1 ; E2 = I - S2 = -K*phibar/16 with m <= phi1, phibar <= 4m.
   accepted: |S2 - S| <= 15 eps.  result = S2 + (S2-S)/15. *)
Lemma leaf_bound K m phi1 phib I S S2 eps :
  0 < K -> 0 < m -> m <= phi1 <= 4*m -> m <= phib <= 4*m ->
  I - S = - K*phi1 -> I - S2 = - K*phib/16 ->
  Rabs (S2 - S) <= 15*eps ->
  Rabs (I - (S2 + (S2 - S)/15)) <= 4*eps.
Proof.
  intros HK Hm H1 Hb E1 E2 Hacc.
  assert (D: S2 - S = K*(phib/16 - phi1)) by lra.
  assert (R: I - (S2 + (S2 - S)/15) = K*(phi1 - phib)/15) by lra.
  rewrite R. rewrite D in Hacc.
  assert (Hneg: K*(phib/16 - phi1) <= - K*(3*m/4)) by nra.
  assert (Hacc': K*(3*m/4) <= 15*eps).
  { rewrite Rabs_left in Hacc by nra. nra. }
  apply Rabs_le. split; nra.
Qed.
(* Boole exactness on a quintic, leaf level *)
Definition p5 c0 c1 c2 c3 c4 c5 x := c0 + c1*x + c2*x^2 + c3*x^3 + c4*x^4 + c5*x^5.
Definition P5 c0 c1 c2 c3 c4 c5 x := c0*x + c1*x^2/2 + c2*x^3/3 + c3*x^4/4 + c4*x^5/5 + c5*x^6/6.
Definition simp (f:R->R) a b := (b-a)/6*(f a + 4*f ((a+b)/2) + f b).
Lemma boole_exact c0 c1 c2 c3 c4 c5 a b :
  let f := p5 c0 c1 c2 c3 c4 c5 in
  let S := simp f a b in let S2 := simp f a ((a+b)/2) + simp f ((a+b)/2) b in
  S2 + (S2 - S)/15 = P5 c0 c1 c2 c3 c4 c5 b - P5 c0 c1 c2 c3 c4 c5 a.
Proof. cbv zeta. unfold simp, p5, P5. field. Qed.
