From Coq Require Import List Arith Lia PeanoNat Bool.
Open Scope bool_scope.
Import ListNotations.

(* the bookkeeping of Sample_Metropolis: for i in [0, burn + thin*sample): keep i iff i >= burn && i mod thin == 0 *)
Definition kept (burn thin sample : nat) : list nat :=
  filter (fun i => (burn <=? i) && (i mod thin =? 0)) (seq 0 (burn + thin * sample)).

Lemma filter_seq_none (p : nat -> bool) a n : (forall i, a <= i < a + n -> p i = false) -> filter p (seq a n) = [].
Proof. revert a. induction n as [|n IH]; intros a H; cbn; auto. rewrite H by lia. apply IH. intros; apply H; lia. Qed.

(* a block of [thin] consecutive integers contains exactly one multiple of thin *)
Lemma one_multiple thin k : 1 <= thin -> length (filter (fun i => i mod thin =? 0) (seq k thin)) = 1.
Proof.
  intros Ht. set (r := k mod thin). set (d := (thin - r) mod thin).   (* first multiple is k + d *)
  assert (Hr: r < thin) by (apply Nat.mod_upper_bound; lia).
  assert (Hd: d < thin) by (apply Nat.mod_upper_bound; lia).
  assert (Hm: (k + d) mod thin = 0).
  { unfold d. destruct (Nat.eq_dec r 0) as [E|E].
    - rewrite E, Nat.sub_0_r, Nat.mod_same, Nat.add_0_r by lia. exact E.
    - rewrite (Nat.mod_small (thin - r)) by lia. rewrite (Nat.div_mod k thin) at 1 by lia. fold r.
      replace (thin * (k / thin) + r + (thin - r)) with ((k / thin + 1) * thin) by lia. apply Nat.mod_mul; lia. }
  (* split seq k thin = seq k d ++ [k+d] ++ seq (k+d+1) (thin-d-1) *)
  assert (Es: seq k thin = seq k d ++ seq (k + d) (S (thin - d - 1))) by (rewrite <- seq_app; f_equal; lia).
  rewrite Es. clear Es. cbn [seq]. rewrite filter_app, app_length. cbn [filter]. rewrite Hm. cbn [Nat.eqb length].
  assert (Hother: forall i, k <= i < k + thin -> i <> k + d -> i mod thin <> 0).
  { intros i Hi Hne Hz. 
    (* two multiples within distance < thin must coincide *)
    assert (exists q1, k + d = thin * q1) as [q1 E1] by (exists ((k+d)/thin); rewrite (Nat.div_mod (k+d) thin) at 1 by lia; lia).
    assert (exists q2, i = thin * q2) as [q2 E2] by (exists (i/thin); rewrite (Nat.div_mod i thin) at 1 by lia; lia).
    assert (q1 = q2) by nia. subst. lia. }
  rewrite filter_seq_none, (filter_seq_none _ (S (k + d))).
  - reflexivity.
  - intros i Hi. apply Nat.eqb_neq, Hother; lia.
  - intros i Hi. apply Nat.eqb_neq, Hother; lia.
Qed.

Lemma multiples_in_window thin : 1 <= thin -> forall sample k,
  length (filter (fun i => i mod thin =? 0) (seq k (thin * sample))) = sample.
Proof.
  intros Ht. induction sample as [|s IH]; intros k.
  - rewrite Nat.mul_0_r. reflexivity.
  - replace (thin * S s) with (thin + thin * s) by lia. rewrite seq_app, filter_app, app_length, one_multiple, IH by lia. reflexivity.
Qed.

Theorem metropolis_count burn thin sample : 1 <= thin -> length (kept burn thin sample) = sample.
Proof.
  intros Ht. unfold kept. rewrite seq_app, filter_app, app_length. cbn [Nat.add].
  rewrite filter_seq_none by (intros i Hi; replace (burn <=? i) with false by (symmetry; apply Nat.leb_gt; lia); reflexivity).
  cbn [length Nat.add].
  rewrite (filter_ext_in _ (fun i => i mod thin =? 0)).
  - apply multiples_in_window; lia.
  - intros i Hi. apply in_seq in Hi. replace (burn <=? i) with true by (symmetry; apply Nat.leb_le; lia). reflexivity.
Qed.
Print Assumptions metropolis_count.
