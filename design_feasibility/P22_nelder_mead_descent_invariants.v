From Coq Require Import List Arith Lia Bool.
Import ListNotations.

Section NM.
Variable T P : Type.                       (* objective values, points *)
Variable ltb : T -> T -> bool.
Definition lt x y := ltb x y = true.
Definition le x y := ltb y x = false.      (* x <= y  iff  not (y < x) *)
Hypothesis lt_irrefl : forall x, ~ lt x x.
Hypothesis lt_trans : forall x y z, lt x y -> lt y z -> lt x z.
Hypothesis lt_total : forall x y, lt x y \/ x = y \/ lt y x.
Variable f : P -> T.                       (* the user's objective *)
Variable d : T. Variable dp : P.
(* arithmetic is uninterpreted: the trial point and the shrink point are arbitrary functions *)
Variable try_point : list P -> nat -> nat -> P.   (* simplex, ihi, which factor (0: -1, 1: 2, 2: 0.5) *)
Variable mid : P -> P -> P.

Lemma le_refl x : le x x.
Proof. unfold le. destruct (ltb x x) eqn:E; auto. exfalso; apply (lt_irrefl x); exact E. Qed.
Lemma le_trans x y z : le x y -> le y z -> le x z.
Proof. unfold le. intros A B. destruct (ltb z x) eqn:E; auto. exfalso.
  destruct (lt_total y x) as [H|[H|H]].
  - unfold lt in H. congruence.
  - subst y. congruence.
  - assert (H2: lt z y) by (eapply lt_trans; [exact E|exact H]). unfold lt in H2. congruence. Qed.
Lemma lt_le x y : lt x y -> le x y.
Proof. unfold le. intros H. destruct (ltb y x) eqn:E; auto. exfalso; apply (lt_irrefl x); eapply lt_trans; eauto. Qed.
Lemma le_total x y : le x y \/ le y x.
Proof. unfold le. destruct (ltb y x) eqn:E; auto. right. destruct (ltb x y) eqn:E2; auto. exfalso; apply (lt_irrefl x); eapply lt_trans; eauto. Qed.

Fixpoint upd {A} (l : list A) (i : nat) (v : A) : list A :=
  match l, i with [], _ => [] | _ :: tl, O => v :: tl | x :: tl, S j => x :: upd tl j v end.
Lemma upd_length {A} (l : list A) i v : length (upd l i v) = length l.
Proof. revert i; induction l; destruct i; cbn; auto. Qed.
Lemma nth_upd {A} (l : list A) i j v dflt : i < length l -> nth j (upd l i v) dflt = if Nat.eqb j i then v else nth j l dflt.
Proof. revert i j; induction l as [|a l IH]; intros i j Hi; cbn in *; [lia|].
  destruct i, j; cbn; auto. apply IH; lia. Qed.
Lemma map_upd (l : list P) i v : map f (upd l i v) = upd (map f l) i (f v).
Proof. revert i; induction l; destruct i; cbn; auto; f_equal; auto. Qed.

Lemma nth_map_seq {A} (g : nat -> A) n i dflt : i < n -> nth i (map g (seq 0 n)) dflt = g i.
Proof. intros H. rewrite (nth_indep _ dflt (g 0)) by (rewrite map_length, seq_length; lia). rewrite map_nth, seq_nth by lia. reflexivity. Qed.

Record st := { ps : list P; ys : list T }.
Definition Inv (m0 : T) (s : st) := ys s = map f (ps s) /\ exists i, i < length (ys s) /\ le (nth i (ys s) d) m0.

(* amotry: evaluate the trial point; replace the vertex ihi if strictly better *)
Definition amotry (s : st) (ihi fac : nat) : st * T :=
  let pt := try_point (ps s) ihi fac in let yt := f pt in
  if ltb yt (nth ihi (ys s) d) then ({| ps := upd (ps s) ihi pt; ys := upd (ys s) ihi yt |}, yt) else (s, yt).

Lemma amotry_inv m0 s ihi fac : ihi < length (ys s) -> Inv m0 s -> Inv m0 (fst (amotry s ihi fac)).
Proof.
  intros Hi [I1 (w&Hw&Hle)]. unfold amotry. destruct (ltb _ _) eqn:E; cbn [fst]; [|split; eauto].
  split; cbn [ps ys].
  - rewrite map_upd, I1. reflexivity.
  - rewrite upd_length. exists w. split; auto. rewrite nth_upd by auto.
    destruct (Nat.eqb w ihi) eqn:Ew; auto. apply Nat.eqb_eq in Ew. subst w.
    eapply le_trans; [apply lt_le; exact E|exact Hle].
Qed.

(* shrink towards the best vertex ilo *)
Definition shrink (s : st) (ilo : nat) : st :=
  let plo := nth ilo (ps s) dp in
  let ps' := map (fun i => if Nat.eqb i ilo then nth i (ps s) dp else mid (nth i (ps s) dp) plo) (seq 0 (length (ps s))) in
  {| ps := ps'; ys := map f ps' |}.

Lemma shrink_inv m0 s ilo : ilo < length (ys s) -> (forall i, i < length (ys s) -> le (nth ilo (ys s) d) (nth i (ys s) d)) ->
  Inv m0 s -> Inv m0 (shrink s ilo).
Proof.
  intros Hi Hmin [I1 (w&Hw&Hle)]. split; [reflexivity|]. cbn [ys shrink ps].
  assert (Hl: length (ps s) = length (ys s)) by (rewrite I1, map_length; reflexivity).
  exists ilo. rewrite !map_length, seq_length, Hl. split; auto.
  rewrite (nth_indep _ d (f dp)) by (rewrite !map_length, seq_length; lia).
  rewrite map_nth.
  rewrite nth_map_seq by lia. rewrite Nat.eqb_refl.
  replace (f (nth ilo (ps s) dp)) with (nth ilo (ys s) d).
  - eapply le_trans; [apply Hmin; exact Hw|exact Hle].
  - rewrite I1. rewrite (nth_indep _ d (f dp)) by (rewrite map_length; lia). apply map_nth.
Qed.

(* the scan for the best vertex:  if (y[i] <= y[ilo]) ilo = i  *)
Fixpoint scan_lo (ysl : list T) (i ilo : nat) (ylo : T) : nat :=
  match ysl with [] => ilo | y :: tl => if ltb ylo y then scan_lo tl (S i) ilo ylo else scan_lo tl (S i) i y end.
End NM.
