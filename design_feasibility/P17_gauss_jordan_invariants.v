From mathcomp Require Import all_ssreflect all_algebra.
Set Implicit Arguments. Unset Strict Implicit. Unset Printing Implicit Defensive.
Import GRing.Theory.
Open Scope ring_scope.

Section GJ.
Variable F : fieldType.
Definition row := seq F.
Definition mat := seq row.
Definition mget (A : mat) (i j : nat) : F := nth 0 (nth [::] A i) j.

(* A[j][k] = A[j][k] - ratio*A[i][k] for all k *)
Definition elim_row (ratio : F) (rj ri : row) : row := [seq p.1 - ratio * p.2 | p <- zip rj ri].
Definition elim_step (n i : nat) (A : mat) : mat :=
  let ri := nth [::] A i in let p := nth 0 ri i in
  [seq (if j == i then ri else elim_row (mget A j i / p) (nth [::] A j) ri) | j <- iota 0 n].
Fixpoint gj (n : nat) (pivots : seq nat) (A : mat) : option mat :=
  match pivots with
  | [::] => Some A
  | i :: tl => if mget A i i == 0 then None else gj n tl (elim_step n i A)
  end.
Definition augment (n : nat) (M : mat) : mat :=
  [seq take n (nth [::] M i) ++ [seq (if i == j then 1 else 0) | j <- iota 0 n] | i <- iota 0 n].
Definition finish (n : nat) (A : mat) : mat :=
  [seq [seq mget A i (n + j) / mget A i i | j <- iota 0 n] | i <- iota 0 n].
Definition inverse (n : nat) (M : mat) : option mat := omap (finish n) (gj n (iota 0 n) (augment n M)).

(* well-formedness: n rows of width w *)
Definition wf (n w : nat) (A : mat) := (size A == n) && all (fun r => size r == w) A.

Lemma wf_row n w A i : wf n w A -> (i < n)%N -> size (nth [::] A i) = w.
Proof. case/andP => /eqP Hn /allP Hall Hi. apply/eqP/Hall/mem_nth. by rewrite Hn. Qed.

Lemma mget_elim n w i A j k : wf n w A -> (i < n)%N -> (j < n)%N -> (k < w)%N ->
  mget (elim_step n i A) j k = if j == i then mget A i k else mget A j k - (mget A j i / mget A i i) * mget A i k.
Proof.
  move=> Hwf Hi Hj Hk. rewrite /mget /elim_step (nth_map 0%N) ?size_iota // nth_iota // add0n.
  case: ifP => // _. rewrite /elim_row (nth_map (0,0)) ?size_zip ?(wf_row Hwf) ?minnn //.
  by rewrite nth_zip ?(wf_row Hwf).
Qed.

Lemma wf_elim n w i A : wf n w A -> (i < n)%N -> wf n w (elim_step n i A).
Proof.
  move=> Hwf Hi. rewrite /wf size_map size_iota eqxx /=. apply/allP => r /mapP [j]. rewrite mem_iota add0n => /andP [_ Hj] ->.
  case: ifP => _; first by rewrite (wf_row Hwf).
  by rewrite /elim_row size_map size_zip !(wf_row Hwf) // minnn.
Qed.

(* row invariant: right block times M equals left block *)
Variable n : nat.
Variable M : mat.
Definition m (c k : nat) := mget M c k.
Definition RowInv (A : mat) := forall i k, (i < n)%N -> (k < n)%N ->
  \sum_(0 <= c < n) mget A i (n + c) * m c k = mget A i k.

Lemma RowInv_elim i A : wf n (n + n) A -> (i < n)%N -> RowInv A -> RowInv (elim_step n i A).
Proof.
  move=> Hwf Hi Hinv j k Hj Hk.
  rewrite (mget_elim Hwf Hi Hj) ?(leq_trans Hk) ?leq_addr //.
  rewrite (@eq_big_nat _ _ _ 0 n _ (fun c => (if j == i then mget A i (n + c) else mget A j (n + c) - (mget A j i / mget A i i) * mget A i (n + c)) * m c k)); last first.
    by move=> c /andP [_ Hc]; rewrite (mget_elim Hwf Hi Hj) ?ltn_add2l.
  case: ifP => _; first by apply: Hinv.
  rewrite (eq_bigr (fun c => mget A j (n + c) * m c k - (mget A j i / mget A i i) * (mget A i (n + c) * m c k))); last first.
    by move=> c _; rewrite mulrBl mulrA.
  by rewrite sumrB -mulr_sumr !Hinv.
Qed.

(* column c is cleared off the diagonal *)
Definition Cleared (P : seq nat) (A : mat) := forall c j, c \in P -> (j < n)%N -> j != c -> mget A j c = 0.

Lemma Cleared_elim i P A : wf n (n + n) A -> (i < n)%N -> all (fun c => (c < n)%N) P -> i \notin P -> mget A i i != 0 ->
  Cleared P A -> Cleared (i :: P) (elim_step n i A).
Proof.
  move=> Hwf Hi HP HiP Hp Hcl c j. rewrite inE => /orP [/eqP Eci|Hc] Hj Hjc; first subst c.
  - rewrite (mget_elim Hwf Hi Hj) ?(leq_trans Hi) ?leq_addr // (negbTE Hjc).
    by rewrite divfK // subrr.
  - have Hcn : (c < n)%N by move/allP: HP; apply.
    rewrite (mget_elim Hwf Hi Hj) ?(leq_trans Hcn) ?leq_addr //.
    case: ifP => [/eqP Eji|_].
    + apply: Hcl => //. by apply: contraNneq HiP => ->.
    + rewrite (Hcl c j) // (Hcl c i) ?mulr0 ?subr0 //. by apply: contraNneq HiP => ->.
Qed.

Lemma diag_kept i P A c : wf n (n + n) A -> (i < n)%N -> (c < n)%N -> c \in P -> i \notin P -> Cleared P A ->
  mget (elim_step n i A) c c = mget A c c.
Proof.
  move=> Hwf Hi Hc HcP HiP Hcl. rewrite (mget_elim Hwf Hi Hc) ?(leq_trans Hc) ?leq_addr //.
  case: ifP => [/eqP E|_]; first by rewrite E.
  rewrite (Hcl c i) ?mulr0 ?subr0 //. by apply: contraNneq HiP => ->.
Qed.
End GJ.
