From Coq Require Import Reals Lra Psatz.
Open Scope R_scope.

(* normalised lemmas (from St.v) *)
Lemma phi_lower al be u : 0 <= al <= 2 -> 0 <= be <= 2 -> 0 <= u <= 1 ->
  0 <= al*u*(1-u)^2 - be*u^2*(1-u) + 3*u^2 - 2*u^3.
Proof. intros Ha Hb Hu.
  assert (H1: 0 <= al*u*(1-u)^2). { apply Rmult_le_pos. nra. apply pow2_ge_0. }
  assert (H2: be*u^2*(1-u) <= 2*u^2*(1-u)). { assert (0 <= u^2*(1-u)) by nra. nra. }
  nra. Qed.
Lemma phi_upper al be u : 0 <= al <= 2 -> 0 <= be <= 2 -> 0 <= u <= 1 ->
  al*u*(1-u)^2 - be*u^2*(1-u) + 3*u^2 - 2*u^3 <= 1.
Proof. intros Ha Hb Hu.
  assert (H0: 0<= u*(1-u)^2). { apply Rmult_le_pos. lra. apply pow2_ge_0. }
  assert (H1: al*u*(1-u)^2 <= 2*u*(1-u)^2) by nra.
  assert (H2: 0 <= be*u^2*(1-u)). { assert (0 <= u^2*(1-u)) by nra. nra. }
  nra. Qed.

(* the code's coefficients and evaluation *)
Definition ca h s dL dR := (dL + dR - 2*s) / h^2.
Definition cb h s dL dR := (3*s - 2*dL - dR) / h.
Definition seg a b c d xj x := a*(x-xj)^3 + b*(x-xj)^2 + c*(x-xj) + d.

Lemma seg_normal h s dL dR y0 xj x : h <> 0 -> s <> 0 ->
  let u := (x - xj)/h in let al := dL/s in let be := dR/s in
  seg (ca h s dL dR) (cb h s dL dR) dL y0 xj x
  = y0 + h*s*(al*u*(1-u)^2 - be*u^2*(1-u) + 3*u^2 - 2*u^3).
Proof. intros Hh Hs. cbv zeta. unfold seg, ca, cb. field. split; assumption. Qed.

Theorem seg_between h s dL dR y0 xj x :
  0 < h -> xj <= x <= xj + h ->
  0 <= dL*s -> Rabs dL <= 2*Rabs s -> 0 <= dR*s -> Rabs dR <= 2*Rabs s ->
  let y1 := y0 + h*s in
  Rmin y0 y1 <= seg (ca h s dL dR) (cb h s dL dR) dL y0 xj x <= Rmax y0 y1.
Proof.
  intros Hh Hx HLs HLa HRs HRa y1.
  destruct (Req_dec s 0) as [Hs0|Hs0].
  - subst s. rewrite Rabs_R0 in *. assert (dL = 0) by (pose proof (Rabs_pos dL); pose proof (Rle_abs dL); pose proof (Rle_abs (-dL)); rewrite Rabs_Ropp in *; lra).
    assert (dR = 0) by (pose proof (Rabs_pos dR); pose proof (Rle_abs dR); pose proof (Rle_abs (-dR)); rewrite Rabs_Ropp in *; lra). subst. unfold y1, seg, ca, cb.
    replace (y0 + h*0) with y0 by ring. rewrite Rmin_left, Rmax_left by lra.
    assert (E: (0 + 0 - 2*0)/h^2*(x-xj)^3 + (3*0-2*0-0)/h*(x-xj)^2 + 0*(x-xj) + y0 = y0) by (field; lra). lra.
  - rewrite seg_normal by lra. cbv zeta.
    set (u := (x-xj)/h). set (al := dL/s). set (be := dR/s).
    assert (Hu: 0 <= u <= 1).
    { unfold u. split; [apply Rmult_le_pos; [lra|left; apply Rinv_0_lt_compat; lra]|].
      apply Rmult_le_reg_r with h; [lra|]. unfold Rdiv. rewrite Rmult_assoc, Rinv_l by lra. lra. }
    assert (Hal: 0 <= al <= 2 /\ 0 <= be <= 2).
    { unfold al, be. destruct (Rlt_dec 0 s) as [Hp|Hn].
      - rewrite (Rabs_pos_eq s) in * by lra.
        assert (0 <= dL) by nra. assert (0 <= dR) by nra. rewrite (Rabs_pos_eq dL), (Rabs_pos_eq dR) in * by lra.
        repeat split; try (apply Rmult_le_pos; [lra|left; apply Rinv_0_lt_compat; lra]);
        (apply Rmult_le_reg_r with s; [lra|]; unfold Rdiv; rewrite Rmult_assoc, Rinv_l by lra; lra).
      - assert (Hs: s < 0) by lra. rewrite (Rabs_left s) in * by lra.
        assert (dL <= 0) by nra. assert (dR <= 0) by nra.
        rewrite (Rabs_left1 dL), (Rabs_left1 dR) in * by lra.
        replace (dL/s) with ((-dL)/(-s)) by (field; lra). replace (dR/s) with ((-dR)/(-s)) by (field; lra).
        repeat split; try (apply Rmult_le_pos; [lra|left; apply Rinv_0_lt_compat; lra]);
        (apply Rmult_le_reg_r with (-s); [lra|]; unfold Rdiv; rewrite Rmult_assoc, Rinv_l by lra; lra). }
    destruct Hal as [Hal Hbe].
    pose proof (phi_lower al be u Hal Hbe Hu) as PL. pose proof (phi_upper al be u Hal Hbe Hu) as PU.
    set (phi := al*u*(1-u)^2 - be*u^2*(1-u) + 3*u^2 - 2*u^3) in *.
    unfold y1. destruct (Rlt_dec 0 s) as [Hp|Hn].
    + assert (0 < h*s) by (apply Rmult_lt_0_compat; lra). rewrite Rmin_left, Rmax_right by lra.
      rewrite Rmult_assoc. split; nra.
    + assert (h*s < 0) by nra. rewrite Rmin_right, Rmax_left by lra.
      rewrite Rmult_assoc. split; nra.
Qed.
Print Assumptions seg_between.
