From Coq Require Import Reals Lra Psatz.
From Coquelicot Require Import Coquelicot.
Open Scope R_scope.
Definition seg (a b c d xj x : R) := a*(x-xj)^3 + b*(x-xj)^2 + c*(x-xj) + d.
Definition d1 (a b c xj x : R) := 3*a*(x-xj)^2 + 2*b*(x-xj) + c.
Lemma D1 a b c d xj x : is_derive (seg a b c d xj) x (d1 a b c xj x).
Proof. unfold seg, d1. auto_derive; auto. ring. Qed.

(* a differentiable function with non-negative derivative on [u,v] is non-decreasing there *)
Lemma nondecreasing_from_derivative (g dg : R -> R) u v :
  (forall x, u <= x <= v -> is_derive g x (dg x)) -> (forall x, u <= x <= v -> 0 <= dg x) ->
  forall p q, u <= p -> p <= q -> q <= v -> g p <= g q.
Proof.
  intros Hd Hpos p q Hp Hpq Hq.
  destruct (MVT_gen g p q dg) as (cc & Hc & E).
  - intros x Hx. rewrite Rmin_left, Rmax_right in Hx by lra. apply Hd; lra.
  - intros x Hx. rewrite Rmin_left, Rmax_right in Hx by lra.
    apply continuity_pt_filterlim. apply (ex_derive_continuous g). eexists; apply Hd; lra.
  - rewrite Rmin_left, Rmax_right in Hc by lra. assert (0 <= dg cc) by (apply Hpos; lra). nra.
Qed.

(* Steffen segment: derivative has the sign of s, from the normalised inequality q(u) >= 0 *)
Definition ca h s dL dR := (dL + dR - 2*s) / h^2.
Definition cb h s dL dR := (3*s - 2*dL - dR) / h.
Lemma q_nonneg al be u : 0 <= al <= 2 -> 0 <= be <= 2 -> 0 <= u <= 1 ->
  0 <= al*(1-u)*(1-3*u) + be*u*(3*u-2) + 6*u*(1-u).
Proof. intros Ha Hb Hu.
  destruct (Rle_dec u (1/3)) as [H13|H13]; [|destruct (Rle_dec u (2/3)) as [H23|H23]].
  - assert (0 <= al*((1-u)*(1-3*u))). { apply Rmult_le_pos. lra. nra. }
    assert (be*(u*(2-3*u)) <= 2*(u*(2-3*u))). { assert (0 <= u*(2-3*u)) by nra. nra. } nra.
  - assert (al*((1-u)*(3*u-1)) <= 2*((1-u)*(3*u-1))). { assert (0 <= (1-u)*(3*u-1)) by nra. nra. }
    assert (be*(u*(2-3*u)) <= 2*(u*(2-3*u))). { assert (0 <= u*(2-3*u)) by nra. nra. } nra.
  - assert (al*((1-u)*(3*u-1)) <= 2*((1-u)*(3*u-1))). { assert (0 <= (1-u)*(3*u-1)) by nra. nra. }
    assert (0 <= be*(u*(3*u-2))). { apply Rmult_le_pos. lra. nra. } nra.
Qed.
Lemma d1_normal h s dL dR xj x : h <> 0 -> s <> 0 ->
  let u := (x - xj)/h in let al := dL/s in let be := dR/s in
  d1 (ca h s dL dR) (cb h s dL dR) dL xj x = s * (al*(1-u)*(1-3*u) + be*u*(3*u-2) + 6*u*(1-u)).
Proof. intros Hh Hs. cbv zeta. unfold d1, ca, cb. field. split; assumption. Qed.

Theorem seg_nondecreasing_when_s_pos h s dL dR y0 xj :
  0 < h -> 0 < s -> 0 <= dL <= 2*s -> 0 <= dR <= 2*s ->
  forall p q, xj <= p -> p <= q -> q <= xj + h ->
  seg (ca h s dL dR) (cb h s dL dR) dL y0 xj p <= seg (ca h s dL dR) (cb h s dL dR) dL y0 xj q.
Proof.
  intros Hh Hs HL HR. apply (nondecreasing_from_derivative _ (d1 (ca h s dL dR) (cb h s dL dR) dL xj)).
  - intros x _. apply D1.
  - intros x Hx. rewrite d1_normal by lra. cbv zeta.
    apply Rmult_le_pos; [lra|]. apply q_nonneg.
    + split; [apply Rmult_le_pos; [lra|left; apply Rinv_0_lt_compat; lra]|].
      apply Rmult_le_reg_r with s; [lra|]. unfold Rdiv. rewrite Rmult_assoc, Rinv_l by lra. lra.
    + split; [apply Rmult_le_pos; [lra|left; apply Rinv_0_lt_compat; lra]|].
      apply Rmult_le_reg_r with s; [lra|]. unfold Rdiv. rewrite Rmult_assoc, Rinv_l by lra. lra.
    + split; [apply Rmult_le_pos; [lra|left; apply Rinv_0_lt_compat; lra]|].
      apply Rmult_le_reg_r with h; [lra|]. unfold Rdiv. rewrite Rmult_assoc, Rinv_l by lra. lra.
Qed.
Print Assumptions seg_nondecreasing_when_s_pos.
