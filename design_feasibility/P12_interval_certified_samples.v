From Coq Require Import Reals.
From Coquelicot Require Import Coquelicot.
From Interval Require Import Tactic.
Open Scope R_scope.
(* Dawson(1.5) from C++ = 0x1.b6d0d5d4bd4d5p-2 ~ 0.42824907; encode as m * 2^e *)
Definition dawson (x:R) := exp (-(x*x)) * RInt (fun t => exp (t*t)) 0 x.
Goal Rabs (dawson (3/2) - 4282490710853986 / 10000000000000000) <= 2/10000000.
Proof. unfold dawson. integral with (i_prec 60). Qed.
Goal Rabs (dawson (3/2) - IZR 7714649427847849 * powerRZ 2 (-54)) <= 2/10000000.
Proof. unfold dawson. integral with (i_prec 60). Qed.
(* Q(n+1, mu) closed form vs a claimed double *)
Goal Rabs (exp (-5) * (1 + 5) - 0.0404276819945128) <= 1e-12.
Proof. interval with (i_prec 60). Qed.
