From Coq Require Import Reals Lra.
From Coquelicot Require Import Coquelicot.
Open Scope R_scope.
Definition seg (a b c d xj x : R) := a*(x-xj)^3 + b*(x-xj)^2 + c*(x-xj) + d.
Lemma seg_deriv a b c d xj x : is_derive (seg a b c d xj) x (3*a*(x-xj)^2 + 2*b*(x-xj) + c).
Proof. unfold seg. auto_derive; auto. ring. Qed.
Definition anti (a b c d xj x : R) := a/4*(x-xj)^4 + b/3*(x-xj)^3 + c/2*(x-xj)^2 + d*x.
Lemma seg_int a b c d xj u v : is_RInt (seg a b c d xj) u v (anti a b c d xj v - anti a b c d xj u).
Proof.
  apply (is_RInt_derive (anti a b c d xj) (seg a b c d xj)).
  - intros x _. unfold anti, seg. auto_derive; auto. field.
  - intros x _. apply (ex_derive_continuous (seg a b c d xj)). eexists; apply seg_deriv.
Qed.
Print Assumptions seg_deriv.

Print Assumptions seg_int.
