From Coq Require Import List String Reals Bool Lia Lra.
Import ListNotations.
Open Scope string_scope.

(* Expressions of unit-constant initialisers *)
Inductive expr :=
| Lit (r : R) | Ref (x : string) | Add (a b : expr) | Sub (a b : expr) | Mul (a b : expr) | Div (a b : expr)
| PowN (a : expr) (k : nat) | Sqrt (a : expr).

Definition env := string -> R.
Fixpoint eval (e : env) (x : expr) : R :=
  match x with
  | Lit r => r | Ref v => e v
  | Add a b => eval e a + eval e b | Sub a b => eval e a - eval e b
  | Mul a b => eval e a * eval e b | Div a b => eval e a / eval e b
  | PowN a k => (eval e a) ^ k | Sqrt a => sqrt (eval e a)
  end%R.
Fixpoint refs (x : expr) : list string :=
  match x with
  | Lit _ => [] | Ref v => [v]
  | Add a b | Sub a b | Mul a b | Div a b => refs a ++ refs b
  | PowN a _ | Sqrt a => refs a
  end.

Definition defs := list (string * expr).        (* textual order *)
Definition upd (e : env) (x : string) (v : R) : env := fun y => if String.eqb y x then v else e y.

(* A denotation is any environment that solves all the defining equations. *)
Definition solves (den : env) (ds : defs) := forall x b, In (x, b) ds -> den x = eval den b.

(* C++ start-up for one translation unit, given the compiler's choice [st] of the constants it
   initialises statically: phase 1 - zero-initialisation, then static constants hold the value of
   their (folded) initialiser; phase 2 - the remaining initialisers run in textual order. *)
Definition phase1 (st : string -> bool) (den : env) : env := fun x => if st x then den x else 0%R.
Fixpoint phase2 (st : string -> bool) (ds : defs) (e : env) : env :=
  match ds with
  | [] => e
  | (x, b) :: tl => phase2 st tl (if st x then e else upd e x (eval e b))
  end.
Definition startup st ds den := phase2 st ds (phase1 st den).

(* the decidable check run on the regenerated list and the measured classification *)
Fixpoint safe_from (st : string -> bool) (seen : list string) (ds : defs) : bool :=
  match ds with
  | [] => true
  | (x, b) :: tl =>
      (if st x then forallb st (refs b)                                   (* folded from static operands only *)
       else forallb (fun r => st r || existsb (String.eqb r) seen) (refs b))  (* static or textually earlier *)
      && negb (existsb (String.eqb x) seen) && safe_from st (x :: seen) tl
  end.
Definition safe st ds := safe_from st [] ds.

Lemma eval_ext e1 e2 b : (forall r, In r (refs b) -> e1 r = e2 r) -> eval e1 b = eval e2 b.
Proof. induction b; cbn; intros H; try reflexivity; try (rewrite IHb1, IHb2; [reflexivity| |]; intros; apply H; apply in_or_app; auto);
  try (rewrite IHb; auto). apply H; left; reflexivity. Qed.

Lemma existsb_eqb r l : existsb (String.eqb r) l = true <-> In r l.
Proof. rewrite existsb_exists. split; [intros (y&Hy&E); apply String.eqb_eq in E; subst; auto|intros H; exists r; split; auto; apply String.eqb_refl]. Qed.

(* invariant of phase 2: every static constant and every constant already processed holds its denotation;
   later definitions do not overwrite earlier names (names are distinct). *)
Lemma phase2_inv st den : forall ds seen e,
  safe_from st seen ds = true ->
  (forall x b, In (x,b) ds -> den x = eval den b) ->
  (forall x, st x = true -> e x = den x) -> (forall x, In x seen -> e x = den x) ->
  let e' := phase2 st ds e in
  (forall x, st x = true -> e' x = den x) /\ (forall x, In x seen -> e' x = den x) /\ (forall x b, In (x,b) ds -> e' x = den x).
Proof.
  induction ds as [|[x b] tl IH]; intros seen e Hs Hsol Hst Hseen; cbn [phase2].
  - repeat split; auto; intros ? ? [].
  - cbn [safe_from] in Hs. apply andb_prop in Hs as [Hs Hs3]. apply andb_prop in Hs as [Hs1 Hs2].
    apply negb_true_iff in Hs2.
    assert (Hnx: ~ In x seen) by (intro C; apply existsb_eqb in C; congruence).
    destruct (st x) eqn:Ex.
    + (* static: environment unchanged *)
      destruct (IH (x :: seen) e Hs3) as (A&B&C).
      { intros; apply Hsol; right; auto. } { auto. } { intros y [<-|Hy]; auto. }
      repeat split; auto. { intros y Hy; apply B; right; auto. }
      intros y c [E|Hy]; [inversion E; subst; apply B; left; auto|eapply C; eauto].
    + set (e1 := upd e x (eval e b)).
      assert (Hx: e1 x = den x).
      { unfold e1, upd. rewrite String.eqb_refl. rewrite (Hsol x b) by (left; auto). apply eval_ext.
        intros r Hr. rewrite forallb_forall in Hs1. specialize (Hs1 r Hr). apply orb_prop in Hs1 as [S|S]; [auto|apply Hseen, existsb_eqb; auto]. }
      assert (Hother: forall y, y <> x -> e1 y = e y).
      { intros y Hy. unfold e1, upd. destruct (String.eqb y x) eqn:E; auto. apply String.eqb_eq in E; contradiction. }
      destruct (IH (x :: seen) e1 Hs3) as (A&B&C).
      { intros; apply Hsol; right; auto. }
      { intros y Hy. rewrite Hother; auto. intro; subst; congruence. }
      { intros y [<-|Hy]; auto. rewrite Hother; auto. intro; subst; contradiction. }
      repeat split; auto. { intros y Hy; apply B; right; auto. }
      intros y c [E|Hy]; [inversion E; subst; apply B; left; auto|eapply C; eauto].
Qed.

Theorem init_order_sound st ds den :
  solves den ds -> safe st ds = true ->
  forall x b, In (x, b) ds -> startup st ds den x = den x.
Proof.
  intros Hsol Hsafe x b Hin. unfold startup.
  destruct (phase2_inv st den ds [] (phase1 st den) Hsafe Hsol) as (_&_&C).
  - intros y Hy. unfold phase1. rewrite Hy. reflexivity.
  - intros y [].
  - eapply C; eauto.
Qed.
Print Assumptions init_order_sound.

(* tiny instance in the shape of Natural_Units.cpp: Joule is defined before kg, meter, sec *)
Definition ex : defs := [("GeV", Lit 1); ("Joule", Mul (Ref "kg") (PowN (Div (Ref "meter") (Ref "sec")) 2));
  ("gram", Mul (Lit 5) (Ref "GeV")); ("kg", Mul (Lit 1000) (Ref "gram")); ("cm", Div (Lit 7) (Ref "GeV"));
  ("meter", Mul (Lit 100) (Ref "cm")); ("sec", Mul (Lit 3) (Ref "meter")); ("Watt", Div (Ref "Joule") (Ref "sec"))].
Definition gxx (x:string) := negb (String.eqb x "Joule" || String.eqb x "Watt").
Example ex_safe_gxx : safe gxx ex = true.  Proof. vm_compute. reflexivity. Qed.
Example ex_unsafe_all_dynamic : safe (fun x => String.eqb x "GeV") ex = false.  Proof. vm_compute. reflexivity. Qed.
