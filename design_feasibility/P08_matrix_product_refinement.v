From mathcomp Require Import all_ssreflect all_algebra.
Set Implicit Arguments. Unset Strict Implicit. Unset Printing Implicit Defensive.
Import GRing.Theory.
Open Scope ring_scope.

Section M.
Variable R : comRingType.
Definition mat := seq (seq R).
Definition mget (A : mat) (i j : nat) : R := nth 0 (nth [::] A i) j.
Definition wf (m n : nat) (A : mat) := (size A == m) && all (fun r => size r == n) A.
(* the triple loop of Matrix::Product: result[i][j] = fold over k of acc + a_ik * b_kj *)
Definition dotk (A B : mat) (p i j : nat) : R := foldl (fun acc k => acc + mget A i k * mget B k j) 0 (iota 0 p).
Definition mmul (m p n : nat) (A B : mat) : mat := [seq [seq dotk A B p i j | j <- iota 0 n] | i <- iota 0 m].
Definition mtr (m n : nat) (A : mat) : mat := [seq [seq mget A i j | i <- iota 0 m] | j <- iota 0 n].
Definition mx_of (m n : nat) (A : mat) : 'M[R]_(m,n) := \matrix_(i,j) mget A i j.

Lemma foldl_sum (f : nat -> R) p : foldl (fun acc k => acc + f k) 0 (iota 0 p) = \sum_(0 <= k < p) f k.
Proof.
  elim: p => [|p IH]; first by rewrite big_geq.
  by rewrite big_nat_recr // -IH -addn1 iotaD foldl_cat /= add0n.
Qed.

Lemma mget_mmul m p n A B i j : (i < m)%N -> (j < n)%N -> mget (mmul m p n A B) i j = dotk A B p i j.
Proof.
  move=> Hi Hj. rewrite /mget /mmul (nth_map 0%N) ?size_iota // (nth_map 0%N) ?size_iota // !nth_iota //.
Qed.

Lemma mx_of_mmul m p n A B : mx_of m n (mmul m p n A B) = mx_of m p A *m mx_of p n B.
Proof.
  apply/matrixP => i j. rewrite !mxE mget_mmul // /dotk foldl_sum big_mkord.
  by apply: eq_bigr => k _; rewrite !mxE.
Qed.

Lemma mget_mtr m n A i j : (i < n)%N -> (j < m)%N -> mget (mtr m n A) i j = mget A j i.
Proof. move=> Hi Hj. by rewrite /mget /mtr (nth_map 0%N) ?size_iota // (nth_map 0%N) ?size_iota // !nth_iota. Qed.
Lemma mx_of_mtr m n A : mx_of n m (mtr m n A) = (mx_of m n A)^T.
Proof. by apply/matrixP => i j; rewrite !mxE mget_mtr. Qed.

Theorem transpose_product m p n A B :
  mx_of n m (mtr m n (mmul m p n A B)) = mx_of n p (mtr p n B) *m mx_of p m (mtr m p A).
Proof. by rewrite !mx_of_mtr mx_of_mmul trmx_mul. Qed.
End M.
Print Assumptions transpose_product.
