From mathcomp Require Import all_ssreflect all_algebra.
Set Implicit Arguments. Unset Strict Implicit. Unset Printing Implicit Defensive.
Import GRing.Theory.
Open Scope ring_scope.

Section D.
Variable R : comRingType.
Definition mat := seq (seq R).
Definition mget (A : mat) (i j : nat) : R := nth 0 (nth [::] A i) j.
Definition mx_of (m n : nat) (A : mat) : 'M[R]_(m,n) := \matrix_(i,j) mget A i j.

(* Sub_Matrix(0,j): delete row 0 and column j *)
Definition del_col (j : nat) (r : seq R) : seq R := take j r ++ drop j.+1 r.
Definition sub0 (A : mat) (j : nat) : mat := [seq del_col j r | r <- behead A].

(* Laplace expansion along first row, size n given as fuel/structure *)
Fixpoint det (n : nat) (A : mat) : R :=
  match n with
  | 0 => 1
  | n'.+1 => foldl (fun acc j => acc + ((-1) ^+ j * mget A 0 j) * det n' (sub0 A j)) 0 (iota 0 n)
  end.

Lemma foldl_sum (f : nat -> R) p : foldl (fun acc k => acc + f k) 0 (iota 0 p) = \sum_(0 <= k < p) f k.
Proof.
  elim: p => [|p IH]; first by rewrite big_geq.
  by rewrite big_nat_recr // -IH -addn1 iotaD foldl_cat /= add0n.
Qed.

Lemma nth_del_col j (r : seq R) k : nth 0 (del_col j r) k = nth 0 r (if (k < j)%N then k else k.+1).
Proof.
  rewrite /del_col nth_cat size_take. case: (ltnP j (size r)) => Hj.
  - case: (ltnP k j) => Hk; first by rewrite nth_take.
    by rewrite nth_drop addSn subnKC.
  - case: (ltnP k j) => Hk.
    + case: (ltnP k (size r)) => Hk2; first by rewrite nth_take.
      by rewrite drop_oversize ?nth_nil ?nth_default //; apply: leq_trans Hj _.
    + case: (ltnP k (size r)) => Hk2. 
      * by move: (leq_trans Hk2 Hj); rewrite ltnNge Hk.
      * by rewrite drop_oversize ?nth_nil ?nth_default //; [apply: leqW | apply: leq_trans Hj _].
Qed.

Lemma mget_sub0 A j i k : mget (sub0 A j) i k = mget A i.+1 (if (k < j)%N then k else k.+1).
Proof.
  rewrite /mget /sub0. case: (ltnP i (size (behead A))) => Hi.
  - by rewrite (nth_map [::]) // nth_del_col nth_behead.
  - rewrite [nth [::] (map _ _) i]nth_default ?size_map // -nth_behead [nth [::] (behead A) i]nth_default //.
    by rewrite !nth_nil.
Qed.

Lemma mx_of_sub0 n A (j : 'I_n.+1) : mx_of n n (sub0 A j) = row' ord0 (col' j (mx_of n.+1 n.+1 A)).
Proof.
  apply/matrixP => i k. rewrite !mxE mget_sub0 /=. congr (mget A _ _).
  by rewrite /bump; case: (ltnP k j) => H; rewrite ?(leqNgt j k) ?H ?add0n ?add1n //= leqNgt ltnS H.
Qed.

Lemma detS n A : det n.+1 A = foldl (fun acc j => acc + ((-1) ^+ j * mget A 0 j) * det n (sub0 A j)) 0 (iota 0 n.+1).
Proof. by []. Qed.
Theorem det_is_det n A : det n A = \det (mx_of n n A).
Proof.
  elim: n A => [|n IH] A; first by rewrite /= det_mx00.
  rewrite detS (foldl_sum (fun j => ((-1) ^+ j * mget A 0 j) * det n (sub0 A j))) (expand_det_row _ ord0) big_mkord.
  apply: eq_bigr => j _. rewrite /cofactor !mxE IH mx_of_sub0 /= add0n. by rewrite [_ * mget _ _ _]mulrC mulrA.
Qed.
End D.
Print Assumptions det_is_det.
