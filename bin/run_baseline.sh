#!/bin/bash
# Runs libphysica's own ctest suite (guard LIBPHYSICA_VERIF off) on a scratch copy of /repo's
# working tree, outside /repo and /verif; removes the copy afterwards.
set -u
REPO=${REPO:-/repo}
W=$(mktemp -d /var/tmp/lp_baseline.XXXXXX)
trap 'rm -rf "$W"' EXIT
rsync -a --exclude _build --exclude .git --exclude external "$REPO"/ "$W"/src/
cd "$W"/src || exit 2
cmake -G Ninja -B "$W"/build -DFETCHCONTENT_SOURCE_DIR_GOOGLETEST=/usr/src/googletest -DCMAKE_BUILD_TYPE=RelWithDebInfo -DCMAKE_CXX_FLAGS=-Wno-error >"$W"/cmake.log 2>&1 || { tail -30 "$W"/cmake.log; exit 2; }
cmake --build "$W"/build -j16 >"$W"/build.log 2>&1 || { tail -40 "$W"/build.log; exit 2; }
ctest --test-dir "$W"/build -j8 --timeout 900 --output-junit "$W"/junit.xml >"$W"/ctest.log 2>&1
rc=$?
python3 - "$W"/junit.xml <<'PY'
import sys,re
try:
    s=open(sys.argv[1]).read()
except Exception as e:
    print("no junit:",e); sys.exit(0)
t=len(re.findall(r'<testcase ',s)); f=len(re.findall(r'<failure',s))
print(f"ctest executables: {t}, failures: {f}")
PY
tail -15 "$W"/ctest.log
# per-test counts
for t in "$W"/build/tests/test_* "$W"/build/bin/test_* ; do [ -x "$t" ] && [ -f "$t" ] && "$t" --gtest_brief=1 2>/dev/null | tail -3; done 2>/dev/null | grep -E "PASSED|FAILED" 
exit $rc
