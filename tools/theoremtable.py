#!/usr/bin/env python3
"""Rewrites DESIGN.md section 12.6 (theorem inventory) between its markers from evidence/<ID>.json (written by the checks) and the Coq sources."""
import glob, json, os, re
V = os.path.dirname(os.path.dirname(os.path.abspath(__file__)))
rows = []; tot = 0
for i in range(1, 21):
    pid = f"C{i:02d}"
    try: ev = json.load(open(os.path.join(V, "evidence", pid + ".json")))
    except Exception: continue
    c = ev["coverage"]; n = c.get("discharged", 0); tot += n
    ax = c.get("axioms", [])
    axs = "none (closed under the global context)" if not ax else ", ".join(sorted({a.split(".")[-1] for a in ax}))
    files = sorted(os.path.basename(f) for f in glob.glob(os.path.join(V, "coq", pid + "_*.v")) if not f.endswith("_Extract.v"))
    loc = sum(len(open(os.path.join(V, "coq", f)).read().split("\n")) for f in files + [f"Properties_{pid}.v"])
    rows.append(f"| {pid} | {n}/{c.get('obligations', 0)} | {len(files)} files, {loc} lines | {axs} | {c.get('evaluations', 0)} ({c.get('bit_identical', 0)} bit-identical) | {', '.join(c.get('known_findings_reproduced', [])) or '-'} |")
text = (f"{tot} property theorems in `coq/Properties_C??.v` (each `Proof. exact <lemma>. Qed.` followed by `Print Assumptions`), all discharged on the current tree; "
        "the numbers below are copied from the evidence files the quick checks wrote last (`evidence/<ID>.json`, which also list every theorem by name).\n\n"
        "| property | theorems discharged | Coq sources (model + proofs + property file) | axioms reported by `Print Assumptions` (all declared by the standard library) | quick-tier cases compared with the extracted model | known findings reproduced |\n|---|---|---|---|---|---|\n" + "\n".join(rows) + "\n")
p = os.path.join(V, "DESIGN.md"); s = open(p).read()
b, e = "<!-- theoremtable:begin -->", "<!-- theoremtable:end -->"
if b not in s:
    s += "\n### 12.6 Theorem inventory\n\n" + b + "\n" + e + "\n"
s = s[:s.index(b) + len(b)] + "\n" + text + s[s.index(e):]
open(p, "w").write(s); print(tot, "theorems")
