"""Generic check pipeline (DESIGN.md section 3): S0 build, S1 proof status, S2 correspondence,
S4 implementation-side predicates, S5 verdict, evidence.  Property-specific parts live in checks/<ID>.py."""
import hashlib, importlib, json, math, os, random, re, subprocess, sys, time, glob, shutil

sys.path.insert(0, os.path.dirname(os.path.abspath(__file__)))
import vbuild
from vbuild import VERIF, BUILD, REPO

COQ = os.path.join(VERIF, "coq")
FORBIDDEN = re.compile(r"\b(Admitted|admit|Axiom|Axioms|Parameter|Parameters|Conjecture|Abort All|Unset Guard Checking|Unset Positivity Checking|Unset Universe Checking|bypass_check|type-in-type|impredicative-set|Admit Obligations)\b")


class Case:
    """One generated case. line: the text handed to both harness and model driver.
    tags: what the generator aimed at (for the distribution histogram). tol: (rel, abs) for float tokens."""
    __slots__ = ("line", "tags", "tol", "info")

    def __init__(self, line, tags=(), tol=None, info=None):
        self.line = line; self.tags = tuple(tags); self.tol = tol; self.info = info or {}


def hx(x):
    """double -> token"""
    if isinstance(x, int): x = float(x)
    if math.isnan(x): return "nan"
    if math.isinf(x): return "inf" if x > 0 else "-inf"
    return x.hex()


def flist(v): return f"{len(v)} " + " ".join(hx(x) for x in v) if len(v) else "0"
def ilist(v): return f"{len(v)} " + " ".join(str(int(x)) for x in v) if len(v) else "0"


def tokf(t):
    """token -> float or None"""
    if t == "nan": return math.nan
    if t in ("inf", "infinity"): return math.inf
    if t in ("-inf", "-infinity"): return -math.inf
    if t.startswith(("0x", "-0x")):
        try: return float.fromhex(t)
        except ValueError: return None
    return None


def canon_impl(line):
    line = line.strip()
    if line.startswith("EXIT diag=1"): return "EXIT"
    if line.startswith("EXIT diag=0"): return "EXIT_NODIAG"
    return line


def parse_vals(line):
    """tokens -> list of python values (float for hex tokens, int for decimal, str otherwise)"""
    out = []
    for t in line.split():
        f = tokf(t)
        if f is not None: out.append(f); continue
        try: out.append(int(t))
        except ValueError: out.append(t)
    return out


def compare_lines(impl, model, tol):
    """returns (equal_within_tol, bit_identical, detail)"""
    if impl == model: return True, True, ""
    a, b = impl.split(), model.split()
    if len(a) != len(b): return False, False, f"shape: impl has {len(a)} tokens, model {len(b)}"
    rel, ab = tol
    for k, (x, y) in enumerate(zip(a, b)):
        if x == y: continue
        fx, fy = tokf(x), tokf(y)
        if fx is None or fy is None: return False, False, f"token {k}: impl {x} model {y}"
        if math.isnan(fx) and math.isnan(fy): continue
        if math.isnan(fx) or math.isnan(fy) or math.isinf(fx) or math.isinf(fy):
            if fx == fy: continue
            return False, False, f"token {k}: impl {fx!r} model {fy!r}"
        if abs(fx - fy) <= rel * max(abs(fx), abs(fy)) + ab: continue
        return False, False, f"token {k}: impl {fx!r} model {fy!r} (rel {abs(fx-fy)/max(abs(fx),abs(fy),1e-300):.3g})"
    return True, False, ""


def run_exe(exe, lines, workdir, name, env=None, timeout=3600):
    os.makedirs(workdir, exist_ok=True)
    cf = os.path.join(workdir, name + ".cases"); of = os.path.join(workdir, name + ".out")
    with open(cf, "w") as f: f.write("\n".join(lines) + ("\n" if lines else ""))
    if os.path.exists(of): os.remove(of)
    e = dict(os.environ); e.update(env or {})
    r = subprocess.run([exe, cf, of], stdout=subprocess.PIPE, stderr=subprocess.STDOUT, text=True, env=e, timeout=timeout)
    out = open(of).read().split("\n") if os.path.exists(of) else []
    if out and out[-1] == "": out.pop()
    if len(out) != len(lines):
        out = out + ["HARNESSERR missing_output"] * (len(lines) - len(out))
    return out


# ---------------------------------------------------------------- S1: proof status
def coq_make(targets, timeout=2400):
    if not os.path.exists(os.path.join(COQ, "Makefile")):
        subprocess.run([os.path.join(VERIF, "bin", "setup")], stdout=subprocess.PIPE, stderr=subprocess.STDOUT)
    with vbuild.Lock("coq"):
        r = subprocess.run(["make", "-k", "-j16"] + targets, cwd=COQ, stdout=subprocess.PIPE, stderr=subprocess.STDOUT, text=True, timeout=timeout)
    return r.returncode, r.stdout


def enclosing_lemma(vfile, lineno):
    try: src = open(vfile).read().split("\n")
    except OSError: return "?"
    for k in range(min(lineno, len(src)) - 1, -1, -1):
        m = re.match(r"\s*(Theorem|Lemma|Corollary|Example|Definition|Fixpoint|Proposition|Fact|Remark)\s+([A-Za-z0-9_']+)", src[k])
        if m: return m.group(2)
    return "?"


def dep_closure(vfile):
    """the .v files of this development that vfile (transitively) imports, itself included"""
    seen, todo = [], [vfile]
    while todo:
        f = todo.pop()
        if f in seen or not os.path.exists(f): continue
        seen.append(f)
        txt = re.sub(r"\(\*.*?\*\)", "", open(f).read(), flags=re.S)
        for m in re.finditer(r"From\s+LP\s+Require\s+(?:Import|Export)?\s*([^.]*)\.", txt):
            for name in m.group(1).split():
                todo.append(os.path.join(COQ, name + ".v"))
    return sorted(seen)


def proof_status(pid, regen_log="", tier="quick"):
    """Builds Properties_<pid>.vo (and everything it depends on) and collects obligations / axioms."""
    pf = os.path.join(COQ, f"Properties_{pid}.v")
    st = {"obligations": 0, "discharged": 0, "theorems": [], "axioms": [], "broken": None, "checker_cmd": f"cd coq && make -k -j16 Properties_{pid}.vo && coqc -Q . LP Properties_{pid}.v  (Coq 8.16.1, full .vo build, Print Assumptions under every theorem)", "forbidden": []}
    if not os.path.exists(pf):
        st["broken"] = {"what": f"Properties_{pid}.v missing"}; return st
    src = open(pf).read()
    thms = re.findall(r"^\s*Theorem\s+([A-Za-z0-9_']+)", src, re.M)
    st["theorems"] = thms; st["obligations"] = len(thms)
    # forbidden tokens anywhere in the development (comments are stripped first)
    for vf in dep_closure(pf):
        txt = re.sub(r"\(\*.*?\*\)", "", open(vf).read(), flags=re.S)
        for m in FORBIDDEN.finditer(txt):
            st["forbidden"].append(f"{os.path.basename(vf)}: {m.group(0)}")
    rc, log = coq_make([f"Properties_{pid}.vo"])
    if rc != 0:
        m = re.search(r'File "\./([^"]+)", line (\d+)', log)
        where = {"what": "coq build failed", "log": log[-3000:]}
        if m:
            vf, ln = m.group(1), int(m.group(2))
            where.update({"file": vf, "line": ln, "lemma": enclosing_lemma(os.path.join(COQ, vf), ln)})
            if vf == f"Properties_{pid}.v":
                ends = [mm.start() for mm in re.finditer(r"Qed\.", src)]
                upto = sum(len(l) + 1 for l in src.split("\n")[:ln - 1])
                st["discharged"] = sum(1 for e in ends if e < upto)
        st["broken"] = where
        return st
    os.makedirs(os.path.join(BUILD, "recheck"), exist_ok=True)
    rdir = os.path.join(BUILD, "recheck", str(os.getpid())); os.makedirs(rdir, exist_ok=True)      # per process: runs of one property may overlap
    rvo = os.path.join(rdir, f"Properties_{pid}.vo")
    r = subprocess.run(["coqc", "-w", "-all", "-Q", ".", "LP", f"Properties_{pid}.v", "-o", rvo], cwd=COQ, stdout=subprocess.PIPE, stderr=subprocess.STDOUT, text=True, timeout=1800)
    shutil.rmtree(rdir, ignore_errors=True)
    if r.returncode != 0 and "inconsistent assumptions" in r.stdout:
        # a concurrent build replaced a dependency between make and this re-check: build again and repeat once
        coq_make([f"Properties_{pid}.vo"])
        os.makedirs(rdir, exist_ok=True)
        r = subprocess.run(["coqc", "-w", "-all", "-Q", ".", "LP", f"Properties_{pid}.v", "-o", rvo], cwd=COQ, stdout=subprocess.PIPE, stderr=subprocess.STDOUT, text=True, timeout=1800)
        shutil.rmtree(rdir, ignore_errors=True)
    if r.returncode != 0:
        st["broken"] = {"what": "re-check of the property file failed", "log": r.stdout[-3000:]}; return st
    st["discharged"] = len(thms)
    ax = set()
    for blk in re.split(r"\n(?=Axioms:|Closed under the global context)", r.stdout):
        if blk.startswith("Axioms:"):
            for m in re.finditer(r"^([A-Za-z_][A-Za-z0-9_.']*)\s*:", blk, re.M):
                if m.group(1) != "Axioms": ax.add(m.group(1))
    st["axioms"] = sorted(ax)
    st["closed"] = r.stdout.count("Closed under the global context")
    # per theorem: the Print Assumptions blocks come in the order of the theorems of the property file
    per = []
    for blk in re.split(r"\n(?=Axioms:|Closed under the global context)", "\n" + r.stdout):
        if blk.startswith("Closed under the global context"): per.append([])
        elif blk.startswith("Axioms:"):
            per.append(sorted({m.group(1) for m in re.finditer(r"^([A-Za-z_][A-Za-z0-9_.']*)\s*:", blk, re.M) if m.group(1) != "Axioms"}))
    printed = re.findall(r"^\s*Print Assumptions\s+([A-Za-z0-9_']+)", src, re.M)
    if len(per) == len(printed):
        st["axioms_by_theorem"] = {t: (a or ["none (closed under the global context)"]) for t, a in zip(printed, per)}
    if tier == "thorough" and not os.environ.get("VERIF_NO_COQCHK"):
        try:
            # coqchk only reads the compiled files and takes minutes: it runs without the build lock (other checks keep going); should a
            # concurrent build have replaced a .vo under it, it is repeated once under the lock
            rc2 = subprocess.run(["coqchk", "-silent", "-o", "-Q", ".", "LP", f"LP.Properties_{pid}"], cwd=COQ, stdout=subprocess.PIPE, stderr=subprocess.STDOUT, text=True, timeout=1500)
            if rc2.returncode != 0:
                with vbuild.Lock("coq"):
                    rc2 = subprocess.run(["coqchk", "-silent", "-o", "-Q", ".", "LP", f"LP.Properties_{pid}"], cwd=COQ, stdout=subprocess.PIPE, stderr=subprocess.STDOUT, text=True, timeout=1500)
            summ = rc2.stdout[rc2.stdout.find("CONTEXT SUMMARY"):] if "CONTEXT SUMMARY" in rc2.stdout else rc2.stdout[-1500:]
            st["coqchk"] = {"exit": rc2.returncode, "summary": re.sub(r"\s+", " ", summ)[:4000]}
            if rc2.returncode != 0:
                st["broken"] = {"what": "coqchk (independent checker) rejects the compiled property file", "log": rc2.stdout[-2000:]}
        except subprocess.TimeoutExpired:
            st["coqchk"] = {"exit": None, "summary": "timed out after 1500 s (not counted as a failure)"}
    if st["forbidden"]:
        st["broken"] = {"what": "forbidden construct in the Coq development", "items": st["forbidden"][:10]}
    return st


# ---------------------------------------------------------------- known findings
def load_known():
    out = []
    for p in [os.path.join(VERIF, "known_findings.json")] + sorted(glob.glob(os.path.join(VERIF, "known_findings.d", "*.json"))):
        if os.path.exists(p): out += json.load(open(p)).get("findings", [])
    return out


def sig_matches(entry, pid, sig):
    return entry.get("property") == pid and entry.get("status") == "known" and any(re.search(p, sig) for p in entry.get("match", []))


# ---------------------------------------------------------------- main pipeline
def run(pid, tier="quick", seed=1, replay=None):
    t0 = time.time()
    sys.path.insert(0, os.path.join(VERIF, "checks"))
    mod = importlib.import_module(pid)
    # VERIF_SCRATCH redirects everything a run writes (used when trying seeded changes on a copy of the repository)
    OUTROOT = os.environ.get("VERIF_SCRATCH") or VERIF
    work = os.path.join(os.environ.get("VERIF_SCRATCH") or BUILD, "run", pid); os.makedirs(work, exist_ok=True)
    ev_path = os.path.join(OUTROOT, "evidence", pid + ".json"); os.makedirs(os.path.dirname(ev_path), exist_ok=True)
    notes = []
    violations = []   # dicts: sig, msg, case, impl, model (+ info: the generator's metadata of the case, when it has any)
    info_by_line = {}
    broken = []       # dicts describing broken theorem / correspondence
    known_lines = []

    # ---- S0 build
    try:
        lib = vbuild.build_lib()
        exe = vbuild.build_harness(os.path.join(VERIF, "harness", getattr(mod, "HARNESS", pid + ".cpp")), lib)
    except RuntimeError as e:
        broken.append({"kind": "build", "what": "the implementation or its harness does not build against the current tree", "log": str(e)[-3000:]})
        exe = None
    driver = os.path.join(BUILD, "ocaml", getattr(mod, "DRIVER", pid) + "_driver")

    # ---- T-tie regeneration (optional per property)
    regen_log = ""
    if hasattr(mod, "regenerate"):
        try:
            regen_log = mod.regenerate() or ""
        except Exception as e:   # translator rejected the source
            broken.append({"kind": "translator", "what": "the translator cannot regenerate the model from the current source", "log": str(e)[-3000:]})
    # ---- S1 proofs
    ps = proof_status(pid, regen_log, tier)
    if ps["broken"]:
        b = dict(ps["broken"]); b["kind"] = "theorem"; broken.append(b)
    dname = getattr(mod, "DRIVER", pid)
    deps = glob.glob(os.path.join(COQ, dname + "*.v")) + glob.glob(os.path.join(COQ, "Gen_*.v")) + glob.glob(os.path.join(COQ, "Num*.v")) + \
        [os.path.join(VERIF, "ocaml", f) for f in (dname + "_driver.ml", "common.ml", "conv.inc")] + [os.path.join(COQ, f) for f in getattr(mod, "MODEL_DEPS", [])]
    if (not os.path.exists(driver)) or any(os.path.exists(f) and os.path.getmtime(f) > os.path.getmtime(driver) for f in deps):
        with vbuild.Lock("drv-" + dname):
            r = subprocess.run([os.path.join(VERIF, "bin", "build_driver"), dname], stdout=subprocess.PIPE, stderr=subprocess.STDOUT, text=True)
        if r.returncode != 0:
            broken.append({"kind": "extraction", "what": "model extraction / driver build failed", "log": r.stdout[-3000:]})

    rng = random.Random(seed)
    ctx = {"tier": tier, "seed": seed, "work": work, "exe": exe, "driver": driver, "lib": lib if exe else None}
    # ---- cases: replay, else corpus first, then generated
    if replay:
        rp = json.load(open(replay))
        infos = rp.get("infos", {})      # generator metadata some predicates need (Case.info), saved with the case
        cases = [Case(l, ("replay",), info=infos.get(l)) for l in rp.get("cases", [rp.get("case")]) if l]
    else:
        cases = []
        for cf in sorted(glob.glob(os.path.join(VERIF, "corpus", pid, "*.case"))):
            pending_info = None
            for l in open(cf).read().split("\n"):
                if l.startswith("#info "):
                    try: pending_info = json.loads(l[6:])
                    except ValueError: pending_info = None
                elif l.strip() and not l.startswith("#"):
                    cases.append(Case(l.strip(), ("corpus",), info=pending_info)); pending_info = None
        cases += mod.generate(rng, tier)

    stats = {"evaluations": 0, "bit_identical": 0, "within_tol": 0, "mismatch": 0, "tags": {}, "outcomes": {}}
    nontriv = set(); samples = []; mism = []; pred_errors = 0
    impl_out = model_out = []
    if exe and os.path.exists(driver) and cases:
        lines = [c.line for c in cases]
        info_by_line = {c.line: c.info for c in cases if c.info}
        env = getattr(mod, "HARNESS_ENV", None)
        impl_out = [canon_impl(l) for l in run_exe(exe, lines, work, "impl", env=env)]
        model_out = [l.strip() for l in run_exe(driver, lines, work, "model")]
        deftol = getattr(mod, "TOL", (1e-9, 0.0))
        for c, io, mo in zip(cases, impl_out, model_out):
            stats["evaluations"] += 1
            for t in c.tags: stats["tags"][t] = stats["tags"].get(t, 0) + 1
            kind = io.split()[0] if io and not io[0].isdigit() and not io.startswith(("0x", "-0x", "-")) else "value"
            stats["outcomes"][kind] = stats["outcomes"].get(kind, 0) + 1
            tol = c.tol or (mod.tolerance(c) if hasattr(mod, "tolerance") else deftol)
            ok, bit, detail = compare_lines(io, mo, tol)
            if hasattr(mod, "compare"):    # property-specific comparison (e.g. canonicalisation of unordered output)
                ok, bit, detail = mod.compare(c, io, mo, tol)
            if bit: stats["bit_identical"] += 1
            if ok: stats["within_tol"] += 1
            else:
                stats["mismatch"] += 1
                mism.append({"case": c.line, "impl": io, "model": mo, "detail": detail})
            # generic process-level failures
            head = io.split()[0] if io else ""
            if head in ("CRASH", "SANITIZER", "TIMEOUT", "EXIT0", "EXIT_NODIAG") and not getattr(mod, "ALLOW_" + head, False):
                violations.append({"sig": f"{head}:{c.line.split()[0]}", "msg": f"the implementation ended with {io} on this request", "case": c.line, "impl": io, "model": mo})
            try:
                for v in mod.predicates(c, io):
                    sig, msg = v if isinstance(v, tuple) else (c.line.split()[0], v)
                    violations.append({"sig": sig, "msg": msg, "case": c.line, "impl": io, "model": mo})
            except Exception as e:
                # a clause that cannot be evaluated on an answer is not silently skipped: the answer is reported as unreadable
                pred_errors += 1
                notes.append(f"predicate error on {c.line[:80]}: {e!r}")
                violations.append({"sig": f"{c.line.split()[0]}:unreadable-answer", "msg": f"the clauses of the property could not be evaluated on this answer ({e!r})", "case": c.line, "impl": io, "model": mo})
            try:
                if mod.nontrivial(c, io):
                    nontriv.add(hashlib.sha1(c.line.encode()).hexdigest())
                    if len(samples) < 6: samples.append({"case": c.line[:400], "impl": io[:400], "model": mo[:400]})
            except Exception as e:
                notes.append(f"nontrivial() error: {e!r}")
        if mism:
            broken.append({"kind": "correspondence", "what": f"model and implementation disagree on {len(mism)} of {len(cases)} cases", "first": mism[:5]})
    elif not cases:
        notes.append("no cases generated")

    # ---- thorough tier: the same cases under sanitizers and under clang++ -O2
    alt = {}
    if tier == "thorough" and exe and cases and os.path.exists(driver) and not replay and not getattr(mod, "NO_ALT_BUILDS", False):
        SAN = ["-fsanitize=address,undefined", "-fno-sanitize-recover=all", "-fno-omit-frame-pointer"]
        senv = {"ASAN_OPTIONS": "exitcode=99:detect_leaks=0:abort_on_error=0", "UBSAN_OPTIONS": "halt_on_error=1:exitcode=98:print_stacktrace=0"}
        senv.update(getattr(mod, "HARNESS_ENV", None) or {})
        for tag, cxx, fl, env in (("asan", "g++", SAN, senv), ("clang", "clang++", ["-O2"], getattr(mod, "HARNESS_ENV", None))):
            try:
                lib2 = vbuild.build_lib(cxx=cxx, extra_flags=fl, tag=tag)
                exe2 = vbuild.build_harness(os.path.join(VERIF, "harness", getattr(mod, "HARNESS", pid + ".cpp")), lib2, cxx=cxx, extra_flags=fl)
            except RuntimeError as e:
                notes.append(f"{tag} build failed: {str(e)[-300:]}"); continue
            sub = cases if len(cases) <= 20000 else [cases[i] for i in sorted(rng.sample(range(len(cases)), 20000))]
            out2 = [canon_impl(l) for l in run_exe(exe2, [c.line for c in sub], work, "impl_" + tag, env=env)]
            bad = 0; dis = 0; slow = 0
            mo_by_line = {c.line: m for c, m in zip(cases, model_out)}
            impl_by_line = {c.line: m for c, m in zip(cases, impl_out)}
            for c, io in zip(sub, out2):
                head = io.split()[0] if io else ""
                if head == "TIMEOUT" and not impl_by_line.get(c.line, "").startswith("TIMEOUT"):
                    # the plain build answered this request in time: the instrumented build is merely slower (counted, not a finding)
                    slow += 1; continue
                if head in ("SANITIZER", "CRASH", "TIMEOUT") and not getattr(mod, "ALLOW_" + head, False):
                    bad += 1
                    violations.append({"sig": f"{head}:{tag}:{c.line.split()[0]}", "msg": f"{tag} build: the implementation ended with {io} on this request", "case": c.line, "impl": io, "model": mo_by_line.get(c.line, "")})
                    continue
                tol = c.tol or (mod.tolerance(c) if hasattr(mod, "tolerance") else getattr(mod, "TOL", (1e-9, 0.0)))
                ok, bit, detail = (mod.compare(c, io, mo_by_line.get(c.line, ""), tol) if hasattr(mod, "compare") else compare_lines(io, mo_by_line.get(c.line, ""), tol))
                if not ok:
                    dis += 1
                    try: pv = mod.predicates(c, io)
                    except Exception: pv = []
                    for v in pv:
                        sig, msg = v if isinstance(v, tuple) else (c.line.split()[0], v)
                        violations.append({"sig": sig, "msg": f"{tag} build: {msg}", "case": c.line, "impl": io, "model": mo_by_line.get(c.line, "")})
            alt[tag] = {"cases": len(sub), "sanitizer_or_crash": bad, "disagree_with_model": dis, "slower_than_the_time_limit_only_in_this_build": slow}
            if dis and tag == "asan":
                broken.append({"kind": "correspondence", "what": f"{tag} build disagrees with the model on {dis} cases"})
            elif dis:
                notes.append(f"{tag} build differs from the model beyond tolerance on {dis} cases (different compiler rounding/libm inlining is possible; predicates were evaluated on them)")

    # ---- property-specific extra stages (S3 certified samples, measured configurations, ...)
    extra = {}
    if hasattr(mod, "extra") and exe:
        try:
            extra = mod.extra(ctx, rng) or {}
            for v in extra.pop("violations", []): violations.append(v)
            for b in extra.pop("broken", []): broken.append(b)
        except Exception as e:
            broken.append({"kind": "extra", "what": f"extra stage failed: {e!r}"})

    # ---- S5 verdict
    known = load_known()
    new_viol = []
    seen_known = set(); known_cases = {}
    for v in violations:
        ks = [k for k in known if sig_matches(k, pid, v["sig"])]
        if ks:
            if ks[0]["id"] not in seen_known:
                seen_known.add(ks[0]["id"])
                known_cases[ks[0]["id"]] = {"case": v["case"][:20000], "signature": v["sig"], "observed": v["impl"][:300], "info": info_by_line.get(v["case"])}
                known_lines.append(f"KNOWN-FINDING: property={pid} {ks[0]['what']}")
        else:
            new_viol.append(v)
    # extended search when a tie or a theorem broke and nothing failing is in hand yet
    if broken and not new_viol and exe and os.path.exists(driver) and not replay:
        for s2 in range(seed * 1000 + 1, seed * 1000 + 1 + (3 if tier == "quick" else 12)):
            r2 = random.Random(s2)
            cs = mod.generate(r2, tier)
            lines = [c.line for c in cs]
            io2 = [canon_impl(l) for l in run_exe(exe, lines, work, "impl_search", env=getattr(mod, "HARNESS_ENV", None))]
            for c, io in zip(cs, io2):
                stats["evaluations"] += 1
                try: pv = mod.predicates(c, io)
                except Exception: pv = []
                for v in pv:
                    sig, msg = v if isinstance(v, tuple) else (c.line.split()[0], v)
                    if not any(sig_matches(k, pid, sig) for k in known):
                        new_viol.append({"sig": sig, "msg": msg, "case": c.line, "impl": io, "model": "", "found_by": f"extended search seed {s2}"})
            if new_viol: break
        # the disagreeing cases themselves are the next best replay
    for l in known_lines: print(l)
    rc = 0
    os.makedirs(os.path.join(OUTROOT, "replays"), exist_ok=True)
    if new_viol:
        v = min(new_viol, key=lambda v: len(v["case"]))
        h = hashlib.sha1((v["case"] + v["msg"]).encode()).hexdigest()[:10]
        rp = os.path.join("replays", f"{pid}-{h}.json")
        json.dump({"property": pid, "kind": "failing-input", "case": v["case"], "infos": ({v["case"]: info_by_line[v["case"]]} if v["case"] in info_by_line else {}),
                   "observed": v["impl"], "model": v.get("model", ""), "required": v["msg"], "signature": v["sig"],
                   "others": [{"case": w["case"][:300], "msg": w["msg"]} for w in new_viol[1:6]], "broken": broken[:3],
                   "replay_cmd": f"bin/check {pid} --replay {rp}"}, open(os.path.join(OUTROOT, rp), "w"), indent=1, default=str)
        print(f"VIOLATION property={pid} replay={rp}")
        print(f"  {v['msg']}\n  case: {v['case'][:300]}\n  observed: {v['impl'][:300]}")
        rc = 1
    elif broken:
        b = broken[0]
        h = hashlib.sha1(json.dumps(b, sort_keys=True, default=str).encode()).hexdigest()[:10]
        rp = os.path.join("replays", f"{pid}-{h}.json")
        cases_r = [m["case"] for m in mism[:20]]
        json.dump({"property": pid, "kind": "no-longer-checks", "what_no_longer_checks": broken, "cases": cases_r, "infos": {l: info_by_line[l] for l in cases_r if l in info_by_line},
                   "note": "no input on which the property itself fails was found; the listed theorem / correspondence no longer checks against the current source",
                   "replay_cmd": f"bin/check {pid} --replay {rp}"}, open(os.path.join(OUTROOT, rp), "w"), indent=1, default=str)
        print(f"VIOLATION property={pid} replay={rp} no-failing-input-found")
        print(f"  {b.get('kind')}: {b.get('what')}" + (f" ({b.get('file')}:{b.get('line')} {b.get('lemma')})" if b.get("file") else ""))
        if mism: print(f"  first disagreement: {mism[0]['case'][:200]}\n    impl : {mism[0]['impl'][:200]}\n    model: {mism[0]['model'][:200]}\n    {mism[0]['detail']}")
        rc = 1

    # ---- evidence
    tb = ["Coq 8.16.1 kernel (coqc, full .vo build; no native_compute)",
          "axioms reported by Print Assumptions: " + (", ".join(ps["axioms"]) if ps["axioms"] else "none (closed under the global context)"),
          "extraction: ExtrOcamlBasic only (Extract Inductive bool/option/unit/list/prod/sumbool/sumor; Extract Inlined Constant andb/orb); nat, positive, Z stay inductive",
          "float instance of NumOps: OCaml 4.13.1 float primitives + glibc libm (ocaml/conv.inc); OCaml drivers ocaml/common.ml, ocaml/%s_driver.ml" % pid,
          "C++ harness harness/%s.cpp + harness/common.hpp, g++ -O1 -ffp-contract=off; case generators and predicates in checks/%s.py; tools/vcheck.py" % (pid, pid),
          "modelling assumption double ~ R for theorems stated over R (not needed for theorems over the abstract order)"]
    tb += list(getattr(mod, "TRUSTED", []))
    cov = {"obligations": ps["obligations"], "discharged": ps["discharged"], "checker_cmd": ps["checker_cmd"], "trusted_base": tb,
           "theorems": ps["theorems"], "axioms": ps["axioms"], "axioms_by_theorem": ps.get("axioms_by_theorem", "not available (the number of Print Assumptions answers differs from the number of commands)"), "coqchk": ps.get("coqchk", "not run in the quick tier"),
           "evaluations": stats["evaluations"], "distinct_nontrivial": len(nontriv), "rule": getattr(mod, "RULE", ""),
           "samples": samples or [{"note": "no sample collected"}],
           "traces_validated_against_impl": stats["within_tol"], "bit_identical": stats["bit_identical"], "mismatches": stats["mismatch"],
           "input_distribution": stats["tags"], "impl_outcomes": stats["outcomes"],
           "predicate_errors": pred_errors, "known_findings_reproduced": sorted(seen_known), "known_findings_cases": known_cases, "broken": [{k: (str(v)[:500]) for k, v in b.items()} for b in broken[:4]]}
    if alt: cov["alternative_builds"] = alt
    cov.update(extra)
    ev = {"property_id": pid, "tier": tier, "seed": seed, "level": getattr(mod, "LEVEL", "proof"), "coverage": cov,
          "assumptions": list(getattr(mod, "ASSUMPTIONS", [])) + notes[:10], "wall_s": round(time.time() - t0, 2), "violations": len(new_viol) + (1 if (broken and not new_viol) else 0)}
    json.dump(ev, open(ev_path, "w"), indent=1, default=str)
    print(f"[{pid}] tier={tier} seed={seed} theorems={ps['discharged']}/{ps['obligations']} cases={stats['evaluations']} bit-identical={stats['bit_identical']} within-tol={stats['within_tol']} mismatches={stats['mismatch']} nontrivial={len(nontriv)} S4-violations={len(new_viol)} known={len(seen_known)} wall={ev['wall_s']}s")
    return rc


def main():
    import argparse
    ap = argparse.ArgumentParser()
    ap.add_argument("pid"); ap.add_argument("--tier", default=os.environ.get("VERIF_TIER", "quick")); ap.add_argument("--replay")
    a = ap.parse_args()
    seed = int(os.environ.get("VERIF_SEED", "1"))
    sys.exit(run(a.pid, a.tier, seed, a.replay))


if __name__ == "__main__":
    main()
