#!/usr/bin/env python3
"""C12's extension of the T-tie translator tools/cxx2gallina.py (the shared file is not edited; this module wraps it).

Compute_Gauss_Legendre_Roots_and_Weights is not a straight-line function (a counted loop around an uncapped while loop around a
counted loop, stores into a vector of vectors), so it is not translated as a whole.  Instead every *formula site* of its body is
translated, on every run, from clang's AST with the base translator's expression rules (Tr.E: same operation order, the int->double
casts clang makes explicit, literals as `nlit Ops num den m e`), and the *statement skeleton* around the sites (which statement
kinds, in which order and nesting, assigning which variable / storing into which row and column, the loop bounds, the break
condition) is compared with the skeleton the hand model coq/C12_Model.v was written from; any difference raises Unsupported.

  site                                                    generated definition
  double eps = 1.0e-14                                    g_gl_eps
  int m = (n + 1) / 2                                     g_gl_m n
  double x_middle = ...; double x_half_width = ...        g_gl_mid x_min x_max ; g_gl_hw x_min x_max
  double z = cos(M_PI * (i + 0.75) / (n + 0.5))           g_gl_guess pi_c n i
  double p1 = 1.0; double p2 = 0.0                        g_gl_p1_init ; g_gl_p2_init
  p1 = ((2.0*j + 1.0)*z*p2 - j*p3)/(j + 1.0)              g_gl_leg_step j z p2 p3
  pp = n*(z*p1 - p2)/(z*z - 1.0)                          g_gl_pp n z p1 p2
  z = z1 - p1/pp                                          g_gl_newton_z z1 p1 pp
  if(std::fabs(z - z1) <= eps) break                      g_gl_stop z z1 eps
  rw[i][0] = x_middle - x_half_width*z                    g_gl_node_lo x_middle x_half_width z
  rw[n-i-1][0] = x_middle + x_half_width*z                g_gl_node_hi x_middle x_half_width z
  rw[i][1] = 2.0*x_half_width/((1.0 - z*z)*pp*pp)         g_gl_weight x_half_width z pp
  (index n - i - 1)                                       g_gl_mirror_index n i
The proofs that these are the terms of the hand model are in coq/C12_GenTie.v.
"""
import json, os, sys
sys.path.insert(0, os.path.dirname(os.path.abspath(__file__)))
import cxx2gallina as c
from cxx2gallina import Unsupported, qt

SKIP = ("ImplicitCastExpr", "ParenExpr", "ExprWithCleanups", "MaterializeTemporaryExpr", "CXXBindTemporaryExpr", "ConstantExpr")


def strip(n):
    while n["kind"] in SKIP and n.get("inner"): n = n["inner"][-1] if n["kind"] == "ImplicitCastExpr" else n["inner"][0]
    return n


def free_vars(n, acc):
    """variables referenced below n with their translator types, in order of first appearance"""
    if isinstance(n, dict):
        if n.get("kind") == "DeclRefExpr" and n.get("referencedDecl", {}).get("kind") in ("ParmVarDecl", "VarDecl"):
            nm = n["referencedDecl"]["name"]
            if nm not in [a for a, _ in acc]: acc.append((nm, c.ty(n)))
        for ch in n.get("inner", []): free_vars(ch, acc)
    return acc


class Sites:
    def __init__(self, src_text):
        self.tr = c.Tr(src_text, [], pi=True)
        self.skel = []       # the statement skeleton, one string per statement
        self.exprs = {}      # site tag -> AST node of the expression
        self.index_nodes = {}  # store target -> its index expressions

    def index(self, n):
        """rw[e1][e2] / v[e] as (container, [index nodes]) or None"""
        n = strip(n); idx = []
        while n["kind"] == "CXXOperatorCallExpr" and strip(n["inner"][0]).get("referencedDecl", {}).get("name") == "operator[]":
            idx.insert(0, n["inner"][2]); n = strip(n["inner"][1])
        if idx and n["kind"] == "DeclRefExpr": return n["referencedDecl"]["name"], idx
        return None

    def show_index(self, ix):
        name, idx = ix
        return name + "".join("[" + self.idx_E(e) + "]" for e in idx)

    def idx_E(self, e):
        """an index expression: the widening to std::vector::size_type clang inserts is the identity on int/unsigned values"""
        while e["kind"] in ("ParenExpr",): e = e["inner"][0]
        if e["kind"] == "ImplicitCastExpr" and e.get("castKind") == "IntegralCast" and "size_type" in qt(e) and c.ty(e["inner"][-1]) in ("int", "uint"):
            e = e["inner"][-1]
        return self.tr.E(e)

    def site(self, tag, node):
        k = tag; i = 2
        while k in self.exprs: k = f"{tag}#{i}"; i += 1
        self.exprs[k] = node
        return k

    def stmt(self, s, depth):
        k = s["kind"]; pad = "  " * depth
        if k == "CompoundStmt":
            for t in s.get("inner", []): self.stmt(t, depth)
        elif k == "DeclStmt":
            for d in s["inner"]:
                if d["kind"] != "VarDecl": raise Unsupported(f"declaration {d['kind']}")
                t = c.ty(d)
                if t in ("double", "int", "uint") and d.get("inner"):
                    self.skel.append(f"{pad}decl {t} {d['name']} = <{self.site('decl:' + d['name'], d['inner'][-1])}>")
                elif t in ("double", "int", "uint"):
                    self.skel.append(f"{pad}decl {t} {d['name']}")
                else:
                    self.skel.append(f"{pad}decl {qt(d)} {d['name']} (container)")
        elif k == "ForStmt":
            init, _, cond, inc, body = s["inner"]
            iv = init["inner"][0]
            if init["kind"] != "DeclStmt" or self.tr.intval(iv["inner"][-1]) != 0: raise Unsupported("for-init is not `type i = 0`")
            inc = strip(inc)
            if inc["kind"] != "UnaryOperator" or inc.get("opcode") != "++" or strip(inc["inner"][0])["referencedDecl"]["name"] != iv["name"]:
                raise Unsupported("for-increment is not i++")
            self.skel.append(f"{pad}for {c.ty(iv)} {iv['name']} = 0; {self.tr.E(cond)}; ++")
            self.stmt(body, depth + 1)
        elif k == "WhileStmt":
            cond, body = s["inner"][-2], s["inner"][-1]
            cc = strip(cond)
            if cc["kind"] != "CXXBoolLiteralExpr" or not cc["value"]: raise Unsupported("while condition is not `true`")
            self.skel.append(f"{pad}while true")
            self.stmt(body, depth + 1)
        elif k == "IfStmt":
            if len(s["inner"]) != 2: raise Unsupported("if with else")
            cond, then = s["inner"]
            self.skel.append(f"{pad}if <{self.site('if', cond)}>")
            self.stmt(then, depth + 1)
        elif k == "BreakStmt":
            self.skel.append(f"{pad}break")
        elif k == "ReturnStmt":
            r = strip(s["inner"][0])
            while r["kind"] == "CXXConstructExpr": r = strip(r["inner"][0])
            if r["kind"] != "DeclRefExpr": raise Unsupported("return of an expression")
            self.skel.append(f"{pad}return {r['referencedDecl']['name']}")
        elif k in ("BinaryOperator", "CompoundAssignOperator", "ExprWithCleanups"):
            s = strip(s) if k == "ExprWithCleanups" else s
            op = s.get("opcode")
            if op not in ("=", "+="): raise Unsupported(f"expression statement {op}")
            lhs, rhs = s["inner"]
            ix = self.index(lhs)
            if ix is not None:
                target = self.show_index(ix); self.index_nodes.setdefault(target, ix[1])
            else:
                l = strip(lhs)
                if l["kind"] != "DeclRefExpr": raise Unsupported(f"assignment to a {l['kind']}")
                target = l["referencedDecl"]["name"]
            rix = self.index(rhs)
            if rix is not None and op == "=":
                self.skel.append(f"{pad}{target} = {self.show_index(rix)}")
            else:
                self.skel.append(f"{pad}{target} {op} <{self.site('set:' + target, rhs)}>")
        elif k == "CXXOperatorCallExpr" or k == "CallExpr":
            if c.contains_exit(s): self.skel.append(f"{pad}exit")
            else: self.skel.append(f"{pad}diagnostic")       # std::cerr << ...
        else:
            raise Unsupported(f"statement {k}")


def function_body(src, name, ptypes, incs):
    cands = []
    for d in c.clang_ast(src, name, incs):
        if d.get("kind") == "FunctionDecl" and d.get("name") == name and any(x.get("kind") == "CompoundStmt" for x in d.get("inner", [])):
            ps = [p for p in d["inner"] if p["kind"] == "ParmVarDecl"]
            if tuple(qt(p) for p in ps) == tuple(ptypes): cands.append(d)
    if len(cands) != 1: raise Unsupported(f"{len(cands)} definitions of {name}({', '.join(ptypes)}) in {src}")
    return [x for x in cands[0]["inner"] if x["kind"] == "CompoundStmt"][0]


# the skeleton coq/C12_Model.v was written from (gl_roots / newton / legendre / gl_store / gl_assemble)
SKEL_RULE = """decl std::vector<std::vector<double>> roots_and_weights (container)
decl double eps = <decl:eps>
decl int m = <decl:m>
decl double x_middle = <decl:x_middle>
decl double x_half_width = <decl:x_half_width>
for int i = 0; (Z.ltb v_i v_m); ++
  decl double pp
  decl double z = <decl:z>
  while true
    decl double p1 = <decl:p1>
    decl double p2 = <decl:p2>
    for uint j = 0; (Z.ltb v_j v_n); ++
      decl double p3 = <decl:p3>
      p2 = <set:p2>
      p1 = <set:p1>
    pp = <set:pp>
    decl double z1 = <decl:z1>
    z = <set:z>
    if <if>
      break
  roots_and_weights[v_i][(0)%Z] = <set:roots_and_weights[v_i][(0)%Z]>
  roots_and_weights[(gu32 (Z.sub (gu32 (Z.sub v_n (gu32 v_i))) (1)%Z))][(0)%Z] = <set:roots_and_weights[(gu32 (Z.sub (gu32 (Z.sub v_n (gu32 v_i))) (1)%Z))][(0)%Z]>
  roots_and_weights[v_i][(1)%Z] = <set:roots_and_weights[v_i][(1)%Z]>
  roots_and_weights[(gu32 (Z.sub (gu32 (Z.sub v_n (gu32 v_i))) (1)%Z))][(1)%Z] = roots_and_weights[v_i][(1)%Z]
return roots_and_weights"""

# site -> (generated name, parameters in this order, result type)
DEFS_RULE = [
    ("decl:eps", "g_gl_eps", [], "T"),
    ("decl:m", "g_gl_m", ["n"], "Z"),
    ("decl:x_middle", "g_gl_mid", ["x_min", "x_max"], "T"),
    ("decl:x_half_width", "g_gl_hw", ["x_min", "x_max"], "T"),
    ("decl:z", "g_gl_guess", ["n", "i"], "T"),
    ("decl:p1", "g_gl_p1_init", [], "T"),
    ("decl:p2", "g_gl_p2_init", [], "T"),
    ("decl:p3", "g_gl_p3", ["p2"], "T"),
    ("set:p2", "g_gl_p2", ["p1"], "T"),
    ("set:p1", "g_gl_leg_step", ["j", "z", "p2", "p3"], "T"),
    ("set:pp", "g_gl_pp", ["n", "z", "p1", "p2"], "T"),
    ("decl:z1", "g_gl_z1", ["z"], "T"),
    ("set:z", "g_gl_newton_z", ["z1", "p1", "pp"], "T"),
    ("if", "g_gl_stop", ["z", "z1", "eps"], "bool"),
    ("set:roots_and_weights[v_i][(0)%Z]", "g_gl_node_lo", ["x_middle", "x_half_width", "z"], "T"),
    ("set:roots_and_weights[(gu32 (Z.sub (gu32 (Z.sub v_n (gu32 v_i))) (1)%Z))][(0)%Z]", "g_gl_node_hi", ["x_middle", "x_half_width", "z"], "T"),
    ("set:roots_and_weights[v_i][(1)%Z]", "g_gl_weight", ["x_half_width", "z", "pp"], "T"),
]

PRELUDE = """(* GENERATED by tools/cxx2gallina_C12.py from src/Integration.cpp -- do not edit; regenerated on every run of the check.
   Formula sites of Compute_Gauss_Legendre_Roots_and_Weights (the statement skeleton around them is compared by the generator
   with the one the hand model was written from). *)
From Coq Require Import ZArith Bool List.
From LP Require Import Num.
Local Open Scope Z_scope.
Definition gu32 (k : Z) : Z := k mod 4294967296.
"""


def emit(S, defs, types_hint):
    out = []
    for tag, gname, params, rt in defs:
        if tag not in S.exprs: raise Unsupported(f"formula site {tag} not found")
        node = S.exprs[tag]
        fv = free_vars(node, [])
        body = S.tr.E(node)
        names = [a for a, _ in fv]
        if sorted(names) != sorted(params):
            raise Unsupported(f"site {tag}: the expression refers to {sorted(names)}, the model term takes {sorted(params)}")
        tmap = dict(fv)
        ps = " ".join(f"(v_{p} : {c.GTYPE[tmap[p]]})" for p in params)
        lead = "(pi_c : T) " if "pi_c" in body else ""
        out.append(f"(* {tag} *)\nDefinition {gname} {{T : Type}} (Ops : NumOps T) {lead}{ps} : {rt} :=\n  {body}.\n")
    return out


def translate_c12(repo, extra_incs=()):
    src = os.path.join(repo, "src", "Integration.cpp")
    incs = [os.path.join(repo, "include")] + list(extra_incs)
    text = open(src).read()
    body = function_body(src, "Compute_Gauss_Legendre_Roots_and_Weights", ["unsigned int", "double", "double"], incs)
    S = Sites(text); S.stmt(body, 0)
    got = "\n".join(S.skel)
    if got != SKEL_RULE:
        import difflib
        d = "\n".join(difflib.unified_diff(SKEL_RULE.split("\n"), got.split("\n"), "model", "source", lineterm="", n=0))
        raise Unsupported("the statement skeleton of Compute_Gauss_Legendre_Roots_and_Weights differs from the one modelled:\n" + d)
    out = [PRELUDE] + emit(S, DEFS_RULE, None)
    hi = "roots_and_weights[(gu32 (Z.sub (gu32 (Z.sub v_n (gu32 v_i))) (1)%Z))][(0)%Z]"
    e = S.index_nodes[hi][0]
    if sorted(a for a, _ in free_vars(e, [])) != ["i", "n"]: raise Unsupported("mirror index")
    out.append(f"(* the row index of the mirrored stores *)\nDefinition g_gl_mirror_index (v_n : Z) (v_i : Z) : Z :=\n  {S.idx_E(e)}.\n")
    return "\n".join(out)


def regenerate_c12(repo, coqdir, extra_incs=()):
    return c.write_if_changed(os.path.join(coqdir, "Gen_C12_Formulas.v"), translate_c12(repo, extra_incs))


if __name__ == "__main__":
    repo = sys.argv[1] if len(sys.argv) > 1 else os.environ.get("VERIF_REPO", "/repo")
    if len(sys.argv) > 2 and sys.argv[2] == "--skeleton":
        src = os.path.join(repo, "src", "Integration.cpp")
        body = function_body(src, "Compute_Gauss_Legendre_Roots_and_Weights", ["unsigned int", "double", "double"], [os.path.join(repo, "include")])
        S = Sites(open(src).read()); S.stmt(body, 0); print("\n".join(S.skel)); sys.exit(0)
    print(translate_c12(repo))
