#!/usr/bin/env python3
"""Rewrites the tables of repaired defects (known_findings.json, status fixed) and of known findings (known_findings.d/*.json, status known)
in DESIGN.md sections 12.2 / 12.3 between their markers."""
import glob, json, os
V = os.path.dirname(os.path.dirname(os.path.abspath(__file__)))
kf = json.load(open(os.path.join(V, "known_findings.json")))["findings"]
fixed = "| # | property | commit | what failed before the repair |\n|---|---|---|---|\n" + "\n".join(
    f"| {f['id']} | {f['property']} | `{f.get('commit','')}` | {f['what'].replace('|', '/')} |" for f in kf if f["status"] == "fixed")
known = []
for p in sorted(glob.glob(os.path.join(V, "known_findings.d", "*.json"))):
    known += [f for f in json.load(open(p))["findings"] if f.get("status") == "known"]
kn = "| id | property | what fails | signature |\n|---|---|---|---|\n" + "\n".join(
    f"| {f['id']} | {f['property']} | {f['what'].replace('|', '/')} | `{' , '.join(f['match']).replace('|', '¦')}` |" for f in known)
p = os.path.join(V, "DESIGN.md"); s = open(p).read()
for tag, text in (("fixedtable", fixed), ("knowntable", kn)):
    b, e = f"<!-- {tag}:begin -->", f"<!-- {tag}:end -->"
    s = s[:s.index(b) + len(b)] + "\n" + text + "\n" + s[s.index(e):]
open(p, "w").write(s); print(len([f for f in kf if f['status']=='fixed']), "fixed,", len(known), "known")
