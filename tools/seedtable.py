#!/usr/bin/env python3
"""Prints the markdown table of the seeded changes (seeded/<ID>-<X>/meta.json + NOTES.md) for DESIGN.md section 12.4
and rewrites that section in place (between the markers `<!-- seedtable:begin -->` and `<!-- seedtable:end -->`)."""
import glob, json, os, re, sys
V = os.path.dirname(os.path.dirname(os.path.abspath(__file__)))


def first_sentence(notes, letter):
    """the heading line of the change in NOTES.md (## A — ..., **Change A ...**, ...)"""
    for pat in (rf"^#+\s*(?:Change\s+)?{letter}\s*[—\-:.]\s*(.+)$", rf"^\*\*Change {letter}\b[^\n]*?[—\-:]\s*(.+?)\*\*", rf"^#+\s*Change {letter}\b\s*(.*)$"):
        m = re.search(pat, notes, re.M)
        if m and m.group(1).strip(): return m.group(1).strip().rstrip("*").strip()
    return ""


rows = []
for d in sorted(glob.glob(os.path.join(V, "seeded", "C*-*"))):
    name = os.path.basename(d)
    try: meta = json.load(open(os.path.join(d, "meta.json")))
    except Exception: continue
    notes = open(os.path.join(d, "NOTES.md"), errors="replace").read() if os.path.exists(os.path.join(d, "NOTES.md")) else ""
    what = meta.get("summary") or first_sentence(notes, name.split("-")[1])
    files = sorted(set(re.findall(r"^\+\+\+ b/(\S+)", open(os.path.join(d, "patch.diff")).read(), re.M)))
    det = meta.get("detected_by", {})
    res = det.get("result", "not run") if isinstance(det, dict) else "not run"
    rep = (det.get("first_report", "") if isinstance(det, dict) else "")[:150]
    rows.append(f"| {name} | {', '.join(os.path.basename(f) for f in files)} | {what[:170].replace('|', '/')} | {res} | {rep.replace('|', '/')} |")
results = [r.split(" | ")[3] for r in rows]
caught = sum(x.startswith("CAUGHT") for x in results)
retired = sum(x.startswith("RETIRED") for x in results)
missed = sum(x.startswith("MISSED") for x in results)
text = (f"{len(rows)} seeded changes, each written by an independent sub-agent that saw only the property text and a scratch worktree, each confirmed here "
        f"(`tools/seedconfirm.sh`: applies to HEAD, the unedited suite passes with it, its demonstration exits 1 with and 0 without the change); "
        f"{caught} are detected by the quick tier of their property's check run against a copy of the repository with the change applied (`tools/seedtest.sh`), "
        f"{missed} by the thorough tier only (the quick tier misses it), {retired} were retired when a repair in `/repo` made them inapplicable.\n\n"
        "| change | file | what it does | quick check of its property | first line of the report |\n|---|---|---|---|---|\n" + "\n".join(rows) + "\n")
p = os.path.join(V, "DESIGN.md"); s = open(p).read()
b, e = "<!-- seedtable:begin -->", "<!-- seedtable:end -->"
if b in s and e in s:
    s = s[:s.index(b) + len(b)] + "\n" + text + s[s.index(e):]
    open(p, "w").write(s); print(f"DESIGN.md section updated: {len(rows)} changes, {caught} caught")
else:
    print(text)
