#!/usr/bin/env python3
"""Writes seeded/RESULTS.md from the results recorded in seeded/<ID>-<X>/meta.json (field detected_by, updated by every tools/seedall.sh run)."""
import glob, json, os, collections
V = os.path.dirname(os.path.dirname(os.path.abspath(__file__)))
rows = []; cnt = collections.Counter()
for d in sorted(glob.glob(os.path.join(V, "seeded", "C*-*"))):
    try: m = json.load(open(os.path.join(d, "meta.json")))
    except Exception: continue
    det = m.get("detected_by", {})
    res = det.get("result", "not run") if isinstance(det, dict) else "not run"
    why = (det.get("first_report", "") if isinstance(det, dict) else "")[:160].replace("|", "/")
    key = "RETIRED" if res.startswith("RETIRED") else ("CAUGHT (failing input)" if res.startswith("CAUGHT (failing") else ("CAUGHT (no-failing-input-found)" if res.startswith("CAUGHT") else res.split(" (")[0]))
    cnt[key] += 1
    rows.append(f"| {os.path.basename(d)} | {m.get('property', '')} | {res} | {why} |")
with open(os.path.join(V, "seeded", "RESULTS.md"), "w") as f:
    f.write("# Seeded changes vs the quick tier of their property's check\n\n")
    f.write("Each line is the last result recorded by `tools/seedall.sh` (which runs `tools/seedtest.sh <ID> seeded/<ID>-<X>/patch.diff quick` on a private copy of the repository).\n\n")
    f.write("Totals: " + ", ".join(f"{k}: {v}" for k, v in sorted(cnt.items())) + "\n\n")
    f.write("| seeded change | property | result | first report |\n|---|---|---|---|\n" + "\n".join(rows) + "\n")
print(dict(cnt))
