"""units2v.py — T-tie translator for property C20.

Reads `src/Natural_Units.cpp` of the library under test (line-level parser of
`const double X = expr;` inside `namespace natural_units`, before "// 5. Functions") and produces

  * `defs` : the list (name, expression AST) in TEXTUAL order,
  * Coq source for `coq/Gen_C20_Units.v`: `defs : list (string * expr)` (textual order), one
    real-valued definition `u_<name> : R` per constant (emitted in DEPENDENCY order, so that
    forward references of the C++ source are accepted by Coq), the table `den`, and the proof that
    `den` solves `defs` (so that C20_Proofs_Init.init_order_sound applies to it),
  * reference evaluations in Python: exact (Fraction; sqrt / pi / non-integer pow through 60-digit
    Decimal) and in IEEE double arithmetic (the operations the compiler / libm perform).

Expression grammar understood (anything else raises TranslateError, which the check reports as a
broken tie):  decimal literals (integer or floating, e/E exponent, no suffix), names of other
constants, M_PI, + - * / (binary), unary minus/plus, parentheses, pow(e, <literal exponent>),
sqrt(e).  A binary operation between two integer-typed operands (C++ integer arithmetic) is rejected.
"""
import os, re, math, sys
from fractions import Fraction
from decimal import Decimal, getcontext

PREFIX = "u_"
PI60 = "3.14159265358979323846264338327950288419716939937510582097494"


class TranslateError(Exception):
    pass


# ------------------------------------------------------------------ AST
# ("lit", Fraction, is_int) ("pi",) ("ref", name) ("add"|"sub"|"mul"|"div", a, b) ("neg", a)
# ("powz", a, k) ("powq", a, Fraction) ("sqrt", a)

TOK = re.compile(r"\s*(?:(?P<num>(?:\d+\.\d*|\.\d+|\d+)(?:[eE][+-]?\d+)?)|(?P<id>[A-Za-z_][A-Za-z_0-9]*)|(?P<op>[()+\-*/,]))")


def tokenize(s, where):
    out, pos = [], 0
    s = s.rstrip()
    while pos < len(s):
        m = TOK.match(s, pos)
        if not m or m.end() == pos:
            raise TranslateError(f"{where}: cannot tokenize {s[pos:pos+20]!r} in initialiser {s!r}")
        if m.group("num") is not None:
            # a literal directly followed by a letter/digit/dot is a suffix or malformed (1.0f, 10u, 0x10, 1.2.3)
            if m.end() < len(s) and re.match(r"[A-Za-z_0-9.]", s[m.end()]):
                raise TranslateError(f"{where}: literal with suffix or malformed number near {s[m.start():m.end()+3]!r}")
            out.append(("num", m.group("num")))
        elif m.group("id") is not None:
            out.append(("id", m.group("id")))
        else:
            out.append(("op", m.group("op")))
        pos = m.end()
    return out


class Parser:
    def __init__(self, toks, where):
        self.t, self.i, self.where = toks, 0, where

    def peek(self):
        return self.t[self.i] if self.i < len(self.t) else ("end", "")

    def take(self, kind=None, val=None):
        k, v = self.peek()
        if (kind and k != kind) or (val is not None and v != val):
            raise TranslateError(f"{self.where}: expected {val or kind}, found {v!r}")
        self.i += 1
        return v

    # every parse function returns (ast, is_int_typed)
    def expr(self):
        a, ai = self.term()
        while self.peek() in (("op", "+"), ("op", "-")):
            op = self.take()
            b, bi = self.term()
            if ai and bi:
                raise TranslateError(f"{self.where}: integer arithmetic ({op} between two int operands) is not translated")
            a, ai = (("add" if op == "+" else "sub"), a, b), False
        return a, ai

    def term(self):
        a, ai = self.unary()
        while self.peek() in (("op", "*"), ("op", "/")):
            op = self.take()
            b, bi = self.unary()
            if ai and bi:
                raise TranslateError(f"{self.where}: integer arithmetic ({op} between two int operands) is not translated")
            a, ai = (("mul" if op == "*" else "div"), a, b), False
        return a, ai

    def unary(self):
        if self.peek() == ("op", "-"):
            self.take()
            a, ai = self.unary()
            if a[0] == "lit":
                return ("lit", -a[1], a[2]), ai
            return ("neg", a), ai
        if self.peek() == ("op", "+"):
            self.take()
            return self.unary()
        return self.atom()

    def literal_exponent(self):
        """the second argument of pow: a (signed) literal"""
        sign = 1
        while self.peek() in (("op", "-"), ("op", "+")):
            if self.take() == "-": sign = -sign
        k, v = self.peek()
        if k != "num":
            raise TranslateError(f"{self.where}: pow with a non-literal exponent is not translated")
        self.take()
        return sign * Fraction(v)

    def atom(self):
        k, v = self.peek()
        if k == "num":
            self.take()
            is_int = re.fullmatch(r"\d+", v) is not None
            val = Fraction(v)
            if is_int and val >= 2 ** 53:
                raise TranslateError(f"{self.where}: integer literal {v} is not exactly representable as a double")
            return ("lit", val, is_int), is_int
        if k == "op" and v == "(":
            self.take()
            a, ai = self.expr()
            self.take("op", ")")
            return a, ai
        if k == "id":
            self.take()
            if v == "M_PI":
                return ("pi",), False
            if v in ("sqrt", "std::sqrt"):
                self.take("op", "(")
                a, _ = self.expr()
                self.take("op", ")")
                return ("sqrt", a), False
            if v == "pow":
                self.take("op", "(")
                a, _ = self.expr()
                self.take("op", ",")
                e = self.literal_exponent()
                self.take("op", ")")
                if e.denominator == 1:
                    return ("powz", a, int(e)), False
                return ("powq", a, e), False
            if self.peek() == ("op", "("):
                raise TranslateError(f"{self.where}: call of {v}(...) is not translated (only pow and sqrt are)")
            return ("ref", v), False
        raise TranslateError(f"{self.where}: unexpected {v!r}")


DEF = re.compile(r"^const\s+double\s+([A-Za-z_][A-Za-z_0-9]*)\s*=\s*(.*?)\s*;$")


def parse_source(path):
    """-> list of (name, ast, line_number) in textual order"""
    try:
        src = open(path).read()
    except OSError as e:
        raise TranslateError(f"cannot read {path}: {e}")
    if "/*" in src.split("// 5. Functions")[0]:
        raise TranslateError("block comment in the constants section is not understood")
    lines = src.split("\n")
    start = end = None
    for k, l in enumerate(lines):
        if re.match(r"\s*namespace\s+natural_units\b", l) and start is None: start = k
        if "// 5. Functions" in l and end is None: end = k
    if start is None or end is None or end <= start:
        raise TranslateError("cannot locate `namespace natural_units` ... `// 5. Functions` in Natural_Units.cpp")
    defs, seen = [], set()
    for k in range(start + 1, end):
        l = lines[k].split("//")[0].strip()          # line comments (and commented-out definitions) are ignored
        if l in ("", "{"): continue
        m = DEF.match(l)
        where = f"Natural_Units.cpp:{k+1}"
        if not m:
            raise TranslateError(f"{where}: not of the form `const double X = expr;`: {l!r}")
        name, rhs = m.group(1), m.group(2)
        if name in seen:
            raise TranslateError(f"{where}: {name} defined twice")
        seen.add(name)
        p = Parser(tokenize(rhs, where), where)
        ast, _ = p.expr()
        if p.peek()[0] != "end":
            raise TranslateError(f"{where}: trailing tokens after the initialiser of {name}: {p.peek()[1]!r}")
        defs.append((name, ast, k + 1))
    if not defs:
        raise TranslateError("no constant found")
    names = {n for n, _, _ in defs}
    for n, a, ln in defs:
        for r in refs(a):
            if r not in names:
                raise TranslateError(f"Natural_Units.cpp:{ln}: {n} refers to {r}, which is not one of the constants")
    return defs


def header_names(path):
    """names declared `extern const double a, b, c;` in Natural_Units.hpp"""
    src = open(path).read()
    src = re.sub(r"//[^\n]*", "", src)
    out = []
    for m in re.finditer(r"extern\s+const\s+double\s+([^;]*);", src):
        out += [x.strip() for x in m.group(1).split(",") if x.strip()]
    return out


def refs(a):
    k = a[0]
    if k == "ref": return [a[1]]
    if k in ("add", "sub", "mul", "div"): return refs(a[1]) + refs(a[2])
    if k in ("neg", "sqrt", "powz", "powq"): return refs(a[1])
    return []


def dependency_order(defs):
    """topological order, ties by textual position; raises on a cycle"""
    by = {n: a for n, a, _ in defs}
    order, state = [], {}

    def visit(n, stack):
        if state.get(n) == 2: return
        if state.get(n) == 1:
            raise TranslateError("cyclic definition: " + " -> ".join(stack + [n]))
        state[n] = 1
        for r in refs(by[n]): visit(r, stack + [n])
        state[n] = 2
        order.append(n)
    for n, _, _ in defs: visit(n, [])
    return order


# ------------------------------------------------------------------ Coq emission
def coq_ast(a):
    k = a[0]
    if k == "lit": return f"(ELit ({a[1].numerator}) {a[1].denominator})"
    if k == "pi": return "EPi"
    if k == "ref": return f'(ERef "{a[1]}")'
    if k in ("add", "sub", "mul", "div"): return f"(E{k.capitalize()} {coq_ast(a[1])} {coq_ast(a[2])})"
    if k == "neg": return f"(ENeg {coq_ast(a[1])})"
    if k == "sqrt": return f"(ESqrt {coq_ast(a[1])})"
    if k == "powz": return f"(EPowZ {coq_ast(a[1])} ({a[2]}))"
    if k == "powq": return f"(EPowQ {coq_ast(a[1])} ({a[2].numerator}) {a[2].denominator})"
    raise TranslateError("internal: " + k)


def coq_real(a):
    """the real-valued Gallina term; convertible with `eval den (coq_ast a)`"""
    k = a[0]
    if k == "lit": return f"(IZR ({a[1].numerator}) / IZR {a[1].denominator})"
    if k == "pi": return "PI"
    if k == "ref": return PREFIX + a[1]
    if k in ("add", "sub", "mul", "div"):
        return f"({coq_real(a[1])} {dict(add='+', sub='-', mul='*', div='/')[k]} {coq_real(a[2])})"
    if k == "neg": return f"(- {coq_real(a[1])})"
    if k == "sqrt": return f"(sqrt {coq_real(a[1])})"
    if k == "powz": return f"(powerRZ {coq_real(a[1])} ({a[2]}))"
    if k == "powq": return f"(Rpower {coq_real(a[1])} (IZR ({a[2].numerator}) / IZR {a[2].denominator}))"
    raise TranslateError("internal: " + k)


def emit_coq(defs):
    by = {n: a for n, a, _ in defs}
    o = []
    o.append("(** GENERATED by tools/units2v.py from src/Natural_Units.cpp (constants section) -- do not edit.")
    o.append("    [defs]: the initialisers in TEXTUAL order.  [u_X]: the same expressions as real numbers, in")
    o.append("    dependency order.  [den_solves]: the real-valued definitions solve the defining equations. *)")
    o.append("From Coq Require Import Reals ZArith String List.")
    o.append("From LP Require Import C20_Model C20_Proofs_Init.")
    o.append("Import ListNotations.")
    o.append("Local Open Scope string_scope.")
    o.append("")
    o.append("Definition defs : list (string * expr) := [")
    o.append(";\n".join(f'  ("{n}", {coq_ast(a)})' for n, a, _ in defs))
    o.append("].")
    o.append("")
    o.append("Local Open Scope R_scope.")
    for n in dependency_order(defs):
        o.append(f"Definition {PREFIX}{n} : R := {coq_real(by[n])}.")
    o.append("")
    o.append("Definition den_table : list (string * R) := [")
    o.append(";\n".join(f'  ("{n}", {PREFIX}{n})' for n, _, _ in defs))
    o.append("].")
    o.append("Definition den : string -> R := lookup den_table.")
    o.append("")
    o.append("Lemma den_solves : solves den defs.")
    o.append("Proof.")
    o.append("  apply solves_of_Forall. unfold defs.")
    o.append("  repeat (apply Forall_cons; [cbv [den lookup den_table fst snd eval String.eqb Ascii.eqb Bool.eqb]; reflexivity|]).")
    o.append("  apply Forall_nil.")
    o.append("Qed.")
    o.append("")
    o.append("(** the denotation of each name is the real-valued definition of that name *)")
    o.append("Lemma den_table_ok : Forall (fun p => den (fst p) = snd p) den_table.")
    o.append("Proof.")
    o.append("  unfold den_table.")
    o.append("  repeat (apply Forall_cons; [cbv [den lookup den_table fst snd String.eqb Ascii.eqb Bool.eqb]; reflexivity|]).")
    o.append("  apply Forall_nil.")
    o.append("Qed.")
    o.append("")
    o.append("(** unfolds every constant down to literals (dependents first) *)")
    o.append("Ltac unfold_units := unfold " + ", ".join(PREFIX + n for n in reversed(dependency_order(defs))) + " in *.")
    o.append("")
    o.append(f"Definition n_constants : nat := {len(defs)}.")
    o.append("Lemma defs_length : length defs = n_constants.  Proof. reflexivity. Qed.")
    o.append("")
    return "\n".join(o)


def regenerate(repo, coqdir):
    """writes coq/Gen_C20_Units.v if its content changed; returns a log string ('' = unchanged)"""
    defs = parse_source(os.path.join(repo, "src", "Natural_Units.cpp"))
    hn = header_names(os.path.join(repo, "include", "libphysica", "Natural_Units.hpp"))
    dn = [n for n, _, _ in defs]
    if sorted(hn) != sorted(dn):
        miss = sorted(set(hn) - set(dn)); extra = sorted(set(dn) - set(hn))
        raise TranslateError(f"Natural_Units.hpp and Natural_Units.cpp disagree on the set of constants: declared only {miss}, defined only {extra}")
    txt = emit_coq(defs)
    out = os.path.join(coqdir, "Gen_C20_Units.v")
    old = open(out).read() if os.path.exists(out) else None
    if old == txt:
        return ""
    with open(out + ".tmp", "w") as f: f.write(txt)
    os.replace(out + ".tmp", out)
    return f"Gen_C20_Units.v regenerated ({len(defs)} constants)"


# ------------------------------------------------------------------ reference evaluation
def _dec(fr):
    return Decimal(fr.numerator) / Decimal(fr.denominator)


def eval_exact(defs):
    """order-free denotation: name -> Fraction (sqrt, pi, non-integer pow through 60-digit Decimal)"""
    getcontext().prec = 60
    by = {n: a for n, a, _ in defs}
    memo, active = {}, set()

    def ev(a):
        k = a[0]
        if k == "lit": return a[1]
        if k == "pi": return Fraction(Decimal(PI60))
        if k == "ref": return val(a[1])
        if k == "add": return ev(a[1]) + ev(a[2])
        if k == "sub": return ev(a[1]) - ev(a[2])
        if k == "mul": return ev(a[1]) * ev(a[2])
        if k == "div":
            d = ev(a[2])
            if d == 0: raise TranslateError("division by zero in the denotation")
            return ev(a[1]) / d
        if k == "neg": return -ev(a[1])
        if k == "sqrt":
            x = ev(a[1])
            if x < 0: raise TranslateError("sqrt of a negative value in the denotation")
            return Fraction(_dec(x).sqrt())
        if k == "powz":
            x = ev(a[1])
            if x == 0 and a[2] < 0: raise TranslateError("0 to a negative power in the denotation")
            return x ** a[2]
        if k == "powq":
            x = ev(a[1])
            if x <= 0: raise TranslateError("non-integer power of a non-positive value in the denotation")
            return Fraction((_dec(a[2]) * _dec(x).ln()).exp())
        raise TranslateError("internal: " + k)

    def val(n):
        if n in memo: return memo[n]
        if n in active: raise TranslateError("cyclic definition through " + n)
        active.add(n); memo[n] = ev(by[n]); active.discard(n)
        return memo[n]
    return {n: val(n) for n, _, _ in defs}


def _fdiv(x, y):
    if y == 0.0:
        if x == 0.0 or x != x: return math.nan
        return math.copysign(math.inf, x) * math.copysign(1.0, y)
    return x / y


def _fpow(x, y):
    try: return math.pow(x, y)
    except (OverflowError, ValueError): return math.inf if x != 0 else (math.inf if y < 0 else 0.0)


def eval_double(defs):
    """order-free evaluation in IEEE doubles, operation by operation as written in the source"""
    by = {n: a for n, a, _ in defs}
    memo = {}

    def ev(a):
        k = a[0]
        if k == "lit": return float(a[1])            # correctly rounded, like the compiler's conversion of the token
        if k == "pi": return math.pi                  # M_PI
        if k == "ref": return val(a[1])
        if k == "add": return ev(a[1]) + ev(a[2])
        if k == "sub": return ev(a[1]) - ev(a[2])
        if k == "mul": return ev(a[1]) * ev(a[2])
        if k == "div": return _fdiv(ev(a[1]), ev(a[2]))
        if k == "neg": return -ev(a[1])
        if k == "sqrt":
            x = ev(a[1]); return math.sqrt(x) if x >= 0 else math.nan
        if k == "powz": return _fpow(ev(a[1]), float(a[2]))
        if k == "powq": return _fpow(ev(a[1]), float(a[2]))
        raise TranslateError("internal: " + k)

    def val(n):
        if n not in memo: memo[n] = ev(by[n])
        return memo[n]
    return {n: val(n) for n, _, _ in defs}


def startup_double(defs, dynamic):
    """C++ start-up in doubles for a given set of dynamically initialised names: static constants hold their
    (order-free) folded value, dynamic ones are zero until their initialiser runs in textual order."""
    folded = eval_double(defs)
    env = {n: (0.0 if n in dynamic else folded[n]) for n, _, _ in defs}

    def ev(a):
        k = a[0]
        if k == "lit": return float(a[1])
        if k == "pi": return math.pi
        if k == "ref": return env[a[1]]
        if k == "add": return ev(a[1]) + ev(a[2])
        if k == "sub": return ev(a[1]) - ev(a[2])
        if k == "mul": return ev(a[1]) * ev(a[2])
        if k == "div": return _fdiv(ev(a[1]), ev(a[2]))
        if k == "neg": return -ev(a[1])
        if k == "sqrt":
            x = ev(a[1]); return math.sqrt(x) if x >= 0 else math.nan
        if k in ("powz", "powq"): return _fpow(ev(a[1]), float(a[2]))
    for n, a, _ in defs:
        if n in dynamic: env[n] = ev(a)
    return env


def n_roundings(defs):
    """number of rounded operations (literal conversions included) in the fully inlined initialiser of each constant"""
    by = {n: a for n, a, _ in defs}
    memo = {}

    def cnt(a):
        k = a[0]
        if k == "lit":
            return 0 if float(a[1]) == a[1] else 1
        if k == "pi": return 1
        if k == "ref": return val(a[1])
        if k in ("add", "sub", "mul", "div"): return cnt(a[1]) + cnt(a[2]) + 1
        if k == "neg": return cnt(a[1])
        if k == "sqrt": return cnt(a[1]) + 1
        if k == "powz": return abs(a[2]) * cnt(a[1]) + 1
        if k == "powq": return cnt(a[1]) + 2
        return 0

    def val(n):
        if n not in memo:
            memo[n] = 0; memo[n] = cnt(by[n])
        return memo[n]
    return {n: val(n) for n, _, _ in defs}


def safe_py(defs, dynamic):
    """the decidable check of C20_Model.safe, in Python, for diagnostics: returns None or a message"""
    seen = []
    for n, a, _ in defs:
        for r in refs(a):
            if n in dynamic:
                if r in dynamic and r not in seen:
                    return f"the dynamic initialiser of {n} reads {r}, which is initialised dynamically and textually later (still zero when {n} is computed)"
            elif r in dynamic:
                return f"{n} is initialised statically but reads the dynamically initialised {r}"
        if n in seen: return f"{n} defined twice"
        seen.append(n)
    return None


if __name__ == "__main__":
    repo = os.environ.get("VERIF_REPO", "/repo")
    here = os.path.dirname(os.path.dirname(os.path.abspath(__file__)))
    print(regenerate(repo, os.path.join(here, "coq")) or "unchanged")
