#!/usr/bin/env python3
"""Regenerates MANIFEST.json from the per-property check modules (checks/<ID>.py: LEVEL_TEXT, LEVEL_NOTE,
TECHNIQUE, DESIGN_REF) and validates it against the schema."""
import importlib, json, os, sys, glob
V = os.path.dirname(os.path.dirname(os.path.abspath(__file__)))
sys.path.insert(0, os.path.join(V, "tools")); sys.path.insert(0, os.path.join(V, "checks"))
props = [json.loads(l) for l in open(os.path.join(V, "properties.jsonl"))]
claimed = sorted(os.path.basename(f)[:-3] for f in glob.glob(os.path.join(V, "checks", "C*.py")))
hooks = []
import subprocess
r = subprocess.run(["git", "-C", "/repo", "log", "--format=%h %s"], stdout=subprocess.PIPE, text=True).stdout
hooks = [l.split()[0] for l in r.split("\n") if l[8:].startswith("verif hook")]
checks = []; na = []
for p in props:
    pid = p["id"]
    if pid in claimed:
        m = importlib.import_module(pid)
        if getattr(m, "DISABLED", None):
            na.append({"property_id": pid, "reason": m.DISABLED}); continue
        checks.append({
            "property_id": pid,
            "quick_cmd": f"bin/check {pid} --tier quick",
            "thorough_cmd": f"bin/check {pid} --tier thorough",
            "evidence_file": f"evidence/{pid}.json",
            "replay_cmd_template": f"bin/check {pid} --replay {{path}}",
            "engine": "coq-proof+correspondence",
            "level_claimed": {"category": getattr(m, "LEVEL", "proof"), "text": m.LEVEL_TEXT, "design_ref": getattr(m, "DESIGN_REF", f"DESIGN.md section 6 ({pid})")},
            "level_note": m.LEVEL_NOTE,
            "technique": getattr(m, "TECHNIQUE", "machine-checked proof in Coq 8.16.1 about a Gallina model + differential correspondence of the extracted model with the C++ implementation"),
        })
    else:
        na.append({"property_id": pid, "reason": "not claimed yet: the model, theorems and correspondence check for this property are still being built (see DESIGN.md section 6 for the plan); machine-checked proof does apply to its logic core"})
man = {
    "version": 1,
    "setup_cmd": "bin/setup",
    "hooks": {"guard": "LIBPHYSICA_VERIF", "enable": "checks compile /repo/src/*.cpp from the working tree with g++ -std=c++14 -O1 -ffp-contract=off -DLIBPHYSICA_VERIF (tools/vbuild.py)",
              "baseline_off_cmd": "bin/run_baseline.sh", "source_commits": hooks, "add_only": True},
    "engines": [{"name": "coq-proof+correspondence", "path": "tools/vcheck.py", "serves_properties": [c["property_id"] for c in checks],
                 "kind_free_text": "Coq 8.16.1 theorems about NumOps-polymorphic Gallina models (coq/), OCaml extraction of the same terms run against the C++ library on generated cases (harness/, ocaml/), implementation-side property predicates to find failing inputs (checks/)"}],
    "checks": checks,
    "not_applicable": na,
    "notes": "See DESIGN.md. known_findings.json lists repaired (fixed:) and known defects. bin/check <ID> --tier quick|thorough; VERIF_SEED selects the PRNG seed.",
}
json.dump(man, open(os.path.join(V, "MANIFEST.json"), "w"), indent=1)
try:
    import jsonschema
    jsonschema.validate(man, json.load(open("/root/.vp/MANIFEST.schema.json"))); print("MANIFEST.json valid:", len(checks), "claimed,", len(na), "not claimed")
except ImportError:
    print("written (jsonschema not available)")
