#!/usr/bin/env python3
"""tools/knowncheck.py [ID ...]: runs the quick check of each property with known findings (scratch output) and reports known findings
that did not print their KNOWN-FINDING line (their corpus case no longer reproduces them)."""
import glob, json, os, subprocess, sys, tempfile, shutil
V = os.path.dirname(os.path.dirname(os.path.abspath(__file__)))
ids = sys.argv[1:] or sorted(os.path.basename(p)[:-5] for p in glob.glob(os.path.join(V, "known_findings.d", "C*.json")))
bad = 0
for pid in ids:
    want = [f["id"] for f in json.load(open(os.path.join(V, "known_findings.d", pid + ".json")))["findings"] if f.get("status") == "known"]
    if not want: continue
    S = tempfile.mkdtemp(prefix="knowncheck.")
    r = subprocess.run([os.path.join(V, "bin", "check"), pid, "--tier", "quick"], env=dict(os.environ, VERIF_SCRATCH=S), stdout=subprocess.PIPE, stderr=subprocess.STDOUT, text=True)
    try: got = json.load(open(os.path.join(S, "evidence", pid + ".json")))["coverage"].get("known_findings_reproduced", [])
    except Exception: got = []
    shutil.rmtree(S, ignore_errors=True)
    miss = sorted(set(want) - set(got))
    print(pid, "exit", r.returncode, "known printed:", sorted(got), "MISSING:" if miss else "", miss or "")
    bad += len(miss) + (r.returncode != 0)
sys.exit(1 if bad else 0)
