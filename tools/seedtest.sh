#!/bin/bash
# tools/seedtest.sh <PROPERTY-ID> <patch.diff> [tier]
# Applies a seeded change to a private copy of /repo and runs the property's check against the copy
# (VERIF_REPO), with all outputs redirected to a scratch dir (VERIF_SCRATCH).  Prints CAUGHT / MISSED.
set -u
id=$1; patch=$(readlink -f "$2"); tier=${3:-quick}
S=$(mktemp -d /var/tmp/seedtest.XXXXXX)
trap 'rm -rf "$S"' EXIT
rsync -a --exclude _build --exclude .git /repo/ "$S/repo/"
( cd "$S/repo" && git init -q . >/dev/null 2>&1 && git apply --whitespace=nowarn "$patch" ) || { echo "PATCH-DOES-NOT-APPLY $patch"; exit 3; }
out=$(cd "${VERIF_HOME:-/verif}" && VERIF_REPO="$S/repo" VERIF_SCRATCH="$S/out" bin/check "$id" --tier "$tier" 2>&1); rc=$?
# a check with a T-tie regenerates coq/Gen_<ID>_*.v from VERIF_REPO: restore the files generated from the real tree
( cd "${VERIF_HOME:-/verif}" && python3 - "$id" <<'PY' >/dev/null 2>&1
import sys, importlib
sys.path[:0] = ["tools", "checks"]
m = importlib.import_module(sys.argv[1])
if hasattr(m, "regenerate"): m.regenerate()
PY
)
echo "$out" | grep -E "VIOLATION|KNOWN-FINDING|^\[|^  " | head -12
if [ $rc -ne 0 ] && echo "$out" | grep -q "^VIOLATION property=$id"; then
  if echo "$out" | grep -q "no-failing-input-found"; then echo "RESULT $id $(basename $patch): CAUGHT (no-failing-input-found)"; else echo "RESULT $id $(basename $patch): CAUGHT (failing input)"; fi
else echo "RESULT $id $(basename $patch): MISSED (exit $rc)"; fi
