#!/usr/bin/env python3
"""C16's extension of the T-tie translator tools/cxx2gallina.py (the shared file is not edited; this module wraps it).

Rotation_Matrix and both Spherical_Coordinates are not scalar formula functions (they take / return Vector and Matrix objects), but
their substance is straight-line: brace-initialised lists of double expressions over double locals.  This module regenerates exactly
those lists from clang's AST on every run:
  * the function is selected by name and parameter types (as in the base translator);
  * the leaf `InitListExpr`s of doubles of its body are taken in source order, each element translated by the base translator's
    expression translation E (same operation order, same functions);
  * `double` locals with an initialiser that the caller names become `let`s in front (in source order);
  * `obj[k]` for a Vector variable obj and an integer literal k (Vector::operator[], element k) is the Gallina variable `v_obj_k`;
  * the literal tokens `1.0` and `0.0` are `n1 Ops` and `n0 Ops` (the numbers one and zero of the number type, as the hand models write them);
  * everything else (loops, other statements inside the selected expressions, unknown calls) raises Unsupported; a variable that is
    neither a parameter of the generated definition nor one of its lets is rejected by Coq when the generated file is compiled.
The number of leaf lists found in each function is checked against what the caller expects: an added / removed list breaks the tie.
"""
import os, sys
sys.path.insert(0, os.path.dirname(os.path.abspath(__file__)))
import cxx2gallina as c
from cxx2gallina import Unsupported

SKIP = ("ImplicitCastExpr", "ParenExpr", "ExprWithCleanups", "MaterializeTemporaryExpr", "CXXBindTemporaryExpr", "ConstantExpr")


def strip(n):
    while n["kind"] in SKIP and n.get("inner"): n = n["inner"][-1] if n["kind"] == "ImplicitCastExpr" else n["inner"][0]
    return n


class Tr16(c.Tr):
    def lit(self, n, suffix=""):
        b = n["range"]["begin"]
        if "offset" in b:
            tok = self.src[b["offset"]: b["offset"] + b["tokLen"]]
            if tok == "1.0": return "(n1 Ops)"
            if tok == "0.0": return "(n0 Ops)"
        return super().lit(n, suffix)

    def E(self, n):
        if n["kind"] == "CXXOperatorCallExpr":
            opn, _ = self.callee(n["inner"][0])
            if opn == "operator[]" and len(n["inner"]) == 3:
                obj = strip(n["inner"][1]); idx = self.intval(n["inner"][2])
                if obj["kind"] == "DeclRefExpr" and idx is not None and "Vector" in c.qt(obj) and c.ty(n) == "double":
                    return f"v_{obj['referencedDecl']['name']}_{idx}"
            raise Unsupported(f"operator call {opn}")
        return super().E(n)


def _collect(n, lets, leaves):
    """double locals with an initialiser and leaf initialiser lists of doubles, in source order"""
    if not isinstance(n, dict): return
    k = n.get("kind")
    if k == "VarDecl" and c.ty(n) == "double" and n.get("inner"): lets.append((n["name"], n["inner"][-1]))
    if k == "InitListExpr" and n.get("inner") and all(c.ty(e) == "double" for e in n["inner"]):
        if not any(l is n for l in leaves) and not any(_same(l, n) for l in leaves): leaves.append(n)
        return
    for ch in n.get("inner", []): _collect(ch, lets, leaves)


def _same(a, b):
    """clang lists an initialiser list twice (syntactic and semantic form): same source range = same list"""
    return a.get("range") == b.get("range")


class Gen:
    """one generated definition: C++ function (name, parameter types), the leaf lists rows[...] of its body (indices in source order),
    the locals to put in front as lets, the parameters (Gallina variable names, all of type T), the Gallina name; matrix = list of rows"""
    def __init__(self, cname, ptypes, nleaves, rows, lets, params, gname, matrix):
        self.cname, self.ptypes, self.nleaves, self.rows, self.lets, self.params, self.gname, self.matrix = cname, tuple(ptypes), nleaves, rows, lets, params, gname, matrix


def translate(src, gens, incs):
    text = open(src).read()
    out = [c.PRELUDE % os.path.join("src", os.path.basename(src)) + "\nFrom Coq Require Import List.\nImport ListNotations.\n"]
    docs = {}
    for g in gens:
        if g.cname not in docs: docs[g.cname] = c.clang_ast(src, g.cname, incs)
        cands = []
        for d in docs[g.cname]:
            if d.get("kind") == "FunctionDecl" and d.get("name") == g.cname and any(x.get("kind") == "CompoundStmt" for x in d.get("inner", [])):
                ps = [p for p in d["inner"] if p["kind"] == "ParmVarDecl"]
                if tuple(c.ty(p) for p in ps) == g.ptypes: cands.append(d)
        if len(cands) != 1: raise Unsupported(f"{len(cands)} definitions of libphysica::{g.cname}({', '.join(g.ptypes)}) found in {src}")
        body = [x for x in cands[0]["inner"] if x["kind"] == "CompoundStmt"][0]
        lets, leaves = [], []
        _collect(body, lets, leaves)
        if len(leaves) != g.nleaves: raise Unsupported(f"libphysica::{g.cname}: {len(leaves)} initialiser lists of doubles, {g.nleaves} expected")
        tr = Tr16(text, [])
        ld = dict(lets)
        for name in g.lets:
            if name not in ld: raise Unsupported(f"libphysica::{g.cname}: no double local `{name}` with an initialiser")
        rows = ["[" + "; ".join(tr.E(e) for e in leaves[i]["inner"]) + "]" for i in g.rows]
        if tr.hoist: raise Unsupported("a call that can terminate the process inside an initialiser list")
        term = ("[" + ";\n   ".join(rows) + "]") if g.matrix else rows[0]
        for name, init in reversed([(n, i) for n, i in lets if n in g.lets]):
            term = f"let v_{name} := {tr.E(init)} in\n  {term}"
        ps = " ".join(f"({p} : T)" for p in g.params)
        rt = "list (list T)" if g.matrix else "list T"
        out.append(f"(* libphysica::{g.cname}({', '.join(g.ptypes)}), line {cands[0].get('loc', {}).get('line', '?')}: initialiser lists {g.rows} *)\n"
                   f"Definition {g.gname} {{T : Type}} (Ops : NumOps T) {ps} : {rt} :=\n  {term}.\n")
    return "\n".join(out)


VEC = "libphysica::Vector"


def c16_gens():
    return [
        Gen("Rotation_Matrix", ["double", "int", VEC], 5, [0, 1], ["cosa", "sina"], ["v_alpha"], "g_rot2", True),
        Gen("Rotation_Matrix", ["double", "int", VEC], 5, [2, 3, 4], ["cosa", "sina", "n1", "n2", "n3"],
            ["v_alpha", "v_axis_0", "v_axis_1", "v_axis_2"], "g_rot3", True),
        Gen("Spherical_Coordinates", ["double", "double", "double"], 1, [0], [], ["v_r", "v_theta", "v_phi"], "g_sph", False),
        Gen("Spherical_Coordinates", ["double", "double", "double", VEC], 2, [0], [], ["v_r", "v_theta", "v_phi"], "g_sph_antiparallel", False),
        Gen("Spherical_Coordinates", ["double", "double", "double", VEC], 2, [1], ["cos_theta", "sin_theta", "cos_phi", "sin_phi"],
            ["v_theta", "v_phi", "v_ev_0", "v_ev_1", "v_ev_2", "v_aux"], "g_sph_unit", False),
    ]


def regenerate_c16(repo, coqdir):
    text = translate(os.path.join(repo, "src", "Linear_Algebra.cpp"), c16_gens(), [os.path.join(repo, "include")])
    return c.write_if_changed(os.path.join(coqdir, "Gen_C16_Formulas.v"), text)


if __name__ == "__main__":
    sys.stdout.write(translate(os.path.join(sys.argv[1], "src", "Linear_Algebra.cpp"), c16_gens(), [os.path.join(sys.argv[1], "include")]))
