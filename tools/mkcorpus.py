#!/usr/bin/env python3
"""tools/mkcorpus.py [ID ...]: makes sure corpus/<ID>/known.case holds one reproducing case for every known finding of the property
(known_findings.d/<ID>.json, status known), so that every run exercises it and prints its KNOWN-FINDING line.  Cases are harvested from
runs of the check itself (evidence.coverage.known_findings_cases) over several seeds, in a scratch directory."""
import glob, json, os, subprocess, sys, tempfile, shutil
V = os.path.dirname(os.path.dirname(os.path.abspath(__file__)))
ids = sys.argv[1:] or sorted(os.path.basename(p)[:-5] for p in glob.glob(os.path.join(V, "known_findings.d", "C*.json")))
for pid in ids:
    want = [f["id"] for f in json.load(open(os.path.join(V, "known_findings.d", pid + ".json")))["findings"] if f.get("status") == "known"]
    if not want: continue
    cf = os.path.join(V, "corpus", pid, "known.case")
    have = {}
    if os.path.exists(cf):
        cur = None; pend = ""
        for l in open(cf).read().split("\n"):
            if l.startswith("# "): cur = l[2:].split()[0]; pend = ""
            elif l.startswith("#info "): pend = l + "\n"
            elif l.strip() and cur: have[cur] = pend + l; pend = ""
    have = {k: v for k, v in have.items() if k in want}
    S = tempfile.mkdtemp(prefix="mkcorpus.")
    for seed in range(1, 13):
        if all(k in have for k in want): break
        subprocess.run([os.path.join(V, "bin", "check"), pid, "--tier", "quick"], env=dict(os.environ, VERIF_SEED=str(seed), VERIF_SCRATCH=S), stdout=subprocess.DEVNULL, stderr=subprocess.DEVNULL)
        try: kc = json.load(open(os.path.join(S, "evidence", pid + ".json")))["coverage"].get("known_findings_cases", {})
        except Exception: kc = {}
        for k, v in kc.items():
            if k in want and k not in have and len(v["case"]) < 20000:
                have[k] = (("#info " + json.dumps(v["info"], default=str) + "\n") if v.get("info") else "") + v["case"]
    shutil.rmtree(S, ignore_errors=True)
    os.makedirs(os.path.dirname(cf), exist_ok=True)
    with open(cf, "w") as f:
        for k in want:
            if k in have: f.write(f"# {k} (a reproducing case of this known finding; runs first on every run)\n{have[k]}\n")
    print(pid, "corpus cases for", sorted(have), "missing", sorted(set(want) - set(have)))
