"""Build helpers shared by all checks: compile /repo's current working tree (hooks on) into a
static library cached by content hash, and link per-property harnesses against it."""
import hashlib, os, subprocess, sys, shutil, glob, fcntl, time, re
from concurrent.futures import ThreadPoolExecutor

VERIF = os.path.dirname(os.path.dirname(os.path.abspath(__file__)))
REPO = os.environ.get("VERIF_REPO", "/repo")
BUILD = os.path.join(VERIF, "build")
GUARD = "LIBPHYSICA_VERIF"
BASE_FLAGS = ["-std=c++14", "-O1", "-g0", "-ffp-contract=off", "-fno-fast-math", "-D" + GUARD, "-w"]

def sh(cmd, **kw):
    return subprocess.run(cmd, stdout=subprocess.PIPE, stderr=subprocess.STDOUT, text=True, **kw)

def tree_hash(extra=""):
    h = hashlib.sha1()
    files = sorted(glob.glob(os.path.join(REPO, "src", "*.cpp")) + glob.glob(os.path.join(REPO, "include", "**", "*"), recursive=True))
    for f in files:
        if os.path.isfile(f):
            h.update(f.encode()); h.update(open(f, "rb").read())
    h.update(extra.encode())
    return h.hexdigest()[:16]

class Lock:
    def __init__(self, name):
        os.makedirs(BUILD, exist_ok=True)
        self.p = os.path.join(BUILD, name + ".lock")
    def __enter__(self):
        self.f = open(self.p, "w"); fcntl.flock(self.f, fcntl.LOCK_EX); return self
    def __exit__(self, *a):
        fcntl.flock(self.f, fcntl.LOCK_UN); self.f.close()

def _version_hpp(dst):
    src = os.path.join(REPO, "include", "version.hpp.in")
    s = open(src).read() if os.path.exists(src) else ""
    s = re.sub(r"@PROJECT_SOURCE_DIR@|@CMAKE_SOURCE_DIR@", BUILD + "/scratch", s)
    s = re.sub(r"@[A-Za-z_]+@", "verif", s)
    open(dst, "w").write(s)

def build_lib(cxx="g++", extra_flags=(), tag="base"):
    """Returns (libdir, log). libdir has libphysica.a and version.hpp. Raises RuntimeError on compile failure."""
    flags = BASE_FLAGS + list(extra_flags)
    key = tree_hash(cxx + " ".join(flags))
    d = os.path.join(BUILD, "lib", tag + "-" + key)
    with Lock("lib-" + tag):
        if os.path.exists(os.path.join(d, "libphysica.a")):
            os.utime(d)
            return d
        # prune old caches of the same tag
        # (entries are touched on every use; only ones unused for hours go, so that concurrent runs against other trees keep theirs)
        olds = sorted(glob.glob(os.path.join(BUILD, "lib", tag + "-*")), key=os.path.getmtime)
        for k, o in enumerate(olds[:-2]):
            age = time.time() - os.path.getmtime(o)
            if age > 4 * 3600 or (len(olds) - k > 30 and age > 900): shutil.rmtree(o, ignore_errors=True)
        tmp = d + ".tmp"
        shutil.rmtree(tmp, ignore_errors=True); os.makedirs(tmp)
        _version_hpp(os.path.join(tmp, "version.hpp"))
        srcs = sorted(glob.glob(os.path.join(REPO, "src", "*.cpp")))
        def comp(s):
            o = os.path.join(tmp, os.path.basename(s)[:-4] + ".o")
            r = sh([cxx] + flags + ["-I", os.path.join(REPO, "include"), "-I", tmp, "-c", s, "-o", o])
            return (s, r.returncode, r.stdout)
        with ThreadPoolExecutor(8) as ex:
            res = list(ex.map(comp, srcs))
        bad = [r for r in res if r[1] != 0]
        if bad:
            msg = "\n".join(f"{s}:\n{out[-3000:]}" for s, rc, out in bad)
            shutil.rmtree(tmp, ignore_errors=True)
            raise RuntimeError("libphysica does not compile:\n" + msg)
        objs = sorted(glob.glob(os.path.join(tmp, "*.o")))
        r = sh(["ar", "rcs", os.path.join(tmp, "libphysica.a")] + objs)
        if r.returncode != 0:
            raise RuntimeError("ar failed: " + r.stdout)
        for o in objs: os.remove(o)
        shutil.rmtree(d, ignore_errors=True)
        os.rename(tmp, d)
    return d

def build_harness(src, libdir, cxx="g++", extra_flags=(), out=None):
    """Compile one harness .cpp (under /verif/harness) against libdir. Cached by hash of harness sources."""
    flags = BASE_FLAGS + list(extra_flags)
    hdir = os.path.join(VERIF, "harness")
    h = hashlib.sha1()
    for f in sorted(glob.glob(os.path.join(hdir, "*.hpp"))) + [src]:
        h.update(open(f, "rb").read())
    h.update((libdir + cxx + " ".join(flags)).encode())
    key = h.hexdigest()[:16]
    name = os.path.basename(src)[:-4]
    odir = os.path.join(BUILD, "h"); os.makedirs(odir, exist_ok=True)
    exe = out or os.path.join(odir, f"{name}-{key}")
    with Lock("h-" + name):
        if os.path.exists(exe):
            os.utime(exe); return exe
        cached = sorted(glob.glob(os.path.join(odir, name + "-*")), key=os.path.getmtime)
        for k, o in enumerate(cached[:-2]):
            # a binary another run may be using right now (other tree, other compiler, other flags) stays: only ones unused for hours go,
            # and beyond 60 entries the oldest ones that have not been touched for a quarter of an hour
            age = time.time() - os.path.getmtime(o)
            if age > 4 * 3600 or (len(cached) - k > 60 and age > 900):
                try: os.remove(o)
                except OSError: pass
        r = sh([cxx] + flags + ["-I", os.path.join(REPO, "include"), "-I", libdir, "-I", hdir, src,
                os.path.join(libdir, "libphysica.a"), "-lconfig++", "-o", exe + ".tmp"])
        if r.returncode != 0:
            raise RuntimeError(f"harness {name} does not compile against the current tree:\n" + r.stdout[-4000:])
        os.rename(exe + ".tmp", exe)
    return exe

if __name__ == "__main__":
    t = time.time(); print(build_lib(), round(time.time() - t, 1), "s")
