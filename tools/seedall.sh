#!/bin/bash
# tools/seedall.sh [tier] [seed-name ...] : runs every confirmed seeded change (seeded/<ID>-<X>/patch.diff) against the
# check of its property on a private copy of /repo and writes seeded/RESULTS.md + updates meta.json "detected_by".
cd "$(dirname "$0")/.." || exit 2
tier=${1:-quick}; shift
names="$*"; [ -n "$names" ] || names=$(ls seeded | grep -E '^C[0-9]+-[A-Z]$')
out=seeded/RESULTS.md
tmp=$(mktemp)
for s in $names; do
  id=${s%-*}
  [ -f checks/$id.py ] || { echo "| $s | $id | (no check yet) | |" >>"$tmp"; continue; }
  if grep -q '"retired"' seeded/$s/meta.json 2>/dev/null; then echo "$s: retired (skipped)"; continue; fi
  r=$(timeout 1800 tools/seedtest.sh "$id" "seeded/$s/patch.diff" "$tier" 2>&1)
  res=$(echo "$r" | grep "^RESULT" | sed "s/^RESULT [^:]*: //"); [ -n "$res" ] || { echo "$r" | grep -q PATCH-DOES-NOT-APPLY && res="PATCH DOES NOT APPLY TO HEAD" || res="NO RESULT (timeout or crash)"; }
  why=$(echo "$r" | grep -A1 "^VIOLATION" | tail -1 | sed 's/^ *//' | cut -c1-160 | tr '|' '/')
  echo "| $s | $id | $res | $why |" >>"$tmp"
  python3 - "$s" "$res" "$why" "$tier" <<'PY'
import json, sys
s, res, why, tier = sys.argv[1:5]
p = f"seeded/{s}/meta.json"
m = json.load(open(p)); m["detected_by"] = {"check": f"bin/check {s.split('-')[0]} --tier {tier}", "result": res, "first_report": why}
json.dump(m, open(p, "w"), indent=1)
PY
  echo "$s: $res"
done
{ echo "# Seeded changes vs checks (tier: $tier, $(date -u +%F))"; echo; echo "| seeded change | property | result of its property's check | first report |"; echo "|---|---|---|---|"; sort "$tmp"; } > "$out.new"
if [ -n "$*" ] && [ -f "$out" ]; then  # partial run: merge
  python3 - "$out" "$out.new" <<'PY'
import sys
old, new = open(sys.argv[1]).read().split("\n"), open(sys.argv[2]).read().split("\n")
rows = {l.split("|")[1].strip(): l for l in old if l.startswith("| C")}
rows.update({l.split("|")[1].strip(): l for l in new if l.startswith("| C")})
head = [l for l in new if not l.startswith("| C")]
open(sys.argv[1], "w").write("\n".join([l for l in head if l.strip() or True][:4] + [rows[k] for k in sorted(rows)]) + "\n")
PY
  rm -f "$out.new"
else mv "$out.new" "$out"; fi
rm -f "$tmp"
