#!/usr/bin/env python3
"""C17's extension of the T-tie translator (tools/cxx2gallina.py is imported and subclassed, not edited).

Additional subset, on top of the extended mode of cxx2gallina (Ext callees as parameters, M_PI as pi_c, rbind sequencing):
 * local `unsigned int` declarations; `static const double/int` locals with an initialiser (a `let`; a `const int` with an integer
   literal is also remembered as a loop bound); a `double`/`int` local declared without an initialiser (no binding: it must be assigned
   before it is read, otherwise the generated file does not compile);
 * assignment statements `v = e;` and `v op= e;` (op in + - * /) on double / int variables and parameters: a `let` that shadows `v`
   (sound because statements are translated in continuation style: what follows an `if` is duplicated into both branches);
 * `int(e)` / implicit double -> int conversion: `ntrunc Ops e`;
 * pow(double, double) is ALWAYS `npow` (the hand model of Round uses npow; no integer-exponent special case);
 * `std::function<double(double)> f = [captures](double x) { return e; };` : `let v_f := (fun v_x => e) in`; such a variable passed to an
   Ext whose parameter type is std::function<double (double)> (Gallina type T -> T);
 * ONE `static std::vector<double> c(N)` local per function: explicit state.  The function takes the table at entry as the parameter
   `v_c : list T` (after the Ext parameters) and returns the pair (table at exit, result); `c[i] = e` is `gupd v_c (Z.to_nat i) e`,
   a read `c[i]` is `nth (Z.to_nat i) v_c (nofZ Ops 0)`;
 * counted loops `for(int i = LIT; i < BOUND; i++ [, v op= e]...) body` with BOUND an integer literal or a remembered `const int`:
   unrolled (body, then the other increment expressions, BOUND - LIT times, with `let v_i := k`); the body must not assign `i`.
Anything else raises Unsupported, as in the shared translator."""
import json, os, sys
sys.path.insert(0, os.path.dirname(os.path.abspath(__file__)))
import cxx2gallina as c
from cxx2gallina import Unsupported, Fn, Ext, qt, write_if_changed

FUN = "std::function<double (double)>"
VALUE_T = "__gnu_cxx::__alloc_traits<std::allocator<double>, double>::value_type"
CASTS = ("ImplicitCastExpr", "ParenExpr", "CStyleCastExpr", "CXXStaticCastExpr", "CXXFunctionalCastExpr")

_orig_ty_of_qual = c.ty_of_qual


def ty_of_qual17(q):
    q0 = q.replace("const ", "").replace("&", "").strip()
    if q0 == VALUE_T: return "double"
    if q0 in ("std::vector::size_type", "std::vector<double>::size_type", "size_t", "std::size_t"): return "uint"
    return _orig_ty_of_qual(q)


def is_vec(q):
    return q.replace("const ", "").replace("&", "").strip() == "std::vector<double>"


def strip(n):
    while n.get("kind") in CASTS + ("ExprWithCleanups", "MaterializeTemporaryExpr", "CXXBindTemporaryExpr"): n = n["inner"][-1]
    return n


def find(n, kind):
    if isinstance(n, dict):
        if n.get("kind") == kind: return n
        for ch in n.get("inner", []):
            r = find(ch, kind)
            if r is not None: return r
    return None


def int_decl(name, k):
    t = {"qualType": "int"}
    return {"kind": "DeclStmt", "inner": [{"kind": "VarDecl", "name": name, "type": t, "inner": [{"kind": "IntegerLiteral", "type": t, "value": str(k)}]}]}


class Tr17(c.Tr):
    def __init__(self, src_text, fns, exts=(), pi=False):
        super().__init__(src_text, fns, exts, pi)
        self.consts = {}
        self.state = None

    def ty(self, n): return c.ty(n)

    def is_state_index(self, n):
        """n = c[idx] with c the state vector -> idx node, else None"""
        if n.get("kind") != "CXXOperatorCallExpr": return None
        opn, _ = self.callee(n["inner"][0])
        if opn != "operator[]": return None
        base = strip(n["inner"][1])
        if base.get("kind") != "DeclRefExpr" or base["referencedDecl"].get("name") != self.state or self.state is None:
            raise Unsupported("operator[] on something that is not the static table")
        idx = n["inner"][2]
        while idx["kind"] == "ImplicitCastExpr" and idx.get("castKind") in ("IntegralCast", "LValueToRValue") and self.ty(idx) != "int": idx = idx["inner"][-1]
        if self.ty(idx) != "int": raise Unsupported("table index that is not an int")
        return idx

    def E(self, n):
        k = n["kind"]
        if k in CASTS and n.get("castKind") == "FloatingToIntegral":
            if self.ty(n) != "int" or self.ty(n["inner"][-1]) != "double": raise Unsupported("double -> integer conversion other than to int")
            return f"(ntrunc Ops {self.E(n['inner'][-1])})"
        if k == "CallExpr":
            f, _ = self.callee(n["inner"][0]); raw = n["inner"][1:]
            if f == "pow" and [self.ty(a) for a in raw] == ["double", "double"]:
                return f"(npow Ops {self.E(raw[0])} {self.E(raw[1])})"
        if k == "CXXConstructExpr" and FUN in qt(n):
            args = [a for a in n["inner"] if a["kind"] != "CXXDefaultArgExpr"]
            if len(args) != 1: raise Unsupported("std::function constructor")
            return self.E(args[0])
        if k == "DeclRefExpr" and FUN in qt(n) and n["referencedDecl"]["kind"] == "VarDecl":
            return self.var(n["referencedDecl"]["name"])
        if k == "LambdaExpr":
            rec = [x for x in n["inner"] if x["kind"] == "CXXRecordDecl"]
            body = [x for x in n["inner"] if x["kind"] == "CompoundStmt"]
            if len(rec) != 1 or len(body) != 1: raise Unsupported("lambda shape")
            op = [m for m in rec[0].get("inner", []) if m["kind"] == "CXXMethodDecl" and m.get("name") == "operator()"]
            if len(op) != 1: raise Unsupported("lambda without operator()")
            ps = [p for p in op[0].get("inner", []) if p["kind"] == "ParmVarDecl"]
            if [self.ty(p) for p in ps] != ["double"] or not qt(op[0]).startswith("double (double)"): raise Unsupported("lambda that is not double(double)")
            st = body[0].get("inner", [])
            if len(st) != 1 or st[0]["kind"] != "ReturnStmt": raise Unsupported("lambda body that is not a single return")
            mark = len(self.hoist); e = self.E(st[0]["inner"][0])
            if len(self.hoist) > mark: raise Unsupported("call that can terminate the process inside a lambda")
            return f"(fun {self.var(ps[0]['name'])} => {e})"
        if k == "CXXOperatorCallExpr":
            opn, _ = self.callee(n["inner"][0])
            if opn == "operator[]":
                idx = self.is_state_index(n)
                return f"(nth (Z.to_nat {self.E(idx)}) {self.var(self.state)} (nofZ Ops (0)%Z))"
        return super().E(n)

    # ---------- statements
    def ret(self, e, fn):
        return f"({self.var(fn.statevar)}, {e})" if getattr(fn, "statevar", None) else e

    def assign(self, s, rest, knext, kbreak, fn):
        lhs, rhs = s["inner"]; op = s["opcode"]
        mark = len(self.hoist); R = self.E(rhs)
        if len(self.hoist) > mark and not fn.exits: raise Unsupported("call that can terminate the process in a function that cannot")
        if lhs.get("kind") == "CXXOperatorCallExpr":
            if op != "=": raise Unsupported("compound assignment to a table entry")
            idx = self.E(self.is_state_index(lhs)); v = self.var(self.state)
            new = f"(gupd {v} (Z.to_nat {idx}) {R})"
        else:
            l = strip(lhs)
            if l.get("kind") != "DeclRefExpr" or l["referencedDecl"]["kind"] not in ("VarDecl", "ParmVarDecl"): raise Unsupported("assignment target")
            t = self.ty(l); v = self.var(l["referencedDecl"]["name"])
            if l["referencedDecl"]["name"] in self.consts or "const" in qt(l): raise Unsupported("assignment to a constant")
            if op == "=":
                if t not in ("double", "int") or self.ty(rhs) != t: raise Unsupported(f"assignment of a {self.ty(rhs)} to a {t}")
                new = R
            else:
                m = {"+=": "nadd", "-=": "nsub", "*=": "nmul", "/=": "ndiv"}
                if t != "double" or self.ty(rhs) != "double" or op not in m: raise Unsupported(f"compound assignment {op} on {t}")
                new = f"({m[op]} Ops {v} {R})"
        out_rest = self.S(rest, knext, kbreak, fn)
        return self.wrap(f"(let {v} := {new} in {out_rest})", mark)

    def assigns_var(self, n, name):
        if isinstance(n, dict):
            if n.get("kind") in ("CompoundAssignOperator",) or (n.get("kind") == "BinaryOperator" and n.get("opcode") == "=") or \
               (n.get("kind") == "UnaryOperator" and n.get("opcode") in ("++", "--")):
                t = strip(n["inner"][0])
                if t.get("kind") == "DeclRefExpr" and t["referencedDecl"].get("name") == name: return True
            return any(self.assigns_var(ch, name) for ch in n.get("inner", []))
        return False

    def S(self, stmts, knext, kbreak, fn):
        if not stmts: return knext
        s, rest = stmts[0], stmts[1:]
        k = s.get("kind")
        if k == "ReturnStmt" and getattr(fn, "statevar", None):
            mark = len(self.hoist); e = self.E(s["inner"][0])
            if len(self.hoist) > mark: raise Unsupported("call that can terminate the process in a function with a static table")
            return self.ret(e, fn)
        if k == "CompoundAssignOperator" or (k == "BinaryOperator" and s.get("opcode") == "="):
            return self.assign(s, rest, knext, kbreak, fn)
        if k == "BinaryOperator" and s.get("opcode") == ",":
            return self.S(list(s["inner"]) + rest, knext, kbreak, fn)
        if k == "DeclStmt":
            binds = []      # (declaration, how)
            for d in s["inner"]:
                if d["kind"] != "VarDecl": raise Unsupported("declaration that is not a variable")
                q = qt(d); t = self.ty(d); static = "static" in d.get("storageClass", "")
                if static and is_vec(q):
                    if self.state is not None or getattr(fn, "statevar", None) != d["name"]: raise Unsupported("more than one static table")
                    init = find(d, "CXXConstructExpr")
                    args = [a for a in (init or {}).get("inner", []) if a["kind"] != "CXXDefaultArgExpr"]
                    if len(args) != 1: raise Unsupported("static table that is not constructed from its size")
                    self.state = d["name"]; continue
                if static and "const" not in q: raise Unsupported("static local that is neither const nor the table")
                if "inner" not in d:
                    if t in ("double", "int") and not static: continue          # declared, assigned later
                    raise Unsupported(f"local declaration {d.get('name')} : {q} without an initialiser")
                if FUN in q: binds.append(d); continue
                if t not in ("int", "uint", "double", "bool"): raise Unsupported(f"local declaration {d.get('name')} : {q}")
                if "const" in q and t == "int":
                    v = self.intval(d["inner"][0])
                    if v is not None: self.consts[d["name"]] = v
                binds.append(d)
            out_rest = self.S(rest, knext, kbreak, fn)
            for d in reversed(binds):
                mark = len(self.hoist); ee = self.E(d["inner"][0])
                if len(self.hoist) > mark and not fn.exits: raise Unsupported("call that can terminate the process in a function that cannot")
                out_rest = self.wrap(f"(let {self.var(d['name'])} := {ee} in {out_rest})", mark)
            return out_rest
        if k == "ForStmt":
            parts = s["inner"]
            if len(parts) != 5 or parts[1].get("kind"): raise Unsupported("for statement shape")
            init, _, cond, inc, body = parts
            ds = init.get("inner", []) if init.get("kind") == "DeclStmt" else []
            if len(ds) != 1 or self.ty(ds[0]) != "int" or "inner" not in ds[0]: raise Unsupported("for initialiser")
            i = ds[0]["name"]; lo = self.intval(ds[0]["inner"][0])
            if lo is None: raise Unsupported("for lower bound")
            if cond.get("kind") != "BinaryOperator" or cond.get("opcode") != "<": raise Unsupported("for condition")
            a, b = (strip(x) for x in cond["inner"])
            if a.get("kind") != "DeclRefExpr" or a["referencedDecl"]["name"] != i: raise Unsupported("for condition")
            if b.get("kind") == "DeclRefExpr" and b["referencedDecl"]["name"] in self.consts: hi = self.consts[b["referencedDecl"]["name"]]
            else:
                hi = self.intval(b)
                if hi is None: raise Unsupported("for upper bound is not a literal or a const int")
            incs = []
            def flat(e):
                if e.get("kind") == "BinaryOperator" and e.get("opcode") == ",": flat(e["inner"][0]); flat(e["inner"][1])
                else: incs.append(e)
            flat(inc)
            steps = [e for e in incs if e.get("kind") == "UnaryOperator" and e.get("opcode") == "++" and strip(e["inner"][0]).get("referencedDecl", {}).get("name") == i]
            others = [e for e in incs if e not in steps]
            if len(steps) != 1 or any(self.assigns_var(e, i) for e in others) or self.assigns_var(body, i): raise Unsupported("for increment")
            if any(e.get("kind") != "CompoundAssignOperator" for e in others): raise Unsupported("for increment expression")
            if hi - lo > 64: raise Unsupported("loop too long to unroll")
            un = []
            for kk in range(lo, hi): un += [int_decl(i, kk), body] + others
            return self.S(un + rest, knext, kbreak, fn)
        return super().S(stmts, knext, kbreak, fn)


PRELUDE = """(* GENERATED by tools/cxx2gallina_C17.py from %s -- do not edit; regenerated on every run of the check. *)
From Coq Require Import ZArith Bool List.
From LP Require Import Num.
Local Open Scope Z_scope.

Definition gu32 (k : Z) : Z := k mod 4294967296.
(* c[i] = v on a std::vector<double> held as a list *)
Fixpoint gupd {T : Type} (l : list T) (i : nat) (v : T) : list T :=
  match l, i with
  | nil, _ => nil
  | _ :: t, O => v :: t
  | h :: t, S i' => h :: gupd t i' v
  end.
"""


def translate_all17(src, fns, incs, exts=(), pi=False):
    c.ty_of_qual = ty_of_qual17
    gt = dict(c.GTYPE); c.GTYPE[FUN] = "(T -> T)"
    try:
        text = open(src).read()
        docs = {name: c.clang_ast(src, name, incs) for name in sorted(set(f.cname for f in fns))}
        for f in fns:
            cands = []
            for d in docs[f.cname]:
                if d.get("kind") == "FunctionDecl" and d.get("name") == f.cname and any(x.get("kind") == "CompoundStmt" for x in d.get("inner", [])):
                    ps = [p for p in d["inner"] if p["kind"] == "ParmVarDecl"]
                    if tuple(c.ty(p) for p in ps) == f.ptypes and "libphysica" in json.dumps(d.get("loc", {})) + d.get("mangledName", ""): cands.append(d)
            if len(cands) != 1: raise Unsupported(f"{len(cands)} definitions of libphysica::{f.cname}({', '.join(f.ptypes)}) found in {src}")
            d = cands[0]; f.decl = d; f.exits = c.contains_exit(d)
            called = c.refs(d, set())
            if any(x.exits and x.cname in called for x in exts): f.exits = True
            f.rtype = c.ty_of_qual(qt(d).split("(")[0])
            if f.rtype not in ("int", "double", "bool"): raise Unsupported(f"{f.cname} returns {f.rtype}")
            f.params = [(p["name"], c.ty(p)) for p in d["inner"] if p["kind"] == "ParmVarDecl"]
            f.statevar = None
            def scan(n):
                if isinstance(n, dict):
                    if n.get("kind") == "VarDecl" and "static" in n.get("storageClass", "") and is_vec(qt(n)):
                        if f.statevar is not None: raise Unsupported("more than one static table")
                        f.statevar = n["name"]
                    for ch in n.get("inner", []): scan(ch)
            scan(d)
            if f.statevar and f.exits: raise Unsupported("static table in a function that can terminate the process")
        def ext_type(x):
            r = c.GTYPE[x.rtype]; r = f"res {r}" if x.exits else r
            return " -> ".join([c.GTYPE[t] for t in x.ptypes] + [r])
        lead = "".join(["(pi_c : T) "] * bool(pi) + [f"({x.vname} : {ext_type(x)}) " for x in exts])
        out = [PRELUDE % os.path.join("src", os.path.basename(src))]
        for f in fns:
            tr = Tr17(text, fns, exts, pi)
            body = [x for x in f.decl["inner"] if x["kind"] == "CompoundStmt"][0]
            g = tr.S(body.get("inner", []), "FALLOFF", None, f)
            if "FALLOFF" in g: raise Unsupported(f"control can reach the end of {f.cname} without a return")
            ps = lead + (f"({tr.var(f.statevar)} : list T) " if f.statevar else "") + " ".join(f"({tr.var(n)} : {c.GTYPE[t]})" for n, t in f.params)
            rt = c.GTYPE[f.rtype]
            if f.statevar: rt = f"(list T * {rt})"
            if f.exits: rt = f"res {rt}"
            out.append(f"(* {qt(f.decl)}  libphysica::{f.cname} *)\nDefinition {f.gname} {{T : Type}} (Ops : NumOps T) {ps} : {rt} :=\n  {g}.\n")
        return "\n".join(out)
    finally:
        c.ty_of_qual = _orig_ty_of_qual
        c.GTYPE.clear(); c.GTYPE.update(gt)


def more_functions():
    d = "double"
    fns = [Fn("Round", [d, "uint"], "g_Round"), Fn("Dawson_Integral", [d], "g_Dawson_Integral"), Fn("Erfi", [d], "g_Erfi"), Fn("Inv_Erf", [d], "g_Inv_Erf")]
    exts = [Ext("Sign", [d], "sign_f", "int", False), Ext("Sign", [d, d], "sign2_f", d, False), Ext("Dawson_Integral", [d], "dawson_f", d, False),
            Ext("Find_Root", [FUN, d, d, d], "find_root_f", d, True)]
    return fns, exts


def regenerate_more(repo, coqdir):
    fns, exts = more_functions()
    txt = translate_all17(os.path.join(repo, "src", "Special_Functions.cpp"), fns, [os.path.join(repo, "include")], exts, True)
    return write_if_changed(os.path.join(coqdir, "Gen_C17_More.v"), txt)


if __name__ == "__main__":
    repo = sys.argv[1] if len(sys.argv) > 1 else os.environ.get("VERIF_REPO", "/repo")
    here = os.path.dirname(os.path.dirname(os.path.abspath(__file__)))
    print("changed" if regenerate_more(repo, os.path.join(here, "coq")) else "unchanged")
