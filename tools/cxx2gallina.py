#!/usr/bin/env python3
"""T-tie translator (DESIGN.md 2.3): clang JSON AST of straight-line "formula" functions of libphysica ->
Gallina definitions polymorphic in the number type (record NumOps of coq/Num.v).

Supported subset: parameters and results of type int / double / bool / std::complex<double>; local
`double`/`int` declarations with an initialiser (as `let`); unary/binary arithmetic and comparisons on int and
double; && || !; `?:`; if / else-if / return chains; `switch` on an int whose cases end in return/break;
calls to sqrt fabs exp log sin cos acos floor erf pow std::min std::max and to other functions translated in
the same run; std::complex construction from one or two doubles, the `1.0i` literal, unary minus and
* / + - between complex and double / complex and complex; the int->double casts clang makes explicit;
`std::cerr << ...` statements are skipped (diagnostics are not modelled); a call of std::exit is the outcome Exit.
Anything else raises Unsupported: the tie is broken and the check reports it.

Literals are emitted as `nlit Ops num den m e`: num/den is the exact decimal value of the source token,
m * 2^e the double the compiler rounds it to (computed by Python's float()).
"""
import json, math, os, re, subprocess, sys
from concurrent.futures import ThreadPoolExecutor
from fractions import Fraction


class Unsupported(Exception):
    pass


def clang_ast(src, flt, incs):
    cmd = ["clang++", "-std=c++14", "-fsyntax-only", "-w"] + [f"-I{i}" for i in incs] + [
        "-Xclang", "-ast-dump=json", "-Xclang", f"-ast-dump-filter={flt}", src]
    r = subprocess.run(cmd, stdout=subprocess.PIPE, stderr=subprocess.PIPE, text=True)
    if r.returncode != 0:
        raise Unsupported(f"clang cannot parse {src}: {r.stderr[-1500:]}")
    out = r.stdout
    dec = json.JSONDecoder(); i = 0; docs = []
    while i < len(out):
        while i < len(out) and out[i].isspace(): i += 1
        if i >= len(out): break
        o, i = dec.raw_decode(out, i); docs.append(o)
    return docs


def qt(n):
    return n.get("type", {}).get("qualType", "")


def ty_of_qual(q):
    q = q.replace("const ", "").replace("&", "").strip()
    if q == "int": return "int"
    if q in ("unsigned int", "unsigned long", "unsigned long int", "unsigned"): return "uint"
    if q == "double": return "double"
    if q == "bool": return "bool"
    if "complex<double>" in q: return "complex"
    return q


def ty(n):
    return ty_of_qual(qt(n))


GTYPE = {"int": "Z", "uint": "Z", "double": "T", "bool": "bool", "complex": "(T * T)"}


def lit_of_token(tok):
    """decimal floating literal token -> 'nlit Ops num den m e'"""
    if not re.fullmatch(r"([0-9]+\.?[0-9]*|\.[0-9]+)([eE][-+]?[0-9]+)?", tok):
        raise Unsupported(f"literal token {tok!r}")
    q = Fraction(tok)
    f = float(tok)
    if math.isinf(f): raise Unsupported(f"literal {tok} overflows")
    if f == 0.0:
        if q != 0: raise Unsupported(f"literal {tok} underflows")
        m, e = 0, 0
    else:
        mant, ex = math.frexp(f); m = int(mant * (1 << 53)); e = ex - 53
        while m % 2 == 0: m //= 2; e += 1
    return f"(nlit Ops ({q.numerator}) ({q.denominator}) ({m}) ({e}))"


def contains_exit(n):
    if isinstance(n, dict):
        if n.get("kind") == "DeclRefExpr" and n.get("referencedDecl", {}).get("name") == "exit": return True
        return any(contains_exit(c) for c in n.get("inner", []))
    return False


class Fn:
    """one function to translate: C++ name, parameter types (selects the overload), Gallina name"""
    def __init__(self, cname, ptypes, gname):
        self.cname, self.ptypes, self.gname = cname, tuple(ptypes), gname
        self.decl = None; self.exits = False; self.rtype = None; self.params = []


class Ext:
    """a library function the translated code merely calls (another property's territory): it becomes a
    parameter `vname` of every generated definition; exits=True: it returns `res T` and a call is sequenced with rbind"""
    def __init__(self, cname, ptypes, vname, rtype="double", exits=True):
        self.cname, self.ptypes, self.vname, self.rtype, self.exits = cname, tuple(ptypes), vname, rtype, exits


class Tr:
    def __init__(self, src_text, fns, exts=(), pi=False):
        self.src = src_text; self.fns = fns; self.exts = list(exts); self.pi = pi
        self.hoist = []; self.nh = 0        # calls that can terminate the process, hoisted out of the current expression

    def lead(self):
        """the parameters every generated definition takes after Ops (extended mode only)"""
        return (["pi_c"] if self.pi else []) + [x.vname for x in self.exts]

    def wrap(self, body, mark):
        """sequence the calls hoisted since `mark` (in order of appearance) in front of `body` (a res-typed term)"""
        hs = self.hoist[mark:]; del self.hoist[mark:]
        for v, call in reversed(hs): body = f"(rbind {call} (fun {v} => {body}))"
        return body

    def intval(self, n):
        """the integer value of a literal expression (possibly under casts / parentheses), or None"""
        while n["kind"] in ("ImplicitCastExpr", "ParenExpr", "CStyleCastExpr", "CXXStaticCastExpr", "CXXFunctionalCastExpr"): n = n["inner"][-1]
        if n["kind"] == "IntegerLiteral": return int(n["value"])
        if n["kind"] == "FloatingLiteral" and "offset" in n["range"]["begin"]:
            b = n["range"]["begin"]; tok = self.src[b["offset"]: b["offset"] + b["tokLen"]]
            try: q = Fraction(tok)
            except Exception: return None
            return int(q) if q.denominator == 1 and abs(q) < 1000 else None
        return None

    def var(self, name): return "v_" + name

    def lit(self, n, suffix=""):
        b = n["range"]["begin"]
        if "offset" not in b:
            x = b.get("expansionLoc", {})
            if self.pi and "offset" in x and self.src[x["offset"]: x["offset"] + x.get("tokLen", 0)] == "M_PI": return "pi_c"
            raise Unsupported("literal without a source offset (macro?)")
        tok = self.src[b["offset"]: b["offset"] + b["tokLen"]]
        if suffix and tok.endswith(suffix): tok = tok[:-len(suffix)]
        return lit_of_token(tok)

    def callee(self, n):
        """the DeclRefExpr under the function-to-pointer decay"""
        while n["kind"] in ("ImplicitCastExpr", "ParenExpr"): n = n["inner"][0]
        if n["kind"] != "DeclRefExpr": raise Unsupported(f"callee {n['kind']}")
        return n["referencedDecl"]["name"], qt(n)

    # ---------- expressions
    def E(self, n):
        k = n["kind"]
        if k in ("ImplicitCastExpr", "CStyleCastExpr", "CXXStaticCastExpr", "CXXFunctionalCastExpr"):
            ck = n.get("castKind"); inner = n["inner"][-1]
            if ck in ("LValueToRValue", "NoOp", "ConstructorConversion"): return self.E(inner)
            if ck == "IntegralToFloating":
                if ty(inner) not in ("int", "uint"): raise Unsupported(f"int->double cast of a {ty(inner)}")
                return f"(nofZ Ops {self.E(inner)})"
            if ck == "IntegralCast" and ty(n) == "uint" and ty(inner) in ("int", "uint"):
                v = self.intval(inner)
                return self.E(inner) if ty(inner) == "uint" or (v is not None and v >= 0) else f"(gu32 {self.E(inner)})"
            if ck == "IntegralCast" and ty(n) == "int" and ty(inner) == "uint":
                return self.E(inner)          # unsigned -> int: the identity below 2^31 (the case protocols stay below it)
            raise Unsupported(f"cast {ck} from {qt(inner)} to {qt(n)}")
        if k in ("ParenExpr", "ExprWithCleanups", "MaterializeTemporaryExpr", "ConstantExpr", "CXXBindTemporaryExpr"):
            return self.E(n["inner"][0])
        if k == "IntegerLiteral":
            if ty(n) not in ("int", "uint"): raise Unsupported(f"integer literal of type {qt(n)}")
            return f"({n['value']})%Z"
        if k == "FloatingLiteral":
            if ty(n) != "double": raise Unsupported(f"floating literal of type {qt(n)}")
            return self.lit(n)
        if k == "CXXBoolLiteralExpr": return "true" if n["value"] else "false"
        if k == "DeclRefExpr":
            d = n["referencedDecl"]
            if d["kind"] not in ("ParmVarDecl", "VarDecl"): raise Unsupported(f"reference to a {d['kind']}")
            if ty(n) not in GTYPE: raise Unsupported(f"variable of type {qt(n)}")
            return self.var(d["name"])
        if k == "UserDefinedLiteral":            # 1.0i
            f = [c for c in n["inner"] if c["kind"] == "FloatingLiteral"]
            if not f or ty(n) != "complex": raise Unsupported("user-defined literal")
            return f"(n0 Ops, {self.lit(f[0], 'i')})"
        if k == "CXXConstructExpr" and ty(n) == "complex":
            args = [a for a in n["inner"] if a["kind"] != "CXXDefaultArgExpr"]
            if len(args) == 1 and ty(args[0]) == "complex": return self.E(args[0])
            if len(args) == 1 and ty(args[0]) == "double": return f"({self.E(args[0])}, n0 Ops)"
            if len(args) == 2 and ty(args[0]) == "double" and ty(args[1]) == "double": return f"({self.E(args[0])}, {self.E(args[1])})"
            raise Unsupported("complex constructor")
        if k == "UnaryOperator":
            a = n["inner"][0]; op = n["opcode"]; t = ty(n)
            if op == "-" and t == "int": return f"(Z.opp {self.E(a)})"
            if op == "-" and t == "double": return f"(nneg Ops {self.E(a)})"
            if op == "+" and t in ("int", "double"): return self.E(a)
            if op == "!" and t == "bool": return f"(negb {self.E(a)})"
            raise Unsupported(f"unary {op} on {t}")
        if k == "BinaryOperator":
            a, b = n["inner"]; op = n["opcode"]; ta, tb = ty(a), ty(b)
            A, B = self.E(a), self.E(b)
            if op in ("&&", "||") and ta == "bool" and tb == "bool": return f"({'andb' if op == '&&' else 'orb'} {A} {B})"
            if ta == "int" and tb == "int":
                m = {"+": "Z.add", "-": "Z.sub", "*": "Z.mul", "/": "Z.quot", "%": "Z.rem", "==": "Z.eqb",
                     "<": "Z.ltb", "<=": "Z.leb", ">": "Z.gtb", ">=": "Z.geb"}
                if op == "!=": return f"(negb (Z.eqb {A} {B}))"
                if op in m: return f"({m[op]} {A} {B})"
            if ta == "uint" and tb == "uint":
                m = {"/": "Z.quot", "%": "Z.rem", "==": "Z.eqb", "<": "Z.ltb", "<=": "Z.leb", ">": "Z.gtb", ">=": "Z.geb"}
                w = {"+": "Z.add", "-": "Z.sub", "*": "Z.mul"}
                if op == "!=": return f"(negb (Z.eqb {A} {B}))"
                if op in m: return f"({m[op]} {A} {B})"
                if op in w: return f"(gu32 ({w[op]} {A} {B}))"
            if ta == "double" and tb == "double":
                m = {"+": "nadd", "-": "nsub", "*": "nmul", "/": "ndiv", "<": "nltb", "<=": "nleb", "==": "neqb"}
                if op == ">": return f"(nltb Ops {B} {A})"
                if op == ">=": return f"(nleb Ops {B} {A})"
                if op == "!=": return f"(negb (neqb Ops {A} {B}))"
                if op in m: return f"({m[op]} Ops {A} {B})"
            raise Unsupported(f"binary {op} on {ta}, {tb}")
        if k == "ConditionalOperator":
            c, a, b = n["inner"]
            return f"(if {self.E(c)} then {self.E(a)} else {self.E(b)})"
        if k == "CallExpr":
            f, fq = self.callee(n["inner"][0]); raw = n["inner"][1:]; args = [self.E(a) for a in raw]
            ats = [ty(a) for a in raw]
            m = {"sqrt": "nsqrt", "fabs": "nabs", "exp": "nexp", "log": "nln", "log10": "nlog10", "sin": "nsin", "cos": "ncos",
                 "acos": "nacos", "floor": "nfloor", "erf": "nerf"}
            if f in m and ats == ["double"]: return f"({m[f]} Ops {args[0]})"
            if f == "pow" and ats == ["double", "double"] and (self.exts or self.pi):
                # extended mode: an integer-valued exponent (a literal such as 2.0, or an integer expression converted to double) is npowi
                e = raw[1]
                while e["kind"] in ("ParenExpr",): e = e["inner"][0]
                v = self.intval(e)
                if v is not None and e["kind"] != "ImplicitCastExpr": return f"(npowi Ops {args[0]} ({v})%Z)"
                if e["kind"] == "ImplicitCastExpr" and e.get("castKind") == "IntegralToFloating": return f"(npowi Ops {args[0]} {self.E(e['inner'][-1])})"
            if f == "pow" and ats == ["double", "double"]: return f"(npow Ops {args[0]} {args[1]})"
            if f in ("max", "min") and ats == ["double", "double"]: return f"(n{f} Ops {args[0]} {args[1]})"
            for x in self.exts:
                if x.cname == f and list(x.ptypes) == ats:
                    call = f"({x.vname} {' '.join(args)})"
                    if not x.exits: return call
                    self.nh += 1; v = f"h{self.nh}"; self.hoist.append((v, call)); return v
            for g in self.fns:
                if g.cname == f and list(g.ptypes) == ats:
                    call = f"({g.gname} Ops {' '.join(self.lead() + args)})"
                    if g.exits:
                        if not (self.exts or self.pi): raise Unsupported(f"call of {f}, which can terminate the process, inside an expression")
                        self.nh += 1; v = f"h{self.nh}"; self.hoist.append((v, call)); return v
                    return call
            raise Unsupported(f"call of {f}({', '.join(ats)})")
        if k == "CXXOperatorCallExpr":
            opn, _ = self.callee(n["inner"][0]); raw = n["inner"][1:]
            ts = [ty(a) for a in raw]; xs = [self.E(a) for a in raw]
            name = {"operator*": "mul", "operator/": "div", "operator+": "add", "operator-": "sub"}.get(opn)
            if name and len(raw) == 2:
                if ts == ["complex", "complex"]: return f"(c{name} Ops {xs[0]} {xs[1]})"
                if ts == ["complex", "double"]: return f"(c{name}_r Ops {xs[0]} {xs[1]})"
                if ts == ["double", "complex"]: return f"(r{name}_c Ops {xs[0]} {xs[1]})"
            if opn == "operator-" and ts == ["complex"]: return f"(cneg Ops {xs[0]})"
            raise Unsupported(f"operator {opn} on {ts}")
        raise Unsupported(f"expression {k}")

    # ---------- statements in continuation style (knext = what follows, kbreak = what follows the switch)
    def S(self, stmts, knext, kbreak, fn):
        if not stmts: return knext
        s, rest = stmts[0], stmts[1:]
        k = s["kind"]
        if k == "ReturnStmt":
            mark = len(self.hoist); e = self.E(s["inner"][0])
            if len(self.hoist) > mark and not fn.exits: raise Unsupported("call that can terminate the process in a function that cannot")
            return self.wrap(f"Ok {e}", mark) if fn.exits else e
        if k == "BreakStmt":
            if kbreak is None: raise Unsupported("break outside switch")
            return kbreak
        if k == "NullStmt": return self.S(rest, knext, kbreak, fn)
        if k == "CompoundStmt": return self.S(s.get("inner", []) + rest, knext, kbreak, fn)
        if k == "DeclStmt":
            out_rest = self.S(rest, knext, kbreak, fn)
            for d in reversed(s["inner"]):
                if d["kind"] != "VarDecl" or ty(d) not in ("int", "double", "bool") or "inner" not in d:
                    raise Unsupported(f"local declaration {d.get('name')} : {qt(d)}")
                if "static" in d.get("storageClass", ""): raise Unsupported("static local")
                mark = len(self.hoist); ee = self.E(d['inner'][0])
                if len(self.hoist) > mark and not fn.exits: raise Unsupported("call that can terminate the process in a function that cannot")
                out_rest = self.wrap(f"(let {self.var(d['name'])} := {ee} in {out_rest})", mark)
            return out_rest
        if k == "IfStmt":
            parts = s["inner"]
            if s.get("hasVar") or s.get("hasInit"): raise Unsupported("if with declaration")
            mark = len(self.hoist); c = self.E(parts[0])
            if len(self.hoist) > mark: raise Unsupported("call that can terminate the process in a condition")
            after = self.S(rest, knext, kbreak, fn)
            th = self.S([parts[1]], after, kbreak, fn)
            el = self.S([parts[2]], after, kbreak, fn) if len(parts) > 2 else after
            return f"(if {c} then {th} else {el})"
        if k == "SwitchStmt":
            scrut = self.E(s["inner"][0])
            if ty(s["inner"][0]) != "int": raise Unsupported("switch on a non-int")
            body = s["inner"][1].get("inner", []); after = self.S(rest, knext, kbreak, fn)
            groups = []; cur = None
            for b in body:
                if b["kind"] == "CaseStmt":
                    cur = [b["inner"][0], [b["inner"][1]]]; groups.append(cur)
                elif b["kind"] == "DefaultStmt":
                    cur = [None, [b["inner"][0]]]; groups.append(cur)
                elif cur is None: raise Unsupported("statement before the first case label")
                else: cur[1].append(b)
            if groups and any(lab is None for lab, _ in groups[:-1]): raise Unsupported("default label is not last")
            out = after
            for lab, ss in reversed(groups):
                br = self.S(ss, "FALLTHROUGH", after, fn)
                if "FALLTHROUGH" in br: raise Unsupported("case falls through into the next label")
                out = br if lab is None else f"(if Z.eqb {scrut} {self.E(lab)} then {br} else {out})"
            return out
        if k == "CallExpr":
            f, _ = self.callee(s["inner"][0])
            if f == "exit": return "Exit"
            raise Unsupported(f"statement call {f}")
        if k == "CXXOperatorCallExpr" and "ostream" in qt(s):
            return self.S(rest, knext, kbreak, fn)          # diagnostics are not modelled
        raise Unsupported(f"statement {k}")


PRELUDE = """(* GENERATED by tools/cxx2gallina.py from %s -- do not edit; regenerated on every run of the check. *)
From Coq Require Import ZArith Bool.
From LP Require Import Num.
Local Open Scope Z_scope.

(* std::complex<double> as a pair (re, im); the operations libstdc++ performs component-wise *)
Section Cplx.
Context {T : Type} (Ops : NumOps T).
Definition cneg (z : T * T) : T * T := (nneg Ops (fst z), nneg Ops (snd z)).
Definition cadd (a b : T * T) : T * T := (nadd Ops (fst a) (fst b), nadd Ops (snd a) (snd b)).
Definition csub (a b : T * T) : T * T := (nsub Ops (fst a) (fst b), nsub Ops (snd a) (snd b)).
Definition cmul (a b : T * T) : T * T :=
  (nsub Ops (nmul Ops (fst a) (fst b)) (nmul Ops (snd a) (snd b)), nadd Ops (nmul Ops (fst a) (snd b)) (nmul Ops (snd a) (fst b))).
Definition cmul_r (z : T * T) (r : T) : T * T := (nmul Ops (fst z) r, nmul Ops (snd z) r).
Definition cdiv_r (z : T * T) (r : T) : T * T := (ndiv Ops (fst z) r, ndiv Ops (snd z) r).
Definition rmul_c (r : T) (z : T * T) : T * T := (nmul Ops r (fst z), nmul Ops r (snd z)).
Definition cadd_r (z : T * T) (r : T) : T * T := (nadd Ops (fst z) r, snd z).
Definition csub_r (z : T * T) (r : T) : T * T := (nsub Ops (fst z) r, snd z).
Definition radd_c (r : T) (z : T * T) : T * T := (nadd Ops r (fst z), snd z).
End Cplx.
"""


def refs(n, acc):
    if isinstance(n, dict):
        if n.get("kind") == "DeclRefExpr": acc.add(n.get("referencedDecl", {}).get("name"))
        for c in n.get("inner", []): refs(c, acc)
    return acc


def translate_all(src, fns, incs, exts=(), pi=False):
    """fns: list of Fn, callees before callers.  Returns the text of the generated .v file.
    Extended mode (exts non-empty or pi=True): every generated definition takes, after Ops, the parameter pi_c (the
    macro M_PI) when pi=True and one parameter per Ext; unsigned arithmetic wraps (gu32); pow with an integer-valued
    exponent is npowi; calls that can terminate the process are sequenced with rbind in order of appearance."""
    text = open(src).read()
    filters = sorted(set(f.cname for f in fns))
    with ThreadPoolExecutor(len(filters)) as ex:
        docs = dict(zip(filters, ex.map(lambda flt: clang_ast(src, flt, incs), filters)))
    for f in fns:
        cands = []
        for d in docs[f.cname]:
            if d.get("kind") == "FunctionDecl" and d.get("name") == f.cname and any(c.get("kind") == "CompoundStmt" for c in d.get("inner", [])):
                ps = [p for p in d["inner"] if p["kind"] == "ParmVarDecl"]
                if tuple(ty(p) for p in ps) == f.ptypes and "libphysica" in json.dumps(d.get("loc", {})) + d.get("mangledName", ""):
                    cands.append(d)
        if len(cands) != 1:
            raise Unsupported(f"{len(cands)} definitions of libphysica::{f.cname}({', '.join(f.ptypes)}) found in {src}")
        d = cands[0]
        f.decl = d; f.exits = contains_exit(d)
        called = refs(d, set())
        if any(x.exits and x.cname in called for x in exts) or any(g.exits and g.cname in called for g in fns if g is not f and g.decl is not None):
            f.exits = True
        f.rtype = ty_of_qual(qt(d).split("(")[0])
        if f.rtype not in GTYPE: raise Unsupported(f"{f.cname} returns {f.rtype}")
        f.params = [(p["name"], ty(p)) for p in d["inner"] if p["kind"] == "ParmVarDecl"]
        for p in d["inner"]:
            if p["kind"] == "ParmVarDecl" and "inner" in p and False: pass
    tr = Tr(text, fns, exts, pi)
    out = [PRELUDE % os.path.join("src", os.path.basename(src))]
    if exts or pi: out.append("Definition gu32 (k : Z) : Z := k mod 4294967296.\n")
    def ext_type(x):
        r = GTYPE[x.rtype]; r = f"res {r}" if x.exits else r
        return " -> ".join([GTYPE[t] for t in x.ptypes] + [r])
    lead = "".join(["(pi_c : T) "] * bool(pi) + [f"({x.vname} : {ext_type(x)}) " for x in exts])
    for f in fns:
        body = [c for c in f.decl["inner"] if c["kind"] == "CompoundStmt"][0]
        g = tr.S(body.get("inner", []), "FALLOFF", None, f)
        if "FALLOFF" in g: raise Unsupported(f"control can reach the end of {f.cname} without a return")
        ps = lead + " ".join(f"({tr.var(n)} : {GTYPE[t]})" for n, t in f.params)
        rt = GTYPE[f.rtype]
        if f.exits: rt = f"res {rt}"
        line = f.decl.get("loc", {}).get("line", "?")
        out.append(f"(* {qt(f.decl)}  libphysica::{f.cname} *)\n"
                   f"Definition {f.gname} {{T : Type}} (Ops : NumOps T) {ps} : {rt} :=\n  {g}.\n")
    return "\n".join(out)


def c17_functions():
    return [Fn("Sign", ["double"], "g_Sign"),
            Fn("Sign", ["double", "double"], "g_Sign2"),
            Fn("StepFunction", ["double"], "g_StepFunction"),
            Fn("Relative_Difference", ["double", "double"], "g_Relative_Difference"),
            Fn("Floats_Equal", ["double", "double", "double"], "g_Floats_Equal"),
            Fn("VSH_Y_Component", ["int"] * 5, "g_VSH_Y_Component"),
            Fn("VSH_Psi_Component", ["int"] * 5, "g_VSH_Psi_Component")]


def write_if_changed(path, content):
    old = open(path).read() if os.path.exists(path) else None
    if old == content: return False
    with open(path + ".tmp", "w") as f: f.write(content)
    os.replace(path + ".tmp", path)
    return True


def regenerate_c17(repo, coqdir, extra_incs=()):
    src = os.path.join(repo, "src", "Special_Functions.cpp")
    txt = translate_all(src, c17_functions(), [os.path.join(repo, "include")] + list(extra_incs))
    return write_if_changed(os.path.join(coqdir, "Gen_C17_Formulas.v"), txt)


if __name__ == "__main__":
    repo = sys.argv[1] if len(sys.argv) > 1 else os.environ.get("VERIF_REPO", "/repo")
    here = os.path.dirname(os.path.dirname(os.path.abspath(__file__)))
    print("changed" if regenerate_c17(repo, os.path.join(here, "coq")) else "unchanged")
