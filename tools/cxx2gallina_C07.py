#!/usr/bin/env python3
"""C07's extension of the T-tie translator tools/cxx2gallina.py (the shared file is not edited; this module wraps it).

Additional subset (extended mode of the base translator: external callees are parameters, M_PI is pi_c, unsigned ints
are Z with gu32 wrap), everything checked on the AST and refused (Unsupported) otherwise:
  * parameters of type std::vector<double> (`list T`), std::vector<unsigned long> (`list Z`), std::pair<double,double>
    (`T * T`, `.first` = fst, `.second` = snd), by value or by (const) reference, never assigned in a loop;
    `v.size()` is `Z.of_nat (length v)`, `v.empty()` is `Nat.eqb (length v) 0`, `v[e]` is `nth (Z.to_nat e) v default`
    (default n0 / 0: every translated index is below the loop bound v.size() or a size checked equal to it);
    `std::vector<double>(n, e)` is `repeat e (Z.to_nat n)`;
  * unsigned locals with an initialiser (a `let`);
  * `if(c) v = e;` without else on a by-value vector parameter: `let v := if c then e else v in ...`;
  * counted loops  `for(unsigned i = A; i <= B; i++) acc OP= e;`  and  `... i < B ...`  with OP in += -= and acc a double
    local, i not assigned in the body, B not depending on acc or i:
        pure function   : let acc := g_forp (fun i acc => acc OP e) A n acc in ...
        function that can terminate the process (calls in e are sequenced with rbind in order of appearance):
                          rbind (g_for (fun i acc => ... Ok (acc OP e)) A n acc) (fun acc => ...)
    with n = Z.to_nat (B + 1 - A) resp. Z.to_nat (B - A) iterations (unsigned arguments stay below 2^31: no wrap of i).
    g_for / g_forp are the two fixed combinators defined at the head of the generated file (nat fuel = trip count).
"""
import os, sys
sys.path.insert(0, os.path.dirname(os.path.abspath(__file__)))
import cxx2gallina as c
from cxx2gallina import Unsupported, Fn, Ext

_base_ty_of_qual = c.ty_of_qual
_base_qt = c.qt


def qt07(n):
    t = n.get("type", {})
    return t.get("desugaredQualType") or t.get("qualType", "")


def ty_of_qual07(q):
    q0 = q.replace("const ", "").replace("&", "").replace("class ", "").replace("struct ", "").strip()
    q1 = q0.replace(" ", "")
    if q1 in ("std::vector<double>", "std::vector<double,std::allocator<double>>", "vector<double>"): return "vecd"
    if q1 in ("std::vector<unsignedlong>", "std::vector<unsignedlong,std::allocator<unsignedlong>>", "std::vector<unsignedlongint>",
              "std::vector<unsignedlongint,std::allocator<unsignedlongint>>"): return "vecu"
    if q1 in ("std::pair<double,double>", "pair<double,double>"): return "paird"
    if q0 in ("unsigned long int",): return "uint"
    return _base_ty_of_qual(q)


GT07 = {"vecd": "(list T)", "vecu": "(list Z)", "paird": "(T * T)"}
SKIP = ("ImplicitCastExpr", "ParenExpr", "ExprWithCleanups", "MaterializeTemporaryExpr", "CXXBindTemporaryExpr", "ConstantExpr")

COMBINATORS = """
(* counted loops: i runs from its start value over n iterations; g_for for bodies that can terminate the process *)
Fixpoint g_for {A : Type} (body : Z -> A -> res A) (i : Z) (n : nat) (acc : A) : res A :=
  match n with O => Ok acc | S n' => rbind (body i acc) (fun a => g_for body (i + 1) n' a) end.
Fixpoint g_forp {A : Type} (body : Z -> A -> A) (i : Z) (n : nat) (acc : A) : A :=
  match n with O => acc | S n' => g_forp body (i + 1) n' (body i acc) end.
"""


def strip(n):
    while n["kind"] in SKIP and n.get("inner"): n = n["inner"][-1] if n["kind"] == "ImplicitCastExpr" else n["inner"][0]
    return n


def refs_var(n, name):
    if not isinstance(n, dict): return 0
    k = 1 if (n.get("kind") == "DeclRefExpr" and n.get("referencedDecl", {}).get("name") == name) else 0
    return k + sum(refs_var(ch, name) for ch in n.get("inner", []))


def member_call(n):
    if n["kind"] != "CXXMemberCallExpr": return None
    m = n["inner"][0]
    if m["kind"] != "MemberExpr": return None
    return m["name"], strip(m["inner"][0]), n["inner"][1:]


class Tr07(c.Tr):
    def vecname(self, n):
        n = strip(n)
        if n["kind"] == "DeclRefExpr" and c.ty(n) in ("vecd", "vecu") and n["referencedDecl"]["kind"] == "ParmVarDecl": return n["referencedDecl"]["name"], c.ty(n)
        raise Unsupported(f"vector expression {n['kind']}")

    def E(self, n):
        k = n["kind"]
        if k == "CXXMemberCallExpr":
            mc = member_call(n)
            if mc and mc[0] == "size" and not mc[2]: return f"(Z.of_nat (length {self.var(self.vecname(mc[1])[0])}))"
            if mc and mc[0] == "empty" and not mc[2]: return f"(Nat.eqb (length {self.var(self.vecname(mc[1])[0])}) 0)"
            raise Unsupported(f"member call {mc and mc[0]}")
        if k == "ImplicitCastExpr" and n.get("castKind") == "IntegralCast" and c.ty(n) == "uint" and c.ty(n["inner"][-1]) == "uint":
            return self.E(n["inner"][-1])                       # unsigned int <-> unsigned long: values stay below 2^31
        if k == "CXXOperatorCallExpr":
            opn, _ = self.callee(n["inner"][0])
            if opn == "operator[]":
                v, t = self.vecname(n["inner"][1]); idx = n["inner"][2]
                if c.ty(idx) != "uint": raise Unsupported("operator[] with a non-unsigned index")
                return f"(nth (Z.to_nat {self.E(idx)}) {self.var(v)} {'(n0 Ops)' if t == 'vecd' else '0%Z'})"
        if k == "MemberExpr":
            o = strip(n["inner"][0]); f = n["name"]
            if c.ty(o) != "paird" or o["kind"] != "DeclRefExpr" or f not in ("first", "second"): raise Unsupported(f"member {f} of a {c.qt(o)}")
            return f"({'fst' if f == 'first' else 'snd'} {self.var(o['referencedDecl']['name'])})"
        if k == "CallExpr":
            f, _ = self.callee(n["inner"][0]); raw = n["inner"][1:]
            if f == "exp" and [c.ty(a) for a in raw] == ["double"]: return f"(nexp Ops {self.E(raw[0])})"      # std::exp
        if k in ("CXXConstructExpr", "CXXTemporaryObjectExpr", "CXXFunctionalCastExpr") and c.ty(n) == "vecd":
            args = [a for a in n.get("inner", []) if a["kind"] != "CXXDefaultArgExpr"]
            if len(args) == 1 and args[0]["kind"] in ("CXXConstructExpr", "CXXTemporaryObjectExpr", "MaterializeTemporaryExpr", "CXXBindTemporaryExpr", "ImplicitCastExpr") and c.ty(args[0]) == "vecd":
                return self.E(args[0])
            if len(args) == 1 and strip(args[0])["kind"] == "DeclRefExpr" and c.ty(args[0]) == "vecd":
                return self.var(self.vecname(args[0])[0])                                                  # copy of a vector parameter
            if len(args) == 2 and c.ty(args[0]) == "uint" and c.ty(args[1]) == "double":
                return f"(repeat {self.E(args[1])} (Z.to_nat {self.E(args[0])}))"
            raise Unsupported("vector constructor")
        if k in ("MaterializeTemporaryExpr", "CXXBindTemporaryExpr") or (k == "ImplicitCastExpr" and c.ty(n) == "vecd"):
            return self.E(n["inner"][-1])
        return super().E(n)

    # ---------- counted loop
    def loop(self, s, fn):
        init, _, cond, inc, body = s["inner"]
        if not init or init["kind"] != "DeclStmt" or len(init["inner"]) != 1: raise Unsupported("for: init")
        iv = init["inner"][0]
        if c.ty(iv) != "uint" or "inner" not in iv: raise Unsupported("for: loop variable is not an initialised unsigned")
        a0 = self.intval(iv["inner"][0])
        if a0 is None or a0 < 0: raise Unsupported("for: start value is not a literal")
        i = iv["name"]
        if not (inc and inc["kind"] == "UnaryOperator" and inc["opcode"] == "++" and strip(inc["inner"][0]).get("referencedDecl", {}).get("name") == i): raise Unsupported("for: increment")
        if not (cond and cond["kind"] == "BinaryOperator" and cond["opcode"] in ("<", "<=") and strip(cond["inner"][0]).get("referencedDecl", {}).get("name") == i
                and c.ty(cond["inner"][0]) == "uint" and c.ty(cond["inner"][1]) == "uint"): raise Unsupported("for: condition")
        stmts = body.get("inner", []) if body["kind"] == "CompoundStmt" else [body]
        stmts = [strip(x) for x in stmts]
        if len(stmts) != 1: raise Unsupported("for: body is not a single statement")
        x = stmts[0]
        if x["kind"] != "CompoundAssignOperator" or x["opcode"] not in ("+=", "-=") or c.ty(x) != "double": raise Unsupported(f"for: body statement {x['kind']}")
        t = strip(x["inner"][0])
        if t["kind"] != "DeclRefExpr" or t["referencedDecl"]["kind"] != "VarDecl" or c.ty(t) != "double": raise Unsupported("for: accumulator")
        acc = t["referencedDecl"]["name"]
        if refs_var(cond["inner"][1], acc) or refs_var(cond["inner"][1], i): raise Unsupported("for: bound depends on the loop state")
        bound = self.E(cond["inner"][1])
        n = f"(Z.to_nat (Z.sub (Z.add {bound} 1) ({a0})))" if cond["opcode"] == "<=" else f"(Z.to_nat (Z.sub {bound} ({a0})))"
        op = "nadd" if x["opcode"] == "+=" else "nsub"
        mark = len(self.hoist); e = self.E(x["inner"][1])
        step = f"({op} Ops {self.var(acc)} {e})"
        if fn.exits:
            return acc, True, f"(g_for (fun {self.var(i)} {self.var(acc)} => {self.wrap('Ok ' + step, mark)}) ({a0}) {n} {self.var(acc)})"
        if len(self.hoist) > mark: raise Unsupported("call that can terminate the process in a function that cannot")
        return acc, False, f"(g_forp (fun {self.var(i)} {self.var(acc)} => {step}) ({a0}) {n} {self.var(acc)})"

    def S(self, stmts, knext, kbreak, fn):
        if not stmts: return knext
        s, rest = stmts[0], stmts[1:]
        s0 = strip(s) if s["kind"] in SKIP else s
        k = s0["kind"]
        if k == "ForStmt":
            acc, monadic, term = self.loop(s0, fn)
            after = self.S(rest, knext, kbreak, fn)
            return f"(rbind {term} (fun {self.var(acc)} => {after}))" if monadic else f"(let {self.var(acc)} := {term} in {after})"
        if k == "DeclStmt" and len(s0["inner"]) == 1 and s0["inner"][0]["kind"] == "VarDecl" and c.ty(s0["inner"][0]) == "uint":
            d = s0["inner"][0]
            if "inner" not in d: raise Unsupported("unsigned local without initialiser")
            mark = len(self.hoist); ee = self.E(d["inner"][0])
            if len(self.hoist) > mark: raise Unsupported("call that can terminate the process in an unsigned initialiser")
            return f"(let {self.var(d['name'])} := {ee} in {self.S(rest, knext, kbreak, fn)})"
        if k == "IfStmt" and len(s0["inner"]) == 2:
            th = strip(s0["inner"][1])
            if th["kind"] == "CompoundStmt" and len(th.get("inner", [])) == 1: th = strip(th["inner"][0])
            if th["kind"] == "CXXOperatorCallExpr" and self.callee(th["inner"][0])[0] == "operator=":
                v, t = self.vecname(th["inner"][1])
                pq = [p for p in fn.decl["inner"] if p["kind"] == "ParmVarDecl" and p["name"] == v]
                if t != "vecd" or not pq or "&" in c.qt(pq[0]): raise Unsupported("assignment to a vector that is not a by-value parameter")
                mark = len(self.hoist); cnd = self.E(s0["inner"][0]); e = self.E(th["inner"][2])
                if len(self.hoist) > mark: raise Unsupported("call that can terminate the process in a vector assignment")
                return f"(let {self.var(v)} := (if {cnd} then {e} else {self.var(v)}) in {self.S(rest, knext, kbreak, fn)})"
        return super().S([s0] + rest if s0 is not s else stmts, knext, kbreak, fn)


def translate_all(src, fns, incs, exts=(), pi=True):
    """cxx2gallina.translate_all (extended mode) with the C07 translator; the shared module's tables are restored afterwards"""
    saved = (c.ty_of_qual, c.Tr, dict(c.GTYPE), c.qt)
    try:
        c.ty_of_qual = ty_of_qual07; c.Tr = Tr07; c.GTYPE.update(GT07); c.qt = qt07
        txt = c.translate_all(src, fns, incs, exts, pi)
    finally:
        c.ty_of_qual, c.Tr, c.qt = saved[0], saved[1], saved[3]; c.GTYPE.clear(); c.GTYPE.update(saved[2])
    txt = txt.replace("From Coq Require Import ZArith Bool.", "From Coq Require Import ZArith Bool List.", 1)
    key = "Definition gu32 (k : Z) : Z := k mod 4294967296.\n"
    if key not in txt: raise Unsupported("generated prelude changed")
    return txt.replace(key, key + COMBINATORS, 1)
