#!/usr/bin/env python3
"""C19's extension of the T-tie translator tools/cxx2gallina.py (the shared file is not edited; this module wraps it).

Additional subset, all of it checked on the AST and refused (Unsupported) otherwise:
  * parameters / locals / results of type std::vector<double> (Gallina `list T`), std::vector<DataPoint> (`list (T * T)`:
    value = fst, weight = snd), DataPoint (`T * T`); `v.size()` is `Z.of_nat (length v)`; member access `.value` / `.weight`;
  * locals of unsigned type with an initialiser; assignments `x = e;` and `x += e;` to scalar locals (a `let` that shadows);
  * `std::accumulate(v.begin(), v.end(), init)` on a vector<double>: `fold_left (nadd Ops) v init`;
  * counted loops `for(unsigned i = 0; i < BOUND; i++) BODY` in two shapes:
      - element loop: BOUND is `v.size()` (or an unsigned local initialised by `v.size()` and never assigned), BODY a sequence of
        `acc += e;` on scalar double locals, `i` occurring only as `v[i]`: a `fold_left` over v whose state is the tuple of the
        accumulators, the statements of the body in source order as nested lets;
      - push_back loop: BOUND an unsigned parameter n, BODY `r.push_back(e);` with r a local vector<double>: `r ++ map (fun i => e) (seq 0 (Z.to_nat n))`,
        `i` inside e is `Z.of_nat i`;
  * `return {a, b, ...};` / `return std::vector<double>{a, b, ...};` : the list [a; b; ...]; `return r;` for a local vector;
  * pow(x, <integer-valued literal>) is npowi (as in the extended mode of the base translator).
"""
import os, sys
sys.path.insert(0, os.path.dirname(os.path.abspath(__file__)))
import cxx2gallina as c
from cxx2gallina import Unsupported, Fn, qt

_base_ty_of_qual = c.ty_of_qual


def ty_of_qual19(q):
    q0 = q.replace("const ", "").replace("&", "").replace("libphysica::", "").strip()
    if q0 in ("std::vector<double>", "vector<double>"): return "vecd"
    if q0 in ("std::vector<DataPoint>", "vector<DataPoint>"): return "vecdp"
    if q0 == "DataPoint": return "dp"
    if q0 in ("std::vector::size_type", "size_type", "std::vector<double>::size_type"): return "uint"
    if q0.endswith("::value_type") and "allocator<double>" in q0: return "double"
    if q0 == "std::vector<double>::value_type": return "double"
    return _base_ty_of_qual(q)


GT19 = {"vecd": "(list T)", "vecdp": "(list (T * T))", "dp": "(T * T)"}
SKIP = ("ImplicitCastExpr", "ParenExpr", "ExprWithCleanups", "MaterializeTemporaryExpr", "CXXBindTemporaryExpr", "ConstantExpr")


def strip(n, also=()):
    while n["kind"] in SKIP + tuple(also) and n.get("inner"): n = n["inner"][-1] if n["kind"] == "ImplicitCastExpr" else n["inner"][0]
    return n


def member_call(n):
    """(method name, object expression, arguments) of a CXXMemberCallExpr, else None"""
    n = strip(n, ("CXXConstructExpr",)) if n["kind"] != "CXXMemberCallExpr" else n
    if n["kind"] != "CXXMemberCallExpr": return None
    m = n["inner"][0]
    if m["kind"] != "MemberExpr": return None
    return m["name"], strip(m["inner"][0]), n["inner"][1:]


def refs_var(n, name):
    """number of references to the variable `name` below n"""
    if not isinstance(n, dict): return 0
    k = 1 if (n.get("kind") == "DeclRefExpr" and n.get("referencedDecl", {}).get("name") == name) else 0
    return k + sum(refs_var(ch, name) for ch in n.get("inner", []))


class Tr19(c.Tr):
    def __init__(self, *a, **kw):
        super().__init__(*a, **kw)
        self.size_alias = {}     # unsigned local -> vector whose size() it was initialised with
        self.assigned = set()
        self.elem = None         # (loop variable, vector) inside an element loop
        self.natvar = None       # loop variable of a push_back loop (a nat in Gallina)
        self.srcb = self.src.encode("utf-8")

    def lit(self, n, suffix=""):
        # clang's offsets count bytes; src/Utilities.cpp contains multi-byte characters
        b = n["range"]["begin"]
        if "offset" not in b: raise Unsupported("literal without a source offset (macro?)")
        tok = self.srcb[b["offset"]: b["offset"] + b["tokLen"]].decode("utf-8")
        return c.lit_of_token(tok)

    def intval(self, n):
        m = n
        while m["kind"] in ("ImplicitCastExpr", "ParenExpr", "CStyleCastExpr", "CXXStaticCastExpr", "CXXFunctionalCastExpr"): m = m["inner"][-1]
        if m["kind"] == "FloatingLiteral" and "offset" in m["range"]["begin"]:
            from fractions import Fraction
            b = m["range"]["begin"]; tok = self.srcb[b["offset"]: b["offset"] + b["tokLen"]].decode("utf-8")
            try: q = Fraction(tok)
            except Exception: return None
            return int(q) if q.denominator == 1 and abs(q) < 1000 else None
        return super().intval(n)

    def vecname(self, n):
        n = strip(n)
        if n["kind"] == "DeclRefExpr" and c.ty(n) in ("vecd", "vecdp"): return n["referencedDecl"]["name"]
        raise Unsupported(f"vector expression {n['kind']}")

    def E(self, n):
        k = n["kind"]
        if k == "CXXMemberCallExpr":
            mc = member_call(n)
            if mc and mc[0] == "size" and not mc[2]: return f"(Z.of_nat (length {self.var(self.vecname(mc[1]))}))"
            raise Unsupported(f"member call {mc and mc[0]}")
        if k == "ImplicitCastExpr" and n.get("castKind") == "IntegralCast" and c.ty(n) == "uint" and c.ty(n["inner"][-1]) == "uint":
            return self.E(n["inner"][-1])                       # unsigned int -> unsigned long and back: values stay below 2^32
        if k == "DeclRefExpr":
            nm = n["referencedDecl"]["name"]
            if self.elem and nm == self.elem[0]: raise Unsupported("loop index of an element loop used outside v[i]")
            if self.natvar and nm == self.natvar: return f"(Z.of_nat {self.var(nm)})"
        if k == "CXXOperatorCallExpr":
            opn, _ = self.callee(n["inner"][0])
            if opn == "operator[]":
                v = self.vecname(n["inner"][1]); idx = strip(n["inner"][2])
                if not (self.elem and idx["kind"] == "DeclRefExpr" and idx["referencedDecl"]["name"] == self.elem[0] and v == self.elem[1]):
                    raise Unsupported("operator[] other than v[i] inside the element loop over v")
                return "el_" + v
        if k == "MemberExpr":
            o = n["inner"][0]; f = n["name"]
            if c.ty(o) != "dp" and not (strip(o)["kind"] == "CXXOperatorCallExpr"): raise Unsupported(f"member {f} of a {qt(o)}")
            if f not in ("value", "weight"): raise Unsupported(f"member {f}")
            return f"({'fst' if f == 'value' else 'snd'} {self.E(strip(o))})"
        if k == "CallExpr":
            f, _ = self.callee(n["inner"][0]); raw = n["inner"][1:]
            if f == "accumulate" and len(raw) == 3:
                b, e = member_call(raw[0]), member_call(raw[1])
                if not (b and e and b[0] == "begin" and e[0] == "end"): raise Unsupported("accumulate over something else than v.begin(), v.end()")
                v = self.vecname(b[1])
                if v != self.vecname(e[1]) or c.ty(b[1]) != "vecd" or c.ty(raw[2]) != "double": raise Unsupported("accumulate arguments")
                return f"(fold_left (nadd Ops) {self.var(v)} {self.E(raw[2])})"
            if f == "pow" and len(raw) == 2:
                v = self.intval(raw[1])
                if v is not None and strip(raw[1])["kind"] == "FloatingLiteral": return f"(npowi Ops {self.E(raw[0])} ({v})%Z)"
        if k in ("CXXConstructExpr", "CXXTemporaryObjectExpr", "CXXFunctionalCastExpr") and c.ty(n) == "vecd":
            args = [a for a in n.get("inner", []) if a["kind"] != "CXXDefaultArgExpr"]
            if not args: return "nil"
            if len(args) == 1:
                a = strip(args[0], ("CXXConstructExpr", "CXXTemporaryObjectExpr", "CXXFunctionalCastExpr"))
                if a["kind"] == "CXXStdInitializerListExpr":
                    il = strip(a["inner"][0])
                    if il["kind"] != "InitListExpr": raise Unsupported("initializer list")
                    return "(" + " :: ".join([self.E(x) for x in il.get("inner", [])] + ["nil"]) + ")"
                if a["kind"] == "DeclRefExpr" and c.ty(a) == "vecd": return self.var(a["referencedDecl"]["name"])
            raise Unsupported("vector constructor")
        return super().E(n)

    # ---------- statements
    def loop(self, s):
        """a counted for loop -> (variables it rebinds, Gallina term for their new values)"""
        init, _, cond, inc, body = s["inner"]
        if init is None or init["kind"] != "DeclStmt" or len(init["inner"]) != 1: raise Unsupported("for: init")
        iv = init["inner"][0]
        if c.ty(iv) != "uint" or self.intval(iv["inner"][0]) != 0: raise Unsupported("for: loop variable is not an unsigned starting at 0")
        i = iv["name"]
        if not (inc and inc["kind"] == "UnaryOperator" and inc["opcode"] == "++" and strip(inc["inner"][0]).get("referencedDecl", {}).get("name") == i): raise Unsupported("for: increment")
        if not (cond and cond["kind"] == "BinaryOperator" and cond["opcode"] == "<" and strip(cond["inner"][0]).get("referencedDecl", {}).get("name") == i): raise Unsupported("for: condition")
        bound = strip(cond["inner"][1])
        stmts = body.get("inner", []) if body["kind"] == "CompoundStmt" else [body]
        stmts = [strip(x) for x in stmts]
        if any(refs_var(x, i) and x["kind"] == "CompoundAssignOperator" and strip(x["inner"][0]).get("referencedDecl", {}).get("name") == i for x in stmts): raise Unsupported("for: loop variable assigned")
        # push_back loop
        if len(stmts) == 1 and stmts[0]["kind"] == "CXXMemberCallExpr":
            mc = member_call(stmts[0])
            if not (mc and mc[0] == "push_back" and len(mc[2]) == 1): raise Unsupported("for: member call in the body")
            r = self.vecname(mc[1])
            if r not in self.localvecs: raise Unsupported("push_back on a non-local vector")
            if not (bound["kind"] == "DeclRefExpr" and bound["referencedDecl"]["kind"] == "ParmVarDecl" and c.ty(bound) == "uint"): raise Unsupported("for: bound of a push_back loop")
            if refs_var(mc[2][0], r): raise Unsupported("push_back argument reads the vector")
            self.natvar = i
            try: e = self.E(mc[2][0])
            finally: self.natvar = None
            return [r], f"(app {self.var(r)} (List.map (fun {self.var(i)} : nat => {e}) (List.seq 0 (Z.to_nat {self.var(bound['referencedDecl']['name'])}))))"
        # element loop
        if bound["kind"] == "CXXMemberCallExpr":
            mc = member_call(bound)
            if not (mc and mc[0] == "size"): raise Unsupported("for: bound")
            v = self.vecname(mc[1])
        elif bound["kind"] == "DeclRefExpr" and bound["referencedDecl"]["name"] in self.size_alias and bound["referencedDecl"]["name"] not in self.assigned:
            v = self.size_alias[bound["referencedDecl"]["name"]]
        else: raise Unsupported("for: bound is neither v.size() nor an alias of it")
        accs = []; lets = []
        self.elem = (i, v)
        try:
            for x in stmts:
                if x["kind"] != "CompoundAssignOperator" or x["opcode"] != "+=" or c.ty(x) != "double": raise Unsupported(f"for: body statement {x['kind']}")
                t = strip(x["inner"][0])
                if t["kind"] != "DeclRefExpr" or t["referencedDecl"]["kind"] != "VarDecl" or c.ty(t) != "double": raise Unsupported("for: accumulator")
                a = t["referencedDecl"]["name"]
                if a not in accs: accs.append(a)
                lets.append((a, f"(nadd Ops {self.var(a)} {self.E(x['inner'][1])})"))
        finally: self.elem = None
        pat = self.tuple_of(accs)
        bodyt = pat
        for a, e in reversed(lets): bodyt = f"(let {self.var(a)} := {e} in {bodyt})"
        st = "st_" + v
        fn = f"(fun {st} el_{v} => let '{pat} := {st} in {bodyt})" if len(accs) > 1 else f"(fun {self.var(accs[0])} el_{v} => {bodyt})"
        return accs, f"(fold_left {fn} {self.var(v)} {pat})"

    def tuple_of(self, names):
        return self.var(names[0]) if len(names) == 1 else "(" + ", ".join(self.var(a) for a in names) + ")"

    localvecs = ()

    def S(self, stmts, knext, kbreak, fn):
        if not stmts: return knext
        s, rest = stmts[0], stmts[1:]
        s0 = strip(s) if s["kind"] in SKIP else s
        k = s0["kind"]
        if k == "ForStmt":
            names, term = self.loop(s0)
            after = self.S(rest, knext, kbreak, fn)
            return f"(let {self.tuple_of(names) if len(names) == 1 else chr(39) + self.tuple_of(names)} := {term} in {after})"
        if k == "DeclStmt" and len(s0["inner"]) == 1 and s0["inner"][0]["kind"] == "VarDecl" and c.ty(s0["inner"][0]) in ("uint", "vecd"):
            d = s0["inner"][0]; t = c.ty(d)
            if t == "vecd":
                init = d.get("inner", [])
                if init and not (len(init) == 1 and init[0]["kind"] == "CXXConstructExpr" and not [a for a in init[0].get("inner", []) if a["kind"] != "CXXDefaultArgExpr"]): raise Unsupported("vector local with an initialiser")
                self.localvecs = tuple(self.localvecs) + (d["name"],)
                return f"(let {self.var(d['name'])} := (@nil T) in {self.S(rest, knext, kbreak, fn)})"
            if "inner" not in d: raise Unsupported("unsigned local without initialiser")
            mc = member_call(d["inner"][0]) if strip(d["inner"][0])["kind"] == "CXXMemberCallExpr" else None
            if mc and mc[0] == "size": self.size_alias[d["name"]] = self.vecname(mc[1])
            ee = self.E(d["inner"][0])
            return f"(let {self.var(d['name'])} := {ee} in {self.S(rest, knext, kbreak, fn)})"
        if k in ("BinaryOperator", "CompoundAssignOperator") and s0.get("opcode") in ("=", "+=", "-=", "*=", "/="):
            t = strip(s0["inner"][0])
            if t["kind"] != "DeclRefExpr" or t["referencedDecl"]["kind"] != "VarDecl" or c.ty(t) != "double": raise Unsupported("assignment to something else than a double local")
            a = t["referencedDecl"]["name"]; self.assigned.add(a)
            e = self.E(s0["inner"][1])
            if s0["opcode"] != "=":
                e = f"({ {'+=': 'nadd', '-=': 'nsub', '*=': 'nmul', '/=': 'ndiv'}[s0['opcode']] } Ops {self.var(a)} {e})"
            return f"(let {self.var(a)} := {e} in {self.S(rest, knext, kbreak, fn)})"
        return super().S([s0] + rest if s0 is not s else stmts, knext, kbreak, fn)


def translate_all(src, fns, incs):
    """cxx2gallina.translate_all with the extended translator; the shared module's tables are restored afterwards"""
    saved = (c.ty_of_qual, c.Tr, dict(c.GTYPE))
    try:
        c.ty_of_qual = ty_of_qual19; c.Tr = Tr19; c.GTYPE.update(GT19)
        txt = c.translate_all(src, fns, incs)
    finally:
        c.ty_of_qual, c.Tr = saved[0], saved[1]; c.GTYPE.clear(); c.GTYPE.update(saved[2])
    return txt.replace("From Coq Require Import ZArith Bool.", "From Coq Require Import ZArith Bool List.", 1)


def c19_statistics():
    return [Fn("operator<", ["dp", "dp"], "g_DataPoint_lt"),
            Fn("operator>", ["dp", "dp"], "g_DataPoint_gt"),
            Fn("operator==", ["dp", "dp"], "g_DataPoint_eq"),
            Fn("Arithmetic_Mean", ["vecd"], "g_Arithmetic_Mean"),
            Fn("Variance", ["vecd"], "g_Variance"),
            Fn("Standard_Deviation", ["vecd"], "g_Standard_Deviation"),
            Fn("Weighted_Average", ["vecdp"], "g_Weighted_Average")]


def c19_utilities():
    return [Fn("Linear_Space", ["double", "double", "uint"], "g_Linear_Space"),
            Fn("Log_Space", ["double", "double", "uint"], "g_Log_Space")]


def generate(repo, incs):
    a = translate_all(os.path.join(repo, "src", "Statistics.cpp"), c19_statistics(), incs)
    b = translate_all(os.path.join(repo, "src", "Utilities.cpp"), c19_utilities(), incs)
    # one file: the prelude once, then both groups
    cut = b.index("End Cplx.") + len("End Cplx.")
    return a + "\n(* ---- src/Utilities.cpp ---- *)\n" + b[cut:]


if __name__ == "__main__":
    repo = sys.argv[1] if len(sys.argv) > 1 else os.environ.get("VERIF_REPO", "/repo")
    print(generate(repo, [os.path.join(repo, "include")] + sys.argv[2:]))
