#!/bin/bash
# tools/seedconfirm.sh <PROPERTY-ID> <LETTER> <seed-dir>
# Confirms a seeded change independently in a fresh scratch worktree of /repo's HEAD:
#   the patch applies, the library builds, the unedited test suite passes with it,
#   the demonstration exits 1 with the change and 0 without it.
# On success copies it to /verif/seeded/<ID>-<LETTER>/ (patch.diff, demo.cpp, NOTES.md, meta.json).
set -u
id=$1; L=$2; sd=$(readlink -f "$3")
W=$(mktemp -d /var/tmp/seedconfirm.XXXXXX)
cleanup() { git -C /repo worktree remove --force "$W/wt" >/dev/null 2>&1; rm -rf "$W"; }
trap cleanup EXIT
git -C /repo worktree add --detach "$W/wt" HEAD >/dev/null 2>&1 || { echo "cannot create worktree"; exit 2; }
cd "$W/wt"
mkdir -p "$W/gen" && sed 's/@[A-Za-z_]*@/x/g' include/version.hpp.in > "$W/gen/version.hpp"
demo="$sd/demo_$L.cpp"; patch="$sd/$L.diff"
g++ -std=c++14 -O1 -w -Iinclude -I"$W/gen" "$demo" src/*.cpp -lconfig++ -o "$W/demo_clean" 2>"$W/err" || { echo "demo does not compile on clean tree"; head -20 "$W/err"; exit 1; }
( cd "$W" && timeout 600 ./demo_clean >"$W/out_clean" 2>&1 ); rc_clean=$?
git apply --whitespace=nowarn "$patch" || { echo "patch does not apply to HEAD"; exit 1; }
g++ -std=c++14 -O1 -w -Iinclude -I"$W/gen" "$demo" src/*.cpp -lconfig++ -o "$W/demo_mut" 2>"$W/err" || { echo "mutated library does not compile"; head -20 "$W/err"; exit 1; }
( cd "$W" && timeout 600 ./demo_mut >"$W/out_mut" 2>&1 ); rc_mut=$?
cmake -G Ninja -B "$W/b" -DFETCHCONTENT_SOURCE_DIR_GOOGLETEST=/usr/src/googletest -DCMAKE_BUILD_TYPE=RelWithDebInfo -DCMAKE_CXX_FLAGS=-Wno-error >"$W/cmake.log" 2>&1 && cmake --build "$W/b" -j8 >"$W/build.log" 2>&1 || { echo "cmake build failed with the change"; tail -20 "$W/build.log"; exit 1; }
ctest --test-dir "$W/b" -j8 --timeout 900 >"$W/ctest.log" 2>&1; rc_test=$?
if [ $rc_test -ne 0 ]; then ctest --test-dir "$W/b" -j8 --timeout 900 >"$W/ctest.log" 2>&1; rc_test=$?; fi   # two MC tests are statistically flaky
echo "$id-$L: demo clean exit=$rc_clean, demo with change exit=$rc_mut, suite exit=$rc_test"
if [ $rc_clean -eq 0 ] && [ $rc_mut -eq 1 ] && [ $rc_test -eq 0 ]; then
  D=/verif/seeded/$id-$L; mkdir -p "$D"
  cp "$patch" "$D/patch.diff"; cp "$demo" "$D/demo.cpp"
  python3 - "$id" "$L" "$sd" "$D" "$W" <<'PY'
import sys, json, re, subprocess
id, L, sd, D, W = sys.argv[1:6]
notes = open(sd + "/NOTES.md").read() if __import__("os").path.exists(sd + "/NOTES.md") else ""
open(D + "/NOTES.md", "w").write(notes)
head = subprocess.run(["git", "-C", "/repo", "rev-parse", "--short", "HEAD"], stdout=subprocess.PIPE, text=True).stdout.strip()
meta = {"property": id, "change": L, "confirmed_against_repo_commit": head,
        "what_it_breaks_and_needs": "see NOTES.md (written by the independent sub-agent that produced the change), section for change " + L,
        "confirmed": {"patch_applies_to_HEAD": True, "unedited_test_suite_passes_with_change": True,
                      "demo_exit_without_change": 0, "demo_exit_with_change": 1,
                      "demo_output_with_change_tail": open(W + "/out_mut", errors="replace").read()[-600:]},
        "ran": ["g++ -std=c++14 -O1 -Iinclude demo.cpp src/*.cpp -lconfig++ (clean and changed tree)",
                "cmake -G Ninja ... && cmake --build && ctest -j8 (changed tree)"],
        "detected_by": "filled in by tools/seedtest.sh runs (see DESIGN.md section 12.4)"}
json.dump(meta, open(D + "/meta.json", "w"), indent=1)
PY
  echo "CONFIRMED -> $D"
else
  echo "NOT CONFIRMED"; tail -5 "$W/out_mut"; grep -E "Failed|\*\*\*" "$W/ctest.log" | head
  exit 1
fi
