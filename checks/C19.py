"""C19 — partition, grid, search, list and summary-statistics helpers."""
import math, itertools, struct, sys
from fractions import Fraction
from vcheck import Case, hx, flist, ilist, parse_vals

PID = "C19"


def regenerate():
    """T-tie: coq/Gen_C19_Formulas.v is regenerated from src/Statistics.cpp and src/Utilities.cpp on every run (tools/cxx2gallina_C19.py,
    an extension of tools/cxx2gallina.py by vectors, element loops and push_back loops); coq/C19_GenTie.v proves the generated terms equal
    to the hand model, so a source change breaks a proof obligation before any case is run."""
    import os, vbuild, cxx2gallina, cxx2gallina_C19
    inc = os.path.join(vbuild.BUILD, "c19_inc"); os.makedirs(inc, exist_ok=True)
    vh = os.path.join(inc, "version.hpp")
    if not os.path.exists(vh): vbuild._version_hpp(vh)
    try:
        txt = cxx2gallina_C19.generate(vbuild.REPO, [os.path.join(vbuild.REPO, "include"), inc])
    except cxx2gallina.Unsupported as e:
        raise RuntimeError(f"tools/cxx2gallina_C19.py cannot translate the statistics / grid functions: {e}")
    ch = cxx2gallina.write_if_changed(os.path.join(vbuild.VERIF, "coq", "Gen_C19_Formulas.v"), txt)
    return "Gen_C19_Formulas.v regenerated from the current source" if ch else ""
RULE = ("cases are generated per helper (workload, range, linspace, logspace, closest, list templates, statistics); "
        "non-trivial = workload with remainder != 0 (or zero workers: exit), or closest with a tie / out-of-range target / duplicates, or a clamped "
        "Sub_List index, or a ragged/rectangular transpose with >1 row and >1 column, or range with a step that does not divide "
        "the span, or a grid with >= 3 points, or a data set with >= 3 distinct values; distinct by case text. "
        "Closest-element lists cover the whole finite double range (scaled by 2^e, elements of the order of DBL_MAX, neighbours 1..1000 ulp or a relative 1e-16..1e-6 apart, "
        "subnormals/signed zeros, mixed magnitudes) with targets on and 0..1000 ulp / relative 1e-16..1e-6 off elements and midpoints; nearest is decided in exact rational arithmetic "
        "with the a-priori slack 2^-51 of the two rounded distances; grids also at scales 1e-290..1e290, with nearly equal end points, and with end points from subnormals to DBL_MAX (one quantum 2^-1074 of slack per subnormal operation). "
        "Every way of calling a helper is driven: Range(max), Range(min,max) with the default step, Lists_Equal on lists of lists, Transpose_Lists(v1,v2), DataPoint with the default weight, "
        "the list templates at int and at double (signed zeros, NaN, infinities as elements), Median twice on the vector it reorders. "
        "Statistics run over the whole finite double range (data scaled by 2^e up to DBL_MAX and down to subnormals, |x| >> spread at relative 1e-16..1e-3, neighbours 1..1000 ulp apart, mixed magnitudes, "
        "even-length sets whose middle elements straddle zero, n = 1, 2, odd/even) against exact rational references with a-priori rounding slack, and the laws are checked inside one process "
        "(op laws / wlaws: data, 2^e * data, data + t, rotated data; power-of-two scalings must be reproduced exactly; op wshift: weighted data and the same data with every value shifted; "
        "op history: one vector object handed to 1..12 statistics calls in a row, Median among them, on exact-sum data in any order of calls and on data from the whole double range with the order-sensitive calls before the first Median; non-trivial with >= 3 data and >= 2 calls). "
        "Sessions (op seq): every helper entry point right after every kind of ambient event (matrix), and random sessions of two to seven requests of any helpers in ONE process - repeated identical requests, larger-then-smaller grids, a request after one from the extreme regions "
        "(a grid that overflows, statistics that produce NaN) - interleaved with the ambient state that unrelated code leaves behind: errno set to EDOM/ERANGE/other values, "
        "floating-point exception flags raised, state and format flags of cout/cerr/clog/cin changed, other library facilities evaluated in and beyond their tails "
        "(PDF_Gauss/CDF_Gauss from the centre to z = 1e160, PMF_Poisson, (Log_)Likelihood_Poisson at zero and huge expectations, PDF_Maxwell_Boltzmann, PDF_Chi_Square), "
        "libm domain/range errors, division by zero and overflow in the caller's arithmetic, strtod range errors; every answer of a session is checked by the clauses of its own request "
        "and compared bit for bit with the answer of the same request alone in a pristine process (the harness restores errno, the exception flags and the stream states at the start of every case line). "
        "DataPoint (op dpcmp): the three constructors and operator< / > / == on values from the whole double range (signed zeros, NaN, infinities, neighbours 1..1000 ulp apart, equal values with different weights). "
        "A session is non-trivial when one of its requests is. The rounding mode and the locale are not varied (they change what the arithmetic means, not what an earlier call left behind)")
LEVEL_TEXT = ("Theorems (Coq, unbounded, all listed in evidence.coverage.theorems): Workload_Distribution meets its full specification for every workers >= 1 and every tasks (zero workers exit); "
              "Range enumerates exactly [min, min+-step, ...) with ceil(|max-min|/step) elements for step > 0 (a non-positive step makes the ascending loop diverge: model outcome None, outside the quantifier); "
              "Lists_Equal/Flatten/List_Contains/Find_Indices/Combine/Sub_List (entries, clamping, empty cases)/Transpose (rectangular, ragged -> exit, empty -> empty) against the standard list functions; "
              "Locate_Closest_Location returns an in-range index of a nearest element for every sorted non-empty list (ties, out-of-range targets), exits on empty/unsorted lists, and its order-only part holds for any strict total order (doubles without NaN); "
              "Linear_Space/Log_Space count, end points, equal spacing (in the logarithm), strict monotonicity, degenerate requests -> [min] (over R); mean/variance/standard deviation/median under translation, scaling and "
              "permutation (insertion sort is a function of the multiset), Weighted_Average with equal weights = (mean, s/sqrt N) (over R), also for data points with the default weight; "
              "Range(max) = Range(0,max) and Range(min,max) enumerate the ascending/descending unit-step range; Lists_Equal on lists of lists is equality; Transpose_Lists(v1,v2) is the list of pairs or exits; "
              "a second Median on the reordered vector gives the same value and the vector stays a permutation of the data; Median({a,b}) = Arithmetic_Mean({a,b}); "
              "sessions: since every helper of the model is a function of its arguments alone, the k-th answer of any session equals the answer of the same request alone in any other ambient state, whatever the earlier calls and events left behind, and a repeated request gets the same answer. "
              "Weighted_Average with arbitrary (unequal) weights: Cochran's formula as the library writes it (three sums around Average*wAverage) equals the closed form avg = sum w v / sum w, SE^2 = N/(N-1)/W^2 sum (w (v - avg))^2 "
              "that S4 evaluates in rationals (C19_weighted_closed_form, a ring identity by induction over the data), its radicand is non-negative for N >= 2, and the laws hold for every data set: permutation (and the rotation of op wlaws), "
              "values times any p -> (p avg, |p| SE), weights times any q <> 0 -> unchanged, values + c -> (avg + c, SE) for weights of non-zero sum (op wshift), positive weights -> avg between the smallest and largest value; "
              "mean and median lie within the range of the data, the median of an odd number of data is the middle order statistic, Standard_Deviation^2 = Variance >= 0 for N >= 2; "
              "either orientation of the grids: Linear_Space(max,min,n) / Log_Space(max,min,n) is the ascending grid reversed; "
              "object histories (op history): for every sequence, of any length, of Arithmetic_Mean/Variance/Standard_Deviation/Median calls on one vector (Median reorders it) every call answers as on the original data, the vector stays a permutation of the data "
              "(the data themselves until the first Median, the sorted data afterwards in the model), and a call answers the same after any two histories (induction over the history with a permutation invariant); "
              "Workload_Distribution is a partition: every task index lies in the half-open block of exactly one worker; list templates against each other: Sub_List undoes Combine_Lists, Sub_List(0..k) combined with Sub_List(k+1..n-1) is the list "
              "(the inclusive upper index), List_Contains = Find_Indices non-empty, number of indices = number of occurrences, Flatten of two rows = Combine, Transpose twice = identity on rectangular tables with a row and a column. "
              "For the floating-point instance itself (theorems about every NumOps T, no law of order or arithmetic used, so valid for doubles with NaN, infinities and rounding): Linear_Space/Log_Space return exactly the requested number of points (1 for degenerate requests) (C19_grid_count_any_number_type); "
              "the reordering Median leaves is a permutation of the data, also after a second call, and the median of an odd number of data is one of the data (C19_median_any_number_type); object histories of any length keep the vector a permutation of the data and answer every call (C19_stat_history_any_number_type). "
              "From the laws of a strict total order alone (doubles without NaN): the reordered vector is sorted in all pairs and Locate_Closest_Location accepts the vector a Median call leaves behind (C19_sort_list_sorted_ord, C19_closest_after_median_ord). "
              "From monotonicity of integer conversion, multiplication by a finite signed factor and addition to a finite number (MonoLaws; satisfied by the reals, and by IEEE round-to-nearest doubles as a fact about IEEE arithmetic that is NOT proved here): a non-degenerate Linear_Space grid with finite min and finite computed step never goes backwards in the rounded arithmetic (C19_linear_space_monotone_rounded; strict monotonicity is a theorem only over R - in doubles neighbouring points coincide when the step is below the spacing of the doubles). "
              "The helpers against each other, over R, any size: Arithmetic_Mean and Median of a Linear_Space grid are (min+max)/2 in either orientation ; Arithmetic_Mean of Combine_Lists is the size-weighted mean of the means; "
              "Variance in Koenig-Huygens form and Variance = 0 exactly for constant data (all four in C19_stats_of_grids_and_combined_lists); Locate_Closest_Location finds a member of the list exactly, finds the k-th element of a strictly increasing list at k, in particular a point of an ascending Linear_Space/Log_Space grid at its index, and rejects a descending grid (C19_closest_location_lookup); "
              "the grid compositions are also run on the implementation (op gridstat: mean/median of the grid against the mid-point with a-priori rounding slack, the looked-up index holds the grid point). "
              "Seventh pass: Workload_Distribution computes in int, the model in Z - every value the index list holds in every state of the remainder loop, the quotient, the remainder and every increment lie in [0, tasks] / [0, workers), so for tasks <= INT_MAX no int operation overflows and the two arithmetics coincide (C19_workload_machine_integers); "
              "DataPoint (the element type of Weighted_Average): the three ways of constructing one store value and weight (defaults 0 and 1), operator< / operator> / operator== look at the values only in every number type (C19_datapoint_any_number_type), and from the laws of a strict total order operator< is irreflexive and transitive, operator== is exactly incomparability and exactly one of <, ==, > holds (C19_datapoint_order_ord); both are driven on the implementation (op dpcmp). "
              "T-tie: the Gallina terms for Arithmetic_Mean, Variance, Standard_Deviation, Weighted_Average, Linear_Space, Log_Space and the three DataPoint operators are regenerated from clang's AST of the current source on every run (coq/Gen_C19_Formulas.v) and proved equal to the hand model for every number type in which the literals 0.0, 1.0, 2.0 are the integers 0, 1, 2 (LitLaws; proved for R, true for doubles by exact representability - not a Coq theorem) (C19_generated_*_is_model; Weighted_Average by fold fusion, induction over the data); a change of a formula, loop bound, comparison, literal or operand order in these functions breaks a proof before any case is run. "
              "Not theorems: all of the above over R says nothing about rounding - the rounding behaviour of the floating-point grids and statistics, in particular that the three cancelling sums of Cochran's formula stay close to the closed form in doubles (covered by correspondence, bit-identical, and by S4 with a-priori rounding slack); which permutation std::nth_element leaves in the caller's vector (the model takes the sorted one; order-sensitive calls after a Median are compared on data whose partial sums are exact); that std::nth_element/upper_bound/is_sorted meet their specifications; that the C++ helpers read no ambient process state (errno, exception flags, stream state) and keep no statics is a fact about the code, tied by correspondence on sessions and by the fresh-process comparison, not a theorem. "
              "The Gallina model is the term that is extracted and run against the C++ helpers on every run, and every clause of the property is also evaluated on the implementation's output.")
LEVEL_NOTE = ("Coq 8.16.1 kernel; theorems over Z/nat/lists are axiom-free, theorems over R use the standard library's real-number axioms (listed in the evidence); "
              "hand-written model tied by differential correspondence (extraction with ExtrOcamlBasic only), and for the statistics / grid functions and the DataPoint operators additionally by regeneration from clang's AST (tools/cxx2gallina_C19.py on top of tools/cxx2gallina.py; the translator and clang's AST dump are trusted, the equality with the hand model is a theorem under LitLaws); "
              "std::nth_element/upper_bound/is_sorted modelled by their specifications; which code is in the model: coverage/C19.md")
TOL = (1e-12, 0.0)
TRUSTED = ["std::nth_element / std::upper_bound / std::is_sorted are modelled by their specifications (k-th smallest, first element greater than the target, adjacent order)",
           "std::accumulate is a left fold from its initial value; clang's JSON AST dump and tools/cxx2gallina(_C19).py for the regenerated terms (T-tie)",
           "LitLaws for the double instance (the literals 0.0, 1.0, 2.0 are exactly the doubles 0, 1, 2) is not a Coq theorem; it is proved for R"]


# ---- doubles as an ordered integer line: k-ulp steps anywhere in the finite range (subnormals, powers of two, +-DBL_MAX)
DBL_MAX = sys.float_info.max
DBL_MIN = sys.float_info.min          # smallest normal
ULPS = [1, 2, 3, 4, 5, 7, 10, 33, 100, 1000]
RELS = [2.0 ** -52, 2.0 ** -51, 1e-15, 1e-14, 1e-13, 1e-12, 1e-11, 1e-10, 1e-9, 1e-8, 1e-7, 1e-6]


def _ord(x):
    b = struct.unpack("<q", struct.pack("<d", x))[0]
    return b if b >= 0 else -(b & 0x7FFFFFFFFFFFFFFF)


_OMAX = _ord(DBL_MAX)


def _unord(i):
    i = max(-_OMAX, min(_OMAX, i))
    return struct.unpack("<d", struct.pack("<Q", i if i >= 0 else ((-i) | 0x8000000000000000)))[0]


def ulp_step(x, k): return _unord(_ord(x) + k)
def _fin(x): return max(-DBL_MAX, min(DBL_MAX, x))
def _mid(a, b): return a / 2 + b / 2                      # cannot overflow
def _lerp(a, b, q): return a * (1 - q) + b * q            # 0 <= q <= 1: cannot overflow


def closest_lists(rng, n):
    """One sorted list of n finite doubles from the whole double range; returns (class, list)."""
    cls = rng.choice(["scaled", "scaled", "huge", "huge", "near", "near", "subnormal", "wide"])
    if cls == "scaled":        # ordinary shapes (half-integers with exact ties, or generic reals) times 2^e, e over the whole exponent range
        gen = rng.random() < 0.5
        base = [rng.uniform(-8, 8) if gen else float(rng.randint(-12, 12)) * 0.5 for _ in range(n)]
        e = rng.choice([rng.randint(-1070, 1020), rng.randint(1000, 1020), rng.randint(-1074, -1040)])
        l = [math.ldexp(x, e) for x in base]
    elif cls == "huge":        # elements of the order of DBL_MAX: sums and differences of two elements may exceed the double range
        lo, hi = rng.choice([(0.25, 1.0), (-1.0, -0.25), (-1.0, 1.0), (0.5, 1.0), (-1.0, -0.5)])
        l = [DBL_MAX * rng.uniform(lo, hi) for _ in range(n)]
        if hi > 0 and rng.random() < 0.25: l[rng.randrange(n)] = DBL_MAX
        if lo < 0 and rng.random() < 0.25: l[rng.randrange(n)] = -DBL_MAX
    elif cls == "near":        # neighbours at 1..1000 ulp or at relative distance 1e-16..1e-6, anywhere in the range (also across powers of two and zero)
        x = rng.choice([1.0, -1.0, 2.0 ** rng.randint(-1000, 1000), -(2.0 ** rng.randint(-1000, 1000)), 10 ** rng.uniform(-300, 300), -(10 ** rng.uniform(-300, 300)),
                        0.99 * DBL_MAX, -DBL_MAX, 0.0, DBL_MIN, float(rng.randint(-6, 6))])
        if rng.random() < 0.5: x = ulp_step(x, -rng.choice(ULPS))     # start below a power of two / zero so that the list crosses it
        l = [x]
        for _ in range(n - 1):
            if rng.random() < 0.6 or x == 0.0: x = ulp_step(x, rng.choice([0] + ULPS))
            else: x = _fin(x + abs(x) * rng.choice(RELS))
            l.append(x)
    elif cls == "subnormal":   # multiples of the smallest subnormal, signed zeros, the subnormal/normal border
        l = [rng.choice([rng.randint(-20, 20) * 5e-324, 0.0, -0.0, ulp_step(DBL_MIN, rng.randint(-3, 3)), -ulp_step(DBL_MIN, rng.randint(-3, 3)), rng.uniform(-1, 1) * DBL_MIN]) for _ in range(n)]
    else:                      # wildly mixed magnitudes in one list
        l = [rng.choice([-1.0, 1.0]) * 10 ** rng.uniform(-323, 308) if rng.random() < 0.9 else 0.0 for _ in range(n)]
    if n > 1 and rng.random() < 0.3:
        for _ in range(rng.choice([1, 1, 2, n // 2])): l[rng.randrange(n)] = l[rng.randrange(n)]      # duplicates
    return cls, sorted(l)


def closest_targets(rng, l, m):
    """m targets for one sorted list: on / next to elements, on / next to midpoints (geometric ladder of distances), between, outside, special values."""
    n = len(l); out = []
    for _ in range(m):
        kind = rng.choice(["elem", "mid", "mid", "mid", "frac", "below", "above", "special", "uniform"])
        if kind in ("mid", "frac") and n < 2: kind = "elem"
        if kind == "elem":
            t = ulp_step(rng.choice(l), rng.choice([-1, 1]) * rng.choice([0, 0] + ULPS))
        elif kind == "mid":
            k = rng.randrange(n - 1); a, b = l[k], l[k + 1]
            if a == b and rng.random() < 0.8:          # prefer a pair of distinct neighbours
                ks = [j for j in range(n - 1) if l[j] != l[j + 1]]
                if ks: k = rng.choice(ks); a, b = l[k], l[k + 1]
            t = _mid(a, b)
            r = rng.random()
            if r < 0.5: t = ulp_step(t, rng.choice([-1, 1]) * rng.choice([0] + ULPS))
            elif r < 0.8: t = _fin(t + rng.choice([-1, 1]) * (b / 2 - a / 2) * rng.choice(RELS))     # the two distances differ by a relative 1e-16..1e-6
        elif kind == "frac":
            k = rng.randrange(n - 1); t = _lerp(l[k], l[k + 1], rng.randint(1, 7) / 8.0)
        elif kind in ("below", "above"):
            e, s = (l[0], -1) if kind == "below" else (l[-1], 1)
            t = rng.choice([ulp_step(e, s * rng.choice(ULPS)), _fin(e + s * abs(e) * rng.choice([0.5, 1.0, 1e3, 1e300])), _fin(e + s * (l[-1] / 2 - l[0] / 2)), s * DBL_MAX, _fin(e + s * 1.0)])
        elif kind == "special":
            t = rng.choice([0.0, -0.0, 5e-324, -5e-324, DBL_MIN, -DBL_MIN, 1.0, -1.0, DBL_MAX, -DBL_MAX, ulp_step(DBL_MAX, -1), 0.5 * DBL_MAX, -0.5 * DBL_MAX])
        else:
            t = _lerp(l[0], l[-1], rng.random())
        out.append((kind, _fin(t)))
    return out


def closest_wide(rng, count):
    cs = []
    for _ in range(count):
        n = rng.choice([1, 2, 2, 3, 3, 4, 5, 8, 16, 33, 64])
        cls, l = closest_lists(rng, n)
        if n > 1 and rng.random() < 0.04:
            rng.shuffle(l); cls = "maybe-unsorted"
        for kind, t in closest_targets(rng, l, 3):
            cs.append(Case(f"closest {flist(l)} {hx(t)}", ("closest", "closest-" + cls, "target-" + kind)))
    return cs


# ---- statistics: exact rational references and the a-priori rounding model ------------------------------------------------
# u = 2^-53 (round to nearest), gamma_k = k u (with 1% head room for the higher-order terms), gradual underflow: every operation
# whose result is subnormal adds an absolute error of at most 2^-1075.  Overflow is not part of the rounding model: where the
# textbook evaluation order (plain accumulation, two-pass variance, (e1 + e2) / 2, Cochran's sums as written) must exceed
# DBL_MAX in an intermediate although data and result are representable, a wrong answer carries the region suffix
# :sum-overflow / :square-overflow (a known limitation, K-C19-1); everywhere else the clause is checked at full strength.
UR = Fraction(1, 2 ** 53)
TINY = Fraction(1, 2 ** 1074)
FMAX = Fraction(DBL_MAX)


def gam(k): return Fraction(k) * UR * Fraction(101, 100)
def finite(x): return isinstance(x, (int, float)) and not (math.isnan(x) or math.isinf(x))


def sqrt_bounds(q):
    """Fractions lo <= sqrt(q) <= hi of relative width < 2^-100"""
    if q <= 0: return Fraction(0), Fraction(0)
    num, den = q.numerator, q.denominator
    k = max(0, (220 - (num.bit_length() - den.bit_length())) // 2 + 1)
    r = math.isqrt((num << (2 * k)) // den)
    return Fraction(r, 1 << k), Fraction(r + 1, 1 << k)


def sum_overflows(X):
    """does the left-to-right accumulation of X (Fractions) possibly leave the double range: |prefix| + its rounding error >= DBL_MAX"""
    P = Fraction(0); Q = Fraction(0)
    for k, x in enumerate(X, 1):
        P += x; Q += abs(x)
        if abs(P) + gam(k) * Q >= FMAX or abs(x) * (1 + UR) >= FMAX: return True      # (a term that is itself a product may exceed the range alone)
    return False


STAT_NAME = {"mean": "Arithmetic_Mean", "variance": "Variance", "stddev": "Standard_Deviation", "median": "Median"}


class StatRef:
    """exact mean / variance / median of one data set (list of finite doubles) with the tolerance of the rounding model"""

    def __init__(self, d):
        self.d = d; n = self.n = len(d); X = self.X = [Fraction(x) for x in d]
        self.m = sum(X) / n; self.A = sum(abs(x) for x in X) / n
        self.sumov = sum_overflows(X)
        self._v = None

    def mean(self): return self.m, 2 * gam(self.n + 1) * self.A + TINY, (":sum-overflow" if self.sumov else "")

    def _var(self):
        if self._v is None:
            n = self.n; D2 = sum((x - self.m) ** 2 for x in self.X)
            Em = gam(n + 1) * self.A + TINY                    # |computed mean - mean|
            T = D2 + n * Em * Em                               # sum of (x_i - computed mean)^2, exactly D2 + n (mean error)^2
            v = D2 / (n - 1)
            tol = 2 * (n * Em * Em + gam(n + 4) * T) / (n - 1) + (n + 2) * TINY
            reg = ":sum-overflow" if self.sumov else (":square-overflow" if T * (1 + gam(n + 4)) >= FMAX else "")
            self._v = (v, tol, reg)
        return self._v

    def variance(self): return self._var()

    def stddev(self):
        v, tol, reg = self._var()
        lo = sqrt_bounds(max(Fraction(0), v - tol))[0] * (1 - 2 * UR); hi = sqrt_bounds(v + tol)[1] * (1 + 2 * UR)
        return lo, hi, reg

    def median(self):
        s = sorted(self.X); n = self.n
        if n % 2: return s[n // 2], Fraction(0), ""
        a, b = s[n // 2 - 1], s[n // 2]
        return (a + b) / 2, 2 * UR * max(abs(a), abs(b)) + TINY, (":sum-overflow" if abs(a + b) > FMAX else "")


def _key(x):
    """a double up to its bit pattern (NaN canonical)"""
    x = float(x)
    return "nan" if x != x else (x, math.copysign(1.0, x))


def _same(a, b):
    """equal as doubles (NaN = NaN; the sign of a zero result is not part of any law: an empty or cancelling accumulation is +0.0)"""
    if not (isinstance(a, (int, float)) and isinstance(b, (int, float))): return a == b
    return a == b or (a != a and b != b)


def stat_check(op, ref, got, sigop=None, what=""):
    """the definition clause for one statistic of one data set; [] or [(signature, message)]"""
    sigop = sigop or op; n = ref.n
    if op in ("variance", "stddev") and n < 2: return []
    if op == "stddev":
        lo, hi, reg = ref.stddev()
        ok = (finite(got) and lo <= Fraction(got) <= hi) or (got == math.inf and hi >= FMAX)
        exp = float(lo) if lo <= FMAX else math.inf
    else:
        exp_q, tol, reg = getattr(ref, op)()
        ok = (finite(got) and abs(Fraction(got) - exp_q) <= tol) or (got == math.inf and exp_q + tol >= FMAX) or (got == -math.inf and exp_q - tol <= -FMAX)
        exp = float(exp_q) if abs(exp_q) <= FMAX else (math.inf if exp_q > 0 else -math.inf)
    if ok: return []
    return [(f"{sigop}:definition{reg}", f"{STAT_NAME[op]}{what} = {got!r}, the definition gives {exp!r} (n = {n}, data between {min(ref.d)!r} and {max(ref.d)!r})")]


class WavgRef:
    """exact weighted mean and Cochran standard error, SE^2 = N/((N-1) W^2) sum w_i^2 (v_i - avg)^2, with a-priori error bounds for the
    sums as the library writes them (sum1 - 2 avg sum2 + avg^2 sum3; each of the three terms is of the order n M^2, M = max|v| max|w|)"""

    def __init__(self, vals, ws):
        n = self.n = len(vals); V = [Fraction(x) for x in vals]; Wt = [Fraction(x) for x in ws]
        self.vals = vals; self.ws = ws
        W = sum(Wt); P = [a * b for a, b in zip(V, Wt)]; self.W = W
        self.ok = W > 0 and all(w > 0 for w in Wt)
        if not self.ok: return
        avg = self.avg = sum(P) / W; wbar = W / n
        absP = sum(abs(x) for x in P)
        self.tol_avg = 2 * (gam(n + 1) * absP + gam(n + 1) * abs(avg) * W + n * TINY) / W + TINY
        self.reg_avg = ":sum-overflow" if (sum_overflows(P) or sum_overflows(Wt)) else ""
        if n < 2: self.se2 = None; return
        K = self.K = Fraction(n, n - 1) / W / W
        t = [x - wbar * avg for x in P]; c = [w - wbar for w in Wt]
        T1 = sum(x * x for x in t); S2 = sum(a * b for a, b in zip(c, t)); S3 = sum(x * x for x in c)
        self.se2 = K * sum((w * (v - avg)) ** 2 for v, w in zip(V, Wt))
        M = max(abs(x) for x in V) * max(Wt)
        d2 = 320 * UR * (n * M / W) ** 2 + K * n * TINY * (3 + 2 * abs(avg) + avg * avg) + TINY      # bound on |computed SE^2 - SE^2|
        self.d2 = d2
        big = max([T1, abs(2 * avg * S2), avg * avg, avg * avg * S3, abs(T1 - 2 * avg * S2 + avg * avg * S3), self.se2] + [x * x for x in t])
        self.reg_se = self.reg_avg or (":square-overflow" if big * (1 + Fraction(1, 10 ** 6)) >= FMAX else "")

    def check(self, got_avg, got_se, sigop, what=""):
        out = []
        if not self.ok: return out
        if not ((finite(got_avg) and abs(Fraction(got_avg) - self.avg) <= self.tol_avg)):
            out.append((f"{sigop}:mean{self.reg_avg}", f"weighted average{what} = {got_avg!r}, the definition gives {float(self.avg)!r}"))
        if self.se2 is not None:
            lo = sqrt_bounds(max(Fraction(0), self.se2 - self.d2))[0] * (1 - 4 * UR); hi = sqrt_bounds(self.se2 + self.d2)[1] * (1 + 4 * UR)
            # where the error bound of the three cancelling sums exceeds SE^2 itself (|average| >> spread, unequal weights) the computed SE^2 may be
            # negative rounding noise, and its square root NaN: admitted by the rounding model of the formula as written
            if not ((finite(got_se) and lo <= Fraction(got_se) <= hi) or (got_se == math.inf and hi >= FMAX) or (got_se != got_se and self.se2 - self.d2 < 0)):
                out.append((f"{sigop}:standard-error{self.reg_se}", f"standard error{what} = {got_se!r}, Cochran's formula gives {float(sqrt_bounds(self.se2)[0])!r} (admissible {float(lo)!r} .. {float(hi)!r})"))
        return out


def _pow2(x):
    m, e = math.frexp(abs(x)); return x != 0 and m == 0.5


def _clip_ldexp(x, e):
    try: return _fin(math.ldexp(x, e))
    except OverflowError: return math.copysign(DBL_MAX, x)


def stat_data(rng, n):
    """one data set of n finite doubles from the whole double range; returns (class, list)"""
    cls = rng.choice(["closest-like", "closest-like", "offset", "offset", "straddle", "straddle", "top", "ordinary"])
    if cls == "closest-like":       # scaled by 2^e / order of DBL_MAX / neighbours a few ulp apart / subnormals / mixed magnitudes
        c2, l = closest_lists(rng, n); rng.shuffle(l); cls = "wide-" + c2
    elif cls == "offset":           # |x| >> spread: a common value anywhere in the range, relative spread 1e-16 .. 1e-3
        c = rng.choice([-1, 1]) * rng.choice([10 ** rng.uniform(-300, 300), 2.0 ** rng.randint(-1000, 1000), 0.9 * DBL_MAX, 1.0, 1e6])
        rel = rng.choice(RELS + [1e-5, 1e-4, 1e-3])
        l = [_fin(c * (1 + rel * rng.gauss(0, 1))) for _ in range(n)]
    elif cls == "straddle":         # about half of the data below zero, half above: the middle order statistics have opposite signs
        s = rng.choice([DBL_MAX, 2.0 ** 1023, 2.0 ** rng.randint(-1070, 1023), 10 ** rng.uniform(-300, 308.2), 1.0])
        k = n // 2 if rng.random() < 0.7 else rng.randint(0, n)
        l = [_fin((-1 if j < k else 1) * s * rng.uniform(0.3, 1.0)) for j in range(n)]; rng.shuffle(l)
    elif cls == "top":              # the upper end of the range, one or both signs
        lo, hi = rng.choice([(0.25, 1.0), (-1.0, -0.25), (-1.0, 1.0), (0.9, 1.0), (1e-3, 1.0)])
        l = [DBL_MAX * rng.uniform(lo, hi) for _ in range(n)]
    else:
        scale = 10 ** rng.uniform(-3, 6); off = rng.choice([0.0, 1.0, -1e3, 1e6]) * rng.random()
        l = [off + scale * rng.gauss(0, 1) for _ in range(n)]
    if n > 1 and rng.random() < 0.2: l[rng.randrange(n)] = l[rng.randrange(n)]
    return cls, l


def unit_data(rng, n):
    """moderate data (non-zero magnitudes between 2^-20 and 2^20) for the exact scaling laws"""
    kind = rng.choice(["half-integers", "generic", "straddle", "offset"])
    if kind == "half-integers": l = [rng.randint(-12, 12) * 0.5 for _ in range(n)]
    elif kind == "generic": l = [rng.uniform(-8, 8) for _ in range(n)]
    elif kind == "straddle": l = [(-1 if j < n // 2 else 1) * rng.uniform(0.6, 2.0) for j in range(n)]; rng.shuffle(l)
    else:
        c = rng.choice([-1, 1]) * rng.choice([1.0, 1000.0, 2.0 ** 19]); rel = rng.choice([1e-12, 1e-9, 1e-6, 1e-3])
        l = [c * (1 + rel * rng.gauss(0, 1)) for _ in range(n)]
    l = [x if (x == 0.0 or 2.0 ** -20 <= abs(x) <= 2.0 ** 20) else 1.0 for x in l]
    return kind, l


def scale_exponent(rng, l, lo=-1074, hi=1023):
    """an exponent e such that 2^e * l stays finite: from a ladder that reaches both ends of the range"""
    mx = max(abs(x) for x in l) or 1.0
    top = hi - math.frexp(mx)[1]              # 2^top * mx < 2^hi
    e = rng.choice([top, top - rng.randint(0, 3), top - rng.randint(0, 60), rng.randint(lo, top), rng.randint(-60, 60), lo - math.frexp(mx)[1] + rng.randint(0, 60), 0])
    return max(-1074, lo - 60, min(top, e, 1023))


def stat_cases(rng, count):
    cs = []
    for _ in range(count):
        n = rng.choice([1, 2, 2, 2, 3, 4, 4, 5, 6, 8, 9, 10, 31, 32, rng.randint(2, 200)])
        cls, d = stat_data(rng, n)
        tg = ("stat-wide", "stat-" + cls)
        for op in ("mean", "median", "median2") + (("variance", "stddev") if n >= 2 else ()):
            cs.append(Case(f"{op} {flist(d)}", (op,) + tg, tol=(1e-9, 1e-320)))
        if n >= 2 and rng.random() < 0.5:
            w = [rng.choice([1.0, 1.0, rng.uniform(0.1, 10)]) if rng.random() < 0.7 else 2.5 for _ in range(n)]
            if rng.random() < 0.4: w = [w[0]] * n
            cs.append(Case(f"wavg {n} " + " ".join(f"{hx(a)} {hx(b)}" for a, b in zip(d, w)), ("wavg",) + tg, tol=(1e-6, 1e-320)))
        if rng.random() < 0.3:
            cs.append(Case(f"wavg1 {flist(d)}", ("wavg1",) + tg, tol=(1e-6, 1e-320)))
    return cs


def law_cases(rng, count):
    cs = []
    for _ in range(count):
        n = rng.choice([1, 2, 2, 3, 4, 4, 5, 6, 7, 8, 16, 17, rng.randint(2, 64)])
        if rng.random() < 0.7: kind, d = unit_data(rng, n)
        else: kind, d = stat_data(rng, n)
        e = scale_exponent(rng, d)
        p = math.ldexp(rng.choice([1.0, 1.0, -1.0]), e) if rng.random() < 0.85 else _fin(math.ldexp(rng.uniform(0.5, 1.0), e))
        # shift: an integer for half-integer data (the shifted data are exact), else anything of the order of the data or far larger
        mx = max(abs(x) for x in d) or 1.0
        t = float(rng.randint(-50, 50)) if kind == "half-integers" else rng.choice([0.0, rng.uniform(-1, 1) * mx, rng.choice([-1, 1]) * mx * 10 ** rng.uniform(0, 12), 1.0])
        t = _fin(t)
        if not all(finite(x + t) for x in d): t = 0.0
        k = rng.randint(0, n)
        cs.append(Case(f"laws {flist(d)} {hx(p)} {hx(t)} {k}", ("laws", "laws-" + kind, "laws-pow2" if _pow2(p) else "laws-generic-factor"), tol=(1e-9, 1e-320)))
    return cs


def wlaw_cases(rng, count):
    cs = []
    for _ in range(count):
        n = rng.choice([2, 2, 3, 4, 5, 8, 16, rng.randint(2, 64)])
        kind, v = unit_data(rng, n)
        w = [rng.choice([1.0, 1.0, rng.uniform(0.1, 10)]) if rng.random() < 0.7 else 2.5 for _ in range(n)]
        if rng.random() < 0.3: w = [w[0]] * n
        e = scale_exponent(rng, v, lo=-1060, hi=1015)
        p = math.ldexp(rng.choice([1.0, 1.0, -1.0]), e)
        q = math.ldexp(1.0, rng.choice([0, 1, -1, rng.randint(-200, 200)]))
        k = rng.randint(0, n)
        cs.append(Case(f"wlaws {n} " + " ".join(f"{hx(a)} {hx(b)}" for a, b in zip(v, w)) + f" {hx(p)} {hx(q)} {k}", ("wlaws", "wlaws-" + kind), tol=(1e-6, 1e-320)))
    return cs


def wshift_cases(rng, count):
    """translation law of Weighted_Average (theorem C19_weighted_translate): the data and the data with every value shifted by t"""
    cs = []
    for _ in range(count):
        n = rng.choice([2, 2, 3, 4, 5, 8, 16, rng.randint(2, 64)])
        kind, v = unit_data(rng, n)
        w = [rng.choice([1.0, 1.0, rng.uniform(0.1, 10)]) if rng.random() < 0.7 else 2.5 for _ in range(n)]
        if rng.random() < 0.3: w = [w[0]] * n
        if rng.random() < 0.3: w = [float(rng.randint(1, 8)) * 0.25 for _ in range(n)]
        mx = max(abs(x) for x in v) or 1.0
        t = float(rng.randint(-50, 50)) if kind == "half-integers" else rng.choice([0.0, rng.uniform(-1, 1) * mx, rng.choice([-1, 1]) * mx * 10 ** rng.uniform(0, 6), 1.0, -mx])
        cs.append(Case(f"wshift {n} " + " ".join(f"{hx(a)} {hx(b)}" for a, b in zip(v, w)) + f" {hx(t)}", ("wshift", "wshift-" + kind), tol=(1e-6, 1e-320)))
    return cs


HIST_OPS = ("mean", "variance", "stddev", "median")


def history_cases(rng, count):
    """object histories (theorems C19_stat_history*): one vector handed to a sequence of statistics calls, Median reorders it.
    'exact': half-integers times a power of two - every partial sum of the data is exact, so the order std::nth_element leaves does not
    show in the mean; 'wide': data from the whole double range, the order-sensitive calls only before the first Median."""
    cs = []
    for _ in range(count):
        m = rng.choice([1, 2, 3, 4, 6, 8, 12])
        if rng.random() < 0.6:
            n = rng.choice([2, 3, 4, 5, 6, 7, 8, 16, 17, rng.randint(2, 64)])
            e = rng.choice([0, 0, 1, -1, rng.randint(-400, 400)])
            d = [math.ldexp(rng.randint(-12, 12) * 0.5, e) for _ in range(n)]
            ops = [rng.choice([0, 1, 2, 3, 3]) for _ in range(m)]
            kind = "exact"
        else:
            n = rng.choice([2, 2, 3, 4, 5, 8, 9, 10, 31, 32, rng.randint(2, 120)])
            cls, d = stat_data(rng, n)
            k = rng.randint(0, m)
            ops = [rng.choice([0, 1, 2]) for _ in range(k)] + [3] * (m - k)
            kind = "wide"
        shape = "no-median" if 3 not in ops else ("median-first" if ops[0] == 3 else "median-later")
        cs.append(Case(f"history {flist(d)} {ilist(ops)}", ("history", "history-" + kind, "history-" + shape), tol=(1e-9, 1e-320)))
    return cs


DPOOL = [0.0, -0.0, 1.0, -1.0, 2.5, math.nan, math.inf, -math.inf, 5e-324, -5e-324, DBL_MAX, -DBL_MAX, 1.0 + 2.0 ** -52, 3.0]


def dlist_cases(rng, count):
    """the list templates instantiated at double; elements include signed zeros (equal), NaN (unequal to itself), infinities"""
    cs = []
    def dl(n): return [rng.choice(DPOOL) for _ in range(n)]
    for _ in range(count):
        n = rng.choice([0, 1, 2, 3, 5, 9])
        a = dl(n); b = list(a) if rng.random() < 0.5 else dl(rng.choice([n, n, max(0, n - 1), n + 1]))
        if b and rng.random() < 0.3: b[rng.randrange(len(b))] = rng.choice(DPOOL)
        if b and rng.random() < 0.3:
            j = rng.randrange(len(b)); b[j] = -b[j] if b[j] == 0.0 else b[j]          # +0.0 against -0.0
        x = rng.choice(a) if a and rng.random() < 0.6 else rng.choice(DPOOL)
        cs.append(Case(f"lists_equal_d {flist(a)} {flist(b)}", ("lists_equal_d", "double")))
        cs.append(Case(f"combine_d {flist(a)} {flist(b)}", ("combine_d", "double")))
        cs.append(Case(f"contains_d {flist(a)} {hx(x)}", ("contains_d", "double")))
        cs.append(Case(f"find_indices_d {flist(a)} {hx(x)}", ("find_indices_d", "double")))
        rows = rng.choice([0, 1, 2, 3]); tab = [dl(rng.choice([0, 1, 2, 4])) for _ in range(rows)]
        cs.append(Case(f"flatten_d {rows} " + " ".join(flist(r) for r in tab), ("flatten_d", "double")))
        tab2 = [list(r) for r in tab] if rng.random() < 0.6 else [dl(rng.choice([0, 1, 2, 4])) for _ in range(rng.choice([rows, rows + 1]))]
        if tab2 and tab2[-1] and rng.random() < 0.3: tab2[-1][-1] = rng.choice(DPOOL)
        cs.append(Case(f"lists_equal2_d {rows} " + " ".join(flist(r) for r in tab) + f" {len(tab2)} " + " ".join(flist(r) for r in tab2), ("lists_equal2_d", "double")))
        m = rng.choice([1, 2, 3, 6]); v = dl(m)
        i1 = rng.choice([-2, -1, 0, 1, m - 1, m, m + 1]); i2 = rng.choice([0, 1, m - 2, m - 1, m, m + 1, 4294967295]); i2 = max(i2, 0)
        cs.append(Case(f"sub_list_d {flist(v)} {i1} {i2}", ("sub_list_d", "double")))
        rr = rng.choice([1, 2, 3]); cc = rng.choice([0, 1, 2, 4]); tab = [dl(cc) for _ in range(rr)]
        if rr > 1 and rng.random() < 0.3: tab[rng.randrange(1, rr)] = dl(cc + rng.choice([-1, 1]) if cc > 0 else 1)
        cs.append(Case(f"transpose_d {rr} " + " ".join(flist(r) for r in tab), ("transpose_d", "double")))
        c = dl(len(a) if rng.random() < 0.7 else rng.choice([0, 1, len(a) + 1]))
        cs.append(Case(f"transpose2_d {flist(a)} {flist(c)}", ("transpose2_d", "double")))
    return cs


def overload_cases(rng, big):
    cs = []
    # Range(max): the whole stated domain and beyond; Range(min, max): default step
    for b in list(range(-40, 41)) + [-1000, -129, -64, 64, 129, 1000, rng.randint(-5000, 5000)]:
        cs.append(Case(f"range1 {b}", ("range1", "overload")))
    lim = 40 if big else 13
    for a in range(-lim, lim + 1):
        for b in range(-lim, lim + 1):
            cs.append(Case(f"range2 {a} {b}", ("range2", "overload")))
    for _ in range(0 if big else 300):
        cs.append(Case(f"range2 {rng.randint(-40, 40)} {rng.randint(-40, 40)}", ("range2", "overload")))
    def il(n): return [rng.randint(-3, 3) for _ in range(n)]
    for _ in range(2000 if big else 300):
        rows = rng.choice([0, 1, 2, 3, 4]); tab = [il(rng.choice([0, 1, 2, 4])) for _ in range(rows)]
        r = rng.random()
        if r < 0.5: tab2 = [list(x) for x in tab]
        elif r < 0.7: tab2 = [list(x) for x in tab][:-1] if tab else [[]]
        else: tab2 = [il(len(x)) if rng.random() < 0.5 else list(x) for x in tab]
        if tab2 and rng.random() < 0.3:
            j = rng.randrange(len(tab2))
            if tab2[j] and rng.random() < 0.7: tab2[j][rng.randrange(len(tab2[j]))] += 1
            else: tab2[j] = tab2[j] + [0]                                # same flattened content is possible, different shape
        if len(tab) >= 2 and rng.random() < 0.1:                        # same elements, different row boundaries
            fl = [y for x in tab for y in x]; cut = rng.randint(0, len(fl)); tab2 = [fl[:cut], fl[cut:]] + [[] for _ in tab[2:]]
        cs.append(Case(f"lists_equal2 {len(tab)} " + " ".join(ilist(x) for x in tab) + f" {len(tab2)} " + " ".join(ilist(x) for x in tab2), ("lists_equal2", "overload")))
        n = rng.choice([0, 1, 2, 3, 5, 9]); a = il(n); b = il(n if rng.random() < 0.75 else rng.choice([0, max(0, n - 1), n + 1]))
        cs.append(Case(f"transpose2 {ilist(a)} {ilist(b)}", ("transpose2", "overload")))
    return cs


# ---- sessions: several requests in one process, and the ambient process state --------------------------------------------------
# A session is `seq n L1 <sub-case 1> L2 <sub-case 2> ...` (Lk = number of tokens of sub-case k); both sides answer the sub-cases one
# after the other in ONE process and separate the answers by `|`.  Sub-cases are ordinary requests of this file (never one that ends
# the process) and ambient events `amb_*` (answer `.`), which put the process into a state that earlier, unrelated code leaves behind:
#   amb_errno n                      errno = n
#   amb_fe m                         raise floating-point exception flags (1 invalid, 2 div-by-zero, 4 overflow, 8 underflow, 16 inexact)
#   amb_stream cout|cerr|clog|cin w  state / format flags of a standard stream (failbit, badbit, eofbit, fixed, scientific, prec<n>, ...)
#   amb_call f args                  another facility of the library (densities in and beyond their tails, likelihoods at zero)
#   amb_libm f x y                   the caller's own arithmetic (domain and range errors of libm, division by zero, overflow, strtod)
# The harness puts errno, the exception flags and the four standard streams back to their pristine state at the start of every case
# line, so a case means the same alone (replay) and inside a run.  The rounding MODE and the locale are not driven: they change what
# the arithmetic / the caller's number parsing means, not what an earlier call left behind.
GAUSS_Z = [0.0, 1.0, 5.0, 30.0, 37.0, 37.6, 38.0, 38.4, 38.5, 38.6, 38.7, 39.0, 40.0, 100.0, 1e5, 1e160]
AMB_CALLS = [("pmf_poisson", "{} {}", [(800.0, 0), (1000.0, 0), (745.0, 0), (744.0, 0), (0.5, 3), (1e-300, 5), (1e-200, 3), (30.0, 500), (0.0, 0), (0.0, 4), (5.0, 5)]),
             ("lik_poisson", "{} {} {}", [(1000.0, 0, 0.0), (800.0, 0, 0.0), (0.0, 3, 0.0), (5.0, 5, 0.5), (1e4, 1, 0.0), (0.0, 0, 0.0), (700.0, 2, 50.0)]),
             ("loglik_poisson", "{} {} {}", [(0.0, 3, 0.0), (-1.0, 2, 0.0), (5.0, 5, 0.5), (1e308, 1, 1e308)]),
             ("pdf_maxwell", "{} {}", [(1e5, 1.0), (40.0, 1.0), (39.0, 1.0), (1e200, 1.0), (1.0, 1.0), (1e-200, 1.0), (1.0, 1e-110)]),
             ("pdf_chi2", "{} {}", [(1e4, 2.0), (2000.0, 3.0), (1.0, 1.0), (1e-320, 0.5), (1500.0, 2.0)])]
AMB_LIBM = [("log", -1.0, 0.0), ("log", 0.0, 0.0), ("log", 2.0, 0.0), ("log10", 0.0, 0.0), ("log10", -3.0, 0.0), ("sqrt", -1.0, 0.0), ("sqrt", 2.0, 0.0), ("exp", 1000.0, 0.0),
            ("exp", -1000.0, 0.0), ("exp", -745.2, 0.0), ("exp", -740.0, 0.0), ("exp", 709.9, 0.0), ("acos", 2.0, 0.0), ("pow", -1.0, 0.5), ("pow", 10.0, 400.0),
            ("pow", 10.0, -400.0), ("pow", 0.0, -1.0), ("lgamma", -1.0, 0.0), ("tgamma", 0.0, 0.0), ("tgamma", 200.0, 0.0), ("tgamma", -1.0, 0.0), ("fmod", 1.0, 0.0),
            ("div", 1.0, 0.0), ("div", 0.0, 0.0), ("mul", 1e200, 1e200), ("mul", 1e-200, 1e-200), ("strtod", 1.0, 0.0), ("strtod", -1.0, 0.0)]
AMB_STREAM = ["failbit", "badbit", "eofbit", "fixed", "scientific", "hexfloat", "showpos", "showpoint", "uppercase", "boolalpha", "hex", "noskipws", "width", "fill", "prec0", "prec3", "prec17"]
ERRNOS = [33, 34, 33, 34, 33, 34, 22, 2, 4, 11, 12, 75, 84]          # EDOM, ERANGE, EINVAL, ENOENT, EINTR, EAGAIN, ENOMEM, EOVERFLOW, EILSEQ


def ambient_event(rng):
    """one event of the caller's side; returns (sub-case, kind)"""
    r = rng.random()
    if r < 0.22: return f"amb_errno {rng.choice(ERRNOS + [rng.randint(1, 133)])}", "errno"
    if r < 0.36: return f"amb_fe {rng.choice([1, 2, 4, 8, 16, 24, 20, 31, rng.randint(1, 31)])}", "fe-flags"
    if r < 0.46: return f"amb_stream {rng.choice(['cout', 'cout', 'cerr', 'cerr', 'clog', 'cin'])} {rng.choice(AMB_STREAM)}", "stream"
    if r < 0.62:     # a Gaussian density / distribution function from its centre to far beyond the point where exp underflows (z = 38.6), any scale
        sg = rng.choice([1.0, 1.0, 10 ** rng.uniform(-3, 3), 10 ** rng.uniform(-150, 150)]); mu = rng.choice([0.0, 0.0, rng.uniform(-5, 5), 1e6])
        z = rng.choice(GAUSS_Z + [rng.uniform(36, 41)]); x = _fin(mu + rng.choice([-1, 1]) * z * sg)
        return f"amb_call {rng.choice(['pdf_gauss', 'pdf_gauss', 'cdf_gauss'])} {hx(x)} {hx(mu)} {hx(sg)}", "library-call"
    if r < 0.80:
        f, fmt, args = rng.choice(AMB_CALLS); a = rng.choice(args)
        return f"amb_call {f} " + fmt.format(*[hx(v) if isinstance(v, float) else v for v in a]), "library-call"
    f, x, y = rng.choice(AMB_LIBM)
    return f"amb_libm {f} {hx(x)} {hx(y)}", "libm"


def seq_line(subs): return f"seq {len(subs)} " + " ".join(f"{len(x.split())} {x}" for x in subs)


def seq_parse(line):
    t = line.split(); n = int(t[1]); k = 2; subs = []
    for _ in range(n):
        L = int(t[k]); subs.append(" ".join(t[k + 1:k + 1 + L])); k += 1 + L
    return subs


def never_exits(line):
    """does this request return on a correct library (decided from the request alone)?"""
    t = line.split(); op = t[0]
    if op == "workload": return int(t[1]) > 0
    if op == "closest":
        v = parse_vals(line)[1:]; n = v[0]; l = v[1:1 + n]
        return n > 0 and all(x <= y for x, y in zip(l, l[1:]))
    if op in ("transpose", "transpose_d"):
        k = 2; lens = set()
        for _ in range(int(t[1])):
            lens.add(int(t[k])); k += 1 + int(t[k])
        return len(lens) <= 1
    if op in ("transpose2", "transpose2_d"): return int(t[1]) == int(t[2 + int(t[1])])
    return op != "seq"


SESSION_GROUPS = [(("logspace",), 30), (("linspace",), 12), (("mean", "variance", "stddev", "median", "median2", "wavg", "wavg1", "laws", "wlaws", "wshift", "history"), 28), (("closest",), 8),
                  (("workload", "range", "range1", "range2", "lists_equal", "combine", "flatten", "contains", "find_indices", "sub_list", "transpose", "lists_equal2", "transpose2",
                    "lists_equal_d", "lists_equal2_d", "combine_d", "flatten_d", "contains_d", "find_indices_d", "sub_list_d", "transpose_d", "transpose2_d"), 22)]
EXTREME_TAGS = {"logspace-extreme", "linspace-extreme", "stat-top", "stat-wide-huge", "stat-straddle", "logspace-wide"}


def session_cases(rng, pool, count, maxtok):
    """sessions over the requests already generated (pool): polluted by ambient events, interleaved, repeated, after requests from the extreme regions"""
    by = {}; extreme = []
    for c in pool:
        if c.line.count(" ") >= maxtok or not never_exits(c.line): continue
        by.setdefault(c.line.split(None, 1)[0], []).append(c)
        if EXTREME_TAGS & set(c.tags): extreme.append(c)
    groups = [([o for o in ops if o in by], w) for ops, w in SESSION_GROUPS]; groups = [(o, w) for o, w in groups if o]
    if not groups: return []
    def pick(op=None):
        if op is None: op = rng.choice(rng.choices([g for g, _ in groups], [w for _, w in groups])[0])
        return rng.choice(by[op])
    def grid_twin(c):      # the same end points and count on the other grid (positive end points only)
        t = c.line.split()
        return Case(("linspace " if t[0] == "logspace" else "logspace ") + " ".join(t[1:]), c.tags, tol=(1e-9, 1e-320))
    cs = []
    # systematically: every helper entry point right after every kind of ambient event (the random sessions below add volume and longer histories)
    g40 = f"amb_call pdf_gauss {hx(40.0)} {hx(0.0)} {hx(1.0)}"
    for op in sorted(by):
        for e, k in [("amb_errno 33", "errno"), ("amb_errno 34", "errno"), ("amb_fe 31", "fe-flags"), (f"amb_fe {rng.choice([1, 2, 4, 8, 16])}", "fe-flags"),
                     ("amb_stream cout failbit", "stream"), ("amb_stream cout " + rng.choice(AMB_STREAM[3:]), "stream"), ("amb_stream cerr " + rng.choice(AMB_STREAM[:3]), "stream"),
                     ("amb_stream cerr " + rng.choice(AMB_STREAM[3:]), "stream"), ("amb_stream clog " + rng.choice(AMB_STREAM), "stream"), ("amb_stream cin " + rng.choice(AMB_STREAM[:3]), "stream"),
                     (g40, "library-call"), (f"amb_call loglik_poisson {hx(-1.0)} 2 {hx(0.0)}", "library-call"), (f"amb_libm sqrt {hx(-1.0)} {hx(0.0)}", "libm"),
                     (f"amb_libm exp {hx(1000.0)} {hx(0.0)}", "libm")]:
            a = pick(op); b = pick(op)
            cs.append(Case(seq_line([e, a.line, b.line]), ("seq", "session-matrix", "amb-" + k), tol=(max((a.tol or TOL)[0], (b.tol or TOL)[0]), max((a.tol or TOL)[1], (b.tol or TOL)[1]))))
    for _ in range(count):
        r = rng.random(); kinds = set(); items = []
        def ev():
            e, k = ambient_event(rng); kinds.add(k); return e
        if r < 0.36:
            a = pick(); items = [ev(), a] + ([a] if rng.random() < 0.5 else []); shape = "event-then-call"
        elif r < 0.50:
            items = [ev(), ev()] + [pick() for _ in range(rng.randint(2, 5))]; shape = "events-then-calls"
        elif r < 0.64:
            a = pick(); items = [a, ev(), pick(), a]; shape = "interleaved"
        elif r < 0.78 and extreme:
            x = rng.choice(extreme); op = x.line.split(None, 1)[0]; items = [x, pick(op), pick()] + ([x] if rng.random() < 0.3 else []); shape = "after-extreme-request"
        elif r < 0.90:
            a = pick(); items = [pick() for _ in range(rng.randint(2, 4))]; items.insert(rng.randrange(len(items) + 1), a); items.append(a); shape = "plain-history"
        else:
            a = pick("logspace") if "logspace" in by else pick(); items = [ev(), a, grid_twin(a), a] if a.line.startswith("logspace") else [ev(), a, a]; shape = "event-then-both-grids"
        subs = [x if isinstance(x, str) else x.line for x in items]
        tols = [(x.tol or TOL) for x in items if not isinstance(x, str)]
        tol = (max(a for a, _ in tols), max(b for _, b in tols))
        cs.append(Case(seq_line(subs), ("seq", "session-" + shape) + tuple("amb-" + k for k in sorted(kinds)), tol=tol))
    return cs


def gridstat_cases(rng, count):
    cs = []
    for _ in range(count):
        kind = rng.choice(["generic", "generic", "integer", "ulps", "sign-change"])
        n = rng.choice([2, 3, 4, 5, rng.randint(2, 40), rng.randint(2, 200)])
        e = rng.randint(-300, 300)
        if kind == "integer": a = float(rng.randint(-50, 50)); b = a + rng.randint(1, 60)
        elif kind == "ulps": a = math.ldexp(rng.uniform(1, 2) * rng.choice([-1, 1]), e); b = ulp_step(a, rng.randint(1, 3 * n))
        elif kind == "sign-change": a = -math.ldexp(rng.uniform(1, 2), e); b = math.ldexp(rng.uniform(1, 2), e + rng.randint(-3, 3))
        else: a = math.ldexp(rng.uniform(-2, 2), e); b = a + abs(math.ldexp(rng.uniform(0.01, 2), e + rng.randint(-8, 8)))
        if not a < b: continue
        k = rng.choice([0, n - 1, rng.randrange(n)])
        cs.append(Case(f"gridstat {hx(a)} {hx(b)} {n} {k}", ("gridstat", "gridstat-" + kind)))
    return cs


def datapoint_cases(rng, count):
    cs = []
    for _ in range(count):
        mode = rng.choice([0, 0, 0, 1, 2])
        v1 = rng.choice(DPOOL) if rng.random() < 0.5 else rng.choice([-1, 1]) * 10 ** rng.uniform(-320, 308)
        r = rng.random()
        if r < 0.3: v2 = v1
        elif r < 0.5 and finite(v1): v2 = ulp_step(v1, rng.choice([-1, 1]) * rng.choice(ULPS))
        elif r < 0.6: v2 = -v1
        else: v2 = rng.choice(DPOOL) if rng.random() < 0.5 else rng.choice([-1, 1]) * 10 ** rng.uniform(-320, 308)
        w1 = rng.choice([1.0, 0.0, 2.5, rng.uniform(0.1, 10), math.nan, -1.0]); w2 = w1 if rng.random() < 0.3 else rng.choice([1.0, 0.5, rng.uniform(0.1, 10), math.inf])
        cs.append(Case(f"dpcmp {mode} {hx(v1)} {hx(w1)} {hx(v2)} {hx(w2)}", ("dpcmp", f"dpcmp-mode{mode}", "dpcmp-equal-values" if v1 == v2 else "dpcmp-distinct")))
    return cs


def generate(rng, tier):
    cs = []
    big = tier != "quick"
    # Workload_Distribution: exhaustive over the property's quantifier in the thorough tier
    if big:
        for w in range(1, 129):
            for t in range(0, 1025):
                cs.append(Case(f"workload {w} {t}", ("workload",)))
    else:
        for w in list(range(1, 33)) + [64, 127, 128]:
            for t in list(range(0, 70)) + [127, 128, 129, 1000, 1023, 1024]:
                cs.append(Case(f"workload {w} {t}", ("workload",)))
    for _ in range(200 if big else 40):
        cs.append(Case(f"workload {rng.randint(1, 5000)} {rng.randint(0, 200000)}", ("workload", "large")))
    for t in [0, 1, 7, 1024, rng.randint(0, 200000)]:
        cs.append(Case(f"workload 0 {t}", ("workload", "zero-workers")))    # guard: diagnostic and exit
    # Range
    lim = 40 if big else 12
    for a in range(-lim, lim + 1, 1 if big else 3):
        for b in range(-lim, lim + 1, 1 if big else 2):
            for s in ([1, 2, 3, 5, 7, 40] if not big else range(1, 41)):
                cs.append(Case(f"range {a} {b} {s}", ("range",)))
    cs.append(Case("range 5 5 1", ("range", "empty")))
    cs.append(Case("range 7 2 -1", ("range", "neg-step")))  # min>max with step<=0: ascending loop, empty
    # Linear / Log space
    for _ in range(4000 if big else 400):
        steps = rng.choice([0, 1, 2, 3, 4, 5, 10, 17, 100, rng.randint(2, 2000)])
        e1, e2 = rng.uniform(-12, 12), rng.uniform(-12, 12)
        a = rng.choice([-1, 1]) * 10 ** e1; b = rng.choice([-1, 1]) * 10 ** e2
        if rng.random() < 0.1: b = a
        if rng.random() < 0.1: a = 0.0
        cs.append(Case(f"linspace {hx(a)} {hx(b)} {steps}", ("linspace",)))
        la, lb = 10 ** rng.uniform(-200, 200), 10 ** rng.uniform(-200, 200)
        if rng.random() < 0.05: lb = la
        cs.append(Case(f"logspace {hx(la)} {hx(lb)} {steps}", ("logspace",), tol=(1e-9, 0.0)))
    # grids at extreme scales (1e-290 .. 1e290, no intermediate under/overflow) and with nearly equal end points (1..1000 ulp, relative 1e-16..1e-6)
    for _ in range(2000 if big else 200):
        steps = rng.choice([0, 1, 2, 3, 4, 5, 10, 17, 100, rng.randint(2, 2000)])
        a = rng.choice([-1, 1]) * 10 ** rng.uniform(-290, 290)
        r = rng.random()
        if r < 0.35: b = rng.choice([-1, 1]) * 10 ** rng.uniform(-290, 290)
        elif r < 0.55: b = ulp_step(a, rng.choice([-1, 1]) * rng.choice(ULPS))
        elif r < 0.8: b = a * (1 + rng.choice([-1, 1]) * rng.choice(RELS))
        elif r < 0.9: b = 0.0
        else: a, b = 0.0, a
        cs.append(Case(f"linspace {hx(a)} {hx(b)} {steps}", ("linspace", "linspace-wide")))
        la = abs(a) if a != 0.0 else 1.0; lb = abs(b) if b != 0.0 else 10 ** rng.uniform(-290, 290)
        cs.append(Case(f"logspace {hx(la)} {hx(lb)} {steps}", ("logspace", "logspace-wide"), tol=(1e-9, 0.0)))
    # grids whose end points reach both ends of the double range (order of DBL_MAX, subnormals, mixed)
    def gend():
        r = rng.random()
        if r < 0.35: return rng.choice([-1, 1]) * DBL_MAX * rng.uniform(0.01, 1)
        if r < 0.55: return rng.choice([-1, 1]) * rng.choice([rng.randint(1, 64), rng.randint(1, 2 ** 53)]) * 5e-324
        if r < 0.8: return rng.choice([-1, 1]) * 10 ** rng.uniform(-323, 308)
        return rng.choice([0.0, DBL_MAX, -DBL_MAX, 5e-324, DBL_MIN, ulp_step(DBL_MAX, -rng.choice(ULPS)), 2.0 ** 1023])
    for _ in range(1500 if big else 150):
        steps = rng.choice([2, 3, 4, 5, 10, 17, 100, rng.randint(2, 2000)])
        a, b = gend(), gend()
        if rng.random() < 0.2: b = _fin(a * rng.choice([0.5, 2.0, 1 + rng.choice(RELS), -1.0]))
        cs.append(Case(f"linspace {hx(a)} {hx(b)} {steps}", ("linspace", "linspace-extreme")))
        cs.append(Case(f"logspace {hx(abs(a) or 1.0)} {hx(abs(b) or 2.0)} {steps}", ("logspace", "logspace-extreme"), tol=(1e-9, 1e-320)))
    # Locate_Closest_Location
    for _ in range(6000 if big else 800):
        n = rng.choice([1, 1, 2, 3, 4, 5, 8, 16, 33, 64])
        pool = [float(rng.randint(-6, 6)) * rng.choice([0.5, 1.0]) for _ in range(n)]
        l = sorted(pool)
        kind = rng.random()
        if kind < 0.07 and n > 1:
            rng.shuffle(l); tag = "maybe-unsorted"
        else: tag = "sorted"
        r = rng.random()
        if r < 0.3: t = rng.choice(l)
        elif r < 0.5 and n > 1:
            k = rng.randrange(n - 1); t = (l[k] + l[k + 1]) / 2    # tie
        elif r < 0.6: t = min(l) - rng.choice([0.0, 0.25, 3.0])
        elif r < 0.7: t = max(l) + rng.choice([0.0, 0.25, 3.0])
        else: t = rng.uniform(-4, 4)
        cs.append(Case(f"closest {flist(l)} {hx(t)}", ("closest", tag)))
    cs += closest_wide(rng, 4000 if big else 450)
    for t in [0.0, -1.5, 3.0, rng.uniform(-4, 4), DBL_MAX, -5e-324]:
        cs.append(Case(f"closest 0 {hx(t)}", ("closest", "empty")))          # guard: empty list exits
    cs.append(Case("transpose 0", ("transpose", "empty")))                  # empty list of lists -> empty list
    # list templates on ints
    def il(n): return [rng.randint(-3, 3) for _ in range(n)]
    for _ in range(3000 if big else 500):
        n = rng.choice([0, 1, 2, 3, 5, 9])
        a = il(n); b = list(a) if rng.random() < 0.5 else il(rng.choice([n, n, max(0, n - 1), n + 1]))
        if b and rng.random() < 0.3: b[rng.randrange(len(b))] += 1
        cs.append(Case(f"lists_equal {ilist(a)} {ilist(b)}", ("lists_equal",)))
        cs.append(Case(f"combine {ilist(a)} {ilist(b)}", ("combine",)))
        cs.append(Case(f"contains {ilist(a)} {rng.randint(-3, 3)}", ("contains",)))
        cs.append(Case(f"find_indices {ilist(a)} {rng.randint(-3, 3)}", ("find_indices",)))
        rows = rng.choice([0, 1, 2, 3, 4])
        tab = [il(rng.choice([0, 1, 2, 4])) for _ in range(rows)]
        cs.append(Case(f"flatten {rows} " + " ".join(ilist(r) for r in tab), ("flatten",)))
        # Sub_List: indices on both sides of every clamp
        m = rng.choice([1, 2, 3, 6, 10]); v = il(m)
        i1 = rng.choice([-2, -1, 0, 1, m - 1, m, m + 1, rng.randint(0, m)])
        i2 = rng.choice([0, 1, m - 2, m - 1, m, m + 1, 4294967295, rng.randint(0, m + 2)])
        if i2 < 0: i2 = 0
        cs.append(Case(f"sub_list {ilist(v)} {i1} {i2}", ("sub_list",)))
        # Transpose_Lists: rectangular and ragged, at least one row
        rr = rng.choice([1, 2, 3, 5]); cc = rng.choice([0, 1, 2, 4])
        tab = [il(cc) for _ in range(rr)]
        if rr > 1 and rng.random() < 0.3: tab[rng.randrange(1, rr)] = il(cc + rng.choice([-1, 1]) if cc > 0 else 1)
        cs.append(Case(f"transpose {rr} " + " ".join(ilist(r) for r in tab), ("transpose",)))
        if rng.random() < 0.15:      # the ends of the index types
            i1 = rng.choice([-2147483648, 2147483647, -2147483647, 2147483646]) if rng.random() < 0.5 else i1
            i2 = rng.choice([2147483647, 2147483648, 4294967294, 4294967295]) if rng.random() < 0.7 else i2
            cs.append(Case(f"sub_list {ilist(v)} {i1} {i2}", ("sub_list", "index-extremes")))
    cs.append(Case("sub_list 0 0 0", ("sub_list", "empty")))
    cs.append(Case("sub_list 0 2 5", ("sub_list", "empty")))
    # statistics
    for _ in range(3000 if big else 400):
        n = rng.choice([2, 3, 4, 5, 10, 31, rng.randint(2, 200)])
        scale = 10 ** rng.uniform(-3, 6); off = rng.choice([0.0, 1.0, -1e3, 1e6]) * rng.random()
        d = [off + scale * rng.gauss(0, 1) for _ in range(n)]
        if rng.random() < 0.2: d[rng.randrange(n)] = d[0]
        for op in ("mean", "variance", "stddev", "median"):
            cs.append(Case(f"{op} {flist(d)}", (op,), tol=(1e-9, 1e-300)))
        w = [rng.choice([1.0, 1.0, rng.uniform(0.1, 10)]) if rng.random() < 0.7 else 2.5 for _ in range(n)]
        if rng.random() < 0.3: w = [w[0]] * n
        cs.append(Case(f"wavg {n} " + " ".join(f"{hx(a)} {hx(b)}" for a, b in zip(d, w)), ("wavg",), tol=(1e-7, 1e-300)))
    # every other way of calling the helpers (overloads, default arguments), the templates at double
    cs += overload_cases(rng, big)
    cs += dlist_cases(rng, 1500 if big else 150)
    # statistics over the whole double range, and the laws inside one process
    cs += stat_cases(rng, 3000 if big else 260)
    cs += law_cases(rng, 3000 if big else 260)
    cs += wlaw_cases(rng, 1500 if big else 150)
    cs += wshift_cases(rng, 1500 if big else 120)
    cs += history_cases(rng, 3000 if big else 300)
    # sessions: the requests above again, several per process, with the ambient state other code leaves behind
    cs += session_cases(rng, list(cs), 8000 if big else 500, 400 if big else 90)
    # the helpers composed (after everything else, so that the streams above are unchanged): statistics of an ascending grid, a grid point
    # looked up in its own grid; end points of moderate magnitude (the overflow regions of K-C19-1/2 are not entered), steps down to a few ulps
    cs += gridstat_cases(rng, 3000 if big else 250)
    # DataPoint: the three constructors and operator< / operator> / operator== (values from the whole double range incl. signed zeros, NaN, infinities,
    # neighbours 1 ulp apart; equal values with different weights)
    cs += datapoint_cases(rng, 3000 if big else 300)
    return cs


def nontrivial(c, io):
    t = c.line.split(); op = t[0]
    if op == "seq":
        subs = seq_parse(c.line); segs = [x.strip() for x in io.split("|")]
        return len(segs) == len(subs) and any(nontrivial(Case(a), b) for a, b in zip(subs, segs) if not a.startswith("amb_"))
    if io.startswith(("EXIT", "CRASH")): return op in ("closest", "transpose", "workload")
    if op == "workload": return int(t[1]) > 0 and int(t[2]) % int(t[1]) != 0
    if op == "range": return (int(t[2]) - int(t[1])) % int(t[3]) != 0
    if op in ("linspace", "logspace"): return int(t[3]) >= 3 and t[1] != t[2]
    if op == "closest":
        v = parse_vals(c.line)[1:]; n = v[0]; l = v[1:1 + n]; tg = v[1 + n]
        return n > 1 and (tg < l[0] or tg > l[-1] or len(set(l)) < n or any(abs(abs(a - tg) - abs(b - tg)) == 0 and a != b for a, b in zip(l, l[1:])))
    if op == "sub_list":
        n = int(t[1]); i1 = int(t[2 + n]); i2 = int(t[3 + n]); return i1 < 0 or i2 >= n
    if op == "transpose": return int(t[1]) > 1 and int(t[2]) > 1
    if op in ("mean", "variance", "stddev", "median", "wavg", "median2", "wavg1", "laws", "wlaws", "wshift"): return int(t[1]) >= 3
    if op == "history": return int(t[1]) >= 3 and int(t[2 + int(t[1])]) >= 2
    if op == "gridstat": return int(t[3]) >= 3
    if op == "range1": return abs(int(t[1])) >= 2
    if op == "range2": return abs(int(t[2]) - int(t[1])) >= 2
    return len(t) > 3


SESSIONS_SEEN = {}      # session line -> its answers (filled by predicates, used by the fresh-process stage in extra)


def _short(line): return line if len(line) <= 70 else line[:67] + "..."


def predicates(c, io):
    """S4: the property's own clauses evaluated on the implementation's output."""
    out = []
    t = c.line.split(); op = t[0]
    if io.startswith(("CRASH", "SANITIZER", "TIMEOUT", "HARNESSERR")): return out   # reported generically
    if op == "seq":
        # every answer of a session must meet the clauses of its own request (same signatures as for a single request), whatever came before
        subs = seq_parse(c.line)
        if io.startswith("EXIT"): return [("session:exit", f"a session of {len(subs)} valid requests terminated the process")]
        segs = [x.strip() for x in io.split("|")]
        if len(segs) != len(subs): return [("session:shape", f"{len(subs)} requests, {len(segs)} answers")]
        SESSIONS_SEEN.setdefault(c.line, segs)      # the first evaluation is the main build's (later ones: other compilers in the thorough tier)
        for k, (sl, sg) in enumerate(zip(subs, segs)):
            if sl.startswith("amb_"):
                if sg != ".": out.append(("session:shape", f"event {sl} answered {sg[:40]}"))
                continue
            hist = "; ".join(_short(h) for h in subs[:k]) or "nothing"
            for sig, msg in predicates(Case(sl), sg):
                out.append((sig, f"call {k + 1} of a session (earlier in this process: {hist}): {msg}"))
        return out
    v = parse_vals(io)
    if op == "workload":
        w, tasks = int(t[1]), int(t[2])
        if w == 0:
            return [] if io.startswith("EXIT") else [("workload:zero-workers", f"Workload_Distribution(0,{tasks}) must terminate with a diagnostic, got {io[:60]}")]
        if io.startswith("EXIT"): return [("workload:exit", "Workload_Distribution terminated the process")]
        n, l = v[0], v[1:]
        if n != w + 1 or len(l) != w + 1: out.append(("workload:length", f"expected {w+1} indices, got {n}"))
        else:
            d = [b - a for a, b in zip(l, l[1:])]
            if l[0] != 0 or l[-1] != tasks: out.append(("workload:ends", f"indices run from {l[0]} to {l[-1]}, expected 0..{tasks}"))
            if any(x < 0 for x in d): out.append(("workload:monotone", "indices decrease"))
            if d and max(d) - min(d) > 1: out.append(("workload:balance", f"consecutive differences differ by {max(d)-min(d)} > 1"))
    elif op == "range":
        a, b, s = int(t[1]), int(t[2]), int(t[3])
        exp = list(range(a, b, -s)) if (a > b and s > 0) else (list(range(a, b, s)) if s > 0 else [])
        if io.startswith("EXIT") or v[1:] != exp: out.append(("range:enumeration", f"Range({a},{b},{s}) should enumerate {exp[:8]}..., got {v[1:9]}"))
    elif op in ("linspace", "logspace"):
        a, b, steps = float.fromhex(t[1]), float.fromhex(t[2]), int(t[3])
        if io.startswith("EXIT"): return [(op + ":exit", "terminated the process")]
        n, l = v[0], v[1:]
        if steps < 2 or a == b:
            if l != [a]: out.append((op + ":degenerate", f"degenerate request should return [min], got {l[:3]}"))
        elif n != steps or len(l) != steps: out.append((op + ":count", f"{n} points instead of {steps}"))
        else:
            # a-priori slack as before; new: one quantum 2^-1074 per operation whose result is subnormal, and the upper end of the range:
            # where max - min (span) or a point within rounding of an end point (end) exceeds DBL_MAX the clause carries a region suffix (K-C19-2)
            sc = max(abs(a), abs(b)); QU = 2.0 ** -1074; up = b > a
            allfin = all(finite(x) for x in l)
            if op == "linspace":
                span = Fraction(b) - Fraction(a); st = span / (steps - 1)
                reg = ":span-overflow" if abs(span) * (1 + UR) >= FMAX else (":end-overflow" if Fraction(sc) * (1 + Fraction(8e-16) * steps) >= FMAX else "")
                if not _same(l[0], a): out.append((op + ":first" + reg, f"first point {l[0]!r} is not min {a!r}"))
                if not (finite(l[-1]) and abs(Fraction(l[-1]) - Fraction(b)) <= Fraction(8e-16) * Fraction(sc) * steps + 2 * steps * TINY): out.append((op + ":last" + reg, f"last point {l[-1]!r} is not max {b!r} within rounding"))
                # strictly monotone unless the spacing is below the resolution of the doubles involved
                res_ok = abs(st) > Fraction(4e-16) * Fraction(sc) and abs(st) > 4 * TINY
                if res_ok and any(not ((y > x) if up else (y < x)) for x, y in zip(l, l[1:])): out.append((op + ":monotone" + reg, "points are not strictly monotone"))
                tl = Fraction(1e-9) * abs(st) + Fraction(8e-16) * Fraction(sc) + 4 * TINY
                if not allfin or any(abs(Fraction(y) - Fraction(x) - st) > tl for x, y in zip(l, l[1:])): out.append((op + ":spacing" + reg, "points are not equally spaced"))
            else:
                la, lb = math.log(a), math.log(b); lg = max(1.0, abs(la), abs(lb)); st = (lb - la) / (steps - 1)
                reg = ":end-overflow" if sc * (1 + 8e-16 * lg * 4) >= DBL_MAX else ""
                if not (finite(l[0]) and abs(l[0] - a) <= 4e-16 * lg * abs(a) + QU): out.append((op + ":first" + reg, f"first point {l[0]!r} is not min {a!r}"))
                if not (finite(l[-1]) and abs(l[-1] - b) <= 8e-16 * lg * abs(b) * 4 + QU): out.append((op + ":last" + reg, f"last point {l[-1]!r} is not max {b!r} within rounding"))
                if steps <= 400:
                    res_ok = abs(st) > 4e-16 * lg and min(a, b) * math.expm1(min(abs(st), 700.0)) >= 4 * QU
                    if res_ok and any(not ((y > x) if up else (y < x)) for x, y in zip(l, l[1:])): out.append((op + ":monotone" + reg, "points are not strictly monotone"))
                if not allfin or any(x <= 0 for x in l) or any(abs(math.log(y) - math.log(x) - st) > 1e-9 * abs(st) + 1e-13 * lg + QU / x + QU / y for x, y in zip(l, l[1:])):
                    out.append((op + ":spacing" + reg, "points are not equally spaced in the logarithm"))
    elif op == "closest":
        pv = parse_vals(c.line)[1:]; n = pv[0]; l = pv[1:1 + n]; tg = pv[1 + n]
        srt = all(x <= y for x, y in zip(l, l[1:]))
        if n == 0:
            if not io.startswith("EXIT"): out.append(("closest:empty", f"empty list was accepted, returned {io[:40]}"))
        elif not srt:
            if not io.startswith("EXIT"): out.append(("closest:unsorted", "unsorted list was accepted"))
        elif io.startswith("EXIT"): out.append(("closest:exit", "sorted list terminated the process"))
        else:
            i = v[0]
            if not (0 <= i < n): out.append(("closest:range", f"index {i} outside the list"))
            else:
                # exact distances (rationals): no overflow, no rounding.  The library compares the two rounded distances fl|a-t| and fl|b-t|
                # (each with relative error <= 2^-53, exact in the subnormal range, monotone at overflow), so the returned element is
                # nearest up to a factor (1+2^-53)/(1-2^-53) < 1 + 2^-51 on its distance.
                ft = Fraction(tg); d = [abs(Fraction(x) - ft) for x in l]; dmin = min(d)
                if d[i] > dmin * (1 + Fraction(1, 2 ** 51)):
                    j = d.index(dmin)
                    out.append(("closest:nearest", f"element {l[i]!r} at index {i} is not nearest to {tg!r}: element {l[j]!r} at index {j} is nearer (distance {float(dmin)!r} against {float(d[i])!r})"))
    elif op in ("lists_equal", "combine", "contains", "find_indices", "flatten", "sub_list", "transpose"):
        p = [int(x) for x in t[1:]]
        def rd(k):
            n = p[k]; return p[k + 1:k + 1 + n], k + 1 + n
        if op == "lists_equal":
            a, k = rd(0); b, k = rd(k); exp = [1 if a == b else 0]; got = v
        elif op == "combine":
            a, k = rd(0); b, k = rd(k); exp = [len(a) + len(b)] + a + b; got = v
        elif op == "contains":
            a, k = rd(0); exp = [1 if p[k] in a else 0]; got = v
        elif op == "find_indices":
            a, k = rd(0); idx = [i for i, x in enumerate(a) if x == p[k]]; exp = [len(idx)] + idx; got = v
        elif op == "flatten":
            rows = p[0]; k = 1; fl = []
            for _ in range(rows):
                r_, k = rd(k); fl += r_
            exp = [len(fl)] + fl; got = v
        elif op == "sub_list":
            a, k = rd(0); i1, i2 = p[k], p[k + 1]; i1 = max(i1, 0)
            sub = a[i1:min(i2, len(a) - 1) + 1] if (a and i1 < len(a) and i2 >= i1) else []
            exp = [len(sub)] + sub; got = v
        else:
            rows = p[0]; k = 1; tab = []
            for _ in range(rows):
                r_, k = rd(k); tab.append(r_)
            if len(set(len(r_) for r_ in tab)) > 1: exp = ["EXIT"]; got = v[:1]
            else:
                tr = [list(col) for col in zip(*tab)] if tab and tab[0] else []
                exp = [len(tr)] + [y for col in tr for y in [len(col)] + col]; got = v
        if got != exp: out.append((op + ":definition", f"{op} disagrees with its element-wise definition: expected {exp[:12]}, got {got[:12]}"))
    elif op in ("mean", "variance", "stddev", "median"):
        pv = parse_vals(c.line)[1:]; n = pv[0]; d = [float(x) for x in pv[1:1 + n]]; got = v[0] if v else math.nan
        out += stat_check(op, StatRef(d), got)
    elif op == "median2":
        pv = parse_vals(c.line)[1:]; n = pv[0]; d = [float(x) for x in pv[1:1 + n]]
        if len(v) != n + 3: return [("median2:shape", f"expected two values and the vector, got {io[:60]}")]
        ref = StatRef(d)
        out += stat_check("median", ref, v[0], "median2", " (first call)")
        out += stat_check("median", ref, v[1], "median2", " (second call on the reordered vector)")
        if not (v[0] == v[1] or (v[0] != v[0] and v[1] != v[1])): out.append(("median2:repeat", f"Median of the same vector object: {v[0]!r}, then {v[1]!r}"))
        if v[2] != n or sorted(map(_key, v[3:])) != sorted(map(_key, d)):
            out.append(("median2:permutation", f"after Median the caller's vector is no longer a permutation of the data: {sorted(v[3:])[:6]} against {sorted(d)[:6]}"))
    elif op in ("wavg", "wavg1"):
        pv = parse_vals(c.line)[1:]; n = pv[0]
        if op == "wavg":
            dd = [float(x) for x in pv[1:1 + 2 * n]]; vals = dd[0::2]; ws = dd[1::2]; got = v[:2]
        else:
            vals = [float(x) for x in pv[1:1 + n]]; ws = [1.0] * n
            if len(v) != 4 or v[0] != 2 or v[3] != 1: return [("wavg1:shape", f"expected two results and unchanged data, got {io[:60]}")]
            got = v[1:3]
        if len(got) != 2: return [(op + ":shape", f"expected (average, standard error), got {io[:60]}")]
        ref = WavgRef(vals, ws)
        out += ref.check(got[0], got[1], op)
        if ref.ok and len(set(ws)) == 1 and n >= 2:
            # equal weights (for wavg1: the default weight): (Arithmetic_Mean, s / sqrt N), to the cancellation bound of the first pass and the underflow allowance
            sr = StatRef(vals); var, tolv, reg = sr.variance()
            se = float(sqrt_bounds(var / n)[0]) if var / n <= FMAX else math.inf; sc = max(abs(x) for x in vals)
            uf = float(sqrt_bounds(2 * (ref.K * n * TINY * (3 + 2 * abs(ref.avg) + ref.avg ** 2) + TINY))[1])     # squares and the final product may be subnormal
            if finite(se) and not ref.reg_se and not (finite(got[1]) and abs(got[1] - se) <= 1e-6 * se + 1e-9 * sc + uf):
                out.append((op + ":equal-weights", f"equal weights: standard error {got[1]!r}, s/sqrt(N) = {se!r}"))
    elif op == "laws":
        pv = parse_vals(c.line)[1:]; n = pv[0]; d = [float(x) for x in pv[1:1 + n]]; pf, tf, k = float(pv[1 + n]), float(pv[2 + n]), pv[3 + n]
        if len(v) != 16: return [("laws:shape", f"expected 16 values, got {io[:60]}")]
        y = [pf * x for x in d]; z = [x + tf for x in d]; w = d[k:] + d[:k]
        if not all(finite(x) for x in y + z): return out           # outside the quantifier (the generator does not produce it)
        names = ("mean", "variance", "stddev", "median"); refs = {}
        for tag, data, off in (("data", d, 0), ("scaled", y, 4), ("shifted", z, 8), ("rotated", w, 12)):
            refs[tag] = StatRef(data)
            for q, nm in enumerate(names):
                out += stat_check(nm, refs[tag], v[off + q], f"laws:{tag}-{nm}", f" of the {tag} data" if tag != "data" else "")
        # permutation: the median is a function of the multiset (exactly)
        if not _same(v[3], v[15]): out.append(("laws:permutation-median", f"Median of the rotated data {v[15]!r} differs from Median of the data {v[3]!r}"))
        # scaling by a power of two commutes with every rounding while nothing overflows or becomes subnormal:
        # every non-zero intermediate of mean / two-pass variance / midpoint is at least 2^-114 min|x| (squares: 2^-228 min|x|^2)
        nz = [abs(x) for x in d + y if x != 0.0]
        if _pow2(pf) and (not nz or min(nz) >= 2.0 ** -390) and not any(refs[t_].mean()[2] or (n >= 2 and refs[t_].variance()[2]) or refs[t_].median()[2] for t_ in ("data", "scaled")):
            fac = (pf, pf * pf, abs(pf), pf)
            for q, nm in enumerate(names):
                if nm in ("variance", "stddev") and n < 2: continue
                a, b = v[q], v[4 + q]
                if not finite(a): continue
                try: e = a * fac[q] if nm != "variance" else (a * pf) * pf
                except OverflowError: continue
                if not finite(e) or (e != 0.0 and abs(e) < DBL_MIN) or (nm == "variance" and a != 0.0 and abs(a * pf) < DBL_MIN): continue
                if not _same(b, e): out.append((f"laws:scaling-{nm}", f"{STAT_NAME[nm]}(c x) = {b!r} but {'c^2' if nm == 'variance' else ('|c|' if nm == 'stddev' else 'c')} {STAT_NAME[nm]}(x) = {e!r} for the power of two c = {pf!r} (no rounding is involved)"))
        # reduction: the median of two data is their arithmetic mean (to the rounding of either)
        if n == 2 and not refs["data"].mean()[2] and not refs["data"].median()[2]:
            tl = refs["data"].mean()[1] + refs["data"].median()[1]
            if not (finite(v[0]) and finite(v[3]) and abs(Fraction(v[0]) - Fraction(v[3])) <= tl):
                out.append(("laws:median-pair", f"Median({{a,b}}) = {v[3]!r} but Arithmetic_Mean({{a,b}}) = {v[0]!r}"))
    elif op == "wlaws":
        pv = parse_vals(c.line)[1:]; n = pv[0]; dd = [float(x) for x in pv[1:1 + 2 * n]]; vals = dd[0::2]; ws = dd[1::2]
        pf, qf, k = float(pv[1 + 2 * n]), float(pv[2 + 2 * n]), pv[3 + 2 * n]
        if len(v) != 16 or any(v[4 * q] != 2 for q in range(4)): return [("wlaws:shape", f"expected four (2, average, standard error, flag) groups, got {io[:60]}")]
        if any(v[4 * q + 3] != 1 for q in range(4)): out.append(("wlaws:data-unchanged", "Weighted_Average changed the data it was handed by reference"))
        sets = (("data", vals, ws), ("scaled-values", [pf * x for x in vals], ws), ("scaled-weights", vals, [qf * x for x in ws]), ("rotated", vals[k:] + vals[:k], ws[k:] + ws[:k]))
        refs = {}
        for q, (tag, a, b) in enumerate(sets):
            if not all(finite(x) for x in a + b): return out
            refs[tag] = WavgRef(a, b)
            out += refs[tag].check(v[4 * q + 1], v[4 * q + 2], f"wlaws:{tag}", f" of the {tag}" if tag != "data" else "")
        # exact laws for powers of two, in the window where no intermediate of Cochran's sums can be subnormal or overflow:
        # every non-zero intermediate is at least 2^-330 min|p w v|^2 (see the derivation in the report), the largest at most 2^12 M^2 max(1, 4/W^2)
        nzv = [abs(a * b) for a, b in zip(vals, ws) if a != 0.0]
        def window(ref, lo):
            M = max(abs(x) for x in ref.vals) * max(ref.ws)
            return lo >= 2.0 ** -330 and ref.ok and Fraction(2 ** 12) * Fraction(M) ** 2 * max(1, 4 / (ref.W * ref.W)) < FMAX and not ref.reg_se
        lo0 = min(nzv) if nzv else 1.0
        if _pow2(pf) and window(refs["data"], lo0) and window(refs["scaled-values"], lo0 * abs(pf)) and finite(v[1]) and finite(v[2]):
            for q, nm, e in ((1, "average", v[1] * pf), (2, "standard error", v[2] * abs(pf))):
                if finite(e) and (e == 0.0 or abs(e) >= DBL_MIN) and not _same(v[4 + q], e):
                    out.append(("wlaws:scaling-values", f"values scaled by the power of two {pf!r}: {nm} {v[4 + q]!r}, expected exactly {e!r}"))
        if _pow2(qf) and 2.0 ** -200 <= qf <= 2.0 ** 200 and window(refs["data"], lo0) and window(refs["scaled-weights"], lo0 * qf) and finite(v[1]) and finite(v[2]):
            for q, nm in ((1, "average"), (2, "standard error")):
                if not _same(v[8 + q], v[q]):
                    out.append(("wlaws:scaling-weights", f"weights scaled by the power of two {qf!r}: {nm} {v[8 + q]!r}, expected exactly {v[q]!r}"))
    elif op == "wshift":
        pv = parse_vals(c.line)[1:]; n = pv[0]; dd = [float(x) for x in pv[1:1 + 2 * n]]; vals = dd[0::2]; ws = dd[1::2]; tf = float(pv[1 + 2 * n])
        if len(v) != 8 or v[0] != 2 or v[4] != 2: return [("wshift:shape", f"expected two (2, average, standard error, flag) groups, got {io[:60]}")]
        if v[3] != 1 or v[7] != 1: out.append(("wshift:data-unchanged", "Weighted_Average changed the data it was handed by reference"))
        sh = [x + tf for x in vals]
        if not all(finite(x) for x in sh): return out
        r0 = WavgRef(vals, ws); r1 = WavgRef(sh, ws)
        out += r0.check(v[1], v[2], "wshift:data")
        out += r1.check(v[5], v[6], "wshift:shifted", " of the shifted data")
        # the law itself where the shift of the data is exact: average + t, the same standard error (each to the bounds of the formula as written)
        if r0.ok and all(Fraction(x) + Fraction(tf) == Fraction(y) for x, y in zip(vals, sh)) and not r0.reg_avg and not r1.reg_avg:
            if not (finite(v[1]) and finite(v[5]) and abs(Fraction(v[5]) - Fraction(v[1]) - Fraction(tf)) <= r0.tol_avg + r1.tol_avg):
                out.append(("wshift:translation-average", f"values shifted by {tf!r}: average {v[5]!r}, average of the data {v[1]!r}"))
            if n >= 2 and not r0.reg_se and not r1.reg_se and finite(v[2]) and finite(v[6]):
                lo = sqrt_bounds(max(Fraction(0), r0.se2 - r0.d2 - r1.d2))[0] * (1 - 8 * UR); hi = sqrt_bounds(r0.se2 + r0.d2 + r1.d2)[1] * (1 + 8 * UR)
                # both answers lie within the bounds of the formula as written around the common exact value
                if not (lo <= Fraction(v[6]) <= hi and lo <= Fraction(v[2]) <= hi):
                    out.append(("wshift:translation-standard-error", f"values shifted by {tf!r}: standard error {v[6]!r}, of the data {v[2]!r} (admissible {float(lo)!r} .. {float(hi)!r})"))
    elif op == "history":
        pv = parse_vals(c.line)[1:]; n = pv[0]; d = [float(x) for x in pv[1:1 + n]]; m = pv[1 + n]; ops = [int(x) for x in pv[2 + n:2 + n + m]]
        if len(v) != m + 1 + n or v[m] != n: return [("history:shape", f"expected {m} answers and the vector of {n}, got {io[:60]}")]
        ref = StatRef(d); meds = []
        for k, (o, got) in enumerate(zip(ops, v[:m])):
            nm = HIST_OPS[o] if 0 <= o < 3 else "median"
            before = ", ".join(STAT_NAME[HIST_OPS[min(x, 3)]] for x in ops[:k]) or "nothing"
            out += stat_check(nm, ref, got, f"history:{nm}", f" (call {k + 1} on one vector object; earlier calls on it: {before})")
            if nm == "median": meds.append(got)
        if any(not _same(a, meds[0]) for a in meds[1:]): out.append(("history:repeat-median", f"Median calls on the same vector object answered {meds[:4]}"))
        fin = [float(x) for x in v[m + 1:]]
        if 3 not in ops and any(o <= 3 for o in ops):
            if list(map(_key, fin)) != list(map(_key, d)): out.append(("history:data-unchanged", "a call taking the vector by const reference changed it"))
        elif sorted(map(_key, fin)) != sorted(map(_key, d)):
            out.append(("history:permutation", f"after the history the caller's vector is no longer a permutation of the data: {sorted(fin)[:6]} against {sorted(d)[:6]}"))
    elif op == "gridstat":
        # theorems C19_stats_of_grids_and_combined_lists / C19_closest_location_lookup on the implementation: mean and median of an ascending grid are the
        # mid-point within the a-priori rounding of the grid points (7 u M each, u = 2^-53, M = max(|a|,|b|)) and of the accumulation (n u M);
        # the index found for grid[k] is in range and holds grid[k] itself
        a, b, n, k = float.fromhex(t[1]), float.fromhex(t[2]), int(t[3]), int(t[4])
        if io.startswith("EXIT"): return [("gridstat:exit", "a statistic or the look-up of a grid point of an ascending Linear_Space grid terminated the process")]
        if len(v) != 5: return [("gridstat:shape", f"expected 5 values, got {io[:60]}")]
        M = Fraction(max(abs(a), abs(b))); mid = (Fraction(a) + Fraction(b)) / 2; u = Fraction(1, 2 ** 53)
        for nm, got, slack in (("mean", v[0], (n + 16) * u * M), ("median", v[1], 16 * u * M)):
            if not finite(got) or abs(Fraction(got) - mid) > slack + TINY:
                out.append((f"gridstat:{nm}-midpoint", f"{nm} of Linear_Space({a!r},{b!r},{n}) is {got!r}, mid-point {float(mid)!r} (slack {float(slack)!r})"))
        if not (isinstance(v[2], int) and 0 <= v[2] < max(n, 1)): out.append(("gridstat:lookup-range", f"index {v[2]} for grid point {k} of {n}"))
        elif not v[3] == v[4]:
            out.append(("gridstat:lookup-member", f"grid point {k} = {v[3]!r} of Linear_Space({a!r},{b!r},{n}) looked up in the grid: index {v[2]} holding {v[4]!r}"))
    elif op == "dpcmp":
        mode = int(t[1]); v1, w1, v2, w2 = [float(x) for x in parse_vals(c.line)[2:6]]
        if io.startswith("EXIT") or len(v) != 7: return [("dpcmp:shape", f"expected two data points and three comparisons, got {io[:60]}")]
        ea = (v1, w1) if mode == 0 else ((v1, 1.0) if mode == 1 else (0.0, 1.0)); eb = (v2, 1.0) if mode == 1 else (v2, w2)
        if [_key(x) for x in v[:4]] != [_key(x) for x in ea + eb]:
            out.append(("dpcmp:constructor", f"DataPoint constructors (mode {mode}) stored {v[:4]}, expected {list(ea + eb)}"))
        exp = [1 if ea[0] < eb[0] else 0, 1 if ea[0] > eb[0] else 0, 1 if ea[0] == eb[0] else 0]
        if v[4:7] != exp: out.append(("dpcmp:comparison", f"operator<, operator>, operator== on values {ea[0]!r}, {eb[0]!r} (weights {ea[1]!r}, {eb[1]!r}) gave {v[4:7]}, the values compare as {exp}"))
    elif op in ("range1", "range2"):
        a, b = (0, int(t[1])) if op == "range1" else (int(t[1]), int(t[2]))
        exp = list(range(a, b, 1 if a < b else -1))
        if io.startswith("EXIT") or v[1:] != exp or v[0] != len(exp):
            out.append((op + ":enumeration", f"Range({t[1]}{',' + t[2] if op == 'range2' else ''}) should enumerate the half-open range {exp[:8]}{'...' if len(exp) > 8 else ''} ({len(exp)} elements), got {v[1:9]} ({v[0] if v else '?'} elements)"))
    elif op in ("lists_equal2", "transpose2"):
        pz = [int(x) for x in t[1:]]
        def rd(k_):
            n_ = pz[k_]; return pz[k_ + 1:k_ + 1 + n_], k_ + 1 + n_
        def rdt(k_):
            rows = pz[k_]; k_ += 1; tab = []
            for _ in range(rows):
                r_, k_ = rd(k_); tab.append(r_)
            return tab, k_
        if op == "lists_equal2":
            ta, k_ = rdt(0); tb, k_ = rdt(k_); exp = [1 if ta == tb else 0]; got = v
        else:
            a, k_ = rd(0); b, k_ = rd(k_)
            if len(a) != len(b): exp = ["EXIT"]; got = v[:1]
            else: exp = [len(a)] + [y for pr in zip(a, b) for y in (2,) + pr]; got = v
        if got != exp: out.append((op + ":definition", f"{op} disagrees with its element-wise definition: expected {exp[:12]}, got {got[:12]}"))
    elif op.endswith("_d"):
        pz = parse_vals(c.line)[1:]
        def rd(k_):
            n_ = pz[k_]; return [float(x) for x in pz[k_ + 1:k_ + 1 + n_]], k_ + 1 + n_
        def rdt(k_):
            rows = pz[k_]; k_ += 1; tab = []
            for _ in range(rows):
                r_, k_ = rd(k_); tab.append(r_)
            return tab, k_
        def eq(a, b): return len(a) == len(b) and all(x == y for x, y in zip(a, b))       # IEEE ==: -0.0 == 0.0, NaN != NaN
        def enc(l): return [len(l)] + [_key(x) for x in l]
        got = [(_key(x) if isinstance(x, float) else x) for x in v]
        if op == "lists_equal_d":
            a, k_ = rd(0); b, k_ = rd(k_); exp = [1 if eq(a, b) else 0]
        elif op == "lists_equal2_d":
            ta, k_ = rdt(0); tb, k_ = rdt(k_); exp = [1 if len(ta) == len(tb) and all(eq(x, y) for x, y in zip(ta, tb)) else 0]
        elif op == "combine_d":
            a, k_ = rd(0); b, k_ = rd(k_); exp = enc(a + b)
        elif op == "flatten_d":
            tab, k_ = rdt(0); exp = enc([y for r_ in tab for y in r_])
        elif op == "contains_d":
            a, k_ = rd(0); x = float(pz[k_]); exp = [1 if any(y == x for y in a) else 0]
        elif op == "find_indices_d":
            a, k_ = rd(0); x = float(pz[k_]); idx = [i_ for i_, y in enumerate(a) if y == x]; exp = [len(idx)] + idx
        elif op == "sub_list_d":
            a, k_ = rd(0); i1, i2 = pz[k_], pz[k_ + 1]; i1 = max(i1, 0)
            exp = enc(a[i1:min(i2, len(a) - 1) + 1] if (a and i1 < len(a) and i2 >= i1) else [])
        elif op == "transpose_d":
            tab, k_ = rdt(0)
            if len(set(len(r_) for r_ in tab)) > 1: exp = ["EXIT"]; got = got[:1]
            else:
                tr = [list(col) for col in zip(*tab)] if tab and tab[0] else []
                exp = [len(tr)] + [y for col in tr for y in enc(col)]
        else:
            a, k_ = rd(0); b, k_ = rd(k_)
            if len(a) != len(b): exp = ["EXIT"]; got = got[:1]
            else: exp = [len(a)] + [y for pr in zip(a, b) for y in enc(list(pr))]
        if got != exp: out.append((op + ":definition", f"{op[:-2]} at double disagrees with its element-wise definition: expected {exp[:12]}, got {got[:12]}"))
    return out


def extra(ctx, rng):
    """Fresh-process stage: every request that was answered inside a session is run again as a case of its own (the harness starts each
    case line from the pristine ambient state) and the two answers of the implementation must be the same doubles / integers."""
    import vcheck
    if not SESSIONS_SEEN or not ctx.get("exe"): return {}
    singles = sorted({sl for line in SESSIONS_SEEN for sl in seq_parse(line) if not sl.startswith("amb_")})
    outs = [vcheck.canon_impl(l) for l in vcheck.run_exe(ctx["exe"], singles, ctx["work"], "impl_fresh", env=globals().get("HARNESS_ENV"))]
    fresh = dict(zip(singles, outs)); viol = []; compared = 0
    for line, segs in SESSIONS_SEEN.items():
        subs = seq_parse(line)
        for k, (sl, sg) in enumerate(zip(subs, segs)):
            if sl.startswith("amb_"): continue
            compared += 1
            if sg.split() != fresh[sl].split():
                hist = "; ".join(_short(h) for h in subs[:k]) or "nothing"
                viol.append({"sig": f"session:fresh-process:{sl.split()[0]}", "case": line, "impl": " | ".join(segs)[:2000], "model": "",
                             "msg": f"call {k + 1} of a session (earlier in this process: {hist}) answered {_short(sg)}, the same request {_short(sl)} alone in a pristine process answers {_short(fresh[sl])}"})
    SESSIONS_SEEN.clear()
    return {"violations": viol, "fresh_process_stage": {"session_answers_compared_with_a_pristine_process": compared, "different": len(viol)}}
