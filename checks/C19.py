"""C19 — partition, grid, search, list and summary-statistics helpers."""
import math, itertools, struct, sys
from fractions import Fraction
from vcheck import Case, hx, flist, ilist, parse_vals

PID = "C19"
RULE = ("cases are generated per helper (workload, range, linspace, logspace, closest, list templates, statistics); "
        "non-trivial = workload with remainder != 0 (or zero workers: exit), or closest with a tie / out-of-range target / duplicates, or a clamped "
        "Sub_List index, or a ragged/rectangular transpose with >1 row and >1 column, or range with a step that does not divide "
        "the span, or a grid with >= 3 points, or a data set with >= 3 distinct values; distinct by case text. "
        "Closest-element lists cover the whole finite double range (scaled by 2^e, elements of the order of DBL_MAX, neighbours 1..1000 ulp or a relative 1e-16..1e-6 apart, "
        "subnormals/signed zeros, mixed magnitudes) with targets on and 0..1000 ulp / relative 1e-16..1e-6 off elements and midpoints; nearest is decided in exact rational arithmetic "
        "with the a-priori slack 2^-51 of the two rounded distances; grids also at scales 1e-290..1e290 and with nearly equal end points")
LEVEL_TEXT = ("Theorems (Coq, unbounded, all listed in evidence.coverage.theorems): Workload_Distribution meets its full specification for every workers >= 1 and every tasks (zero workers exit); "
              "Range enumerates exactly [min, min+-step, ...) with ceil(|max-min|/step) elements for step > 0 (a non-positive step makes the ascending loop diverge: model outcome None, outside the quantifier); "
              "Lists_Equal/Flatten/List_Contains/Find_Indices/Combine/Sub_List (entries, clamping, empty cases)/Transpose (rectangular, ragged -> exit, empty -> empty) against the standard list functions; "
              "Locate_Closest_Location returns an in-range index of a nearest element for every sorted non-empty list (ties, out-of-range targets), exits on empty/unsorted lists, and its order-only part holds for any strict total order (doubles without NaN); "
              "Linear_Space/Log_Space count, end points, equal spacing (in the logarithm), strict monotonicity, degenerate requests -> [min] (over R); mean/variance/standard deviation/median under translation, scaling and "
              "permutation (insertion sort is a function of the multiset), Weighted_Average with equal weights = (mean, s/sqrt N) (over R). "
              "Not theorems: rounding behaviour of the floating-point grids and statistics (covered by correspondence, bit-identical, and by S4 with a-priori rounding slack); that std::nth_element/upper_bound/is_sorted meet their specifications. "
              "The Gallina model is the term that is extracted and run against the C++ helpers on every run, and every clause of the property is also evaluated on the implementation's output.")
LEVEL_NOTE = ("Coq 8.16.1 kernel; theorems over Z/nat/lists are axiom-free, theorems over R use the standard library's real-number axioms (listed in the evidence); "
              "hand-written model tied by differential correspondence (extraction with ExtrOcamlBasic only); std::nth_element/upper_bound/is_sorted modelled by their specifications")
TOL = (1e-12, 0.0)
TRUSTED = ["std::nth_element / std::upper_bound / std::is_sorted are modelled by their specifications (k-th smallest, first element greater than the target, adjacent order)"]


# ---- doubles as an ordered integer line: k-ulp steps anywhere in the finite range (subnormals, powers of two, +-DBL_MAX)
DBL_MAX = sys.float_info.max
DBL_MIN = sys.float_info.min          # smallest normal
ULPS = [1, 2, 3, 4, 5, 7, 10, 33, 100, 1000]
RELS = [2.0 ** -52, 2.0 ** -51, 1e-15, 1e-14, 1e-13, 1e-12, 1e-11, 1e-10, 1e-9, 1e-8, 1e-7, 1e-6]


def _ord(x):
    b = struct.unpack("<q", struct.pack("<d", x))[0]
    return b if b >= 0 else -(b & 0x7FFFFFFFFFFFFFFF)


_OMAX = _ord(DBL_MAX)


def _unord(i):
    i = max(-_OMAX, min(_OMAX, i))
    return struct.unpack("<d", struct.pack("<Q", i if i >= 0 else ((-i) | 0x8000000000000000)))[0]


def ulp_step(x, k): return _unord(_ord(x) + k)
def _fin(x): return max(-DBL_MAX, min(DBL_MAX, x))
def _mid(a, b): return a / 2 + b / 2                      # cannot overflow
def _lerp(a, b, q): return a * (1 - q) + b * q            # 0 <= q <= 1: cannot overflow


def closest_lists(rng, n):
    """One sorted list of n finite doubles from the whole double range; returns (class, list)."""
    cls = rng.choice(["scaled", "scaled", "huge", "huge", "near", "near", "subnormal", "wide"])
    if cls == "scaled":        # ordinary shapes (half-integers with exact ties, or generic reals) times 2^e, e over the whole exponent range
        gen = rng.random() < 0.5
        base = [rng.uniform(-8, 8) if gen else float(rng.randint(-12, 12)) * 0.5 for _ in range(n)]
        e = rng.choice([rng.randint(-1070, 1020), rng.randint(1000, 1020), rng.randint(-1074, -1040)])
        l = [math.ldexp(x, e) for x in base]
    elif cls == "huge":        # elements of the order of DBL_MAX: sums and differences of two elements may exceed the double range
        lo, hi = rng.choice([(0.25, 1.0), (-1.0, -0.25), (-1.0, 1.0), (0.5, 1.0), (-1.0, -0.5)])
        l = [DBL_MAX * rng.uniform(lo, hi) for _ in range(n)]
        if hi > 0 and rng.random() < 0.25: l[rng.randrange(n)] = DBL_MAX
        if lo < 0 and rng.random() < 0.25: l[rng.randrange(n)] = -DBL_MAX
    elif cls == "near":        # neighbours at 1..1000 ulp or at relative distance 1e-16..1e-6, anywhere in the range (also across powers of two and zero)
        x = rng.choice([1.0, -1.0, 2.0 ** rng.randint(-1000, 1000), -(2.0 ** rng.randint(-1000, 1000)), 10 ** rng.uniform(-300, 300), -(10 ** rng.uniform(-300, 300)),
                        0.99 * DBL_MAX, -DBL_MAX, 0.0, DBL_MIN, float(rng.randint(-6, 6))])
        if rng.random() < 0.5: x = ulp_step(x, -rng.choice(ULPS))     # start below a power of two / zero so that the list crosses it
        l = [x]
        for _ in range(n - 1):
            if rng.random() < 0.6 or x == 0.0: x = ulp_step(x, rng.choice([0] + ULPS))
            else: x = _fin(x + abs(x) * rng.choice(RELS))
            l.append(x)
    elif cls == "subnormal":   # multiples of the smallest subnormal, signed zeros, the subnormal/normal border
        l = [rng.choice([rng.randint(-20, 20) * 5e-324, 0.0, -0.0, ulp_step(DBL_MIN, rng.randint(-3, 3)), -ulp_step(DBL_MIN, rng.randint(-3, 3)), rng.uniform(-1, 1) * DBL_MIN]) for _ in range(n)]
    else:                      # wildly mixed magnitudes in one list
        l = [rng.choice([-1.0, 1.0]) * 10 ** rng.uniform(-323, 308) if rng.random() < 0.9 else 0.0 for _ in range(n)]
    if n > 1 and rng.random() < 0.3:
        for _ in range(rng.choice([1, 1, 2, n // 2])): l[rng.randrange(n)] = l[rng.randrange(n)]      # duplicates
    return cls, sorted(l)


def closest_targets(rng, l, m):
    """m targets for one sorted list: on / next to elements, on / next to midpoints (geometric ladder of distances), between, outside, special values."""
    n = len(l); out = []
    for _ in range(m):
        kind = rng.choice(["elem", "mid", "mid", "mid", "frac", "below", "above", "special", "uniform"])
        if kind in ("mid", "frac") and n < 2: kind = "elem"
        if kind == "elem":
            t = ulp_step(rng.choice(l), rng.choice([-1, 1]) * rng.choice([0, 0] + ULPS))
        elif kind == "mid":
            k = rng.randrange(n - 1); a, b = l[k], l[k + 1]
            if a == b and rng.random() < 0.8:          # prefer a pair of distinct neighbours
                ks = [j for j in range(n - 1) if l[j] != l[j + 1]]
                if ks: k = rng.choice(ks); a, b = l[k], l[k + 1]
            t = _mid(a, b)
            r = rng.random()
            if r < 0.5: t = ulp_step(t, rng.choice([-1, 1]) * rng.choice([0] + ULPS))
            elif r < 0.8: t = _fin(t + rng.choice([-1, 1]) * (b / 2 - a / 2) * rng.choice(RELS))     # the two distances differ by a relative 1e-16..1e-6
        elif kind == "frac":
            k = rng.randrange(n - 1); t = _lerp(l[k], l[k + 1], rng.randint(1, 7) / 8.0)
        elif kind in ("below", "above"):
            e, s = (l[0], -1) if kind == "below" else (l[-1], 1)
            t = rng.choice([ulp_step(e, s * rng.choice(ULPS)), _fin(e + s * abs(e) * rng.choice([0.5, 1.0, 1e3, 1e300])), _fin(e + s * (l[-1] / 2 - l[0] / 2)), s * DBL_MAX, _fin(e + s * 1.0)])
        elif kind == "special":
            t = rng.choice([0.0, -0.0, 5e-324, -5e-324, DBL_MIN, -DBL_MIN, 1.0, -1.0, DBL_MAX, -DBL_MAX, ulp_step(DBL_MAX, -1), 0.5 * DBL_MAX, -0.5 * DBL_MAX])
        else:
            t = _lerp(l[0], l[-1], rng.random())
        out.append((kind, _fin(t)))
    return out


def closest_wide(rng, count):
    cs = []
    for _ in range(count):
        n = rng.choice([1, 2, 2, 3, 3, 4, 5, 8, 16, 33, 64])
        cls, l = closest_lists(rng, n)
        if n > 1 and rng.random() < 0.04:
            rng.shuffle(l); cls = "maybe-unsorted"
        for kind, t in closest_targets(rng, l, 3):
            cs.append(Case(f"closest {flist(l)} {hx(t)}", ("closest", "closest-" + cls, "target-" + kind)))
    return cs


def generate(rng, tier):
    cs = []
    big = tier != "quick"
    # Workload_Distribution: exhaustive over the property's quantifier in the thorough tier
    if big:
        for w in range(1, 129):
            for t in range(0, 1025):
                cs.append(Case(f"workload {w} {t}", ("workload",)))
    else:
        for w in list(range(1, 33)) + [64, 127, 128]:
            for t in list(range(0, 70)) + [127, 128, 129, 1000, 1023, 1024]:
                cs.append(Case(f"workload {w} {t}", ("workload",)))
    for _ in range(200 if big else 40):
        cs.append(Case(f"workload {rng.randint(1, 5000)} {rng.randint(0, 200000)}", ("workload", "large")))
    for t in [0, 1, 7, 1024, rng.randint(0, 200000)]:
        cs.append(Case(f"workload 0 {t}", ("workload", "zero-workers")))    # guard: diagnostic and exit
    # Range
    lim = 40 if big else 12
    for a in range(-lim, lim + 1, 1 if big else 3):
        for b in range(-lim, lim + 1, 1 if big else 2):
            for s in ([1, 2, 3, 5, 7, 40] if not big else range(1, 41)):
                cs.append(Case(f"range {a} {b} {s}", ("range",)))
    cs.append(Case("range 5 5 1", ("range", "empty")))
    cs.append(Case("range 7 2 -1", ("range", "neg-step")))  # min>max with step<=0: ascending loop, empty
    # Linear / Log space
    for _ in range(4000 if big else 400):
        steps = rng.choice([0, 1, 2, 3, 4, 5, 10, 17, 100, rng.randint(2, 2000)])
        e1, e2 = rng.uniform(-12, 12), rng.uniform(-12, 12)
        a = rng.choice([-1, 1]) * 10 ** e1; b = rng.choice([-1, 1]) * 10 ** e2
        if rng.random() < 0.1: b = a
        if rng.random() < 0.1: a = 0.0
        cs.append(Case(f"linspace {hx(a)} {hx(b)} {steps}", ("linspace",)))
        la, lb = 10 ** rng.uniform(-200, 200), 10 ** rng.uniform(-200, 200)
        if rng.random() < 0.05: lb = la
        cs.append(Case(f"logspace {hx(la)} {hx(lb)} {steps}", ("logspace",), tol=(1e-9, 0.0)))
    # grids at extreme scales (1e-290 .. 1e290, no intermediate under/overflow) and with nearly equal end points (1..1000 ulp, relative 1e-16..1e-6)
    for _ in range(2000 if big else 200):
        steps = rng.choice([0, 1, 2, 3, 4, 5, 10, 17, 100, rng.randint(2, 2000)])
        a = rng.choice([-1, 1]) * 10 ** rng.uniform(-290, 290)
        r = rng.random()
        if r < 0.35: b = rng.choice([-1, 1]) * 10 ** rng.uniform(-290, 290)
        elif r < 0.55: b = ulp_step(a, rng.choice([-1, 1]) * rng.choice(ULPS))
        elif r < 0.8: b = a * (1 + rng.choice([-1, 1]) * rng.choice(RELS))
        elif r < 0.9: b = 0.0
        else: a, b = 0.0, a
        cs.append(Case(f"linspace {hx(a)} {hx(b)} {steps}", ("linspace", "linspace-wide")))
        la = abs(a) if a != 0.0 else 1.0; lb = abs(b) if b != 0.0 else 10 ** rng.uniform(-290, 290)
        cs.append(Case(f"logspace {hx(la)} {hx(lb)} {steps}", ("logspace", "logspace-wide"), tol=(1e-9, 0.0)))
    # Locate_Closest_Location
    for _ in range(6000 if big else 800):
        n = rng.choice([1, 1, 2, 3, 4, 5, 8, 16, 33, 64])
        pool = [float(rng.randint(-6, 6)) * rng.choice([0.5, 1.0]) for _ in range(n)]
        l = sorted(pool)
        kind = rng.random()
        if kind < 0.07 and n > 1:
            rng.shuffle(l); tag = "maybe-unsorted"
        else: tag = "sorted"
        r = rng.random()
        if r < 0.3: t = rng.choice(l)
        elif r < 0.5 and n > 1:
            k = rng.randrange(n - 1); t = (l[k] + l[k + 1]) / 2    # tie
        elif r < 0.6: t = min(l) - rng.choice([0.0, 0.25, 3.0])
        elif r < 0.7: t = max(l) + rng.choice([0.0, 0.25, 3.0])
        else: t = rng.uniform(-4, 4)
        cs.append(Case(f"closest {flist(l)} {hx(t)}", ("closest", tag)))
    cs += closest_wide(rng, 4000 if big else 450)
    for t in [0.0, -1.5, 3.0, rng.uniform(-4, 4), DBL_MAX, -5e-324]:
        cs.append(Case(f"closest 0 {hx(t)}", ("closest", "empty")))          # guard: empty list exits
    cs.append(Case("transpose 0", ("transpose", "empty")))                  # empty list of lists -> empty list
    # list templates on ints
    def il(n): return [rng.randint(-3, 3) for _ in range(n)]
    for _ in range(3000 if big else 500):
        n = rng.choice([0, 1, 2, 3, 5, 9])
        a = il(n); b = list(a) if rng.random() < 0.5 else il(rng.choice([n, n, max(0, n - 1), n + 1]))
        if b and rng.random() < 0.3: b[rng.randrange(len(b))] += 1
        cs.append(Case(f"lists_equal {ilist(a)} {ilist(b)}", ("lists_equal",)))
        cs.append(Case(f"combine {ilist(a)} {ilist(b)}", ("combine",)))
        cs.append(Case(f"contains {ilist(a)} {rng.randint(-3, 3)}", ("contains",)))
        cs.append(Case(f"find_indices {ilist(a)} {rng.randint(-3, 3)}", ("find_indices",)))
        rows = rng.choice([0, 1, 2, 3, 4])
        tab = [il(rng.choice([0, 1, 2, 4])) for _ in range(rows)]
        cs.append(Case(f"flatten {rows} " + " ".join(ilist(r) for r in tab), ("flatten",)))
        # Sub_List: indices on both sides of every clamp
        m = rng.choice([1, 2, 3, 6, 10]); v = il(m)
        i1 = rng.choice([-2, -1, 0, 1, m - 1, m, m + 1, rng.randint(0, m)])
        i2 = rng.choice([0, 1, m - 2, m - 1, m, m + 1, 4294967295, rng.randint(0, m + 2)])
        if i2 < 0: i2 = 0
        cs.append(Case(f"sub_list {ilist(v)} {i1} {i2}", ("sub_list",)))
        # Transpose_Lists: rectangular and ragged, at least one row
        rr = rng.choice([1, 2, 3, 5]); cc = rng.choice([0, 1, 2, 4])
        tab = [il(cc) for _ in range(rr)]
        if rr > 1 and rng.random() < 0.3: tab[rng.randrange(1, rr)] = il(cc + rng.choice([-1, 1]) if cc > 0 else 1)
        cs.append(Case(f"transpose {rr} " + " ".join(ilist(r) for r in tab), ("transpose",)))
    cs.append(Case("sub_list 0 0 0", ("sub_list", "empty")))
    cs.append(Case("sub_list 0 2 5", ("sub_list", "empty")))
    # statistics
    for _ in range(3000 if big else 400):
        n = rng.choice([2, 3, 4, 5, 10, 31, rng.randint(2, 200)])
        scale = 10 ** rng.uniform(-3, 6); off = rng.choice([0.0, 1.0, -1e3, 1e6]) * rng.random()
        d = [off + scale * rng.gauss(0, 1) for _ in range(n)]
        if rng.random() < 0.2: d[rng.randrange(n)] = d[0]
        for op in ("mean", "variance", "stddev", "median"):
            cs.append(Case(f"{op} {flist(d)}", (op,), tol=(1e-9, 1e-300)))
        w = [rng.choice([1.0, 1.0, rng.uniform(0.1, 10)]) if rng.random() < 0.7 else 2.5 for _ in range(n)]
        if rng.random() < 0.3: w = [w[0]] * n
        cs.append(Case(f"wavg {n} " + " ".join(f"{hx(a)} {hx(b)}" for a, b in zip(d, w)), ("wavg",), tol=(1e-7, 1e-300)))
    return cs


def nontrivial(c, io):
    t = c.line.split(); op = t[0]
    if io.startswith(("EXIT", "CRASH")): return op in ("closest", "transpose", "workload")
    if op == "workload": return int(t[1]) > 0 and int(t[2]) % int(t[1]) != 0
    if op == "range": return (int(t[2]) - int(t[1])) % int(t[3]) != 0
    if op in ("linspace", "logspace"): return int(t[3]) >= 3 and t[1] != t[2]
    if op == "closest":
        v = parse_vals(c.line)[1:]; n = v[0]; l = v[1:1 + n]; tg = v[1 + n]
        return n > 1 and (tg < l[0] or tg > l[-1] or len(set(l)) < n or any(abs(abs(a - tg) - abs(b - tg)) == 0 and a != b for a, b in zip(l, l[1:])))
    if op == "sub_list":
        n = int(t[1]); i1 = int(t[2 + n]); i2 = int(t[3 + n]); return i1 < 0 or i2 >= n
    if op == "transpose": return int(t[1]) > 1 and int(t[2]) > 1
    if op in ("mean", "variance", "stddev", "median", "wavg"): return int(t[1]) >= 3
    return len(t) > 3


def predicates(c, io):
    """S4: the property's own clauses evaluated on the implementation's output."""
    out = []
    t = c.line.split(); op = t[0]
    if io.startswith(("CRASH", "SANITIZER", "TIMEOUT", "HARNESSERR")): return out   # reported generically
    v = parse_vals(io)
    if op == "workload":
        w, tasks = int(t[1]), int(t[2])
        if w == 0:
            return [] if io.startswith("EXIT") else [("workload:zero-workers", f"Workload_Distribution(0,{tasks}) must terminate with a diagnostic, got {io[:60]}")]
        if io.startswith("EXIT"): return [("workload:exit", "Workload_Distribution terminated the process")]
        n, l = v[0], v[1:]
        if n != w + 1 or len(l) != w + 1: out.append(("workload:length", f"expected {w+1} indices, got {n}"))
        else:
            d = [b - a for a, b in zip(l, l[1:])]
            if l[0] != 0 or l[-1] != tasks: out.append(("workload:ends", f"indices run from {l[0]} to {l[-1]}, expected 0..{tasks}"))
            if any(x < 0 for x in d): out.append(("workload:monotone", "indices decrease"))
            if d and max(d) - min(d) > 1: out.append(("workload:balance", f"consecutive differences differ by {max(d)-min(d)} > 1"))
    elif op == "range":
        a, b, s = int(t[1]), int(t[2]), int(t[3])
        exp = list(range(a, b, -s)) if (a > b and s > 0) else (list(range(a, b, s)) if s > 0 else [])
        if io.startswith("EXIT") or v[1:] != exp: out.append(("range:enumeration", f"Range({a},{b},{s}) should enumerate {exp[:8]}..., got {v[1:9]}"))
    elif op in ("linspace", "logspace"):
        a, b, steps = float.fromhex(t[1]), float.fromhex(t[2]), int(t[3])
        if io.startswith("EXIT"): return [(op + ":exit", "terminated the process")]
        n, l = v[0], v[1:]
        if steps < 2 or a == b:
            if l != [a]: out.append((op + ":degenerate", f"degenerate request should return [min], got {l[:3]}"))
        else:
            if n != steps: out.append((op + ":count", f"{n} points instead of {steps}"))
            else:
                lg = 1.0 if op == "linspace" else max(1.0, abs(math.log(a)), abs(math.log(b)))
                if (op == "linspace" and l[0] != a) or abs(l[0] - a) > 4e-16 * lg * abs(a): out.append((op + ":first", f"first point {l[0]!r} is not min {a!r}"))
                sc = max(abs(a), abs(b))
                if abs(l[-1] - b) > (8e-16 * sc * steps if op == "linspace" else 8e-16 * lg * abs(b) * 4): out.append((op + ":last", f"last point {l[-1]!r} is not max {b!r} within rounding"))
                up = b > a
                if steps <= 400 or op == "linspace":
                    # strictly monotone unless the spacing is below the resolution of the doubles involved
                    res_ok = abs(b - a) / (steps - 1) > 4e-16 * sc if op == "linspace" else abs(math.log(b) - math.log(a)) / (steps - 1) > 4e-16 * max(1.0, abs(math.log(a)), abs(math.log(b)))
                    if res_ok and any((y <= x) if up else (y >= x) for x, y in zip(l, l[1:])): out.append((op + ":monotone", "points are not strictly monotone"))
                if op == "linspace":
                    d = [y - x for x, y in zip(l, l[1:])]; st = (b - a) / (steps - 1)
                    if any(abs(x - st) > 1e-9 * abs(st) + 8e-16 * sc for x in d): out.append((op + ":spacing", "points are not equally spaced"))
                else:
                    d = [math.log(y) - math.log(x) for x, y in zip(l, l[1:])]; st = (math.log(b) - math.log(a)) / (steps - 1)
                    if any(abs(x - st) > 1e-9 * abs(st) + 1e-13 * max(1.0, abs(math.log(a)), abs(math.log(b))) for x in d): out.append((op + ":spacing", "points are not equally spaced in the logarithm"))
    elif op == "closest":
        pv = parse_vals(c.line)[1:]; n = pv[0]; l = pv[1:1 + n]; tg = pv[1 + n]
        srt = all(x <= y for x, y in zip(l, l[1:]))
        if n == 0:
            if not io.startswith("EXIT"): out.append(("closest:empty", f"empty list was accepted, returned {io[:40]}"))
        elif not srt:
            if not io.startswith("EXIT"): out.append(("closest:unsorted", "unsorted list was accepted"))
        elif io.startswith("EXIT"): out.append(("closest:exit", "sorted list terminated the process"))
        else:
            i = v[0]
            if not (0 <= i < n): out.append(("closest:range", f"index {i} outside the list"))
            else:
                # exact distances (rationals): no overflow, no rounding.  The library compares the two rounded distances fl|a-t| and fl|b-t|
                # (each with relative error <= 2^-53, exact in the subnormal range, monotone at overflow), so the returned element is
                # nearest up to a factor (1+2^-53)/(1-2^-53) < 1 + 2^-51 on its distance.
                ft = Fraction(tg); d = [abs(Fraction(x) - ft) for x in l]; dmin = min(d)
                if d[i] > dmin * (1 + Fraction(1, 2 ** 51)):
                    j = d.index(dmin)
                    out.append(("closest:nearest", f"element {l[i]!r} at index {i} is not nearest to {tg!r}: element {l[j]!r} at index {j} is nearer (distance {float(dmin)!r} against {float(d[i])!r})"))
    elif op in ("lists_equal", "combine", "contains", "find_indices", "flatten", "sub_list", "transpose"):
        p = [int(x) for x in t[1:]]
        def rd(k):
            n = p[k]; return p[k + 1:k + 1 + n], k + 1 + n
        if op == "lists_equal":
            a, k = rd(0); b, k = rd(k); exp = [1 if a == b else 0]; got = v
        elif op == "combine":
            a, k = rd(0); b, k = rd(k); exp = [len(a) + len(b)] + a + b; got = v
        elif op == "contains":
            a, k = rd(0); exp = [1 if p[k] in a else 0]; got = v
        elif op == "find_indices":
            a, k = rd(0); idx = [i for i, x in enumerate(a) if x == p[k]]; exp = [len(idx)] + idx; got = v
        elif op == "flatten":
            rows = p[0]; k = 1; fl = []
            for _ in range(rows):
                r_, k = rd(k); fl += r_
            exp = [len(fl)] + fl; got = v
        elif op == "sub_list":
            a, k = rd(0); i1, i2 = p[k], p[k + 1]; i1 = max(i1, 0)
            sub = a[i1:min(i2, len(a) - 1) + 1] if (a and i1 < len(a) and i2 >= i1) else []
            exp = [len(sub)] + sub; got = v
        else:
            rows = p[0]; k = 1; tab = []
            for _ in range(rows):
                r_, k = rd(k); tab.append(r_)
            if len(set(len(r_) for r_ in tab)) > 1: exp = ["EXIT"]; got = v[:1]
            else:
                tr = [list(col) for col in zip(*tab)] if tab and tab[0] else []
                exp = [len(tr)] + [y for col in tr for y in [len(col)] + col]; got = v
        if got != exp: out.append((op + ":definition", f"{op} disagrees with its element-wise definition: expected {exp[:12]}, got {got[:12]}"))
    elif op in ("mean", "variance", "stddev", "median"):
        pv = parse_vals(c.line)[1:]; n = pv[0]; d = pv[1:1 + n]; got = v[0] if v else math.nan
        m = math.fsum(d) / n; sc = max(abs(x) for x in d)
        if op == "mean": exp = m; tol = 1e-12 * sc
        elif op == "variance": exp = math.fsum((x - m) ** 2 for x in d) / (n - 1); tol = 1e-10 * sc * sc
        elif op == "stddev": exp = math.sqrt(math.fsum((x - m) ** 2 for x in d) / (n - 1)); tol = 1e-10 * sc
        else:
            s = sorted(d); exp = s[n // 2] if n % 2 else (s[n // 2 - 1] + s[n // 2]) / 2; tol = 1e-15 * sc
        if not (abs(got - exp) <= tol): out.append((op + ":definition", f"{op} = {got!r}, definition gives {exp!r}"))
    elif op == "wavg":
        pv = parse_vals(c.line)[1:]; n = pv[0]; d = pv[1:1 + 2 * n]; vals = d[0::2]; ws = d[1::2]
        exp = math.fsum(a * b for a, b in zip(vals, ws)) / math.fsum(ws); sc = max(abs(x) for x in vals)
        if not (abs(v[0] - exp) <= 1e-11 * sc): out.append(("wavg:mean", f"weighted average {v[0]!r}, definition gives {exp!r}"))
        if len(set(ws)) == 1 and n >= 2:
            m = math.fsum(vals) / n; se = math.sqrt(math.fsum((x - m) ** 2 for x in vals) / (n - 1) / n)
            if not (abs(v[1] - se) <= 1e-6 * se + 1e-9 * sc): out.append(("wavg:equal-weights", f"equal weights: standard error {v[1]!r}, s/sqrt(N) = {se!r}"))
    return out
