"""C20 — export/import round trip; In_Units; unit constants consistent in every build."""
import math, os, re, subprocess, sys, hashlib, shutil, glob
from concurrent.futures import ThreadPoolExecutor
from fractions import Fraction
from vcheck import Case, hx, flist, parse_vals
import vbuild
sys.path.insert(0, os.path.join(vbuild.VERIF, "tools"))
import units2v

PID = "C20"
COQ = os.path.join(vbuild.VERIF, "coq")
FILES = os.path.join(os.environ.get("VERIF_SCRATCH") or vbuild.BUILD, "run", "C20", "files")     # a run on a copy of the repository (VERIF_SCRATCH) writes its own files
RULE = ("non-trivial = an Export_Table/Import_Table round trip of a table with >= 2 columns whose unit factors differ by >= 10 decades "
        "and a multi-line header (>= 2 header lines); distinct by case text")
LEVEL_TEXT = (
    "Theorems (Coq, all inputs): (1) units — on the definitions REGENERATED from Natural_Units.cpp on every run (T-tie, tools/units2v.py): every derived unit "
    "equals its defining product of base constants (Joule, Newton, Watt, Pa, erg, dyne, Volt*Coulomb, Ohm, Tesla, Hz, all time/length/energy multiples; decimal "
    "literals exact); the generic start-up theorem init_order_sound: for ANY static/dynamic classification passing the decidable check `safe`, every constant holds "
    "its order-free denotation after C++ start-up, and the regenerated definitions are proved to be such a denotation of the regenerated textual list; per run the "
    "classification of g++/clang++ at -O0/-O2 is MEASURED (nm) and `safe defs cls = true` is proved by vm_compute for each (coverage.unit_configurations). "
    "(2) In_Units — all overloads are element-wise, shape preserving, undo the multiplication by a non-zero unit (reals), call Round when asked, exit on mismatched "
    "row/dimension sizes and on digit counts outside 0..7. (3) round trip — for every number type, every rectangular table with >= 1 row and column, any header: "
    "Export_Table then Import_Table with the same units and the number of header lines written gives Count_Lines = header + rows, the same shape and entry "
    "fmt6(x/dim)*dim; likewise lists and tabulated functions; over the reals, with |fmt6 y - y| <= 5e-6|y| as an explicit premise, every entry is within 5e-6 relative. "
    "(4) readers on arbitrary files, guards, ranges (C20_import_table_sound, C20_io_guards, C20_function_range_roundtrip, C20_list_roundtrip_shape; every number type): whenever Import_Table "
    "returns on ANY file, with any units and any number of ignored lines, every line after the ignored ones starts with exactly the same number >= 1 of numbers and the answer is these numbers in reading "
    "order, one row per line, times the column's unit; an unopenable file, no line or no number after the ignored lines, and rows not matching the units on export terminate the process; "
    "Export_Function over (xMin, xMax, steps, linear or logarithmic) writes `steps` rows (one when steps < 2 or xMin == xMax) and they are read back as (x, f(x)) through format and units. "
    "(5) sessions (C20_session_table_roundtrip, C20_session_list_roundtrip, C20_session_invariant; induction over call sequences of any length): in one process, after ANY calls that do not terminate it "
    "(exports to any path, the same path included, longer, shorter or of the other kind; imports; line counts), an export to p, then any calls not exporting to p, the import from p and Count_Lines answer "
    "exactly as the single round trip does: the answer depends on the file system only through the last export to that path (the model's Export_* replaces the file, as ofstream::open truncates). "
    "(6) Export_Function with ANY argument list (C20_function_rows_one_per_argument, C20_session_function_roundtrip, C20_session_function_range_roundtrip; every number type, no premise on the arguments): "
    "the rows read back are one per argument of x_list in the order of the list — unsorted lists, the same argument several times, equal neighbours (joined grids, 0.0 next to -0.0), ranges whose spacing is below the "
    "resolution of the number type included —, the line count is header lines + arguments, equal arguments give equal rows, and the same holds for Export_Function (list and range overload) as a call of a session after and "
    "between any other calls. "
    "(7) File_Exists and repetition (C20_file_exists_transparent, C20_file_exists_answer, C20_session_repetition; induction over sessions of any length and any number of repetitions, every number type): "
    "File_Exists is a call of the session model (stat: opens nothing, keeps nothing); deleting every File_Exists call from ANY session changes neither whether/how the process is terminated, nor the final files, nor any "
    "other answer; it answers true from the first export to the path on whatever is called afterwards, and as at the start while nothing was exported to the path; and when a block of calls made once and then a second time "
    "does not terminate the process, it can be made any number of further times: never terminated, every repetition answers exactly as the second, the files stay what the first left. "
    "These are theorems about the MODEL, in which calls hold no per-process resource; that the library's calls hold none (descriptors, static tables) is NOT a theorem: it is tested by `lsession` cases — a block of round trips "
    "with File_Exists / Count_Lines between export and import made 300..1200 times in one process, half of them under a soft descriptor limit (RLIMIT_NOFILE) of 32..256 installed by the harness "
    "(ambient:descriptor-limit) — every answer of every repetition compared with the model and with the last export; a leak slower than about one descriptor per ten repetitions of the block, or of another resource (memory), would not be seen. "
    "The session model is tied to the code by `session` cases (File_Exists among the calls; 2..9 calls over 1..3 paths, 200-row tables followed by 1-row ones, lists where tables were, tabulated functions (list and range overload) among them, repeated requests); "
    "the function round trips are generated with increasing, decreasing, unsorted argument lists, joined grids, runs of one value, signed zeros, neighbours at relative distances 1 ulp .. 1e-6, fixed spacings at magnitudes 1e16..1e22, "
    "and ranges with fewer representable numbers between the limits than steps, descending and coinciding limits, 0..2 steps (coverage.input_distribution args:* / range:* / grid:*). "
    "(8) seventh pass — the constants in the number type the library computes in (C20_Model2.v; C20_evalN_is_eval_at_reals, C20_startup_any_number_type, C20_fold_is_denotation, C20_startup_is_fold, "
    "C20_units_fold_is_denotation): the initialisers regenerated from Natural_Units.cpp are evaluated by ONE evaluator polymorphic in the number type — decimal literals converted to the nearest double by the "
    "model's own integer rounding lit_me, M_PI a parameter —, which at the reals is the evaluator of (1); the start-up theorem and 'a fold that terminates yields the denotation' hold in EVERY number type "
    "(doubles as they are: no law of the arithmetic is used), for any environment solving the defining equations in that arithmetic. Its double instance is extracted and compared on every run, constant "
    "by constant (`unit_fold`, `unit_start` cases: all 114 constants; start-up with no / the least one-pass / random safe sets of dynamically initialised constants), with the value the library holds after start-up: bit-identical expected. "
    "That lit_me rounds correctly is NOT a theorem (tested: the 114 constants agree bit for bit with the compiler's). "
    "T-tie for functions: the scalar In_Units and Reduced_Mass are regenerated from clang's AST of src/Natural_Units.cpp on every run (tools/cxx2gallina.py, Round a parameter) and proved equal to the hand model in every number type "
    "(C20_generated_In_Units_is_model, C20_generated_In_Units_shape, C20_generated_Reduced_Mass_is_model); the container overloads (loops) and Round remain hand models. "
    "(9) content only (C20_import_depends_on_content_only, C20_read_as_fresh_process): what Import_List / Import_Table / Count_Lines / File_Exists answer after ANY calls depends on the content of the file at the path and on the arguments only, "
    "and is the answer of a fresh process holding nothing but that file. That the library keeps no memory keyed on a file's metadata is NOT a theorem: it is tested by `session:metadata-twins` cases — several round trips to one path within the same second "
    "whose consecutive files share header, tokens, byte size and entry count but differ in shape or arrangement (table / transpose, other rows x columns splits, permuted entries, list / one-column table / tabulated function alternating), "
    "with one unit, no units, per-column units, gone through 2..3 times over 1..2 paths (coverage.input_distribution twin:*). "
    "NOT theorems (checked per run by correspondence and implementation-side predicates): that iostreams implement such an fmt6 (the real writer/reader run on tables "
    "1..200 x 1..12, values over 600 decades, units over 60 decades, multi-line and numeric headers), that the compilers' folded static values are the denotation "
    "(each build's constants are read after start-up and compared with the exact denotation), Round's numerical accuracy (property C17), the character-level skipping of header lines (probed with lines of up to 25000 characters), the byte-level buffering of the readers and of the line counter (the line/token model has no byte count: exported and raw files are aimed, through the header length or the width of the entries, at sizes k*B and k*B+-1 for B = 512..65536, and the sizes reached are reported in coverage.size_aimed_files), values whose quotient by the unit is not a normal finite double (excluded and counted); "
    "the AMBIENT STATE of the calling process is not in the model at all (its functions take no such argument, and the model's answer is the same for every state): round trips and sessions are repeated "
    "by the harness after installing a global C++ locale with another decimal point and/or digit grouping (std::locale::global with a numpunct facet; no system locale is installed on this machine, so named "
    "locales and setlocale are not exercised), precision/floatfield flags on std::cout, an older, longer file at the path, a relative path with another working directory, and the property's clauses are "
    "evaluated on the answers (coverage.input_distribution ambient:*); that a process which changes the global locale BETWEEN export and import reads the same values is not claimed and not tested.")
LEVEL_NOTE = ("Coq 8.16.1 kernel; theorems over R use the standard library's real-number axioms (listed), shape theorems are axiom-free; T-tie translator tools/units2v.py "
              "(line-level parser; rejects anything it does not understand) validated each run by comparing every constant of four real builds with the exact "
              "rational evaluation of the parsed expressions; premise fmt6 accuracy inside the precision theorems; file = list of lines of tokens (character level, "
              "unopenable output paths not modelled); file system of the session model = association list path -> file, a path is a number (distinct numbers, distinct files; "
              "links and relative/absolute aliases of one file are not modelled)")
TOL = (1e-12, 0.0)
TRUSTED = ["tools/cxx2gallina.py (clang AST -> Gallina) for the scalar In_Units and Reduced_Mass; Round is a parameter of the generated In_Units (hand model round_m; its accuracy is property C17)",
           "the model's literal conversion lit_me (nearest double of a decimal literal, integer arithmetic) and OCaml's Float.pi for M_PI, Float.pow / sqrt for pow / sqrt in the double instance of the constants' evaluator: compared bit for bit with every constant of the library on every run",
           "fmt6 (the double read back by operator>> from the text operator<< writes at the default precision 6) is instantiated in the OCaml driver as "
           "float_of_string (sprintf \"%.6g\" y); model and library then agree bit for bit on the values read back",
           "tools/units2v.py (translator of the constants section of Natural_Units.cpp) and nm's symbol sections (.rodata = static, .bss = dynamic initialisation)",
           "that a constant placed in .rodata holds the correctly rounded value of its folded initialiser is the compiler's responsibility; it is checked by reading every "
           "constant after start-up in each of the four builds"]
ASSUMPTIONS = ["a header line is skipped whatever its length (ignore(max,'\\n') since the repair; probed up to 25000 characters)", "x/dim is zero or a normal finite double and the text form does not overflow on re-reading "
               "(cases outside are excluded from generation and counted in coverage.excluded_not_finite_normal)",
               "row count and row*column count below 2^32 (unsigned int arithmetic of Import_Table)"]
EXCLUDED = {"n": 0}
SIZED = {}          # path -> byte sizes the generator aimed the files exported to that path at (checked with stat in the extra stage)
EPS = 2.0 ** -53


# ------------------------------------------------------------------ helpers
def hexs(s): return "-" if s == "" else s.encode().hex()
def unhexs(h): return "" if h == "-" else bytes.fromhex(h).decode()
def hlines(s): return 0 if s == "" else s.count("\n") + 1
def fmt6(y): return float("%.6g" % y)
def normal_or_zero(q): return q == 0.0 or (math.isfinite(q) and 2.3e-308 <= abs(q) <= 1.7e308)


def pair_ok(x, d):
    if d == 0.0 or not math.isfinite(d) or not math.isfinite(x): return False
    q = x / d
    if not normal_or_zero(q): return False
    if q == 0.0 and x != 0.0: return False
    b = fmt6(q) * d
    return math.isfinite(b) and normal_or_zero(b)


NAMED_UNITS = [1.0, 1e-9, 1e-6, 1e-3, 1e3, 5.60958884493318e23, 5.60958884493318e26, 5.067730214314311e13, 5.067730214314311e15,
               1.5192674478785947e24, 8.6173303e-14, 1.8903e-38, 2.568e-27, 1e-24, 1e24]


def rand_unit(rng):
    k = rng.random()
    if k < 0.15: return 1.0
    if k < 0.35: return rng.choice(NAMED_UNITS)
    if k < 0.5: return 10.0 ** rng.randint(-30, 30)
    if k < 0.55: return 2.0 ** rng.randint(-90, 90)
    return 10.0 ** rng.uniform(-30, 30)


def rand_value(rng):
    k = rng.random()
    if k < 0.30: return rng.choice([-1, 1]) * 10.0 ** rng.uniform(-300, 300)
    if k < 0.40: return float(rng.randint(-1000, 1000))
    if k < 0.47: return float(rng.choice([-1, 1]) * (10 ** rng.randint(3, 15) + rng.randint(-3, 3)))
    if k < 0.57: return rng.randint(-4000, 4000) / rng.choice([2, 4, 8, 10, 1000, 3, 7])
    if k < 0.67:   # at most six significant digits
        return rng.choice([-1, 1]) * float("%de%d" % (rng.randint(1, 999999), rng.randint(-40, 40)))
    if k < 0.82:   # around the rounding boundary of the sixth digit, and the decade carry 999999.5
        m = rng.choice([rng.randint(100000, 999999), 999999, 100000, 999999])
        v = float("%d.5e%d" % (m, rng.randint(-60, 60)))
        v = rng.choice([v, math.nextafter(v, math.inf), math.nextafter(v, -math.inf), v * (1 + 1e-9), v * (1 - 1e-9)])
        return rng.choice([-1, 1]) * v
    if k < 0.86: return rng.choice([0.0, -0.0])
    if k < 0.93: return rng.choice([-1, 1]) * 10.0 ** rng.uniform(-6, 8)
    return rng.choice([-1, 1]) * rng.choice([1e-5, 1e-4, 0.0001234565, 99999.95, 1e5, 123456.5, 1234567.0, 0.1, 1e22, 1e-300, 1e300, 3.0e-5, 9.9999949e-5, 9.999995e-5])


def value_for(rng, d):
    for _ in range(60):
        x = rand_value(rng)
        if pair_ok(x, d): return x
        EXCLUDED["n"] += 1
    return 1.0 * d if pair_ok(1.0 * d, d) else 0.0


HEADER_WORDS = ["#", "x", "y", "E[keV]", "sigma[cm^2]", "columns", "generated", "by", "libphysica", "rate", "mass", "#units", "GeV", "inf", "nan", "e5", "data"]


def rand_header(rng, multi=None):
    k = rng.random()
    if multi is None and k < 0.2: return ""
    def line():
        n = rng.choice([0, 1, 2, 3, 5, 8])
        toks = []
        for _ in range(n):
            toks.append(rng.choice(HEADER_WORDS) if rng.random() < 0.6 else rng.choice([str(rng.randint(0, 99999)), "%d.%d" % (rng.randint(0, 99), rng.randint(0, 999))]))
        return rng.choice([" ", "\t"]).join(toks)
    if multi is None and k < 0.45: nl = 1
    else: nl = rng.choice([2, 2, 3, 4, 6])
    h = "\n".join(line() for _ in range(nl))
    if rng.random() < 0.08: h += "\n"                       # the header itself ends with a newline: one more (empty) line
    if rng.random() < 0.05: h = "1 2 3\n4 5 6" if nl > 1 else "1 2 3"   # purely numeric header: must be skipped by line, not by token type
    if rng.random() < 0.02: h = "#" + "x" * rng.choice([5000, 9990]) + ("\n# second" if nl > 1 else "")
    if h == "": h = "#"
    return h


FEXPRS = [("x", lambda x: x), ("* c %s x" % hx(2.5), lambda x: 2.5 * x), ("+ x c %s" % hx(1.0), lambda x: x + 1.0),
          ("* x x", lambda x: x * x), ("neg x", lambda x: -x), ("exp neg abs x", lambda x: math.exp(-abs(x))),
          ("sin x", lambda x: math.sin(x)), ("c %s" % hx(3.0), lambda x: 3.0), ("/ c %s + c %s * x x" % (hx(1.0), hx(1.0)), lambda x: 1.0 / (1.0 + x * x))]



# ------------------------------------------------------------------ argument lists / ranges of tabulated functions
# Export_Function promises one row per argument of x_list, whatever the list looks like: the property does not ask for sorted or
# distinct arguments.  Shapes: increasing, decreasing, unsorted; the same argument several times (next to each other: two grids joined
# at their common end point, 0.0 next to -0.0, a whole run of one value; or apart: a closed loop that returns to its start); arguments
# closer than the six digits written (relative distances on a geometric ladder 1e-16 .. 1e-6, +-1 .. +-1000 ulp); huge and tiny
# magnitudes where a fixed spacing falls below the resolution of doubles.
def ulps(x, k):
    for _ in range(abs(k)): x = math.nextafter(x, math.inf if k > 0 else -math.inf)
    return x


def near(rng, x):
    """x itself, or a neighbour at a relative distance from 1 ulp to 1e-6"""
    k = rng.random()
    if k < 0.35: return x
    if k < 0.6: return ulps(x, rng.choice([-1, 1]) * rng.choice([1, 1, 2, 3, 10, 100, 1000]))
    return x * (1.0 + rng.choice([-1, 1]) * 10.0 ** rng.uniform(-16, -6)) if x != 0.0 else rng.choice([0.0, -0.0, 1e-300, -1e-300, 1e-30])


def rand_arg(rng):
    k = rng.random()
    if k < 0.45: return rng.uniform(-5, 5)
    if k < 0.6: return float(rng.randint(-20, 20)) / rng.choice([1, 2, 4, 10])
    if k < 0.8: return 10.0 ** rng.uniform(-20, 2)
    if k < 0.9: return rng.choice([-1, 1]) * 10.0 ** rng.uniform(-30, 30)
    return rng.choice([0.0, -0.0, 1e16, 9007199254740992.0, 1e-300, 1.0, -1.0, 1e22])


def rand_args(rng, nmax=40):
    """(list of arguments, tag)"""
    kind = rng.choice(["increasing", "increasing", "decreasing", "unsorted", "joined-grids", "joined-grids", "repeated-run", "all-equal", "zero-signs",
                       "near-equal", "near-equal", "closed-loop", "coarse-huge", "duplicated-at-random"])
    n = rng.choice([1, 2, 3, 10, nmax])
    base = sorted(rand_arg(rng) for _ in range(n))
    if kind == "increasing": xs = base
    elif kind == "decreasing": xs = base[::-1]
    elif kind == "unsorted": xs = base[:]; rng.shuffle(xs)
    elif kind == "joined-grids":          # two (or three) grids, each ending where the next begins
        a = rng.uniform(-5, 5); xs = []
        for _ in range(rng.choice([2, 2, 3])):
            m = rng.choice([1, 2, 3, 5]); h = 10.0 ** rng.uniform(-3, 1); b = a + m * h
            xs += [a + i * ((b - a) / m) for i in range(m)] + [b]; a = b
        if rng.random() < 0.3: xs = xs[::-1]
    elif kind == "repeated-run":          # one argument several times in a row inside an otherwise increasing list
        i = rng.randrange(len(base)); xs = base[:i] + [base[i]] * rng.choice([2, 2, 3, 7]) + base[i + 1:]
    elif kind == "all-equal": xs = [rand_arg(rng)] * rng.choice([2, 3, 10])
    elif kind == "zero-signs": xs = [rng.choice([0.0, -0.0]) for _ in range(rng.choice([2, 3, 4]))] + ([1.0] if rng.random() < 0.5 else [])
    elif kind == "near-equal":            # neighbours closer than the text can tell apart (and sometimes equal)
        x = rand_arg(rng); xs = [x]
        for _ in range(rng.choice([1, 2, 5])): xs.append(near(rng, xs[-1]))
        if rng.random() < 0.5: xs = base[:len(base) // 2] + xs + base[len(base) // 2:]
    elif kind == "closed-loop": xs = base + base[-2::-1] if len(base) > 1 else base * 2
    elif kind == "coarse-huge":           # a fixed small spacing at a magnitude whose ulp is larger
        a = rng.choice([1e16, 2.0 ** 53, 2.0 ** 60, -1e16, 1e22, 3e15]); h = rng.choice([0.25, 0.5, 1.0, 2.0, 3.0])
        xs = [a + i * h for i in range(rng.choice([2, 3, 5, 9]))]
    else:
        xs = base[:]
        for _ in range(rng.choice([1, 2, 4])): xs.insert(rng.randrange(len(xs) + 1), rng.choice(xs))
    rep = any(a == b for a, b in zip(xs, xs[1:]))
    return xs, "args:" + kind, ("args:equal-neighbours" if rep else ("args:repeated-apart" if len(set(xs)) < len(xs) else "args:distinct"))


def grid(a, b, steps, lg):
    """the arguments Export_Function(file, f, xMin, xMax, steps, units, logarithmic) tabulates: `steps` points from xMin to xMax"""
    if steps < 2 or a == b: return [a]
    if lg: return [math.exp(math.log(a) + i * ((math.log(b) - math.log(a)) / (steps - 1.0))) for i in range(steps)]
    return [a + i * ((b - a) / (steps - 1.0)) for i in range(steps)]


def rand_range(rng):
    """(xMin, xMax, steps, logarithmic, tag): ordinary ranges and ranges whose spacing is at / below the resolution of doubles"""
    lg = rng.random() < 0.5
    kind = rng.choice(["ordinary", "ordinary", "ordinary", "below-resolution", "below-resolution", "near-equal-limits", "descending", "equal-limits", "few-steps"])
    steps = rng.choice([2, 3, 10, 33, 200])
    a, b = (10.0 ** rng.uniform(-8, 0), 10.0 ** rng.uniform(0, 8)) if lg else (rng.uniform(-10, 0), rng.uniform(0.5, 10))
    if kind == "below-resolution":        # fewer representable numbers between the limits than steps
        a = rng.choice([1e16, 2.0 ** 53, 1.0, 1e-5, 1e22, 3.5, 1e-300]) * (1 if lg else rng.choice([-1, 1]))
        b = ulps(a, rng.choice([1, 1, 2, 3, 5]) * rng.choice([-1, 1])); steps = rng.choice([2, 3, 4, 5, 10, 33])
    elif kind == "near-equal-limits":
        if not lg: a = rand_arg(rng) or 1.0
        b = a * (1.0 + rng.choice([-1, 1]) * 10.0 ** rng.uniform(-16, -6))
    elif kind == "descending": a, b = b, a
    elif kind == "equal-limits": b = a
    elif kind == "few-steps": steps = rng.choice([0, 1, 2])
    if lg and not (a > 0 and b > 0): a, b = abs(a) or 1.0, abs(b) or 2.0
    return a, b, steps, lg, "range:" + kind


def table_line(t): return f"{len(t)} " + " ".join(flist(r) for r in t) if t else "0"


# ------------------------------------------------------------------ files of a chosen byte size
# The text the writers produce is known in advance: operator<< at the default precision 6 is "%g" of x/dim, entries of a row are separated by
# one tab, rows by one newline (Export_Table leaves the last row unterminated, Export_List terminates every line), a non-empty header is
# followed by one newline.  So the size of the exported file can be steered: through the length of the header (any text, any number of lines)
# or, for header-less files, through the number of characters the entries take.  Targets: k*B + delta for the usual buffer / block / page
# sizes B (stream buffers of 512..8192 bytes, read blocks of 4096..65536 bytes), delta = 0 mostly, +-1 and a few bytes further as controls.
BLOCKS = [512, 1024, 2048, 4096, 8192, 16384, 32768, 65536]
COMMENT_WORDS = ["columns:", "E[keV]", "dR/dE", "[1/kg/day/keV]", "generated", "by", "libphysica", "v0.1.5", "halo", "model", "SHM", "rho=0.4", "GeV/cm^3", "run", "17",
                 "2.5", "1e-45", "cm^2", "mass", "sigma", "-", "--", "|", "x", "y", "z"]


def text6(q): return "%g" % q


def table_text_size(t, dims):
    n = len(t) - 1
    for row in t:
        n += len(row) - 1 + sum(len(text6(x / (dims[j] if dims else 1.0))) for j, x in enumerate(row))
    return n


def list_text_size(l, d): return sum(len(text6(x / d)) + 1 for x in l)


def size_targets(rng, n, lo, hi):
    """n sizes k*B + delta inside [lo, hi]: every block size that fits (first multiples first), then random multiples"""
    out = []
    for B in BLOCKS:
        for k in (1, 2):
            for delta in (0, -1, 1):
                if lo <= k * B + delta <= hi: out.append(k * B + delta)
    rng.shuffle(out)
    zero = [T for T in out if any(T % B == 0 for B in BLOCKS[:1])]
    out = zero + [T for T in out if T not in zero]       # exact multiples first when n is small
    out = out[:n]
    while len(out) < n:
        B = rng.choice(BLOCKS); kmax = hi // B
        if kmax < 1: continue
        T = rng.randint(1, kmax) * B + rng.choice([0, 0, 0, 0, 0, -1, 1, -1, 1, -2, 2, rng.randint(-9, 9)])
        if lo <= T <= hi: out.append(T)
    return out


def sized_header_lines(rng, L, spaces=True):
    """header text of exactly L >= 1 characters (newlines between its lines included) as a list of lines: comment lines of varying
    widths (short lines, lines around the buffer sizes, one very long line), now and then an empty line"""
    style = rng.choice(["short", "short", "mixed", "long", "blocky"])
    lines = []; rem = L
    while True:
        if style == "short": w = rng.randint(1, 100)
        elif style == "long": w = rem
        elif style == "blocky": w = rng.choice(BLOCKS[:6]) + rng.choice([-2, -1, 0, 1])
        else: w = rng.choice([1, 2, rng.randint(3, 80), rng.randint(3, 80), rng.randint(100, 3000), 4095, 4096, 8191, 8192])
        if lines and rem >= 4 and rng.random() < 0.02: w = 0             # an empty line inside the header
        w = min(w, rem)
        if rem - w == 1:                                                  # one character cannot hold "newline + a non-empty line"
            if rng.random() < 0.15: pass                                  # ... but it can hold the newline alone: the header ends with an empty line
            elif w >= 2: w -= 1
            else: w += 1
        if w == 0: lines.append("")
        else:
            txt = "#"
            while len(txt) < w:
                txt += (" " if spaces else "_") + rng.choice(COMMENT_WORDS)
            lines.append(txt[:w] if spaces else txt[:w].replace(" ", "_"))
        rem -= w
        if rem == 0: break
        rem -= 1                                                          # the newline before the next line
        if rem == 0: lines.append(""); break
    return lines


def value_of_text_length(rng, n):
    """a double whose six-digit text has exactly n characters, 1 <= n <= 13"""
    for _ in range(200):
        forms = []
        if n <= 6: forms.append("int")
        if 2 <= n <= 7: forms.append("negint")
        if 3 <= n <= 7: forms.append("dec")
        if 4 <= n <= 8: forms.append("negdec")
        if n >= 5: forms.append("exp")
        f = rng.choice(forms)
        if f == "int": s = str(rng.randint(10 ** (n - 1) if n > 1 else 0, 10 ** n - 1))
        elif f == "negint": s = "-" + str(rng.randint(10 ** (n - 2) if n > 2 else 1, 10 ** (n - 1) - 1))
        elif f in ("dec", "negdec"):
            m = n - 1 - (f == "negdec")                                   # digits
            digs = str(rng.randint(10 ** (m - 1), 10 ** m - 1))
            if digs[-1] == "0": digs = digs[:-1] + str(rng.randint(1, 9))
            k = rng.randint(1, m - 1)
            s = ("-" if f == "negdec" else "") + digs[:k] + "." + digs[k:]
        else:
            neg = rng.random() < 0.5; e3 = rng.random() < 0.4
            m = n - neg - (5 if e3 else 4)                                # characters of the mantissa
            if m == 2 or m < 1 or m > 7: continue
            md = m if m == 1 else m - 1
            digs = str(rng.randint(10 ** (md - 1), 10 ** md - 1))
            if md > 1 and digs[-1] == "0": digs = digs[:-1] + str(rng.randint(1, 9))
            mant = digs if md == 1 else digs[0] + "." + digs[1:]
            ex = rng.randint(100, 250) if e3 else rng.randint(10, 99)
            s = ("-" if neg else "") + mant + "e" + rng.choice("+-") + str(ex)
        x = float(s)
        if text6(x) == s and len(s) == n: return x
    raise RuntimeError("no value with a text of %d characters" % n)


def tuned_values(rng, count, total, unit):
    """`count` values (multiples of the power-of-two unit, so that the quotient is exact) whose six-digit texts take `total` characters together"""
    lens = [rng.randint(1, 13) for _ in range(count)]
    diff = total - sum(lens)
    while diff:
        i = rng.randrange(count)
        step = max(-(lens[i] - 1), min(13 - lens[i], diff))
        lens[i] += step; diff -= step
    return [value_of_text_length(rng, n) * unit for n in lens]


def generate_sized(rng, tier, cs):
    """export/import round trips (and raw files) whose byte size is k*B + delta"""
    big = tier != "quick"
    SIZED.clear()
    ctr = [0]
    def spath():
        ctr[0] += 1; return os.path.join(FILES, "sz_%d.txt" % (ctr[0] % 192))
    def tag(T): return "file-size:multiple-of-block" if any(T % B == 0 for B in BLOCKS) else "file-size:near-multiple"
    def units_for(c_):
        u = rng.random()
        if u < 0.2: return []
        dims = [rand_unit(rng) for _ in range(c_)]
        if u < 0.6 and c_ >= 2: dims[0] = 10.0 ** rng.uniform(-30, -8); dims[-1] = 10.0 ** rng.uniform(4, 30); rng.shuffle(dims)
        return dims
    # ---- tables, size reached through the header
    for T in size_targets(rng, 420 if big else 44, 500, 200000 if big else 140000):
        c_ = rng.randint(1, 12)
        r_ = rng.choice([1, 2, 3, 7, 20, 64, 100, 181, 200, rng.randint(1, 200), rng.randint(1, 200)])
        r_ = max(1, min(r_, (T - 40) // (14 * c_)))       # leave room for a header
        dims = units_for(c_)
        t = [[value_for(rng, dims[j] if dims else 1.0) for j in range(c_)] for _ in range(r_)]
        while len(t) > 1 and table_text_size(t, dims) > T - 2: t.pop()
        L = T - 1 - table_text_size(t, dims)
        if L < 1: continue
        h = "\n".join(sized_header_lines(rng, L)); p = spath(); SIZED.setdefault(p, set()).add(T)
        cs.append(Case(f"rt_table {p} {hexs(h)} {table_line(t)} {flist(dims)} -1", ("roundtrip", "table", "size-aimed", tag(T))))
    # ---- tables without header: size reached through the number of characters of the entries
    for T in size_targets(rng, 200 if big else 26, 500, 33500):
        for _ in range(50):
            c_ = rng.randint(1, 12); a = rng.uniform(2.5, 12.4)
            r_ = max(1, min(200, round((T + 1) / ((a + 1) * c_)))); n = r_ * c_
            if n <= T - (n - 1) <= 13 * n: break
        else: r_, c_ = 200, 12; n = 2400
        if not (n <= T - (n - 1) <= 13 * n): continue
        dims = [] if rng.random() < 0.5 else [2.0 ** rng.randint(-90, 90) for _ in range(c_)]
        lensum = T - (n - 1)
        # distribute over the columns: tuned_values works per unit
        flat = tuned_values(rng, n, lensum, 1.0)
        t = [[flat[i * c_ + j] * (dims[j] if dims else 1.0) for j in range(c_)] for i in range(r_)]
        if table_text_size(t, dims) != T or not all(pair_ok(x, dims[j] if dims else 1.0) for row in t for j, x in enumerate(row)): continue
        p = spath(); SIZED.setdefault(p, set()).add(T)
        cs.append(Case(f"rt_table {p} - {table_line(t)} {flist(dims)} -1", ("roundtrip", "table", "size-aimed", "no-header", tag(T))))
    # ---- lists (every line terminated), with header and without
    for T in size_targets(rng, 120 if big else 14, 500, 140000):
        d = rand_unit(rng); n = rng.choice([0, 1, 2, 3, 10, 50, 200])
        n = max(0, min(n, (T - 40) // 14))
        l = [value_for(rng, d) for _ in range(n)]
        L = T - 1 - list_text_size(l, d)
        if L < 1: continue
        h = "\n".join(sized_header_lines(rng, L)); p = spath(); SIZED.setdefault(p, set()).add(T)
        cs.append(Case(f"rt_list {p} {hexs(h)} {flist(l)} {hx(d)}", ("roundtrip", "list", "size-aimed", tag(T))))
    for T in size_targets(rng, 60 if big else 8, 500, 2700):
        d = 2.0 ** rng.randint(-90, 90)
        n = max((T + 13) // 14, min(200, round(T / (rng.uniform(2.5, 12.4) + 1))))
        if not (n <= T - n <= 13 * n): continue
        l = tuned_values(rng, n, T - n, d)
        if list_text_size(l, d) != T or not all(pair_ok(x, d) for x in l): continue
        p = spath(); SIZED.setdefault(p, set()).add(T)
        cs.append(Case(f"rt_list {p} - {flist(l)} {hx(d)}", ("roundtrip", "list", "size-aimed", "no-header", tag(T))))
    # ---- tabulated functions (two columns), size reached through the header
    for T in size_targets(rng, 100 if big else 10, 500, 140000):
        fe, f = rng.choice(FEXPRS)
        n = rng.choice([1, 2, 3, 10, 40, 200]); xs = sorted(rng.uniform(-5, 5) if rng.random() < 0.7 else 10.0 ** rng.uniform(-20, 2) for _ in range(n))
        dims = [] if rng.random() < 0.3 else [10.0 ** rng.uniform(-12, 12), 10.0 ** rng.uniform(-12, 12)]
        t = [[x, f(x)] for x in xs]
        if not all(pair_ok(x, dims[j] if dims else 1.0) for row in t for j, x in enumerate(row)): continue
        L = T - 1 - table_text_size(t, dims)
        if L < 1: continue
        h = "\n".join(sized_header_lines(rng, L)); p = spath(); SIZED.setdefault(p, set()).add(T)
        cs.append(Case(f"rt_func {p} {hexs(h)} {fe} {flist(xs)} {flist(dims)}", ("roundtrip", "function-list", "size-aimed", tag(T))))
    # ---- files not written by Export_*: regular tables / lists behind a comment block, last line terminated or not
    for T in size_targets(rng, 200 if big else 24, 500, 140000):
        which = 0 if rng.random() < 0.3 else 1
        r_ = rng.choice([1, 2, 3, 5, 40]); c_ = rng.choice([1, 2, 3])
        body = [[repr(rng.choice([rng.randint(-999, 999), round(rng.uniform(-10, 10), 3), float("%.5e" % (10.0 ** rng.uniform(-30, 30)))])) for _ in range(c_)] for _ in range(r_)]
        term = int(rng.random() < 0.4)
        L = T - 1 - term - (sum(len(w) for row in body for w in row) + r_ * (c_ - 1) + r_ - 1)
        if L < 1: continue
        hl = sized_header_lines(rng, L, spaces=False)
        lines = [[l] if l else [] for l in hl] + body
        dims = [] if rng.random() < 0.5 else [float(rng.choice([1, 2, 1000])) for _ in range(c_)]
        if which == 0: dims = dims[:1]
        spec = " ".join(f"{len(l)} " + " ".join(l) if l else "0" for l in lines)
        p = spath(); SIZED.setdefault(p, set()).add(T)
        cs.append(Case(f"import_raw {p} {which} {term} {len(lines)} {spec} {flist(dims)} {len(hl)}", ("guards", "raw-regular", "size-aimed", tag(T))))


# ------------------------------------------------------------------ sessions: several calls in one process
# The harness starts every session with none of its paths existing (or, under "amb pre<N>", each holding an old file) and makes the
# calls in order in ONE process: exports of lists and tables of very different sizes to the same path (larger, then smaller; a list
# where a table was; the same request twice), to other paths in between, imports repeated, line counts.  The model runs the same calls
# over its file system (C20_Model.v, io_run); the predicates compare every import with the LAST export to its path.
def rand_small_table(rng, big_ok=True):
    k = rng.random()
    if big_ok and k < 0.12: r_, c_ = rng.choice([60, 120, 200]), rng.randint(1, 12)
    elif k < 0.5: r_, c_ = rng.choice([1, 1, 2, 3]), rng.randint(1, 4)
    else: r_, c_ = rng.choice([1, 2, 3, 5, 9, 20]), rng.randint(1, 12)
    u = rng.random()
    if u < 0.25: dims = []
    elif u < 0.6 and c_ >= 2:
        dims = [rand_unit(rng) for _ in range(c_)]; dims[0] = 10.0 ** rng.uniform(-30, -8); dims[-1] = 10.0 ** rng.uniform(4, 30); rng.shuffle(dims)
    else: dims = [rand_unit(rng) for _ in range(c_)]
    return [[value_for(rng, dims[j] if dims else 1.0) for j in range(c_)] for _ in range(r_)], dims


def generate_sessions(rng, tier, cs):
    n = 5000 if tier != "quick" else 220
    for it in range(n):
        npth = rng.choice([1, 1, 2, 3])
        paths = [os.path.join(FILES, "sess_%d.txt" % i) for i in range(npth)]
        held = {}; calls = []; wf = True; rewritten = False; has_f = False
        amb = None
        if rng.random() < 0.3: amb, _k = rand_ambient(rng)
        for _ in range(rng.randint(2, 9)):
            k = rng.random(); pi = rng.randrange(npth)
            if k < 0.42 or not held:
                if pi in held: rewritten = True
                h = rand_header(rng)
                kk = rng.random()
                if kk < 0.22:          # a tabulated function: argument lists with repeated / nearly equal arguments, ranges down to the resolution
                    for _try in range(8):
                        fe, f = rng.choice(FEXPRS); dims = [] if rng.random() < 0.3 else [10.0 ** rng.uniform(-12, 12), 10.0 ** rng.uniform(-12, 12)]
                        if rng.random() < 0.6: xs, _t1, _t2 = rand_args(rng, 12); spec = f"{fe} {flist(xs)} {flist(dims)}"; kind = "ef"
                        else:
                            a, b, steps, lg, _t1 = rand_range(rng); steps = min(steps, 33); xs = grid(a, b, steps, lg)
                            spec = f"{fe} {hx(a)} {hx(b)} {steps} {flist(dims)} {int(lg)}"; kind = "er"
                        if all(pair_ok(v_, dims[j] if dims else 1.0) for x in xs for j, v_ in enumerate((x, f(x)))): break
                        EXCLUDED["n"] += 1
                    else: fe, f = FEXPRS[0]; xs = [1.0, 1.0, 2.0]; dims = []; spec = f"{fe} {flist(xs)} {flist(dims)}"; kind = "ef"
                    if pi in held and rng.random() < 0.2 and held[pi][0] == "t" and len(held[pi]) == 6: h, t, dims, kind, spec = held[pi][1:]
                    else: t = [[x, f(x)] for x in xs]
                    calls.append(f"{kind} {pi} {hexs(h)} {spec}"); held[pi] = ("t", h, t, dims, kind, spec); has_f = True
                elif kk < 0.5:
                    d = rand_unit(rng); l = [value_for(rng, d) for _ in range(rng.choice([0, 1, 2, 3, 10, 50, 200]))]
                    if pi in held and rng.random() < 0.2 and held[pi][0] == "l": h, l, d = held[pi][1:]       # the same request again
                    calls.append(f"el {pi} {hexs(h)} {flist(l)} {hx(d)}"); held[pi] = ("l", h, l, d)
                else:
                    t, dims = rand_small_table(rng)
                    if pi in held and rng.random() < 0.2 and held[pi][0] == "t": h, t, dims = held[pi][1:4]
                    calls.append(f"et {pi} {hexs(h)} {table_line(t)} {flist(dims)}"); held[pi] = ("t", h, t, dims)
            elif k < 0.88:
                pi = rng.choice(sorted(held)); e = held[pi]
                if e[0] == "l": calls.append(f"il {pi} {hx(e[3])} {hlines(e[1])}")
                else: calls.append(f"it {pi} {flist(e[3])} {hlines(e[1])}")
            elif k < 0.95:
                if amb is not None and "pre" in amb and pi not in held: pi = rng.choice(sorted(held))     # (the old file put there by the harness is not in the model)
                calls.append(f"{'cl' if rng.random() < 0.5 else 'fe'} {pi}")
            elif amb is None:     # (not under a changed process state: these requests read header text, whose numbers are spelt for the classic locale) requests outside the round trip: another reader, other units, another number of lines, a path never written
                wf = False
                if rng.random() < 0.5: calls.append(f"it {pi} {flist([] if rng.random() < 0.6 else [2.0])} {rng.choice([0, 1, 2])}")
                else: calls.append(f"il {pi} {hx(rng.choice([1.0, 2.0]))} {rng.choice([0, 1, 2])}")
        line = f"session {npth} " + " ".join(paths) + f" {len(calls)} " + " ".join(calls)
        tags = ("session", "session:well-formed" if wf else "session:with-other-requests", "session:path-rewritten" if rewritten else "session:paths-written-once")
        if has_f: tags += ("session:with-function-export",)
        if amb: cs.append(Case("amb " + amb + " " + line, tags + ("ambient",) + tuple("ambient:" + x for x in ambient_kinds(amb))))
        else: cs.append(Case(line, tags))


# Metadata twins (seventh pass).  What Import_* answers is a function of the CONTENT of the file and of the arguments (C20_import_depends_on_content_only);
# an implementation that remembers something about a file between calls and recognises "the same file" by its metadata — path, byte size,
# modification time (whole seconds), number of header lines, number of entries or lines — answers from memory when the content has changed
# but the metadata has not.  These sessions make several round trips to ONE path in quick succession (same second) in which consecutive files
# share the header, the multiset of text tokens (hence byte size: the writers separate entries by one byte) and the number of entries, but
# differ in shape or arrangement: a table and its transpose, the same numbers in another rows x columns split, the same shape with the
# entries permuted, a one-column table / a list / a tabulated function alternating at the path; with one unit for all columns (the text
# stays the same), without units, and with per-column units (sizes then coincide only by chance: control).  The pattern is gone through
# 2..3 times per session and over 1..2 paths, so that a clock tick between two exports cannot hide it.  Every import is compared with the
# model and, by the predicates, with the last export to its path — which is what a fresh process reading the file would answer.
def factor_pairs(n): return [(r_, n // r_) for r_ in range(1, n + 1) if n % r_ == 0 and n // r_ <= 12 and r_ <= 200]


def generate_twin_sessions(rng, tier, cs):
    n_s = 2500 if tier != "quick" else 110
    for it in range(n_s):
        npth = rng.choice([1, 1, 2]); paths = [os.path.join(FILES, "twin_%d.txt" % i) for i in range(npth)]
        kind = rng.choice(["transpose", "transpose", "reshape", "reshape", "permute", "list-table", "function-table", "mixed"])
        umode = rng.choice(["no-units", "one-unit", "one-unit", "per-column"])
        d = 1.0 if umode == "no-units" else rand_unit(rng)
        h = rand_header(rng, multi=True if rng.random() < 0.5 else None); nh = hlines(h)
        def dims_for(c_):
            if umode == "no-units": return []
            if umode == "one-unit": return [d] * c_
            return [rand_unit(rng) for _ in range(c_)]
        calls = []
        def put_table(pi, t, dims=None):
            dims = dims_for(len(t[0])) if dims is None else dims
            if umode == "per-column": t = [[value_for(rng, dims[j]) if not pair_ok(x, dims[j]) else x for j, x in enumerate(row)] for row in t]
            calls.append(f"et {pi} {hexs(h)} {table_line(t)} {flist(dims)}")
            if rng.random() < 0.25: calls.append(f"{rng.choice(['cl', 'fe'])} {pi}")
            calls.append(f"it {pi} {flist(dims)} {nh}")
            if rng.random() < 0.15: calls.append(f"it {pi} {flist(dims)} {nh}")        # the same import again
        def put_list(pi, l):
            calls.append(f"el {pi} {hexs(h)} {flist(l)} {hx(d)}"); calls.append(f"il {pi} {hx(d)} {nh}")
        for pi in range(npth):
            n = rng.choice([2, 4, 6, 6, 8, 9, 12, 12, 16, 20, 24, 36, 60, 120, 240])
            flat = [value_for(rng, d) for _ in range(n)]
            fp = factor_pairs(n)
            if kind == "transpose":
                r_, c_ = rng.choice([q for q in fp if q[0] <= 12] or fp)
                t = [flat[i * c_:(i + 1) * c_] for i in range(r_)]; shapes = [t, [list(col) for col in zip(*t)]]
            elif kind == "reshape":
                shapes = [[flat[i * c_:(i + 1) * c_] for i in range(r_)] for r_, c_ in rng.sample(fp, min(len(fp), rng.choice([2, 3])))]
            elif kind == "permute":
                r_, c_ = rng.choice(fp); shapes = []
                for _ in range(2):
                    f2 = flat[:]; rng.shuffle(f2); shapes.append([f2[i * c_:(i + 1) * c_] for i in range(r_)])
            elif kind == "list-table":
                shapes = [("list", flat), [[x] for x in flat], [flat[:12]] if n <= 12 else ("list", flat[::-1])]
            elif kind == "function-table":
                fe, f = rng.choice(FEXPRS[:5]); xs = [rng.uniform(-5, 5) for _ in range(max(1, n // 2))]
                rows = [[x, f(x)] for x in xs]
                if umode != "no-units" and not all(pair_ok(v_, d) for row in rows for v_ in row): rows = [[1.0 * d, 1.0 * d]]; xs = None
                shapes = [("func", fe, xs, rows) if xs is not None else rows, [list(col) for col in zip(*rows)] if len(rows) <= 12 else rows[::-1], [[v_] for row in rows for v_ in row]]
            else:
                r_, c_ = rng.choice(fp); t = [flat[i * c_:(i + 1) * c_] for i in range(r_)]
                shapes = [t, ("list", flat), [list(col) for col in zip(*t)] if r_ <= 12 else t[::-1], [[x] for x in flat]]
            for rep in range(rng.choice([2, 2, 3])):
                for sh in shapes:
                    if isinstance(sh, tuple) and sh[0] == "list": put_list(pi, sh[1])
                    elif isinstance(sh, tuple):
                        dims = [] if umode == "no-units" else [d, d]
                        calls.append(f"ef {pi} {hexs(h)} {sh[1]} {flist(sh[2])} {flist(dims)}"); calls.append(f"it {pi} {flist(dims)} {nh}")
                    else: put_table(pi, sh)
        line = f"session {npth} " + " ".join(paths) + f" {len(calls)} " + " ".join(calls)
        cs.append(Case(line, ("session", "session:well-formed", "session:path-rewritten", "session:metadata-twins", "twin:" + kind, "twin:" + umode)))


# Long sessions: a block of round trips (export, File_Exists as callers do before importing, Count_Lines, import; 1..3 paths, small
# lists / tables / tabulated functions) made 300..1200 times over in ONE process, half of them in a process whose soft descriptor
# limit is 32..256 (ambient item nofN).  Every answer of every repetition is compared with the model and with the last export: a
# call that leaves something behind per call (a descriptor, a static table entry, a remembered answer) shows after enough calls.
def generate_long_sessions(rng, tier, cs):
    n = 40 if tier != "quick" else 14        # (a sanitizer build needs ~3 s per long session)
    for it in range(n):
        npth = rng.choice([1, 2, 3])
        paths = [os.path.join(FILES, "lsess_%d.txt" % i) for i in range(npth)]
        calls = []; has_f = False; n_fe = 0
        for _ in range(rng.choice([1, 1, 2, 3])):
            pi = rng.randrange(npth); h = rand_header(rng); kk = rng.random()
            if kk < 0.2:
                for _try in range(8):
                    fe, f = rng.choice(FEXPRS); dims = [] if rng.random() < 0.3 else [10.0 ** rng.uniform(-12, 12), 10.0 ** rng.uniform(-12, 12)]
                    xs, _t1, _t2 = rand_args(rng, 5)
                    if all(pair_ok(v_, dims[j] if dims else 1.0) for x in xs for j, v_ in enumerate((x, f(x)))): break
                    EXCLUDED["n"] += 1
                else: fe, f = FEXPRS[0]; xs = [1.0, 1.0, 2.0]; dims = []
                calls.append(f"ef {pi} {hexs(h)} {fe} {flist(xs)} {flist(dims)}"); imp = f"it {pi} {flist(dims)} {hlines(h)}"; has_f = True
            elif kk < 0.45:
                d = rand_unit(rng); l = [value_for(rng, d) for _ in range(rng.choice([0, 1, 2, 3, 6]))]
                calls.append(f"el {pi} {hexs(h)} {flist(l)} {hx(d)}"); imp = f"il {pi} {hx(d)} {hlines(h)}"
            else:
                c_ = rng.randint(1, 4); r_ = rng.choice([1, 2, 3])
                dims = [] if rng.random() < 0.3 else [rand_unit(rng) for _ in range(c_)]
                t = [[value_for(rng, dims[j] if dims else 1.0) for j in range(c_)] for _ in range(r_)]
                calls.append(f"et {pi} {hexs(h)} {table_line(t)} {flist(dims)}"); imp = f"it {pi} {flist(dims)} {hlines(h)}"
            if rng.random() < 0.2: calls.append(f"fe {rng.randrange(npth)}")       # another path: absent in the first repetition perhaps
            if rng.random() < 0.85: calls.append(f"fe {pi}"); n_fe += 1
            if rng.random() < 0.3: calls.append(f"cl {pi}")
            calls.append(imp)
            if rng.random() < 0.15: calls.append(f"fe {pi}"); n_fe += 1
        amb = rng.choice([None, "nof32", "nof64", "nof64", "nof128", "nof256"])
        lim = 20000 if amb is None else int(amb[3:])
        reps = rng.choice([300, 400, 600]) if lim <= 256 else rng.choice([300, 1200])
        line = f"lsession {reps} {npth} " + " ".join(paths) + f" {len(calls)} " + " ".join(calls)
        tags = ("session", "session:long", "session:well-formed", "session:path-rewritten", "session:file-exists-calls>=%d" % (100 * min(10, reps * n_fe // 100) if n_fe else 0))
        if has_f: tags += ("session:with-function-export",)
        if amb: cs.append(Case("amb " + amb + " " + line, tags + ("ambient", "ambient:descriptor-limit")))
        else: cs.append(Case(line, tags))


def session_predicates(r, io, v, long=False):
    """every import of a session against the last export to its path"""
    out = []
    reps = r.n() if long else 1
    np_ = r.n(); [r.w() for _ in range(np_)]
    calls = []
    for _ in range(r.n()):
        k = r.w(); pi = r.n()
        if k == "el": calls.append((k, pi, unhexs(r.w()), r.l(), r.f()))
        elif k == "et": calls.append((k, pi, unhexs(r.w()), r.tb(), r.l()))
        elif k == "ef":           # Export_Function over a list: one row (x, f(x)) per argument
            h = unhexs(r.w()); f = r.fexpr(); xs = r.l(); calls.append(("et", pi, h, [[x, f(x)] for x in xs], r.l()))
        elif k == "er":
            h = unhexs(r.w()); f = r.fexpr(); a, b = r.f(), r.f(); steps = r.n(); dims = r.l(); lg = r.n()
            calls.append(("et", pi, h, [[x, f(x)] for x in grid(a, b, steps, lg)], dims))
        elif k == "il": calls.append((k, pi, r.f(), r.n()))
        elif k == "it": calls.append((k, pi, r.l(), r.n()))
        else: calls.append((k, pi))
    block = len(calls); calls = calls * reps
    held = {}; writes = {}; pos = 0; must_exit = None; unsure = False
    exited = io.startswith("EXIT")
    for ci, c in enumerate(calls):
        k, pi = c[0], c[1]
        reg = ":path-rewritten" if writes.get(pi, 0) > 1 else ":path-written-once"
        if k == "el": held[pi] = ("l", c[2], c[3], c[4]); writes[pi] = writes.get(pi, 0) + 1
        elif k == "et":
            held[pi] = ("t", c[2], c[3], c[4]); writes[pi] = writes.get(pi, 0) + 1
            if c[4] and any(len(row) != len(c[4]) for row in c[3]): must_exit = "Export_Table with rows whose length differs from the number of dimensions"; break
        elif k == "fe":
            if exited: continue
            want = int(pi in held)
            if v[pos] != want: out.append(("session:file-exists" + reg, f"File_Exists = {v[pos]} for a path {'written to by an earlier call' if want else 'nothing was written to'} (call {ci % block} of repetition {ci // block})"))
            pos += 1
        elif k == "cl":
            if exited: continue
            e = held.get(pi); want = 0 if e is None else hlines(e[1]) + len(e[2])
            if e is not None and e[0] == "t" and any(len(row) == 0 for row in e[2]): pos += 1; continue
            if v[pos] != want: out.append(("session:count-lines" + reg, f"Count_Lines = {v[pos]} after {want} lines were written to the path (call {ci % block} of repetition {ci // block})"))
            pos += 1
        else:
            e = held.get(pi)
            if e is None: must_exit = "import from a path nothing was written to"; break
            exact = (k == "il" and e[0] == "l" and c[2] == e[3] and c[3] == hlines(e[1])) or \
                    (k == "it" and e[0] == "t" and c[2] == e[3] and c[3] == hlines(e[1]) and e[2] and e[2][0] and all(len(row) == len(e[2][0]) for row in e[2]))
            if not exact: unsure = True          # a request outside the round trip clause: correspondence with the model only
            if exited: continue
            if k == "il":
                got = v[pos + 1:pos + 1 + v[pos]]; pos += 1 + v[pos]
                if exact:
                    if len(got) != len(e[2]): out.append(("session:list-shape" + reg, f"{len(e[2])} values written last to the path, {len(got)} read back (call {ci % block} of repetition {ci // block})"))
                    else:
                        for x, y in zip(e[2], got):
                            if not close6(y, x): out.append(("session:list-six-digits" + reg, f"wrote {x!r}, read {y!r} (call {ci % block} of repetition {ci // block})")); break
            else:
                got, pos = read_out_table(v, pos)
                if exact:
                    if [len(row) for row in got] != [len(row) for row in e[2]]:
                        out.append(("session:table-shape" + reg, f"wrote {len(e[2])} x {len(e[2][0])} last to the path, read back {len(got)} x {len(got[0]) if got else 0} (call {ci % block} of repetition {ci // block})"))
                    else:
                        for rx, ry in zip(e[2], got):
                            if not all(close6(y, x) for x, y in zip(rx, ry)):
                                out.append(("session:table-six-digits" + reg, f"wrote row {rx[:4]!r}, read {ry[:4]!r} (call {ci % block} of repetition {ci // block})")); break
    if must_exit and not exited: out.append(("session:guard", f"the session went on after {must_exit}"))
    if exited and not must_exit and not unsure and not out: out.append(("session:exit", "a session of matching exports and imports terminated the process"))
    return out


# ------------------------------------------------------------------ ambient process state
# Export_* / Import_* build their own streams; what the calling program has set up process-wide is not an argument of the request but
# it is part of the situation: the property claims the round trip for every table, hence in every program.  "amb <spec> <round trip>"
# makes the same request after the harness has installed: a global C++ locale with another decimal point / digit grouping (writer and
# reader both take the global locale, so the text changes and the values read back must not), formatting state on std::cout, an older,
# longer file at the path, a relative path.  The model's answer does not depend on any of it (the driver drops the prefix).
DECIMAL_POINTS = [",", ",", ",", ",", ",", ".", ":", ";", "/"]
THOUSANDS_SEPS = [".", ",", "'", "_", " ", "\xa0"]
GROUPINGS = ["3", "3", "3", "3", "32", "1", "2", "43", "9", "13"]


def rand_ambient(rng, grouping=True):
    items = []; kinds = []
    while not items:
        if rng.random() < 0.7:
            dp = rng.choice(DECIMAL_POINTS); items.append("dp%02x" % ord(dp)); kinds.append("decimal-point" if dp != "." else "grouping")
            if grouping and (dp == "." or rng.random() < 0.45):
                ts = rng.choice([c for c in THOUSANDS_SEPS if c != dp])
                items += ["ts%02x" % ord(ts), "gr" + rng.choice(GROUPINGS)]; kinds.append("grouping")
        if rng.random() < 0.2:
            if rng.random() < 0.7: items.append("cp%d" % rng.choice([0, 1, 3, 10, 15, 17, 30]))
            if rng.random() < 0.6 or not items: items.append("cf" + rng.choice("fsh"))
            kinds.append("cout-format")
        if rng.random() < 0.25: items.append("pre%d" % rng.choice([1, 7, 100, 4096, 5000, 70000, 300000])); kinds.append("old-file-at-path")
        if rng.random() < 0.15: items.append("rel"); kinds.append("relative-path")
    return "+".join(items), sorted(set(kinds))


def ambient_kinds(spec):
    k = set()
    for it in spec.split("+"):
        if it.startswith("dp") and it != "dp2e": k.add("decimal-point")
        elif it.startswith(("gr", "ts")): k.add("grouping")
        elif it.startswith("c"): k.add("cout-format")
        elif it.startswith("pre"): k.add("old-file-at-path")
        elif it == "rel": k.add("relative-path")
        elif it.startswith("nof"): k.add("descriptor-limit")
    return sorted(k)


def generate_ambient(rng, tier, cs):
    base = [c for c in cs if c.line.startswith("rt_") and "roundtrip" in c.tags and "ambient" not in c.tags]
    small = [c for c in base if len(c.line) < 6000]
    n = 9000 if tier != "quick" else 300
    out = []
    for i in range(n):
        c = rng.choice(small if i % 8 else base)
        spec, kinds = rand_ambient(rng, grouping="size-aimed" not in c.tags)
        out.append(Case("amb " + spec + " " + c.line, tuple(t for t in c.tags if t != "size-aimed" and not t.startswith("file-size")) + ("ambient",) + tuple("ambient:" + k for k in kinds)))
    cs += out


# ------------------------------------------------------------------ unit constants (seventh pass)
# `unit_fold X`: the library's constant X read after start-up, against the model's double evaluation of its initialiser with the
# initialisers of the constants it names inlined (fold_const).  `unit_start X k d1..dk`: against the model's start-up (startup_const)
# in which d1..dk are initialised dynamically in textual order and the others hold their folded value.  The dynamic sets: none; the
# least one a one-pass compiler can choose (a constant that names a textually later constant cannot be folded, nor can anything built on
# it); random ones closed under "is built on" that pass the order check (units2v.safe_py = C20_Model.safe) — for every such set the
# start-up value is the folded value (C20_startup_any_number_type), so the answer of the library must not depend on it either.
_UNITS = {}


def units_info():
    if "defs" not in _UNITS:
        defs = units2v.parse_source(os.path.join(vbuild.REPO, "src", "Natural_Units.cpp"))
        _UNITS["defs"] = defs; _UNITS["exact"] = units2v.eval_exact(defs); _UNITS["nr"] = units2v.n_roundings(defs)
    return _UNITS


def close_dynamic(defs, seeds):
    dyn = set(seeds); ch = True
    while ch:
        ch = False
        for n, a, _ in defs:
            if n not in dyn and any(r in dyn for r in units2v.refs(a)): dyn.add(n); ch = True
    return dyn


def generate_units(rng, tier, cs):
    try: defs = units_info()["defs"]
    except Exception: return          # (the translator stage reports a source it cannot parse)
    names = [n for n, _, _ in defs]; pos = {n: i for i, n in enumerate(names)}
    least = close_dynamic(defs, [n for n, a, _ in defs if any(pos.get(r, -1) > pos[n] for r in units2v.refs(a))])
    sets = [("dyn:none", []), ("dyn:least-one-pass", [n for n in names if n in least])]
    tries = 0
    while len(sets) < (14 if tier != "quick" else 5) and tries < 200:
        tries += 1
        dyn = close_dynamic(defs, set(rng.sample(names, rng.choice([1, 2, 3, 8, 20]))) | (least if rng.random() < 0.7 else set()))
        if units2v.safe_py(defs, dyn) is None: sets.append(("dyn:random-safe", [n for n in names if n in dyn]))
    for n in names:
        cs.append(Case(f"unit_fold {n}", ("units", "unit:fold")))
    for tag, dyn in sets:
        for n in (names if tag != "dyn:random-safe" else rng.sample(names, 40) + dyn[:20]):
            cs.append(Case(f"unit_start {n} {len(dyn)} " + " ".join(dyn), ("units", "unit:start-up", tag, "unit:dynamic" if n in dyn else "unit:static")))


# ------------------------------------------------------------------ generation
def generate(rng, tier):
    os.makedirs(FILES, exist_ok=True)
    big = tier != "quick"
    EXCLUDED["n"] = 0
    cs = []
    path = lambda k: os.path.join(FILES, "rt_%d.txt" % (k % 4))

    # ---- In_Units, all overloads; digits on both sides of Round's guard, negative (converted to unsigned), 0
    def digits(): return rng.choice([1, 2, 3, 4, 4, 5, 6, 7, 7, 8, 9, 0, -1, -4, 100, 2147483647, -2147483648])
    def qd():
        d = rand_unit(rng) * rng.choice([1, 1, 1, -1]); return value_for(rng, d), d
    for _ in range(24000 if big else 700):
        q, d = qd(); rd = rng.random() < 0.6
        if rng.random() < 0.05: q = rng.choice([0.0, -0.0])
        cs.append(Case(f"in_units_s {hx(q)} {hx(d)} {int(rd)} {digits() if rd else rng.choice([4, -1, 9])}", ("in_units", "scalar", "round" if rd else "plain")))
    for _ in range(9000 if big else 300):
        d = rand_unit(rng); n = rng.choice([0, 1, 2, 3, 7]); rd = rng.random() < 0.4; dg = rng.choice([1, 3, 4, 7, 7, 8, -1]) if rd else 4
        l = [value_for(rng, d) for _ in range(n)]
        op = rng.choice(["in_units_l", "in_units_v"])
        cs.append(Case(f"{op} {flist(l)} {hx(d)} {int(rd)} {dg}", ("in_units", op[-1] == "v" and "Vector" or "list")))
        r_, c_ = rng.choice([0, 1, 2, 4]), rng.choice([0, 1, 3])
        t = [[value_for(rng, d) for _ in range(c_ if rng.random() < 0.8 else rng.choice([0, 1, 2]))] for _ in range(r_)]
        cs.append(Case(f"in_units_t {table_line(t)} {hx(d)} {int(rd)} {dg}", ("in_units", "table")))
        r_, c_ = rng.choice([1, 2, 3]), rng.choice([1, 2, 4])
        m = [[value_for(rng, d) for _ in range(c_)] for _ in range(r_)]
        cs.append(Case(f"in_units_m {table_line(m)} {hx(d)} {int(rd)} {dg}", ("in_units", "Matrix")))
        # per-column dimensions, mismatched sizes included
        c_ = rng.choice([0, 1, 2, 3, 5]); dims = [rand_unit(rng) for _ in range(c_)]; r_ = rng.choice([0, 1, 2, 4])
        t = [[value_for(rng, dd) for dd in dims] for _ in range(r_)]
        tag = "match"
        if r_ and rng.random() < 0.35:
            i = rng.randrange(r_); tag = "mismatch"
            if rng.random() < 0.5 and t[i]: t[i] = t[i][:-1]
            else: t[i] = t[i] + [1.0]
        cs.append(Case(f"in_units_td {table_line(t)} {flist(dims)} {int(rd)} {dg}", ("in_units", "table-dims", tag)))
    for _ in range(5000 if big else 200):
        a = abs(rand_value(rng)) or 1.0; b = abs(rand_value(rng)) or 2.0
        if rng.random() < 0.3: a, b = 10.0 ** rng.uniform(-3, 3), 10.0 ** rng.uniform(-3, 3)
        if a * b > 1e300 or (a * b < 1e-300): a, b = 0.938, 131.0
        cs.append(Case(f"reduced_mass {hx(a)} {hx(b)}", ("reduced_mass",)))

    # ---- list round trips
    k = 0
    for _ in range(6000 if big else 250):
        k += 1
        d = rand_unit(rng); n = rng.choice([0, 1, 2, 3, 10, 50, 200])
        l = [value_for(rng, d) for _ in range(n)]
        cs.append(Case(f"rt_list {path(k)} {hexs(rand_header(rng))} {flist(l)} {hx(d)}", ("roundtrip", "list")))
    # ---- table round trips: 1..200 rows x 1..12 columns, per-column units (or none)
    shapes = [(1, 1), (1, 12), (200, 1), (200, 12), (2, 2), (3, 5), (17, 7), (64, 3), (199, 11), (5, 12), (100, 2)]
    for it in range(12000 if big else 520):
        k += 1
        if it < len(shapes): r_, c_ = shapes[it]
        elif rng.random() < (0.25 if big else 0.1): r_, c_ = rng.randint(1, 200), rng.randint(1, 12)
        else: r_, c_ = rng.choice([1, 2, 3, 4, 6, 9, 20]), rng.randint(1, 12)
        u = rng.random()
        if u < 0.15: dims = []
        elif u < 0.5 and c_ >= 2:     # aimed at the non-triviality rule: units >= 10 decades apart
            dims = [rand_unit(rng) for _ in range(c_)]
            dims[0] = 10.0 ** rng.uniform(-30, -8); dims[-1] = 10.0 ** rng.uniform(4, 30); rng.shuffle(dims)
        else: dims = [rand_unit(rng) for _ in range(c_)]
        t = [[value_for(rng, dims[j] if dims else 1.0) for j in range(c_)] for _ in range(r_)]
        h = rand_header(rng, multi=True if u < 0.5 and rng.random() < 0.8 else None)
        cs.append(Case(f"rt_table {path(k)} {hexs(h)} {table_line(t)} {flist(dims)} -1", ("roundtrip", "table", "hdr%d" % min(hlines(h), 3), "rows>=100" if r_ >= 100 else "rows<100")))
    # ---- header skipping with another count than the lines written (fewer: stops at the header text or reads its numbers; more: drops rows), dimension mismatch on export
    for _ in range(4000 if big else 160):
        k += 1
        r_, c_ = rng.choice([1, 2, 3, 4]), rng.choice([1, 2, 3])
        dims = [] if rng.random() < 0.4 else [rand_unit(rng) for _ in range(c_)]
        t = [[value_for(rng, dims[j] if dims else 1.0) for j in range(c_)] for _ in range(r_)]
        h = rand_header(rng)
        ign = max(0, hlines(h) + rng.choice([-2, -1, -1, 1, 1, 2, r_, r_ + 1]))
        cs.append(Case(f"rt_table {path(k)} {hexs(h)} {table_line(t)} {flist(dims)} {ign}", ("guards", "ignored!=header")))
        if rng.random() < 0.4:
            bad = [1.0] * (c_ + rng.choice([-1, 1, 2])) or [1.0, 1.0]
            cs.append(Case(f"rt_table {path(k)} {hexs(h)} {table_line(t)} {flist(bad)} -1", ("guards", "dims-mismatch")))
    # ---- tabulated functions: argument lists of every shape (sorted or not, with repeated and nearly equal arguments), ranges down to the resolution of doubles
    def fdims(): return [] if rng.random() < 0.3 else [10.0 ** rng.uniform(-12, 12), 10.0 ** rng.uniform(-12, 12)]
    def inside(f, xs, dims): return all(pair_ok(v, dims[j] if dims else 1.0) for x in xs for j, v in enumerate((x, f(x))))
    for _ in range(3000 if big else 170):
        k += 1
        for _try in range(8):             # (function, arguments, units) whose quotients are zero or normal doubles: inside the quantifier
            fe, f = rng.choice(FEXPRS); xs, t1, t2 = rand_args(rng); dims = fdims()
            if inside(f, xs, dims): break
            EXCLUDED["n"] += 1
        else: fe, f = FEXPRS[0]; xs, t1, t2 = [1.0, 1.0, 2.0], "args:repeated-run", "args:equal-neighbours"; dims = []
        cs.append(Case(f"rt_func {path(k)} {hexs(rand_header(rng))} {fe} {flist(xs)} {flist(dims)}", ("roundtrip", "function-list", t1, t2)))
        for _try in range(8):
            fe, f = rng.choice(FEXPRS); a, b, steps, lg, t1 = rand_range(rng); dims = fdims()
            if inside(f, grid(a, b, steps, lg), dims): break
            EXCLUDED["n"] += 1
        else: fe, f = FEXPRS[0]; a, b, steps, lg, t1 = 1e16, 1e16 + 2, 3, False, "range:below-resolution"; dims = []
        g = grid(a, b, steps, lg)
        t2 = "grid:equal-neighbours" if any(u == w for u, w in zip(g, g[1:])) else "grid:distinct"
        cs.append(Case(f"rt_func2 {path(k)} {hexs(rand_header(rng))} {fe} {hx(a)} {hx(b)} {steps} {flist(dims)} {int(lg)}", ("roundtrip", "function-range", t1, t2)))
    # ---- files not written by Export_*: guards of Import_Table / Import_List, line counting
    cs.append(Case(f"import_missing {os.path.join(FILES, 'missing.txt')} 0", ("guards", "missing")))
    cs.append(Case(f"import_missing {os.path.join(FILES, 'missing.txt')} 1", ("guards", "missing")))
    def numtok():
        v = rng.choice([rng.randint(-999, 999), round(rng.uniform(-10, 10), 3), float("%.5e" % (10.0 ** rng.uniform(-30, 30)))])
        return repr(v)
    for _ in range(10000 if big else 300):
        which = 0 if rng.random() < 0.3 else 1
        nh = rng.choice([0, 0, 1, 2]); r_ = rng.choice([0, 1, 2, 3, 5]); c_ = rng.choice([1, 2, 3])
        lines = [[rng.choice(HEADER_WORDS[:12]) if rng.random() < 0.8 else str(rng.randint(0, 50)) for _ in range(rng.choice([0, 1, 2, 3]))] for _ in range(nh)]
        kind = rng.choice(["regular", "regular", "ragged", "blank-tail", "blank-middle", "word-inside", "empty", "redistributed"])
        body = [[numtok() for _ in range(c_)] for _ in range(r_)]
        if kind == "ragged" and r_: body[rng.randrange(r_)] = [numtok() for _ in range(c_ + rng.choice([-1, 1]))]
        if kind == "blank-tail": body += [[] for _ in range(rng.choice([1, 2]))]
        if kind == "blank-middle" and r_ > 1: body.insert(rng.randrange(1, r_), [])
        if kind == "word-inside" and r_: body[rng.randrange(r_)][rng.randrange(c_)] = "NaN"
        if kind == "redistributed" and r_ > 1 and c_ > 1:      # same number of entries and lines, but the lines do not hold one row each
            i = rng.randrange(r_ - 1); body[i + 1] = [body[i].pop()] + body[i + 1]
        if kind == "empty": lines, body = [], []
        lines += body
        term = int(rng.random() < 0.6)
        ign = max(0, nh + rng.choice([0, 0, 0, 0, -1, 1, 5]))
        dims = [] if rng.random() < 0.5 else [float(rng.choice([1, 2, 1000])) for _ in range(c_ if rng.random() < 0.8 else c_ + 1)]
        if which == 0: dims = dims[:1]
        spec = " ".join(f"{len(l)} " + " ".join(l) if l else "0" for l in lines)
        cs.append(Case(f"import_raw {os.path.join(FILES, 'raw.txt')} {which} {term} {len(lines)} {spec} {flist(dims)} {ign}".replace("  ", " "), ("guards", "raw-" + kind)))
    # ---- the unit constants, one by one: folded initialiser / start-up under safe classifications (model: C20_Model2.v)
    generate_units(rng, tier, cs)
    # ---- files whose byte size sits on / next to a multiple of a buffer or block size
    generate_sized(rng, tier, cs)
    # ---- the same round trips in a process with another global locale / stream state / an old file at the path / a relative path
    generate_ambient(rng, tier, cs)
    # ---- several calls in one process over a few paths
    generate_sessions(rng, tier, cs)
    generate_twin_sessions(rng, tier, cs)
    generate_long_sessions(rng, tier, cs)
    return cs


# ------------------------------------------------------------------ parsing of case lines (for S4)
class Rd:
    def __init__(self, line): self.t = line.split(); self.i = 0
    def w(self): self.i += 1; return self.t[self.i - 1]
    def n(self): return int(self.w())
    def f(self):
        w = self.w()
        return math.nan if w == "nan" else (math.inf if w == "inf" else (-math.inf if w == "-inf" else float.fromhex(w)))
    def l(self): return [self.f() for _ in range(self.n())]
    def tb(self): return [self.l() for _ in range(self.n())]
    def fexpr(self):
        o = self.w()
        if o == "x": return lambda x: x
        if o == "c":
            c = self.f(); return lambda x: c
        if o in "+-*/":
            a = self.fexpr(); b = self.fexpr()
            return {"+": lambda x: a(x) + b(x), "-": lambda x: a(x) - b(x), "*": lambda x: a(x) * b(x), "/": lambda x: a(x) / b(x)}[o]
        a = self.fexpr()
        return {"neg": lambda x: -a(x), "exp": lambda x: math.exp(a(x)), "sin": lambda x: math.sin(a(x)), "abs": lambda x: abs(a(x))}[o]


def read_out_table(v, k):
    rows = v[k]; k += 1; t = []
    for _ in range(rows):
        n = v[k]; t.append(v[k + 1:k + 1 + n]); k += 1 + n
    return t, k


def strip_ambient(c):
    """(inner case, ambient spec or None)"""
    if not c.line.startswith("amb "): return c, None
    _, spec, inner = c.line.split(" ", 2)
    return Case(inner, c.tags, c.tol, c.info), spec


def nontrivial(c, io):
    c, _ = strip_ambient(c)
    t = c.line.split()
    if t[0] != "rt_table" or io.startswith(("EXIT", "CRASH")): return False
    r = Rd(c.line); r.w(); r.w(); h = unhexs(r.w()); tb = r.tb(); dims = r.l(); ign = r.n()
    if ign >= 0 or hlines(h) < 2 or len(dims) < 2: return False
    lg = [math.log10(abs(d)) for d in dims if d != 0]
    return len(lg) >= 2 and max(lg) - min(lg) >= 10.0


# six significant digits: |fmt6(q) - q| <= 5e-6 |q|; q = fl(x/d) and the product with d add one rounding each
SIX = 5e-6 + 4 * EPS


def close6(y, x): return y == x or abs(y - x) <= SIX * abs(x)


def predicates(c, io):
    """S4: the property's own clauses evaluated on the implementation's output."""
    out = []
    if io.startswith(("CRASH", "SANITIZER", "TIMEOUT", "HARNESSERR")): return out
    inner, spec = strip_ambient(c)
    if spec is not None:      # the clauses are those of the plain request; the signature names the kind of process state as its region
        region = ":ambient(" + ",".join(ambient_kinds(spec)) + ")"
        return [(sig + region, msg + f" [in a process with the ambient state {spec}: " + ", ".join(ambient_kinds(spec)) + "]") for sig, msg in predicates(inner, io)]
    r = Rd(c.line); op = r.w()
    v = parse_vals(io)
    if op.startswith("in_units_"):
        kind = op[len("in_units_"):]
        if kind == "s": q = [[r.f()]]
        elif kind in ("l", "v"): q = [r.l()]
        else: q = r.tb()
        dims = r.l() if kind == "td" else None
        dim = None if kind == "td" else r.f()
        rd, dg = r.n(), r.n()
        n_el = sum(len(row) for row in q)
        mism = kind == "td" and any(len(row) != len(dims) for row in q)
        want_exit = mism or (rd and n_el > 0 and not (0 <= dg <= 7))
        if io.startswith("EXIT"):
            if not want_exit: out.append((op + ":exit", "In_Units terminated the process on a well-formed request"))
            return out
        if want_exit:
            out.append((op + (":mismatch-accepted" if mism else ":digits-accepted"), "In_Units accepted " + ("rows whose length differs from the number of dimensions" if mism else f"digits = {dg}")))
            return out
        # shape
        if kind == "s": got = [[v[0]]]
        elif kind in ("l", "v"): got = [v[1:1 + v[0]]]
        else: got, _ = read_out_table(v, 0)
        if [len(row) for row in got] != [len(row) for row in q]:
            out.append((op + ":shape", f"shape changed: {[len(row) for row in q][:6]} -> {[len(row) for row in got][:6]}")); return out
        for i, row in enumerate(q):
            for j, x in enumerate(row):
                d = dims[j] if kind == "td" else dim
                e = x / d if d != 0 else math.nan; y = got[i][j]
                if not rd:
                    if not (y == e or (y != y and e != e)): out.append((op + ":quotient", f"entry ({i},{j}): {y!r} is not quantity/dimension = {e!r}"))
                elif 1 <= dg <= 7 and e != 0 and math.isfinite(e) and 1e-290 < abs(e) < 1e290:
                    dec = math.floor(math.log10(abs(e)))
                    unit = 10.0 ** (dec - dg + 1)
                    if not (abs(y - e) <= 0.5 * unit * (1 + 1e-9) + 4 * EPS * abs(e)): out.append((op + ":round", f"entry ({i},{j}): {y!r} is not {e!r} rounded to {dg} digits"))
                    m = y / unit
                    if not (abs(m - round(m)) <= 1e-6 * max(1.0, abs(m))): out.append((op + ":round-digits", f"entry ({i},{j}): {y!r} has more than {dg} significant digits"))
                elif rd and e == 0 and y != 0: out.append((op + ":round", "Round(0) is not 0"))
    elif op in ("unit_fold", "unit_start"):
        # the constant the library holds after start-up against the exact (rational / 60-digit) value of its defining expression;
        # a priori slack: one half-ulp relative error per rounded operation of the fully inlined initialiser (as in the extra stage)
        n = r.w()
        try: u = units_info()
        except Exception: return out
        if n not in u["exact"] or io.startswith(("EXIT", "HARNESSERR")): return out
        ref = float(u["exact"][n]); got = v[0]
        if not (abs(got - ref) <= (u["nr"][n] + 2) * EPS * 1.0001 * abs(ref)):
            out.append((f"unit_const:value:{n}", f"after start-up {n} = {got!r}, but its defining expression denotes {ref!r}"))
    elif op == "reduced_mass":
        a, b = r.f(), r.f(); y = v[0]
        if y != a * b / (a + b): out.append(("reduced_mass:formula", f"{y!r} is not m1*m2/(m1+m2) = {a*b/(a+b)!r}"))
        if not (0 < y <= min(a, b) * (1 + 2 * EPS)): out.append(("reduced_mass:below", f"{y!r} is not in (0, min(m1,m2)]"))
    elif op == "rt_list":
        r.w(); h = unhexs(r.w()); data = r.l(); d = r.f()
        if any(len(l) >= 10000 for l in h.split("\n")): op = "rt_list:long-header"      # the skipping of long lines is probed separately (a line of >= 10000 characters used not to be skipped)
        if io.startswith("EXIT"): return [(op + ":exit", "list round trip terminated the process")]
        if v[0] != hlines(h) + len(data): out.append((op + ":count-lines", f"Count_Lines = {v[0]}, written {hlines(h)} header + {len(data)} data lines"))
        got = v[2:2 + v[1]]
        if len(got) != len(data): out.append((op + ":shape", f"{len(data)} values written, {len(got)} read back"))
        else:
            for i, (x, y) in enumerate(zip(data, got)):
                if not close6(y, x): out.append((op + ":six-digits", f"value {i}: wrote {x!r}, read {y!r} (rel {abs(y-x)/abs(x):.3g})")); break
    elif op in ("rt_table", "rt_func", "rt_func2"):
        r.w(); h = unhexs(r.w())
        if op == "rt_table":
            tb = r.tb(); dims = r.l(); ign = r.n()
            if ign >= 0 and ign != hlines(h): return out         # another number of lines than written: correspondence only
            if dims and any(len(row) != len(dims) for row in tb):
                if not io.startswith("EXIT"): out.append(("rt_table:dims-mismatch-accepted", "Export_Table accepted rows whose length differs from the number of dimensions"))
                return out
        else:
            f = r.fexpr()
            if op == "rt_func": xs = r.l()
            else:
                a, b = r.f(), r.f(); steps = r.n()
            dims = r.l()
            if op == "rt_func2":
                lg = r.n()
                xs = grid(a, b, steps, lg)
            tb = [[x, f(x)] for x in xs]
            if dims and len(dims) != 2: return out
            if not all(pair_ok(x, dims[j] if dims else 1.0) for row in tb for j, x in enumerate(row)): return out    # outside the quantifier
        if not tb or not tb[0]: return out
        if any(len(l) >= 10000 for l in h.split("\n")): op = op + ":long-header"
        if io.startswith("EXIT"): return [(op + ":exit", "round trip of a rectangular table with >= 1 row and column terminated the process")]
        if v[0] != hlines(h) + len(tb): out.append((op + ":count-lines", f"Count_Lines = {v[0]}, written {hlines(h)} header + {len(tb)} rows"))
        got, _ = read_out_table(v, 1)
        if [len(row) for row in got] != [len(row) for row in tb]:
            out.append((op + ":shape", f"wrote {len(tb)} x {len(tb[0])}, read back {len(got)} x {len(got[0]) if got else 0}")); return out
        slack = SIX if op != "rt_func2" else SIX + 1e-12
        for i, (rx, ry) in enumerate(zip(tb, got)):
            for j, (x, y) in enumerate(zip(rx, ry)):
                if not (y == x or abs(y - x) <= slack * abs(x)):
                    out.append((op + ":six-digits", f"entry ({i},{j}): wrote {x!r} in units of {(dims[j] if dims else 1.0)!r}, read back {y!r} (rel {abs(y-x)/abs(x) if x else math.inf:.3g})")); return out
    elif op in ("session", "lsession"):
        out += session_predicates(r, io, v if not io.startswith("EXIT") else [], long=(op == "lsession"))
    elif op == "import_missing":
        if not io.startswith("EXIT"): out.append(("import:missing-accepted", "importing a file that does not exist did not terminate the process"))
    elif op == "import_raw":
        # independent reference at the level of text lines
        r.w(); which, term, nl = r.n(), r.n(), r.n()
        lines = [[r.w() for _ in range(r.n())] for _ in range(nl)]
        dims = r.l(); ign = r.n()
        if not term and lines and not lines[-1]: lines = lines[:-1]
        def isnum(w): return re.fullmatch(r"[-+]?(\d+\.?\d*|\.\d+)([eE][-+]?\d+)?", w) is not None
        toks = [w for l in lines[ign:] for w in l]; nums = []
        for w in toks:
            if not isnum(w): break
            nums.append(float(w))
        if which == 0:
            exp = [x * (dims[0] if dims else 1.0) for x in nums]
            if io.startswith("EXIT"): out.append(("import_raw:list-exit", "Import_List terminated the process on an existing file"))
            elif v[0] != len(lines) or v[2:2 + v[1]] != exp: out.append(("import_raw:list", f"Import_List/Count_Lines disagree with the text: lines {v[0]} vs {len(lines)}, values {v[2:6]} vs {exp[:4]}"))
        else:
            rows = len(lines) - ign
            bad = rows <= 0 or not nums or len(nums) % rows != 0 or (dims and len(dims) != len(nums) // rows)
            if not bad:     # every line after the ignored ones has to start with exactly `columns` numbers
                def lead(l):
                    n = 0
                    for w in l:
                        if not isnum(w): break
                        n += 1
                    return n
                bad = any(lead(l) != len(nums) // rows for l in lines[ign:])
            if bad:
                if not io.startswith("EXIT"): out.append(("import_raw:table-guard", "Import_Table accepted a file that is empty after the ignored lines, ragged, with a line not holding one row, or whose width differs from the dimensions"))
            elif io.startswith("EXIT"): out.append(("import_raw:table-exit", "Import_Table terminated the process on a regular table"))
            else:
                cols = len(nums) // rows
                exp = [[nums[i * cols + j] * (dims[j] if dims else 1.0) for j in range(cols)] for i in range(rows)]
                got, _ = read_out_table(v, 1)
                if v[0] != len(lines) or got != exp: out.append(("import_raw:table", f"Import_Table disagrees with the text: {got[:2]} vs {exp[:2]}"))
    return out


# ------------------------------------------------------------------ T-tie
def gen_functions():
    """T-tie (seventh pass): the scalar In_Units and Reduced_Mass of src/Natural_Units.cpp are regenerated from clang's AST on every
    run (coq/Gen_C20_Formulas.v, tools/cxx2gallina.py in extended mode: Round, of Special_Functions.cpp, is a parameter) and proved equal
    to the hand model in coq/C20_GenTie.v"""
    import cxx2gallina as c
    d = "double"
    fns = [c.Fn("In_Units", [d, d, "bool", "int"], "g_In_Units"), c.Fn("Reduced_Mass", [d, d], "g_Reduced_Mass")]
    exts = [c.Ext("Round", [d, "uint"], "round_f")]
    return fns, exts


def regenerate():
    import cxx2gallina as c
    fns, exts = gen_functions()
    try:
        txt = c.translate_all(os.path.join(vbuild.REPO, "src", "Natural_Units.cpp"), fns, [os.path.join(vbuild.REPO, "include")], exts, False)
    except c.Unsupported as e:
        raise RuntimeError(f"tools/cxx2gallina.py cannot translate In_Units / Reduced_Mass of src/Natural_Units.cpp: {e}")
    # under the build lock: no build of the development runs while the generated file is replaced
    with vbuild.Lock("coq"):
        log = units2v.regenerate(vbuild.REPO, COQ)
        if c.write_if_changed(os.path.join(COQ, "Gen_C20_Formulas.v"), txt):
            log = (log + "; " if log else "") + "Gen_C20_Formulas.v regenerated from the current source"
        # runs against different source trees (a copy with a change under VERIF_REPO) share this file: a compiled file whose source
        # was replaced during its compilation is newer than the source and yet holds other definitions.  coqc records the digest of
        # the text it compiled in the .glob file; a compiled file made from another text than the present one is discarded.
        v = os.path.join(COQ, "Gen_C20_Units.v")
        try:
            first = open(v[:-2] + ".glob").readline().split()
            stale = len(first) == 2 and first[0] == "DIGEST" and first[1] != hashlib.md5(open(v, "rb").read()).hexdigest()
        except OSError:
            stale = False
        if stale:
            for ext in (".vo", ".vos", ".vok", ".glob"):
                try: os.remove(v[:-2] + ext)
                except OSError: pass
            log = (log + "; " if log else "") + "stale compiled Gen_C20_Units discarded"
    return log


# the property's identities, evaluated on the values each build holds after start-up (S4 for the units clause);
# slack 64 * 2^-53 relative (DESIGN 5.3): at most ~20 rounded operations on either side
IDENTITIES = [
    ("Joule", "kg m^2/s^2", lambda v: v["kg"] * v["meter"] ** 2 / v["sec"] ** 2), ("Newton", "kg m/s^2", lambda v: v["kg"] * v["meter"] / v["sec"] ** 2),
    ("Watt", "Joule/sec", lambda v: v["Joule"] / v["sec"]), ("Pa", "Newton/m^2", lambda v: v["Newton"] / v["meter"] ** 2),
    ("erg", "g cm^2/s^2", lambda v: v["gram"] * v["cm"] ** 2 / v["sec"] ** 2), ("erg", "1e-7 Joule", lambda v: 1e-7 * v["Joule"]),
    ("dyne", "1e-5 Newton", lambda v: 1e-5 * v["Newton"]), ("dyne", "g cm/s^2", lambda v: v["gram"] * v["cm"] / v["sec"] ** 2),
    ("Joule", "Volt*Coulomb", lambda v: v["Volt"] * v["Coulomb"]), ("Ohm", "Volt/Ampere", lambda v: v["Volt"] / v["Ampere"]),
    ("Ampere", "Coulomb/sec", lambda v: v["Coulomb"] / v["sec"]), ("Farad", "Coulomb/Volt", lambda v: v["Coulomb"] / v["Volt"]), ("Siemens", "1/Ohm", lambda v: 1.0 / v["Ohm"]),
    ("Tesla", "Newton sec/(Coulomb m)", lambda v: v["Newton"] * v["sec"] / (v["Coulomb"] * v["meter"])), ("Tesla", "kg/(Coulomb sec)", lambda v: v["kg"] / (v["Coulomb"] * v["sec"])),
    ("Gauss", "1e-4 Tesla", lambda v: 1e-4 * v["Tesla"]), ("Weber", "Volt sec", lambda v: v["Volt"] * v["sec"]), ("Hz", "1/sec", lambda v: 1.0 / v["sec"]),
    ("cal", "4.184 Joule", lambda v: 4.184 * v["Joule"]), ("kg", "1000 gram", lambda v: 1e3 * v["gram"]), ("tonne", "1000 kg", lambda v: 1e3 * v["kg"]),
    ("bar", "1e5 Pa", lambda v: 1e5 * v["Pa"]), ("hPa", "100 Pa", lambda v: 1e2 * v["Pa"]), ("kPa", "1000 Pa", lambda v: 1e3 * v["Pa"]), ("barye", "0.1 Pa", lambda v: 0.1 * v["Pa"]),
    ("ms", "sec/1000", lambda v: v["sec"] / 1e3), ("ns", "sec/1e9", lambda v: v["sec"] / 1e9), ("minute", "60 sec", lambda v: 60 * v["sec"]), ("hr", "3600 sec", lambda v: 3600 * v["sec"]),
    ("day", "86400 sec", lambda v: 86400 * v["sec"]), ("week", "604800 sec", lambda v: 604800 * v["sec"]), ("year", "31557600 sec", lambda v: 31557600 * v["sec"]),
    ("sec", "299792458 meter", lambda v: 299792458.0 * v["meter"]),
    ("cm", "meter/100", lambda v: v["meter"] / 100), ("mm", "meter/1000", lambda v: v["meter"] / 1e3), ("km", "1000 meter", lambda v: 1e3 * v["meter"]), ("fm", "1e-15 meter", lambda v: 1e-15 * v["meter"]),
    ("Angstrom", "1e-10 meter", lambda v: 1e-10 * v["meter"]), ("inch", "0.0254 meter", lambda v: 0.0254 * v["meter"]), ("foot", "0.3048 meter", lambda v: 0.3048 * v["meter"]),
    ("yard", "0.9144 meter", lambda v: 0.9144 * v["meter"]), ("mile", "1609.344 meter", lambda v: 1609.344 * v["meter"]),
    ("meV", "eV/1000", lambda v: v["eV"] / 1e3), ("keV", "1000 eV", lambda v: 1e3 * v["eV"]), ("MeV", "1e6 eV", lambda v: 1e6 * v["eV"]), ("GeV", "1e9 eV", lambda v: 1e9 * v["eV"]),
    ("TeV", "1e12 eV", lambda v: 1e12 * v["eV"]), ("PeV", "1e15 eV", lambda v: 1e15 * v["eV"]),
]

# ------------------------------------------------------------------ extra stage: the four build configurations
CONFIGS = [("gxx_O0", "g++", "-O0"), ("gxx_O2", "g++", "-O2"), ("clang_O0", "clang++", "-O0"), ("clang_O2", "clang++", "-O2")]


def _sh(cmd, **kw):
    return subprocess.run(cmd, stdout=subprocess.PIPE, stderr=subprocess.STDOUT, text=True, **kw)


def _build_config(tag, cxx, opt, names, ctx, whole_library):
    """compile Natural_Units.cpp (thorough tier: the whole library) with this compiler/flag, measure the
    classification with nm, link a printer of every constant against it, run it.  Cached on a content hash."""
    inc = ["-I", os.path.join(vbuild.REPO, "include"), "-I", ctx["lib"]]
    flags = ["-std=c++14", opt, "-w"]
    printer = "#include <cstdio>\n#include \"libphysica/Natural_Units.hpp\"\nusing namespace libphysica::natural_units;\nint main(){\n" + \
              "".join(f'  std::printf("{n} %a\\n", {n});\n' for n in names) + "  return 0;\n}\n"
    key = vbuild.tree_hash(cxx + " ".join(flags) + printer + ("whole" if whole_library else "unit") + ctx["lib"])
    d = os.path.join(vbuild.BUILD, "C20cfg", f"{tag}-{key}")
    res = os.path.join(d, "result.txt")
    if not os.path.exists(res):
        for o in sorted(glob.glob(os.path.join(vbuild.BUILD, "C20cfg", tag + "-*")), key=os.path.getmtime)[:-3]:
            shutil.rmtree(o, ignore_errors=True)
        tmp = d + ".tmp%d" % os.getpid(); shutil.rmtree(tmp, ignore_errors=True); os.makedirs(tmp)
        nu = os.path.join(tmp, "Natural_Units.o")
        srcs = sorted(glob.glob(os.path.join(vbuild.REPO, "src", "*.cpp"))) if whole_library else [os.path.join(vbuild.REPO, "src", "Natural_Units.cpp")]
        objs = []
        def comp(s):
            o = os.path.join(tmp, os.path.basename(s)[:-4] + ".o")
            r = _sh([cxx] + flags + inc + ["-c", s, "-o", o]); return o, r
        with ThreadPoolExecutor(4) as ex:
            for o, r in ex.map(comp, srcs):
                if r.returncode != 0: raise RuntimeError(f"{cxx} {opt}: {os.path.basename(o)} does not compile:\n{r.stdout[-1500:]}")
                objs.append(o)
        r = _sh(["nm", "-C", nu])
        if r.returncode != 0: raise RuntimeError("nm failed: " + r.stdout[-500:])
        open(os.path.join(tmp, "nm.txt"), "w").write(r.stdout)
        open(os.path.join(tmp, "print.cpp"), "w").write(printer)
        link = objs if whole_library else [nu, os.path.join(ctx["lib"], "libphysica.a")]
        r = _sh([cxx] + flags + inc + [os.path.join(tmp, "print.cpp")] + link + ["-lconfig++", "-o", os.path.join(tmp, "print")])
        if r.returncode != 0: raise RuntimeError(f"{cxx} {opt}: the constant printer does not link:\n{r.stdout[-1500:]}")
        r = subprocess.run([os.path.join(tmp, "print")], stdout=subprocess.PIPE, stderr=subprocess.PIPE, text=True, timeout=60)
        if r.returncode != 0: raise RuntimeError(f"{cxx} {opt}: the constant printer failed: {r.stderr[-500:]}")
        open(os.path.join(tmp, "result.txt"), "w").write(r.stdout)
        for o in objs:
            if o != nu: os.remove(o)
        shutil.rmtree(d, ignore_errors=True); os.rename(tmp, d)
    else:
        os.utime(d)
    sect = {}
    for l in open(os.path.join(d, "nm.txt")):
        m = re.match(r"^[0-9a-f]+\s+(\w)\s+libphysica::natural_units::([A-Za-z_0-9]+)$", l.strip())
        if m: sect[m.group(2)] = m.group(1)
    vals = {}
    for l in open(res):
        p = l.split()
        if len(p) == 2:
            try: vals[p[0]] = float.fromhex(p[1]) if p[1] not in ("inf", "-inf", "nan", "-nan") else float(p[1].replace("-nan", "nan"))
            except ValueError: vals[p[0]] = math.nan
    return sect, vals


def extra(ctx, rng):
    out = {"excluded_not_finite_normal": EXCLUDED["n"], "violations": [], "broken": []}
    work = ctx["work"]; os.makedirs(work, exist_ok=True)
    try:
        defs = units2v.parse_source(os.path.join(vbuild.REPO, "src", "Natural_Units.cpp"))
    except units2v.TranslateError as e:
        out["broken"].append({"kind": "translator", "what": "units2v cannot parse the constants section: " + str(e)[:500]}); return out
    names = [n for n, _, _ in defs]
    exact = units2v.eval_exact(defs)
    dbl = units2v.eval_double(defs)
    nr = units2v.n_roundings(defs)
    whole = ctx["tier"] != "quick"
    with ThreadPoolExecutor(4) as ex:
        futs = {tag: ex.submit(_build_config, tag, cxx, opt, names, ctx, whole) for tag, cxx, opt in CONFIGS}
    cfg = {}; measured = {}
    for tag, cxx, opt in CONFIGS:
        try: sect, vals = futs[tag].result()
        except Exception as e:
            out["broken"].append({"kind": "build", "what": f"configuration {cxx} {opt} cannot be built / run: {str(e)[-800:]}"}); continue
        case = f"units {cxx} {opt}"
        unknown = [n for n in names if sect.get(n) not in ("R", "r", "B", "b", "D", "d")]
        if unknown or set(sect) != set(names):
            out["violations"].append({"sig": f"units:symbols:{tag}", "msg": f"{cxx} {opt}: the object file's symbols do not match the constants of the source (unclassified: {unknown[:5]}, extra: {sorted(set(sect)-set(names))[:5]})", "case": case, "impl": "", "model": ""})
            continue
        dyn = [n for n in names if sect[n] in ("B", "b")]
        measured[tag] = dyn
        why = units2v.safe_py(defs, set(dyn))
        # values after start-up against the order-free exact denotation
        bad = []; bit = 0; worst = 0.0
        for n in names:
            ref = float(exact[n]); got = vals.get(n, math.nan)
            if got == dbl[n]: bit += 1
            # a priori slack: one half-ulp relative error per rounded operation of the fully inlined initialiser
            # (n_roundings: literal conversions, * / sqrt pow, M_PI), plus the final rounding of the reference
            slack = (nr[n] + 2) * EPS * 1.0001
            dev = abs(got - ref) / abs(ref) if ref != 0 and math.isfinite(got) else (0.0 if got == ref else math.inf)
            if dev == dev: worst = max(worst, dev / (2 * EPS))
            if not (dev <= slack): bad.append((n, got, ref))
        for n, got, ref in bad[:3]:
            out["violations"].append({"sig": f"units:value:{tag}:{n}", "msg": f"{cxx} {opt}: after start-up {n} = {got!r}, but its defining expression denotes {ref!r}" + (f" ({why})" if why else ""),
                                      "case": case, "impl": f"{n} {hx(got)}", "model": ""})
        # the property's identities on this build's values
        nid = 0; idbad = []
        for n, txt, f in IDENTITIES:
            try: rhs = f(vals); lhs = vals[n]
            except (KeyError, ZeroDivisionError, OverflowError): continue
            nid += 1
            if not (abs(lhs - rhs) <= 64 * EPS * abs(rhs)): idbad.append((n, txt, lhs, rhs))
        for n, txt, lhs, rhs in idbad[:2]:
            out["violations"].append({"sig": f"units:identity:{tag}:{n}", "msg": f"{cxx} {opt}: {n} = {lhs!r} but {txt} = {rhs!r}", "case": case, "impl": f"{n} {hx(lhs)}", "model": ""})
        if why and not bad:
            out["violations"].append({"sig": f"units:unsafe-order:{tag}", "msg": f"{cxx} {opt}: initialisation order check fails: {why}", "case": case, "impl": "dynamic: " + " ".join(dyn), "model": ""})
        cfg[tag] = {"compiler": f"{cxx} {opt}", "whole_library_built_in_this_configuration": whole, "dynamic": dyn, "static": len(names) - len(dyn), "safe_python": why is None,
                    "constants_compared": len(names), "differ_from_denotation": len(bad), "identities_evaluated": nid, "identities_violated": len(idbad), "bit_identical_to_double_evaluation_of_the_parsed_source": bit,
                    "max_deviation_from_exact_denotation_ulps": round(worst, 3)}
    # Coq: safe defs cls_measured = true by vm_compute for each measured configuration, and the start-up theorem instantiated
    if measured and os.path.exists(os.path.join(COQ, "C20_Proofs_Units.vo")):
        v = ["(* GENERATED by checks/C20.py: measured static/dynamic classification of each build configuration *)",
             "From Coq Require Import String.", "From Coq Require Import List Bool.",
             "From LP Require Import C20_Model C20_Proofs_Init Gen_C20_Units C20_Proofs_Units.", "Import ListNotations.", "Local Open Scope string_scope.", ""]
        for tag, dyn in measured.items():
            v.append(f"Definition dyn_{tag} : list string := [" + "; ".join(f'"{n}"' for n in dyn) + "].")
            v.append(f"Lemma safe_{tag} : safe (static_except dyn_{tag}) defs = true.\nProof. vm_compute. reflexivity. Qed.")
            v.append(f"Theorem startup_{tag} : forall x b, In (x, b) defs -> startup (static_except dyn_{tag}) defs den x = den x.\nProof. exact (units_startup_sound _ safe_{tag}). Qed.\n")
        v.append("Definition all_dynamic_is_safe : bool := safe (fun _ => false) defs.\nEval vm_compute in all_dynamic_is_safe.")
        vf = os.path.join(COQ, "cases_C20_cfg.v")
        open(vf, "w").write("\n".join(v) + "\n")
        r = _sh(["timeout", "300", "coqc", "-w", "-all", "-Q", ".", "LP", "cases_C20_cfg.v"], cwd=COQ)
        for ext in (".vo", ".vok", ".vos", ".glob"):
            try: os.remove(os.path.join(COQ, "cases_C20_cfg" + ext))
            except OSError: pass
        try: os.remove(os.path.join(COQ, ".cases_C20_cfg.aux"))
        except OSError: pass
        if r.returncode != 0:
            m = re.search(r'File "\./cases_C20_cfg\.v", line (\d+)', r.stdout); lemma = "?"
            if m:
                src = open(vf).read().split("\n")
                for k in range(min(int(m.group(1)), len(src)) - 1, -1, -1):
                    mm = re.match(r"(Lemma|Theorem)\s+(\w+)", src[k])
                    if mm: lemma = mm.group(2); break
            out["safe_by_vm_compute"] = {"ok": False, "log": r.stdout[-600:]}
            if lemma.startswith("safe_"):
                tagf = lemma[len("safe_"):]
                why = units2v.safe_py(defs, set(measured.get(tagf, []))) or "see log"
                if not any((":" + tagf) in vv["sig"] for vv in out["violations"]):
                    out["violations"].append({"sig": f"units:unsafe-order:{tagf}", "msg": f"Coq: {lemma} (safe defs cls_measured = true) no longer holds for the measured classification: {why}",
                                              "case": f"units {tagf}", "impl": "dynamic: " + " ".join(measured.get(tagf, [])), "model": ""})
            elif "inconsistent assumptions" in r.stdout or "Cannot find" in r.stdout or "Compiled library" in r.stdout:
                # the development itself did not build (reported by the proof-status stage); nothing to conclude here
                out["safe_by_vm_compute"]["skipped"] = "the proofs this file imports are not built against the regenerated definitions (see the broken theorem)"
            else:
                out["broken"].append({"kind": "extra", "what": "cases_C20_cfg.v (measured classification fed to the start-up theorem) does not compile", "log": r.stdout[-800:]})
        else:
            m = re.search(r"=\s*(true|false)", r.stdout)
            out["safe_by_vm_compute"] = {"ok": True, "configurations": sorted(measured), "checker_cmd": "cd coq && coqc -w -all -Q . LP cases_C20_cfg.v",
                                         "all_dynamic_classification_would_be_safe": (m.group(1) == "true") if m else None}
    elif measured:
        out["safe_by_vm_compute"] = {"ok": False, "log": "C20_Proofs_Units.vo is not built (see the broken theorem); Coq check of the measured classification skipped"}
    # very long header lines (the former ignore(10000,'\n') limit): implementation-side predicates only (the line/token model has no
    # character count)
    try:
        import vcheck
        probes = []
        for n in (9999, 10000, 10001, 25000):
            h = "#" + "x" * (n - 1)
            probes.append(Case(f"rt_list {os.path.join(FILES, 'long.txt')} {hexs(h)} {flist([1.5, 2.5, 3.5])} {hx(1.0)}", ("long-header",)))
            probes.append(Case(f"rt_table {os.path.join(FILES, 'long.txt')} {hexs(h + chr(10) + '# second line')} {table_line([[1.5, 2.5], [3.5, 4.5]])} {flist([2.0, 4.0])} -1", ("long-header",)))
        res = [vcheck.canon_impl(l) for l in vcheck.run_exe(ctx["exe"], [c.line for c in probes], work, "impl_longheader")]
        nbad = 0
        for c, io in zip(probes, res):
            for sig, msg in predicates(c, io):
                nbad += 1
                out["violations"].append({"sig": sig, "msg": msg + " [header line of %d characters]" % max(len(l) for l in unhexs(c.line.split()[2]).split("\n")), "case": c.line, "impl": io[:200], "model": ""})
        out["long_header_probes"] = {"cases": len(probes), "header_line_lengths": [9999, 10000, 10001, 25000], "failing": nbad}
    except Exception as e:
        out["long_header_probes"] = {"error": repr(e)[:300]}
    # did the files aimed at a byte size get that size?  (coverage of the size-aimed stream, not a clause of the property)
    hit = miss = 0; seen_sizes = set()
    for pth, T in SIZED.items():
        try: sz = os.stat(pth).st_size
        except OSError: continue
        if sz in T: hit += 1; seen_sizes.add(sz)       # (paths are reused: any of the sizes aimed at for this path)
        else: miss += 1
    out["size_aimed_files"] = {"files_examined": hit + miss, "of_the_size_aimed_at": hit, "block_sizes": BLOCKS,
                               "exact_multiples_reached": sorted(T for T in seen_sizes if T % BLOCKS[0] == 0)[:60]}
    out["unit_configurations"] = cfg
    out["unit_constants"] = len(names)
    return out
