"""C14 — Monte-Carlo integrators (Integration.cpp section 2.2) under the seed hook."""
import math
from vcheck import Case, hx, tokf, parse_vals

PID = "C14"
MODEL_DEPS = ["C13_Model.v"]
RULE = ("non-trivial = a call on an anisotropic offset region (widths differing by > 10x or a lower corner away from the origin) in >= 2 dimensions, "
        "or an observed call preceded by >= 2 calls of different dimension, or by a history that contains an integration brought to an end by its integrand, "
        "or an observed call made at least twice from inside the integrand of an integration under way (through Integrate_MC or the 2-D/3-D front ends), or an observed call preceded by uses of the sampling facility "
        "(Sample_Uniform with limits of the caller's) the integrators draw from; distinct by case text")
LEVEL_TEXT = ("Theorems (Coq, all inputs, over the reals, for every uniform stream with values in [0,1)): Random_Point stays in the hyper-rectangle; plain Monte Carlo and Miser "
              "evaluate the integrand only at points of the region (Miser's sub-regions are nested) and integrate a constant c to exactly V*c; the result of every integrator is a "
              "function of (arguments, stream) only: Miser's counter iran starts at 0 in every top-level call and plain MC has no state, and with init = 0 (the only value Integrate_MC "
              "passes) Vegas overwrites every static it later reads — in particular the grid after the first Rebin is the uniform grid i/nd whatever the previous grid was — so its result "
              "is independent of the incoming static state; Vegas maps u in (0,1) on any increasing grid in [0,1] to a point inside the region (C14_vegas_point_inside), and the grid "
              "stays such a grid for ever: Rebin with ANY positive weights r[0..nd) and rc = their mean comes to an end, reads r and the grid row only inside the nd entries in use "
              "and returns an increasing row in [0,1] ending in 1 (C14_vegas_rebin_keeps_grid, by induction over the bins with the invariant dr = r[0]+..+r[k-1] - i*rc), the refinement "
              "step of an iteration never fails and maps grids to grids whatever was accumulated (C14_vegas_refine_keeps_grid), hence over any number of iterations two integrands that "
              "agree on the region give the same value, statics and stream position (C14_vegas_iterations_points_inside, invariant vlive_ok over the cells, the odometer kg and the "
              "refinements), and the whole call Integrate_MC(..., \"Vegas\") from whatever statics, in 1..10 dimensions with budgets >= 2, looks at the integrand only inside the region "
              "(C14_vegas_points_inside: the initialisation with init = 0 establishes the invariant: uniform grid, nd in 2..50, ng >= 1); "
              "TERMINATION, MEMORY SAFETY, BUDGET (seventh pass, every integrand, no premise on it): Integrate_MC_Miser in >= 1 dimensions with any budget >= 0 and ANY stream has the outcome Ok "
              "(the recursion is at most ncall/15 + 2 deep, every level with >= 60 points hands 15 <= nptl, nptr <= npts - 30 points to its halves, the split dimension jb from the pre-sample or from "
              "iran in 0..174999 is a valid index) and leaves the generator at position ncall*dim, i.e. evaluates the integrand exactly ncall times (C14_miser_completes_and_spends_budget), so Miser's "
              "exactness on constants holds without the proviso 'whenever the fuel suffices' (C14_miser_constant_exact_total); plain Monte Carlo evaluates exactly ncall times (C14_plain_mc_spends_budget); "
              "Vegas' loop over the cells is an odometer that wraps around after exactly ng^ndim passes (C14_vegas_odometer), every accumulation into d stays inside the bins in use, and the whole call "
              "from any statics, 1..10 dimensions, budget >= 2, streams in (0,1), has the outcome Ok over the reals (C14_vegas_iterations_complete, C14_vegas_completes; that the NaN exit is not taken in doubles is tested, not proved); "
              "the 2-D/3-D front ends build the region {x1,y1,(z1),x2,y2,(z2)} and pass args[0],args[1],(args[2]). "
              "End to end through the front ends with the method Monte-Carlo, on top of this model's Integrate_MC started from any statics (C14_front_2d_plain_mc_points_inside, "
              "C14_front_3d_plain_mc_points_inside, C14_front_plain_mc_constant_exact): Integrate_2D / Integrate_3D look at the integrand only inside the rectangle spanned by the limits, in any "
              "order, and integrate a constant to (x2-x1)(y2-y1)(z2-z1) c for every stream and budget p >= 0; Miser and Vegas through the front ends are not restated end to end (region layout + "
              "the theorems on Integrate_MC). In the model a region and a sample point are values built afresh by each call, so nothing a call made from the integrand does can change them; that the "
              "implementation keeps no region or point buffer between calls is TESTED only (cases nestx: an integration made from the integrand of another one, before or after that integrand reads "
              "its own point, either call through Integrate_MC or through Integrate_2D/_3D, same front end inside itself, over different rectangles, every pair of methods but Vegas in Vegas; the outer "
              "call is judged by points-inside / budget / constants exact / six standard errors on value divided by the inner value, the inner call against its fresh-process value and its limits). "
              "NOT theorems: 'within six standard errors' (probabilistic); Vegas' exactness on constants (on the uniform grid of the first iteration every weight equals the Jacobian, "
              "later iterations run on a refined grid whose bins and strata do not coincide: exact to rounding only, see K-C14-1) — these are evaluated on the implementation with fixed "
              "seeds (S4); over the reals pow(x, 1.5) is exp(1.5 ln x) > 0, so the theorems on the refinement do not speak about weights that are 0 or NaN in doubles. The Gallina model (all three integrators in full, including Vegas' five iterations with "
              "grid refinement) is extracted and run on the stream the library draws under the seed hook: results, numbers of evaluations and evaluation points agree bit for bit, and call "
              "histories are replayed on both sides. Histories may contain integrations that their integrand brings to an end early (a C++ exception thrown from the n-th evaluation, caught by "
              "the caller): the model function integrate_mc_throwing gives the statics such a call leaves behind; theorems: every call of a history, ended early or not, leaves well-formed statics "
              "(C14_history_leaves_wf_statics), so the observed call after any history returns what it returns in a fresh process (C14_observed_call_forgets_history). On the implementation every "
              "observed call of a history case is run three times: in a process forked from an image that has never called the library (fresh statics), in the worker before the history and after it. "
              "In the model a region is a value: no call changes the vector of its caller. On the implementation the harness hands several calls of a case the very same std::vector object (a caller "
              "that builds its box once), compares that object with what the caller put into it at every evaluation of the integrand and after every call (run to its end or not), and runs the observed "
              "call from inside the integrand of an integration under way (on a box of its own or on the outer call's vector object), comparing each of its values with the fresh-process value. "
              "Cases cover descending limits on any subset of axes, boxes up to 1e9 widths away from the origin, limits that are nearly equal relative to their own size (an axis of admissible width "
              "1e5 .. 1e13 widths away from the origin: (upper - lower)/max(|lower|,|upper|) on a geometric ladder 1e-5 .. 1e-13, on one, several or all axes, for every method, through the 2-D/3-D "
              "front ends and in histories), every coincidence of a limit of one axis with a limit of another axis in the three front ends, "
              "and the default arguments of Integrate_MC, and the corners of the range of widths (every axis at 1e-3, every axis at 1e3, all but one, alternating: volumes 1e-18..1e18 in six dimensions). "
              "The integrators draw from Sample_Uniform of the Statistics facility; the model function sample_uniform mirrors it (theorems: it lies in [a,b) and is the draw itself for the limits 0, 1; "
              "draws leave no statics behind, so the observed call after any sequence of integrations and draws returns what it returns in a fresh process: C14_observed_call_forgets_events). "
              "Histories on the implementation therefore also contain uses of that facility by the caller, with limits of its own (sharing one limit with the preceding draw or with (0,1), isotropic "
              "directions, Sample_Gauss, Rejection_Sampling), the integrand of an integration under way may draw as well, and the observed call after a history is judged by every clause of a single call "
              "(points inside, constants exact, six standard errors for budgets >= 1000), not only compared with the fresh-process value.")
LEVEL_NOTE = ("Coq 8.16.1 kernel; theorems over R use the standard library's real-number axioms (listed in the evidence); std::mt19937 + uniform_real_distribution are modelled as an abstract "
              "stream us : Z -> R with 0 <= us k < 1 (the OCaml driver reimplements MT19937/generate_canonical and is compared with the library's generator on every run); Vegas' work arrays "
              "that are written before being read (d, kg, ia, x, dt, r, xin) are created afresh in the model at the size in use, a read outside that part being the outcome OOB (this is also what the "
              "model of a call brought to an end by its integrand relies on: of the iteration under way only such statics have been touched; histories with such calls test it); di (print-only) "
              "and Miser's var (does not influence the result) are not modelled; an integration started from the integrand of a Vegas integration under way is itself never Vegas (Vegas keeps its loop "
              "counters in function-local statics 'allowing restarts': the outer call would never come to an end; the property's histories are sequences of calls); hook: verif::mc_seed (LIBPHYSICA_VERIF)")
TOL = (1e-11, 1e-300)
TRUSTED = ["std::mt19937 / std::uniform_real_distribution<double>(0,1) (libstdc++ generate_canonical): modelled as an abstract stream; reimplemented in ocaml/C14_driver.ml and compared with the library's draws (op stream)",
           "std::uniform_real_distribution<double>(a,b)(gen) = generate_canonical * (b - a) + a (libstdc++), the model's sample_uniform; compared with Sample_Uniform(gen, a, b) on every run (op draws)",
           "the seed hook libphysica::verif::mc_seed_set / mc_seed in Integration.cpp (compiled with -DLIBPHYSICA_VERIF)",
           "harness/C14.cpp runs every case in a process forked from an image that has not yet called the library (function-local statics as in a fresh process), and the "
           "fresh-process value of a history case in a further one; an integration is brought to an end by a C++ exception thrown from the harness' integrand and caught by the harness",
           "harness/C14.cpp keeps the region vector objects of a case (call suffix @k) and compares them bit for bit with the limits written in the case"]
ASSUMPTIONS = ["'other integrations run before it' is read as 'whatever the process did before it': the histories also contain calls of the public sampling functions of Statistics.hpp on which the "
               "integrators are built (Sample_Uniform with the caller's limits, Sample_Gauss, Rejection_Sampling); the values of the last two are not compared (subject of C18)",
               "Sample_Uniform(gen, a, b) is judged against [a, b] closed: libstdc++ computes u * (b - a) + a, whose rounding may reach b",
               "the six-standard-error clause is decided on the implementation with fixed seeds against closed-form integrals, using the analytic standard error of plain Monte Carlo with the same budget, V*sqrt(Var f/ncall), as the yardstick for all three methods (Vegas and Miser are variance-reduction schemes)",
               "exactness on constants is decided on the implementation with slack 2*(ncall+100)*2^-53 relative (one rounding per accumulated term)",
               "'other integrations run before it' includes integrations that are under way when the observed call is made (the observed call is made from their integrand), except Vegas inside Vegas",
               "a region vector whose limits descend on some axes is a valid region (oriented integral: one factor -1 per such axis); no axis has zero width (widths 1e-3..1e3)",
               "the spherical front end is judged against closed-form integrals of r^2 (c0 + c1 z + c2 |v|^2 + c3 x^2) over boxes in (r, cos theta, phi), with slack 1e-14 on norm and z/norm of the vectors handed over",
               "a history may contain integrations that do not run to their end because their integrand throws (the property's 'integrations run before it' read as calls of Integrate_MC made before it); "
               "the model of such a call (integrate_mc_throwing) carries the statics of the iterations completed before the exception and is compared with the library through the calls that follow it"]

MC = ("Monte-Carlo", "Vegas", "Miser")


# ---------------------------------------------------------------- integrand families on normalised coordinates t_j = (v_j - lo_j)/w_j
def tcoord(j, lo, w): return f"/ - v {j} c {hx(lo)} c {hx(w)}"


class Fam:
    """product over the dimensions of a one-variable factor of the normalised coordinate; closed-form mean and second moment on [0,1]"""
    def __init__(self, kind, pars): self.kind = kind; self.pars = [tuple(float(x) for x in p) for p in pars]

    def factor_text(self, t, p):
        k = self.kind
        if k == "const": return f"c {hx(p[0])}"
        if k == "sepexp": return f"exp neg * c {hx(p[0])} {t}"
        if k == "gauss": return f"exp neg * c {hx(p[0])} * - {t} c {hx(p[1])} - {t} c {hx(p[1])}"
        if k == "poly": return f"+ c {hx(p[0])} * {t} + c {hx(p[1])} * c {hx(p[2])} {t}"
        if k == "corner": return f"step - {t} c {hx(p[0])}"
        raise ValueError(k)

    def moments(self, p):
        k = self.kind
        if k == "const": return p[0], p[0] * p[0]
        if k == "sepexp": a = p[0]; return (1 - math.exp(-a)) / a, (1 - math.exp(-2 * a)) / (2 * a)
        if k == "gauss":
            def m(kk): s = math.sqrt(kk); return math.sqrt(math.pi) / (2 * s) * (math.erf(s * (1 - p[1])) + math.erf(s * p[1]))
            return m(p[0]), m(2 * p[0])
        if k == "poly":
            c0, c1, c2 = p
            return c0 + c1 / 2 + c2 / 3, c0 * c0 + c0 * c1 + (c1 * c1 + 2 * c0 * c2) / 3 + c1 * c2 / 2 + c2 * c2 / 5
        if k == "corner": return 1 - p[0], 1 - p[0]

    def text(self, region):
        d = len(region) // 2
        if self.kind == "const": return self.factor_text("", self.pars[0])
        ts = [self.factor_text(tcoord(j, region[j], region[j + d] - region[j]), self.pars[j]) for j in range(d)]
        t = ts[-1]
        for s in reversed(ts[:-1]): t = f"* {s} {t}"
        return t

    def exact_sigma(self, region, ncall):
        """exact integral and the standard error of plain Monte Carlo with ncall points"""
        d = len(region) // 2
        V = 1.0
        for j in range(d): V *= region[j + d] - region[j]
        if self.kind == "const": return V * self.pars[0][0], 0.0
        m1 = m2 = 1.0
        for j in range(d):
            a, b = self.moments(self.pars[j]); m1 *= a; m2 *= b
        var = max(m2 - m1 * m1, 0.0)
        return V * m1, abs(V) * math.sqrt(var / max(ncall, 1))

    def ann(self): return self.kind + " " + " ".join(str(len(p)) + " " + " ".join(hx(x) for x in p) for p in self.pars)


def parse_fam(tokens):
    kind = tokens[0]; pars = []; k = 1
    while k < len(tokens):
        n = int(tokens[k]); pars.append([float.fromhex(x) for x in tokens[k + 1:k + 1 + n]]); k += 1 + n
    return Fam(kind, pars)


def rand_fam(rng, d, kind=None):
    kind = kind or rng.choice(["const", "sepexp", "gauss", "poly"])
    if kind == "const": return Fam("const", [(rng.choice([1.0, -2.5, 3.0, 0.1, rng.uniform(-5, 5)]),)])
    if kind == "sepexp": return Fam(kind, [(rng.uniform(0.5, 3.0),) for _ in range(d)])
    if kind == "gauss": return Fam(kind, [(rng.uniform(1.0, 8.0), rng.choice([rng.uniform(0.15, 0.4), rng.uniform(0.6, 0.85)])) for _ in range(d)])
    if kind == "poly": return Fam(kind, [(rng.uniform(0.2, 2), rng.uniform(0, 2), rng.uniform(0, 3)) for _ in range(d)])
    if kind == "corner": return Fam(kind, [(rng.choice([0.9, 0.8, 0.95]),) for _ in range(d)])


WIDTH_CORNERS = ("small", "large", "small-but-one", "large-but-one", "alternating")


def corner_widths(rng, d, corner):
    """widths of all axes taken from the ends of the quantified range 1e-3..1e3 (the volume is then 1e-18..1e18 in six dimensions, where
    log-uniform widths give 1e-4..1e4 almost always): all at the small end, all at the large end, all but one, alternating ends"""
    small = lambda: rng.choice([1e-3, 1e-3 * rng.uniform(1, 3)])
    large = lambda: rng.choice([1e3, 1e3 / rng.uniform(1, 3)])
    if corner == "small": w = [small() for _ in range(d)]
    elif corner == "large": w = [large() for _ in range(d)]
    elif corner == "small-but-one": w = [small() for _ in range(d)]; w[rng.randrange(d)] = 10 ** rng.uniform(-3, 0)
    elif corner == "large-but-one": w = [large() for _ in range(d)]; w[rng.randrange(d)] = 10 ** rng.uniform(0, 3)
    else:
        k = rng.randrange(2); w = [small() if (j + k) % 2 else large() for j in range(d)]
    return w


REL_LADDER = tuple(10.0 ** -k for k in range(5, 14))


def near_limits(rng, w, rel):
    """limits (a, b) of an axis of width about w (1e-3..1e3) whose two limits are nearly equal RELATIVE to their own size: (b - a) / max(|a|, |b|) is about
    rel (a rung of REL_LADDER, 1e-5 .. 1e-13), i.e. the axis lies w / rel away from the origin (up to 1e16; the property bounds the widths, not the offset).
    Both limits are doubles, at least some 400 doubles lie between them, the width b - a is exact; the offset is a power of two, a round decimal or arbitrary"""
    off = w / rel
    kind = rng.choice(["pow2", "dec", "any", "any"])
    if kind == "pow2": off = 2.0 ** round(math.log2(off))
    elif kind == "dec": off = float(10 ** round(math.log10(off)))
    else: off *= rng.uniform(0.7, 1.4)
    a = rng.choice([-1.0, 1.0]) * off
    b = a + w
    if b == a or not (0.5 * w <= abs(b - a) <= 2 * w): a = math.copysign(w / rel, a); b = a + w
    return a, b


def rand_region(rng, d, plain=False, rev=0.0, far=0.0, corner=None, near=None):
    """{first limits..., second limits...}: widths 1e-3..1e3 (log-uniform; corner: all from the ends of that range, see corner_widths), offset;
    rev = probability of an axis with descending limits (the integral then changes sign with every such axis); far = probability of an axis that
    lies 1e3..1e9 widths away from the origin (at most 1e6); near = (rel, axes): the limits of these axes are nearly equal relative to their size
    (see near_limits), the others as usual"""
    lo, hi = [], []
    cw = corner_widths(rng, d, corner) if corner else None
    for j in range(d):
        if plain: a, w = 0.0, 1.0
        else:
            w = cw[j] if cw else 10 ** rng.uniform(-3, 3)
            a = rng.choice([0.0, 1.0, -1.0, rng.uniform(-10, 10), rng.uniform(-1e3, 1e3), -w / 2])
            if far and rng.random() < far: a = rng.choice([-1.0, 1.0]) * min(w * 10 ** rng.uniform(3, 9), 1e6)
        b = a + w
        if near and j in near[1] and not plain: a, b = near_limits(rng, w, near[0])
        if rev and not plain and rng.random() < rev: a, b = b, a
        lo.append(a); hi.append(b)
    return lo + hi


def reverse_axes(region, axes):
    r = list(region); d = len(r) // 2
    for j in axes: r[j], r[j + d] = r[j + d], r[j]
    return r


def call_text(method, seed, ncall, region, fam, throw_at=0, obj=-1):
    d = len(region) // 2
    return f"{method}{'!' + str(throw_at) if throw_at else ''}{'@' + str(obj) if obj >= 0 else ''} {seed} {ncall} {d} " + " ".join(hx(x) for x in region) + " " + fam.text(region)


# ---------------------------------------------------------------- the spherical front end  Integrate_3D(f(Vector), r1, r2, costheta_1, costheta_2, phi_1, phi_2, ...)
class SphFam:
    """F(x,y,z) = c0 + c1 z + c2 (x^2+y^2+z^2) + c3 x^2 of the Vector the front end hands over.  In (r, c = cos theta, phi) what is integrated over the
    box is r^2 F = c0 r^2 + c1 r^3 c + c2 r^4 + c3 r^4 (1 - c^2) cos^2 phi: monomials coef * r^a * c^b * cos^(2e) phi, whose means over a box are closed forms
    (a term in z tells cos theta from phi and from r, the term in x^2 tells phi)"""
    kind = "sph"

    def __init__(self, co): self.co = [float(x) for x in co]

    def text(self, region=None):
        c0, c1, c2, c3 = self.co
        return f"+ c {hx(c0)} + * c {hx(c1)} z + * c {hx(c2)} + * x x + * y y * z z * c {hx(c3)} * x x"

    def monos(self):
        c0, c1, c2, c3 = self.co
        return [(c0, 2, 0, 0), (c1, 3, 1, 0), (c2, 4, 0, 0), (c3, 4, 0, 1), (-c3, 4, 2, 1)]

    @staticmethod
    def mean_pow(a, u1, u2): return (u2 ** (a + 1) - u1 ** (a + 1)) / ((a + 1) * (u2 - u1))

    @staticmethod
    def mean_cos(e, f1, f2):
        if e == 0: return 1.0
        if e == 1: P = lambda f: f / 2 + math.sin(2 * f) / 4
        elif e == 2: P = lambda f: 3 * f / 8 + math.sin(2 * f) / 4 + math.sin(4 * f) / 32
        else: raise ValueError(e)
        return (P(f2) - P(f1)) / (f2 - f1)

    def exact_sigma(self, region, ncall):
        r1, c1, f1, r2, c2, f2 = region
        V = (r2 - r1) * (c2 - c1) * (f2 - f1)
        mean = lambda a, b, e: self.mean_pow(a, r1, r2) * self.mean_pow(b, c1, c2) * self.mean_cos(e, f1, f2)
        ms = self.monos()
        m1 = math.fsum(k * mean(a, b, e) for (k, a, b, e) in ms)
        m2 = math.fsum(k * k2 * mean(a + a2, b + b2, e + e2) for (k, a, b, e) in ms for (k2, a2, b2, e2) in ms)
        return V * m1, abs(V) * math.sqrt(max(m2 - m1 * m1, 0.0) / max(ncall, 1))

    def ann(self): return "sph " + " ".join(hx(x) for x in self.co)


DOM3S = [(0.0, 3.0), (-1.0, 1.0), (0.0, 2 * math.pi)]      # r, cos theta, phi


def rand_pair(rng, dom=None, v=None, which=0):
    """one pair of limits in the order in which they are passed; v: the value of limit number `which` (0 = first, 1 = second) of the pair;
    dom: the interval both limits have to lie in.  Descending with probability about 1/4, never of zero width"""
    for _ in range(200):
        if dom:
            v0 = rng.uniform(*dom) if v is None else v
            other = rng.uniform(*dom)
            if abs(other - v0) < 0.15 * (dom[1] - dom[0]): continue
            if v is None:
                a, b = min(v0, other), max(v0, other)
                return (b, a) if rng.random() < 0.25 else (a, b)
        else:
            w = rng.uniform(0.3, 1.5) * rng.choice([1, 1, 0.1, 3, 10])
            v0 = rng.uniform(-5, 5) if v is None else v
            other = v0 + w * (1 if which == 0 else -1) * (-1 if rng.random() < 0.25 else 1)
        return (v0, other) if which == 0 else (other, v0)
    raise ValueError("no admissible pair of limits")


def coinciding_limits(rng, d, A, i, B, j, dom=None):
    """limit pairs of d axes in which limit i (0 = first, 1 = second) of axis A is the same number as limit j of axis B; no axis of zero width"""
    v = rng.choice([0.0, 0.25, 0.5, 1.0, rng.uniform(0, 1)]) if dom else rng.choice([0.0, 1.0, -1.0, 0.5, 2.0, rng.uniform(-10, 10)])
    return [rand_pair(rng, dom[k] if dom else None, v if k in (A, B) else None, (i if k == A else j) if k in (A, B) else 0) for k in range(d)]


def front_case(rng, op, method, lims, p, tags=()):
    d = len(lims)
    region = [a for a, b in lims] + [b for a, b in lims]
    if op == "front3s":
        fam = SphFam([rng.uniform(0.5, 2), rng.uniform(-2, 2), rng.uniform(0, 1.5), rng.uniform(0, 2)]); txt = fam.text()
    else:
        fam = rand_fam(rng, d, rng.choice(["sepexp", "gauss", "poly"]) if rng.random() < 0.85 else "const")
        txt = fam.text(region).replace("v 0", "x").replace("v 1", "y").replace("v 2", "z")
    ls = " ".join(f"{hx(a)} {hx(b)}" for a, b in lims)
    return Case(f"{op} {method} {rng.randrange(2 ** 32)} {p} {ls} {txt} # {fam.ann()}", (op, method) + tuple(tags))



# ---------------------------------------------------------------- uses of the sampling facility (Statistics) the integrators draw from
def rand_ranges(rng, k, region=None):
    """limits (a, b), a < b, of k successive draws Sample_Uniform(gen, a, b): the default limits (0, 1) of the integrators; limits that share
    one end with those of the draw before (or with (0, 1)) and differ in the other, at distances from 1e-16 relative to 1e3; the two draws of an
    isotropic direction, (0, 2 pi) and (-1, 1); symmetric and offset intervals of widths 1e-3..1e3; the limits of an axis of the region"""
    out = []; prev = (0.0, 1.0)
    while len(out) < k:
        kind = rng.choice(["default", "share-upper", "share-upper", "share-lower", "share-lower", "isotropic", "symmetric", "offset", "axis", "same"])
        base = prev if rng.random() < 0.5 else (0.0, 1.0)
        step = lambda x: max(abs(x), 1.0) * 10 ** rng.uniform(-16, 3)
        new = []
        if kind == "default": new = [(0.0, 1.0)]
        elif kind == "same": new = [prev]
        elif kind == "share-upper":
            a = rng.choice([-base[1], base[1] - step(base[1]), base[0] - step(base[0]), -1.0, 0.0, 0.5 * (base[0] + base[1])])
            new = [(a, base[1])]
        elif kind == "share-lower":
            b = rng.choice([base[0] + step(base[0]), base[1] + step(base[1]), 1.0, 2 * math.pi, 0.5 * (base[0] + base[1])])
            new = [(base[0], b)]
        elif kind == "isotropic": new = [(0.0, 2 * math.pi), (-1.0, 1.0)][::rng.choice([1, 1, -1])]
        elif kind == "symmetric": w = 10 ** rng.uniform(-3, 3); new = [(-w, w)]
        elif kind == "offset": w = 10 ** rng.uniform(-3, 3); a = rng.choice([1.0, -1.0, rng.uniform(-10, 10), rng.uniform(-1e3, 1e3)]); new = [(a, a + w)]
        elif kind == "axis" and region:
            d = len(region) // 2; j = rng.randrange(d); new = [(min(region[j], region[j + d]), max(region[j], region[j + d]))]
        for a, b in new:
            if a < b and math.isfinite(b - a) and len(out) < k: out.append((a, b)); prev = (a, b)
    return out


def draws_text(rng, region=None, kind=None):
    """an element of a history that is not an integration: su (Sample_Uniform with limits), sg (Sample_Gauss), rs (Rejection_Sampling)"""
    kind = kind or rng.choice(["su", "su", "su", "su", "sg", "rs"])
    seed = rng.randrange(2 ** 32)
    if kind == "su":
        k = rng.randint(1, 6); rs = rand_ranges(rng, k, region)
        return f"su {seed} {k} " + " ".join(f"{hx(a)} {hx(b)}" for a, b in rs)
    if kind == "sg": return f"sg {seed} {rng.randint(1, 4)} {hx(rng.uniform(-3, 3))} {hx(10 ** rng.uniform(-2, 2))}"
    (a, b), = rand_ranges(rng, 1, region)
    return f"rs {seed} {rng.randint(1, 3)} {hx(a)} {hx(b)}"


def obs_ann(method, ncall, region, fam):
    """what the predicates need to know of the observed call of a history"""
    return f" # obs {method} {ncall} {len(region) // 2} " + " ".join(hx(x) for x in region) + " ; " + fam.ann()


# ---------------------------------------------------------------- call budgets
def vegas_layout(ncall, d):
    """(ng, npg, nd, evaluations per iteration) of Integrate_MC_Vegas for this budget and dimension (Integration.cpp, the init <= 2 block)"""
    ng = int((ncall / 2.0 + 0.25) ** (1.0 / d)); nd = 50
    if 2 * ng - 50 >= 0:
        npg = ng // 50 + 1; nd = ng // npg; ng = npg * nd
    k = ng ** d
    npg = max(ncall // k, 2)
    return ng, npg, nd, npg * k


def structured_budget(rng, lo, hi, d=None):
    """a call budget in [lo, hi] with arithmetic structure: powers of two and their neighbours, multiples of round binary and decimal
    block sizes, powers of ten and their neighbours, the budgets 2 m^d at which Vegas' number of strata ng = int(pow(ncall/2 + 0.25, 1/d))
    steps, or log-uniform"""
    for _ in range(50):
        kind = rng.choice(["pow2", "pow2", "pow2pm", "mult", "mult", "mult", "dec", "strata", "log"])
        if kind == "pow2": n = 2 ** rng.randint(10, 20)
        elif kind == "pow2pm": n = 2 ** rng.randint(10, 20) + rng.choice([-1, 1])
        elif kind == "mult":
            b = rng.choice([1000, 1024, 2048, 4096, 8192, 8192, 10000, 16384, 32768, 65536, 100000])
            n = b * rng.randint(1, max(1, hi // b)) + rng.choice([0, 0, 0, 0, -1, 1])
        elif kind == "dec": n = 10 ** rng.randint(3, 6) + rng.choice([0, 0, -1, 1])
        elif kind == "strata":
            dd = d or rng.randint(1, 6)
            m = max(2, int((rng.uniform(lo, hi) / 2.0) ** (1.0 / dd)))
            n = 2 * m ** dd + rng.choice([-1, 0, 0, 1])
        else: n = int(10 ** rng.uniform(math.log10(lo), math.log10(hi)))
        if lo <= n <= hi: return n
    return lo


def throw_positions(rng, method, ncall, d):
    """evaluation numbers at which an integrand may give up: the first, within the first cell / the first points, in the middle of a sweep,
    the last evaluation of an iteration and the first of the next, the very last evaluation, and one beyond it (the call then runs to its end)"""
    if method == "Vegas":
        ng, npg, nd, per = vegas_layout(ncall, d)
        total = 5 * per
        pos = [1, 2, npg, npg + 1, rng.randint(1, per), rng.randint(1, per), per, per + 1, rng.randint(per + 1, total), rng.randint(per + 1, total),
               2 * per + npg * rng.randint(0, max(0, per // npg - 1)) + 1, total - 1, total, total + 1]
    else:
        total = ncall
        pos = [1, 2, 15, 16, rng.randint(1, total), rng.randint(1, total), rng.randint(1, total), total // 10, total // 10 + 1, total - 1, total, total + 1]
    return [n for n in pos if n >= 1]

# ---------------------------------------------------------------- generator
def generate(rng, tier):
    cs = []
    big = tier != "quick"
    # the generator itself
    for seed in [0, 1, 5489, 4294967295, rng.randrange(2 ** 32), rng.randrange(2 ** 32)]:
        cs.append(Case(f"stream {seed} {rng.choice([10, 700, 1300])}", ("stream",)))
    budgets = [1000, 1000, 1500, 2000, 3000, 5000] if not big else [1000, 2000, 5000, 10000, 20000, 50000]
    # every method x dimension 1..6 x family, on offset anisotropic regions
    for rep in range(4 if big else 2):
        for method in MC:
            for d in range(1, 7):
                for kind in ("const", "sepexp", "gauss", "poly"):
                    region = rand_region(rng, d, plain=(rng.random() < 0.1), rev=0.15, far=0.1)
                    fam = rand_fam(rng, d, kind)
                    ncall = rng.choice(budgets)
                    if rng.random() < 0.1: ncall = rng.choice([60, 59, 75, 100, 150, 600])      # Miser: around MNBS and the first split
                    seed = rng.randrange(2 ** 32)
                    cs.append(Case("mc " + call_text(method, seed, ncall, region, fam) + " # " + fam.ann(), ("mc", method, f"dim{d}", kind)))
    # the corners of the range of widths: every axis at the small end (1e-3), every axis at the large end (1e3), all but one, alternating; in six
    # dimensions the volume is 1e-18 .. 1e18 (constants exact relative to volume * constant, smooth integrands within six standard errors)
    for rep in range(3 if big else 1):
        for method in MC:
            for d in range(1, 7):
                for corner in WIDTH_CORNERS:
                    if d == 1 and corner not in ("small", "large"): continue
                    for kind in ("const", rng.choice(["sepexp", "gauss", "poly"])):
                        region = rand_region(rng, d, rev=0.1, corner=corner); fam = rand_fam(rng, d, kind)
                        cs.append(Case("mc " + call_text(method, rng.randrange(2 ** 32), rng.choice(budgets[:4]), region, fam) + " # " + fam.ann(),
                                       ("mc", method, f"dim{d}", kind, "width-corner", "width-corner-" + corner)))
    # the sampling facility the integrators draw from (Sample_Uniform of Statistics), used with limits of its own: successive draws from one generator
    for _ in range(200 if big else 40):
        k = rng.randint(2, 8); rs = rand_ranges(rng, k, rand_region(rng, 2))
        cs.append(Case(f"draws {rng.randrange(2 ** 32)} {k} " + " ".join(f"{hx(a)} {hx(b)}" for a, b in rs), ("draws",)))
    # ... and by the integrand of an integration under way, at every evaluation (an integrand that samples)
    for rep in range(4 if big else 1):
        for method in MC:
            for d in (1, 2, 3, 5):
                region = rand_region(rng, d, rev=0.15); fam = rand_fam(rng, d, rng.choice(["const", "sepexp", "gauss", "poly"]))
                k = rng.randint(1, 3); rs = rand_ranges(rng, k, region)
                cs.append(Case(f"mcd {k} " + " ".join(f"{hx(a)} {hx(b)}" for a, b in rs) + " " + call_text(method, rng.randrange(2 ** 32), rng.choice([1000, 1500, 2000]), region, fam)
                               + " # " + fam.ann(), ("mc", method, f"dim{d}", fam.kind, "integrand-draws")))
    # descending limits on 1, 2, ..., all axes (the integral changes sign with every such axis; the sample points stay between the limits),
    # constants and smooth integrands
    for rep in range(3 if big else 1):
        for method in MC:
            for d in range(1, 7):
                for nrev in sorted({1, 2, d, rng.randint(1, d)}):
                    if nrev > d: continue
                    kind = rng.choice(["const", "const", "sepexp", "gauss", "poly"])
                    region = reverse_axes(rand_region(rng, d, far=0.1), rng.sample(range(d), nrev))
                    fam = rand_fam(rng, d, kind)
                    cs.append(Case("mc " + call_text(method, rng.randrange(2 ** 32), rng.choice(budgets[:4]), region, fam) + " # " + fam.ann(),
                                   ("mc", method, f"dim{d}", kind, f"reversed-axes-{nrev}")))
    # boxes far from the origin: |corner| = 1e3 .. 1e9 widths (the coordinates of the points have few significant digits across the box)
    for rep in range(3 if big else 1):
        for method in MC:
            for d in (1, 2, 3, 6):
                for kind in ("const", rng.choice(["sepexp", "gauss", "poly"])):
                    region = rand_region(rng, d, rev=0.15, far=1.0); fam = rand_fam(rng, d, kind)
                    cs.append(Case("mc " + call_text(method, rng.randrange(2 ** 32), rng.choice(budgets[:4]), region, fam) + " # " + fam.ann(),
                                   ("mc", method, f"dim{d}", kind, "far-offset")))
    # limits that are nearly equal relative to their own size: an axis of an admissible width (1e-3..1e3) lying 1e5 .. 1e13 widths away from the origin, so that
    # (upper - lower) / max(|lower|, |upper|) descends a geometric ladder 1e-5 .. 1e-13 (a comparison of the limits with a relative tolerance, or arithmetic on the
    # limits that cancels, shows only there; the far-offset cases above stop at 1e-9): on one axis, on several, on all; every method, every rung
    for rep in range(3 if big else 1):
        for method in MC:
            for rel in REL_LADDER:
                for kind in ("const", rng.choice(["sepexp", "gauss", "poly"])):
                    d = rng.randint(1, 6)
                    axes = rng.choice([[rng.randrange(d)], [rng.randrange(d)], rng.sample(range(d), rng.randint(1, d)), list(range(d))])
                    region = rand_region(rng, d, rev=0.15, near=(rel, axes)); fam = rand_fam(rng, d, kind)
                    cs.append(Case("mc " + call_text(method, rng.randrange(2 ** 32), rng.choice(budgets[:4]), region, fam) + " # " + fam.ann(),
                                   ("mc", method, f"dim{d}", kind, "near-equal-limits", f"near-equal-limits-{rel:.0e}")))
    # arguments left to their defaults: Integrate_MC(f, region, ncalls) (method = "Vegas"), Integrate_MC(f, region) (ncalls = 10000)
    for m, n in (("dflt", 0), ("dflt", 0), ("dflt", 0), ("dflt2", 10000), ("dflt2", 10000)) + ((("dflt", 0), ("dflt2", 10000)) * 4 if big else ()):
        d = rng.randint(1, 4) if m == "dflt" else rng.randint(1, 3)
        region = rand_region(rng, d, rev=0.15); fam = rand_fam(rng, d, rng.choice(["const", "sepexp", "gauss", "poly"]))
        cs.append(Case("mc " + call_text(m, rng.randrange(2 ** 32), n or rng.choice(budgets[:5]), region, fam) + " # " + fam.ann(), ("mc", "Vegas", "default-arguments")))
    # Miser on integrands with flat parts (no dimension qualifies: the split dimension comes from iran)
    for _ in range(40 if big else 12):
        d = rng.choice([2, 3, 3, 4])
        region = rand_region(rng, d, plain=(rng.random() < 0.5)); fam = rand_fam(rng, d, "corner")
        cs.append(Case("mc " + call_text("Miser", rng.randrange(2 ** 32), rng.choice([1000, 2000, 4000]), region, fam) + " # " + fam.ann(), ("mc", "Miser", "flat")))
    # Vegas on integrands supported in a small corner (most or all samples vanish): finite result, no exit
    for _ in range(40 if big else 10):
        d = rng.choice([2, 3, 4, 6])
        region = rand_region(rng, d, plain=(rng.random() < 0.5)); fam = rand_fam(rng, d, "corner")
        cs.append(Case("mc " + call_text("Vegas", rng.randrange(2 ** 32), rng.choice([1000, 2000, 4000]), region, fam) + " # " + fam.ann(), ("mc", "Vegas", "flat")))
    # large budgets
    for ncall in ([100000, 1000000] if big else [30000]):
        for method in MC:
            d = rng.choice([2, 3, 5])
            region = rand_region(rng, d); fam = rand_fam(rng, d, rng.choice(["const", "gauss"]))
            cs.append(Case("mc " + call_text(method, rng.randrange(2 ** 32), ncall, region, fam) + " # " + fam.ann(), ("mc", method, "large")))
    # the zero function is a constant like any other: result 0, no exit (Vegas used to terminate at small budgets: fixed in 9c7f857)
    for method in MC:
        for d, ncall in ((3, 1000), (6, 1000), (2, 3000), (6, 2000), (1, 1000), (3, 40000 if not big else 1000000)):
            region = rand_region(rng, d, plain=(rng.random() < 0.5)); fam = Fam("const", [(0.0,)])
            cs.append(Case("mc " + call_text(method, rng.randrange(2 ** 32), ncall, region, fam) + " # " + fam.ann(), ("mc", method, "zero")))
    # unknown method names terminate
    for m in ("vegas", "MC", "Gauss-Legendre", "Foo"):
        region = rand_region(rng, 2); fam = rand_fam(rng, 2, "const")
        cs.append(Case("mc " + call_text(m, 1, 1000, region, fam) + " # " + fam.ann(), ("mc", "unknown-method")))
    # the whole range of call budgets, with arithmetic structure (block sizes, strata steps): every power of two, and a random selection
    caps = {"Monte-Carlo": (70000, 1000000), "Miser": (70000, 1000000), "Vegas": (17000, 200000)}
    for method in MC:
        cap = caps[method][1 if big else 0]
        ladder = [2 ** k for k in range(10, 21) if 2 ** k <= cap]
        for ncall in ladder:
            for kind in ("const", rng.choice(["sepexp", "gauss", "poly"])):
                if kind != "const" and ncall > 20000 and not big and (method == "Miser" or ncall > 40000): continue
                d = rng.choice([1, 2, 3]) if ncall > 5000 else rng.randint(1, 6)
                region = rand_region(rng, d); fam = rand_fam(rng, d, kind)
                cs.append(Case("mc " + call_text(method, rng.randrange(2 ** 32), ncall, region, fam) + " # " + fam.ann(), ("mc", method, "budget-pow2", kind)))
        for _ in range(24 if big else 8):
            d = rng.choice([1, 2, 3, 4, 6])
            ncall = structured_budget(rng, 1000, cap * 2 // 5 if big else cap // 2, d)
            if not big and ncall > 20000: d = rng.choice([1, 2])
            kind = rng.choice(["const", "const", "sepexp", "gauss", "poly"])
            region = rand_region(rng, d); fam = rand_fam(rng, d, kind)
            cs.append(Case("mc " + call_text(method, rng.randrange(2 ** 32), ncall, region, fam) + " # " + fam.ann(), ("mc", method, "budget-structured", kind)))
    # integrations brought to an end by their integrand (it throws from its n-th evaluation; the caller catches): points seen until then, no crash
    for rep in range(4 if big else 1):
        for method in MC:
            d = rng.randint(1, 4); ncall = rng.choice([1000, 1500, 2000, 3000])
            for n in throw_positions(rng, method, ncall, d):
                region = rand_region(rng, d); fam = rand_fam(rng, d, rng.choice(["const", "sepexp", "gauss", "poly"]))
                cs.append(Case("mc " + call_text(method, rng.randrange(2 ** 32), ncall, region, fam, throw_at=n) + " # " + fam.ann(), ("mc", method, "throwing")))
    # histories: integrations of differing dimension / region / budget / method before the observed call; some of them brought to an end early by
    # their integrand; some with the region and budget of the observed call (another integrand, seed, method); the observed call on its own twice (nh = 0)
    nlong = 16 if big else 4          # long histories of small integrations
    for ih in range(200 if big else 64):
        nh = rng.choice([0, 1, 1, 2, 2, 3, 4, 6]) if ih >= nlong else rng.randint(9, 16)
        with_throw = nh > 0 and rng.random() < 0.6
        obs_method = MC[len(cs) % 3]
        calls = []
        for k in range(nh + 1):
            d = rng.randint(1, 6)
            method = rng.choice(MC)
            if k == nh: method = obs_method
            # integrands with flat parts: for Miser that is where iran decides the split dimension
            kind = rng.choice(["sepexp", "gauss", "poly", "corner", "corner", "const"]) if d >= 2 else rng.choice(["sepexp", "gauss", "poly", "const"])
            # the observed call has to be able to show a difference: no integrand that vanishes on (almost) all of the region, except for Miser in few dimensions
            if k == nh and kind == "corner" and not (method == "Miser" and d <= 3): kind = rng.choice(["sepexp", "gauss", "poly", "const"])
            # Miser: with a flat pre-sample no dimension qualifies for the bisection and the counter iran picks it: the calls on which that counter shows
            if k == nh and method == "Miser" and rng.random() < 0.5: d = rng.choice([2, 3]); kind = "corner"
            region = rand_region(rng, d, plain=(kind == "corner" and rng.random() < 0.5), rev=0.15, corner=(rng.choice(WIDTH_CORNERS) if rng.random() < 0.1 else None),
                                 near=((rng.choice(REL_LADDER), [rng.randrange(d)]) if rng.random() < 0.12 else None))
            fam = rand_fam(rng, d, kind)
            ncall = rng.choice([200, 300, 500, 700, 1000, 2000]) if rng.random() < 0.7 else structured_budget(rng, 200, 4500 if big else 2500, d)
            if ih < nlong and k < nh: ncall = rng.choice([60, 100, 128, 200, 300, 500])
            calls.append([d, method, rng.randrange(2 ** 32), ncall, region, fam, 0, -1])
        obs = calls[-1]
        # the statics belong to the methods: mostly the history contains a call of the observed call's method
        if nh > 0 and rng.random() < 0.6: calls[rng.randrange(nh)][1] = obs_method
        for h in calls[:-1]:
            # a history call on the observed call's region (and budget)
            if rng.random() < 0.2:
                h[0], h[4] = obs[0], list(obs[4])
                h[5] = rand_fam(rng, obs[0], rng.choice(["sepexp", "gauss", "poly"]))
                if rng.random() < 0.7: h[3] = obs[3]
                if rng.random() < 0.5: h[1] = obs[1]
                # ... mostly handed over in the very vector object the observed call will be given (a caller that builds its box once)
                if rng.random() < 0.7: h[7] = obs[7] = 1
        if with_throw:
            # which history calls give up: often the last one, or the last one of the observed call's method
            idx = set()
            if rng.random() < 0.4: idx.add(nh - 1)
            if rng.random() < 0.65:
                if rng.random() < 0.6: calls[rng.randrange(nh)][1] = obs_method
                same = [k for k in range(nh) if calls[k][1] == obs_method]
                if same: idx.add(same[-1])
            for k in range(nh):
                if rng.random() < 0.3: idx.add(k)
            if not idx: idx.add(rng.randrange(nh))
            for k in idx:
                calls[k][6] = rng.choice(throw_positions(rng, calls[k][1], calls[k][3], calls[k][0]))
        texts = [call_text(m, sd, nc, rg, fm, throw_at=n, obj=ob) for (d, m, sd, nc, rg, fm, n, ob) in calls]
        dims = {c[0] for c in calls[:-1]}
        tags = ["hist", obs_method, "mixed-dims" if len(dims) >= 2 else "same-dim"]
        if obs[7] >= 0: tags.append("shared-region-object")
        if with_throw: tags.append("with-throwing-call")
        if nh == 0: tags.append("repeated")
        # uses of the sampling facility by the caller in between the integrations (often right before the observed call)
        hist_texts = texts[:-1]
        if rng.random() < 0.5:
            for _ in range(rng.randint(1, 3)):
                at = len(hist_texts) if rng.random() < 0.5 else rng.randint(0, len(hist_texts))
                hist_texts.insert(at, draws_text(rng, obs[4]))
            tags.append("with-draws")
        cs.append(Case(f"hist {len(hist_texts)} " + " ".join(hist_texts + texts[-1:]) + obs_ann(obs[1], obs[3], obs[4], obs[5]), tuple(tags)))
    # the shortest histories through the sampling facility: draws only; an integration then draws; draws then an integration
    for rep in range(4 if big else 1):
        for method in MC:
            for shape in ("d", "d", "dd", "cd", "dc", "dcd"):
                d = rng.randint(1, 6); ncall = rng.choice([500, 1000, 2000])
                region = rand_region(rng, d, rev=0.15); fam = rand_fam(rng, d, rng.choice(["const", "sepexp", "gauss", "poly"]))
                els = []
                for ch in shape:
                    if ch == "d": els.append(draws_text(rng, region, kind=("su" if rng.random() < 0.8 else None)))
                    else:
                        dh = rng.randint(1, 4)
                        els.append(call_text(rng.choice(MC), rng.randrange(2 ** 32), rng.choice([200, 500, 1000]), rand_region(rng, dh), rand_fam(rng, dh, rng.choice(["sepexp", "gauss", "poly"]))))
                cs.append(Case(f"hist {len(els)} " + " ".join(els) + " " + call_text(method, rng.randrange(2 ** 32), ncall, region, fam) + obs_ann(method, ncall, region, fam),
                               ("hist", method, "same-dim", "with-draws", "shortest")))
    # the shortest history with a hidden trace, for every method: one call of the observed call's method brought to an end in the middle
    # (of a sweep, an iteration, a recursion level), then the observed call
    for rep in range(6 if big else 2):
        for method in MC:
            dh, d = rng.randint(1, 5), rng.randint(1, 5)
            nch, ncall = rng.choice([500, 1000, 2000]), rng.choice([500, 1000, 2000])
            total = 5 * vegas_layout(nch, dh)[3] if method == "Vegas" else nch
            n = rng.randint(2, total - 1)
            kind = "corner" if (method == "Miser" and rep % 2 == 0) else rng.choice(["const", "sepexp", "gauss", "poly"])
            if kind == "corner": d = rng.choice([2, 3])
            rh, ro = rand_region(rng, dh), rand_region(rng, d, plain=(kind == "corner"))
            fo = rand_fam(rng, d, kind)
            texts = [call_text(method, rng.randrange(2 ** 32), nch, rh, rand_fam(rng, dh, rng.choice(["sepexp", "gauss", "poly"])), throw_at=n),
                     call_text(method, rng.randrange(2 ** 32), ncall, ro, fo)]
            cs.append(Case("hist 1 " + " ".join(texts) + obs_ann(method, ncall, ro, fo), ("hist", method, "same-dim", "with-throwing-call", "shortest")))
    # one box, built once by the caller and handed to several integrations: a history call of every method on the very vector object the observed
    # call (every method) is then given, run to its end or brought to an end in the middle; the observed call also before the history, on the same object
    for rep in range(3 if big else 1):
        for hm in MC:
            for om in MC:
                for ended in (True, False):
                    d = rng.randint(1, 4); region = rand_region(rng, d, rev=0.15)
                    nch, ncall = rng.choice([500, 1000, 2000]), rng.choice([500, 1000, 2000])
                    total = 5 * vegas_layout(nch, d)[3] if hm == "Vegas" else nch
                    n = rng.randint(2, total - 1) if ended else 0
                    fo = rand_fam(rng, d, rng.choice(["const", "sepexp", "gauss", "poly"]))
                    texts = [call_text(hm, rng.randrange(2 ** 32), nch, region, rand_fam(rng, d, rng.choice(["sepexp", "gauss", "poly"])), throw_at=n, obj=0),
                             call_text(om, rng.randrange(2 ** 32), ncall, region, fo, obj=0)]
                    cs.append(Case("hist 1 " + " ".join(texts) + obs_ann(om, ncall, region, fo), ("hist", om, "same-dim", "shared-region-object") + (("with-throwing-call",) if ended else ())))
    # integrations under way: the observed (inner) call is made from inside the integrand of another (outer) integration, at every one of its evaluations, on a
    # box of its own or on the very vector object the outer call was given; each of its values is compared with its value in a fresh process.
    # (Vegas inside Vegas is left out: its function-local statics, "allowing restarts", include the loop counters, and the outer call never comes to an end.)
    for rep in range(3 if big else 1):
        for om in MC:
            for im in MC:
                if om == im == "Vegas": continue
                for shared in (1, 0):
                    d = rng.randint(1, 3); region = rand_region(rng, d, rev=0.15)
                    di = d if shared else rng.randint(1, 4)
                    iregion = region if shared else rand_region(rng, di, rev=0.15)
                    no = rng.choice([60, 80, 120]) if om != "Vegas" else rng.choice([20, 40, 60])
                    ni = rng.choice([100, 200, 300]) if im != "Vegas" else rng.choice([60, 100, 200])
                    texts = [call_text(om, rng.randrange(2 ** 32), no, region, rand_fam(rng, d, rng.choice(["const", "sepexp", "gauss", "poly"]))),
                             call_text(im, rng.randrange(2 ** 32), ni, iregion, rand_fam(rng, di, rng.choice(["const", "sepexp", "gauss", "poly"])))]
                    cs.append(Case(f"nested {shared} " + " ".join(texts), ("nested", im, "outer-" + om) + (("shared-region-object",) if shared else ())))
    # ... in general: the inner call is made BEFORE the integrand of the outer call reads the point it was handed, or after; either call goes through Integrate_MC or
    # through the 2-D / 3-D front ends (same front end inside itself, 2-D inside 3-D, front end inside Integrate_MC, ...), over DIFFERENT rectangles; every pair of
    # methods (except Vegas inside Vegas); the outer call is judged by the clauses of a single call (points inside its own rectangle, budget, constants exact: its
    # integrand is its expression times the constant value of the inner call; six standard errors for budgets >= 1000), the inner one against its fresh-process value
    for rep in range(4 if big else 1):
        for om in MC:
            for im in MC:
                if om == im == "Vegas": continue
                for oe, ie in (("mc", "mc"), ("fe", "fe"), ("mc", "fe"), ("fe", "mc")):
                    for first in (1, 0):
                        d = rng.choice([2, 3]) if oe == "fe" else rng.randint(1, 4)
                        di = (d if (oe == "fe" and rng.random() < 0.7) else rng.choice([2, 3])) if ie == "fe" else rng.randint(1, 4)
                        region = rand_region(rng, d, rev=0.15); iregion = rand_region(rng, di, rev=0.15)
                        no = rng.choice([60, 80, 100, 60, 80, 100, 1000] if not big else [60, 120, 1000, 1500]) if om != "Vegas" else rng.choice([20, 40, 60] + ([1000] if big else []))
                        if big and rng.random() < 0.3: no = structured_budget(rng, 1000, 4000, d)
                        ni = rng.choice([30, 60] if not big else [100, 200]) if no >= 1000 else (rng.choice([100, 200, 300] if big else [60, 100, 150]) if im != "Vegas" else rng.choice([60, 100, 200] if big else [40, 60, 100]))
                        fo = rand_fam(rng, d, rng.choice(["const", "const", "sepexp", "gauss", "poly"]))
                        fi = rand_fam(rng, di, rng.choice(["const", "const", "sepexp", "gauss", "poly"]))
                        texts = [call_text(om, rng.randrange(2 ** 32), no, region, fo), call_text(im, rng.randrange(2 ** 32), ni, iregion, fi)]
                        cs.append(Case(f"nestx {first} {oe} {ie} " + " ".join(texts) + obs_ann(om, no, region, fo),
                                       ("nestx", im, "outer-" + om, f"outer-{oe}-inner-{ie}", "inner-first" if first else "inner-last")))
    # the 2-D / 3-D front ends (and the spherical one of Integrate_3D): every way in which a limit of one axis can be the same number as a limit of
    # another axis (x1 = y1, x2 = y1, ..., y2 = z1, ...; adjacent intervals, cubes), ascending and descending limits; no axis has zero width
    for rep in range(3 if big else 1):
        for op, d, dom in (("front2d", 2, None), ("front3d", 3, None), ("front3s", 3, DOM3S)):
            for A in range(d):
                for B in range(A + 1, d):
                    for i in (0, 1):
                        for j in (0, 1):
                            for method in MC:
                                p = rng.choice([1000, 1000, 2000, 3000])
                                cs.append(front_case(rng, op, method, coinciding_limits(rng, d, A, i, B, j, dom), p, ("cross-axis-coincidence", f"axis{A}-limit{i}=axis{B}-limit{j}")))
            for method in MC:
                a, b = (rng.choice([0.0, 0.25]), 1.0) if dom else sorted(rng.sample([-2.0, -1.0, 0.0, 0.5, 1.0, 3.0], 2))
                cs.append(front_case(rng, op, method, [(a, b)] * d, rng.choice([1000, 2000]), ("cross-axis-coincidence", "cube")))
                ch = [0.0, 0.5, 1.0, 2.0] if dom else sorted(rng.sample([-3.0, -1.0, 0.0, 0.5, 1.0, 2.0, 4.0], d + 1))
                chain = [(ch[k], ch[k + 1]) for k in range(d)]
                if rng.random() < 0.5 and not dom: chain = chain[::-1]
                cs.append(front_case(rng, op, method, chain, rng.choice([1000, 2000]), ("cross-axis-coincidence", "adjacent")))
    # the spherical front end: whole sphere (the default limits of the angles), shells, sectors; default budget (method_parameter 0 = 30000 calls)
    for rep in range(4 if big else 1):
        for method in MC:
            r1 = rng.choice([0.0, rng.uniform(0, 1)]); r2 = r1 + rng.uniform(0.5, 2)
            cs.append(front_case(rng, "front3s", method, [(r1, r2), (-1.0, 1.0), (0.0, 2 * math.pi)], 0 if (big or method != "Vegas") else 6000, ("whole-sphere",)))
            for _ in range(2):
                cs.append(front_case(rng, "front3s", method, [rand_pair(rng, DOM3S[k]) for k in range(3)], rng.choice([1000, 2000, 4096]), ("sector",)))
    # the 2-D / 3-D front ends at the corners of the range of widths
    for rep in range(3 if big else 1):
        for method in MC:
            for op, d in (("front2d", 2), ("front3d", 3)):
                for corner in ("small", "large", "alternating"):
                    region = rand_region(rng, d, rev=0.1, corner=corner)
                    cs.append(front_case(rng, op, method, [(region[j], region[j + d]) for j in range(d)], rng.choice([1000, 2000]), ("width-corner", "width-corner-" + corner)))
    # the 2-D / 3-D front ends with limits of one axis nearly equal relative to their size (the ladder above)
    for rep in range(3 if big else 1):
        for method in MC:
            for op, d in (("front2d", 2), ("front3d", 3)):
                for rel in rng.sample(REL_LADDER[:4], 1) + rng.sample(REL_LADDER[4:], 2):
                    region = rand_region(rng, d, rev=0.1, near=(rel, [rng.randrange(d)]))
                    cs.append(front_case(rng, op, method, [(region[j], region[j + d]) for j in range(d)], rng.choice([1000, 2000]), ("near-equal-limits", f"near-equal-limits-{rel:.0e}")))
    # the 2-D / 3-D front ends: anisotropic offset regions, asymmetric integrand
    for _ in range(12 if big else 4):
        for method in MC:
            for op in ("front2d", "front3d"):
                d = 2 if op == "front2d" else 3
                base = [0.5, 3.0, 20.0]
                lo = [base[j] + rng.uniform(0, 0.5) for j in range(d)]; w = [rng.uniform(0.5, 1.5) * (1, 0.3, 10)[j] for j in range(d)]
                region = lo + [a + b for a, b in zip(lo, w)]
                region = reverse_axes(region, [j for j in range(d) if rng.random() < 0.2])
                fam = rand_fam(rng, d, rng.choice(["sepexp", "gauss", "poly"]))
                p = rng.choice([0, 1000, 2000, 4096, 8192]) if not (method == "Vegas" and big) else rng.choice([0, 2000, 4096])
                if big and method != "Vegas" and rng.random() < 0.5: p = structured_budget(rng, 1000, 300000, d)
                lims = " ".join(f"{hx(region[j])} {hx(region[j + d])}" for j in range(d))
                txt = fam.text(region).replace("v 0", "x").replace("v 1", "y").replace("v 2", "z")
                cs.append(Case(f"{op} {method} {rng.randrange(2 ** 32)} {p} {lims} {txt} # {fam.ann()}", (op, method)))
    return cs


# ---------------------------------------------------------------- parsing
def parse_mc(line):
    body, _, ann = line.partition(" # ")
    t = body.split()
    if t[0] == "mcd": t = ["mc"] + t[2 + 2 * int(t[1]):]       # mcd <k> a_1 b_1 ... a_k b_k <call>: what the integrand draws at every evaluation
    method, seed, ncall, d = t[1], int(t[2]), int(t[3]), int(t[4])
    region = [float.fromhex(x) for x in t[5:5 + 2 * d]]
    return method, seed, ncall, d, region, " ".join(t[5 + 2 * d:]), (parse_fam(ann.split()) if ann else None)


def split_throw(method):
    """'Vegas!120@1' -> ('Vegas', 120); 0 = the integrand never throws (the number of the caller's vector object is dropped)"""
    m, _, n = method.partition("@")[0].partition("!")
    return m, (int(n) if n else 0)


def parse_front(line):
    body, _, ann = line.partition(" # ")
    t = body.split(); op = t[0]; d = 2 if op == "front2d" else 3
    method, seed, p = t[1], int(t[2]), int(t[3])
    lims = [float.fromhex(x) for x in t[4:4 + 2 * d]]
    region = [lims[2 * j] for j in range(d)] + [lims[2 * j + 1] for j in range(d)]
    a = ann.split()
    fam = None if not a else SphFam([float.fromhex(x) for x in a[1:]]) if a[0] == "sph" else parse_fam(a)
    return method, seed, p, d, region, " ".join(t[4 + 2 * d:]), fam


def aniso(region):
    d = len(region) // 2
    w = [abs(region[j + d] - region[j]) for j in range(d)]
    return d >= 2 and (max(w) > 10 * min(w) or any(region[j] != 0.0 for j in range(d)))


def nontrivial(c, io):
    op = c.line.split()[0]
    if op in ("mc", "mcd"): return aniso(parse_mc(c.line)[4]) and not io.startswith("EXIT")
    if op in ("front2d", "front3d", "front3s"): return aniso(parse_front(c.line)[4]) and not io.startswith("EXIT")
    if op == "hist":
        t = io.split()
        return (int(c.line.split()[1]) >= 2 and "mixed-dims" in c.tags) or (len(t) >= 6 and t[3].isdigit() and int(t[3]) >= 1) or "with-draws" in c.tags
    if op == "nested":
        t = io.split()
        return len(t) == 6 and t[2].isdigit() and int(t[2]) >= 2
    if op == "nestx":
        t = io.split()
        return len(t) >= 9 and t[2].isdigit() and int(t[2]) >= 2
    return False


# ---------------------------------------------------------------- S4
def check_call(op, method, ncall, d, region, fex, fam, v, out, ended_early=False, six_sigma=True, scale=1.0):
    """scale: the value v[0] and the family describe the integrand divided by this constant factor (nestx: the value of the inner call); the size of what Vegas
    actually accumulated, which decides whether K-C14-1 applies, is scale times larger"""
    val, neval = v[0], v[1]; mm = v[3:]
    # evaluation points inside the hyper-rectangle
    if op == "front3s":
        # the Vector handed over: its norm within the limits of r, z / norm within those of cos theta (both recomputed from the rounded components:
        # a few units of 2^-53), every component at most the larger radius
        rlo, rhi = sorted((abs(region[0]), abs(region[3]))) if region[0] * region[3] >= 0 else (0.0, max(abs(region[0]), abs(region[3])))
        clo, chi = sorted((region[1], region[4]))
        if neval > 0:
            if not (rlo * (1 - 1e-14) <= mm[6] and mm[7] <= rhi * (1 + 1e-14)):
                out.append((f"{op}:points-inside", f"{method}: the norm of the vectors handed to the integrand ranged over [{mm[6]!r},{mm[7]!r}], outside the limits of r [{rlo!r},{rhi!r}]"))
            if not (clo - 1e-14 <= mm[8] and mm[9] <= chi + 1e-14):
                out.append((f"{op}:points-inside", f"{method}: z / norm of the vectors handed to the integrand ranged over [{mm[8]!r},{mm[9]!r}], outside the limits of cos(theta) [{clo!r},{chi!r}]"))
            if max(abs(x) for x in mm[0:6]) > rhi * (1 + 1e-14):
                out.append((f"{op}:points-inside", f"{method}: a component of a vector handed to the integrand exceeds the larger radius {rhi!r}"))
    else:
        for j in range(d):
            lo, hi = min(region[j], region[j + d]), max(region[j], region[j + d])
            if neval > 0 and not (lo <= mm[2 * j] and mm[2 * j + 1] <= hi):
                out.append((f"{op}:points-inside", f"{method}: coordinate {j} of the evaluation points ranged over [{mm[2*j]!r},{mm[2*j+1]!r}], outside its limits [{lo!r},{hi!r}]"))
    if ended_early: return
    if method in ("Monte-Carlo", "Miser") and neval != ncall:
        out.append((f"{op}:budget", f"{method} evaluated the integrand {neval} times for a budget of {ncall}"))
    if method == "Vegas" and neval > 5 * max(ncall, 2 * 2 ** d):
        # npg = max(ncall / ng^d, 2) points in each of ng^d <= ncall / 2 cells (ng^d = 1 when ncall < 2^(d+1)), five iterations
        out.append((f"{op}:budget", f"{method} evaluated the integrand {neval} times for a budget of {ncall} per iteration (5 iterations)"))
    if method == "Vegas" and neval == 0 and ncall > 0:
        out.append((f"{op}:budget", f"{method} returned {val!r} without a single evaluation of the integrand (budget {ncall})"))
    if fam is None: return
    txt = fam.text(region)
    if op.startswith("front"): txt = txt.replace("v 0", "x").replace("v 1", "y").replace("v 2", "z")
    if txt != fex: return
    ex, sig = fam.exact_sigma(region, ncall)
    if fam.kind == "const":
        slack = 2 * (max(neval, ncall) + 100) * 2.0 ** -53 * abs(ex)
        if not (abs(val - ex) <= slack):
            # Vegas weights its iterations by 1/variance with the absolute floor TINY = 1e-30 for a vanishing variance estimate; the first
            # iteration (uniform grid, exact on a constant) dominates only while (c V / calls)^2 is far above that floor (known finding K-C14-1)
            # (what K-C14-1 describes is a wrong weighting of iterations each of which is an estimate of volume*constant on a grid refined to noise: the result
            # stays within the sampling noise of such an iteration, observed up to 2e-3 relative at 1500 calls; a result that is not even of the right size
            # or sign, e.g. 0, is not that finding)
            region_tag = ":vegas-tiny-scale" if (method == "Vegas" and abs(ex * scale) / max(neval, ncall, 1) < 1e-6 and abs(val - ex) <= 0.25 * abs(ex)) else ""
            out.append((f"{op}:constant-exact{region_tag}", f"{method}: constant integrand, result {val!r}, volume*constant = {ex!r} (error {abs(val-ex):.3g} > {slack:.3g})"))
    elif fam.kind == "corner":
        # (non-negative integrand: the sign of the result is that of the oriented volume)
        if not math.isfinite(val) or val * ex < 0.0 or abs(val) > abs(ex) * 1e6 + 1e-300:
            out.append((f"{op}:corner-finite", f"{method}: integrand supported in a corner, result {val!r} (exact {ex!r})"))
    elif six_sigma:
        if not (abs(val - ex) <= 6 * sig + 1e-12 * abs(ex)):
            out.append((f"{op}:six-sigma", f"{method}: result {val!r}, exact {ex!r}: off by {abs(val-ex)/sig:.2f} standard errors of plain Monte Carlo with {ncall} points"))


def predicates(c, io):
    out = []
    if io.startswith(("CRASH", "SANITIZER", "TIMEOUT", "HARNESSERR")): return out
    op = c.line.split()[0]
    if op == "stream":
        v = parse_vals(io)
        if any(not (0.0 <= x < 1.0) for x in v[1:]): out.append(("stream:range", "Sample_Uniform left [0,1)"))
        return out
    if op == "draws":
        t = c.line.split(); k = int(t[2]); lim = [float.fromhex(x) for x in t[3:3 + 2 * k]]
        v = parse_vals(io)
        if len(v) != k + 1: return [("draws:output", f"malformed harness output {io[:80]!r}")]
        for i in range(k):
            a, b = lim[2 * i], lim[2 * i + 1]
            # u * (b - a) + a with u in [0,1): at least a, and at most b (the rounding may reach b)
            if not (a <= v[1 + i] <= b):
                out.append(("draws:range", f"draw {i + 1} of {k} from one generator: Sample_Uniform(gen, {a!r}, {b!r}) returned {v[1 + i]!r}"
                            + (f" (the draw before had the limits {lim[2 * i - 2]!r}, {lim[2 * i - 1]!r})" if i else "")))
                break
        return out
    if op in ("mc", "mcd"):
        op = "mc"
        method, seed, ncall, d, region, fex, fam = parse_mc(c.line)
        method, n = split_throw(method)
        if method in ("dflt", "dflt2"):        # arguments left out: method = "Vegas", ncalls = 10000
            ncall = ncall if method == "dflt" else 10000
            method = "Vegas"
        if method not in MC:
            if not io.startswith("EXIT"): out.append(("mc:unknown-method", f"unknown method {method} was accepted"))
            return out
        if io.startswith("EXIT"): return [("mc:exit", f"{method} terminated the process on a valid request")]
        if io.startswith("ABORTED"):
            # the integrand threw from its n-th evaluation and the exception reached the caller: n evaluations, all inside the region
            v = [math.nan] + parse_vals(io.split(None, 1)[1])
            if n == 0 or v[1] != n: out.append(("mc:exception", f"{method}: the integrand throws from evaluation {n}; the harness caught an exception after {v[1]} evaluations"))
            check_call(op, method, ncall, d, region, fex, fam, v, out, ended_early=True)
        else:
            v = parse_vals(io)
            if n and v[1] >= n: out.append(("mc:exception", f"{method}: the integrand threw from evaluation {n}, but the call returned {v[0]!r} after {v[1]} evaluations"))
            if n and method in ("Monte-Carlo", "Miser") and n <= ncall: out.append(("mc:exception", f"{method}: evaluation {n} of {ncall} was never made"))
            check_call(op, method, ncall, d, region, fex, fam, v, out)
        if len(v) >= 5 + 2 * d and (v[3 + 2 * d] or v[4 + 2 * d]):
            out.append(("mc:caller-region-modified", f"{method}: the region vector of the caller held other limits than the caller's during {int(v[3 + 2 * d])} evaluations of the integrand"
                        + (" and still does after the call" if v[4 + 2 * d] else "") + ": another integration over this vector (from the integrand, or the next one) is over another region"))
    elif op in ("front2d", "front3d", "front3s"):
        method, seed, p, d, region, fex, fam = parse_front(c.line)
        if io.startswith("EXIT"): return [(op + ":exit", f"{method} terminated the process on a valid request")]
        check_call(op, method, 30000 if p == 0 else p, d, region, fex, fam, parse_vals(io), out)
    elif op == "hist":
        if io.startswith("EXIT"): return [("hist:exit", "a valid sequence of integrations terminated the process")]
        t = io.split()
        if len(t) < 8: return [("hist:output", f"malformed harness output {io[:80]!r}")]
        fresh, a, b, nab, nmod, nout = t[:6]
        body, _, ann = c.line.partition(" # obs ")
        els = body.split()
        nh = int(els[1]); ndraws = sum(1 for w in els if w in ("su", "sg", "rs"))
        what = f"{nh - ndraws} other integrations" + (f" ({nab} of them brought to an end by an exception from the integrand)" if nab != "0" else "")
        if ndraws: what += f" and {ndraws} uses of the sampling facility (Sample_Uniform with limits, Sample_Gauss, Rejection_Sampling) by the caller"
        if "shared-region-object" in c.tags or "@" in c.line: what += ", some of them over the same region vector object of the caller"
        if a != b:
            out.append(("hist:history-dependence", f"same call, same seed: {a} before but {b} after {what}"))
        if fresh != b:
            out.append(("hist:history-dependence:fresh-process", f"same call, same seed: {fresh} in a fresh process but {b} in this process after {what} (and {a} before them, after the earlier cases of this run)"))
        if nmod != "0":
            out.append(("hist:caller-region-modified", f"{nmod} of the calls changed the limits in the region vector of their caller (during the call or for good)"))
        if nout != "0":
            out.append(("hist:draws-range", f"{nout} of the caller's draws Sample_Uniform(gen, a, b) in the history were outside [a, b]"))
        if ann:
            # the clauses of a single call, on the observed call as made after the history: points inside, constants exact, six standard errors
            # (the latter for budgets of the quantified range, >= 1000)
            h, _, fa = ann.partition(" ; ")
            ht = h.split(); method, ncall, d = ht[0], int(ht[1]), int(ht[2])
            region = [float.fromhex(x) for x in ht[3:3 + 2 * d]]; fam = parse_fam(fa.split())
            v = parse_vals(" ".join([b] + t[6:]))
            if isinstance(v[0], float) and len(v) == 3 + 2 * d:
                check_call("hist", method, ncall, d, region, fam.text(region), fam, v, out, six_sigma=(ncall >= 1000))
    elif op == "nestx":
        if io.startswith("EXIT"): return [("nestx:exit", "a valid integration started from the integrand of another one terminated the process")]
        t = io.split()
        if len(t) < 9: return [("nestx:output", f"malformed harness output {io[:80]!r}")]
        fresh, outer, ninner, ndiff, worst, nmod, nout = t[:7]
        w = c.line.split(); first, oe, ie = w[1] == "1", w[2], w[3]
        ent = {"mc": "Integrate_MC", "fe": "Integrate_2D/_3D"}
        where = (f"from inside the integrand of another integration ({ent[ie]} inside {ent[oe]}, " + ("before" if first else "after") + " that integrand reads its own point)")
        if ndiff != "0":
            out.append(("nestx:history-dependence", f"same call, same seed: {fresh} in a fresh process but {worst} when made {where} ({ndiff} of {ninner} such calls differ)"))
        if nmod != "0":
            out.append(("nestx:caller-region-modified", f"{nmod} calls changed the limits in the region vector of their caller (during the call or for good)"))
        if nout != "0":
            out.append(("nestx:inner-points-inside", f"the evaluation points of the integration made {where} left its limits on {nout} axes"))
        body, _, ann = c.line.partition(" # obs ")
        if ann:
            # the outer call: its integrand is its expression times the value of the inner call (a constant when no inner call differs)
            h, _, fa = ann.partition(" ; ")
            ht = h.split(); method, ncall, d = ht[0], int(ht[1]), int(ht[2])
            region = [float.fromhex(x) for x in ht[3:3 + 2 * d]]; fam = parse_fam(fa.split())
            v = parse_vals(" ".join([outer] + t[7:]))
            I = tokf(fresh)
            if I is None: I = math.nan
            if isinstance(v[0], float) and len(v) == 3 + 2 * d:
                ok_val = ndiff == "0" and math.isfinite(I) and I != 0.0
                v[0] = v[0] / I if ok_val else v[0]
                msgs = []
                check_call("nestx", method, ncall, d, region, fam.text(region), fam if ok_val else None, v, msgs, six_sigma=(ncall >= 1000), scale=(I if ok_val else 1.0))
                out += [(sg, f"outer call, with another integration made {where}, value divided by the inner call's: " + m) for sg, m in msgs]
    elif op == "nested":
        if io.startswith("EXIT"): return [("nested:exit", "a valid integration started from the integrand of another one terminated the process")]
        t = io.split()
        if len(t) != 6: return [("nested:output", f"malformed harness output {io[:80]!r}")]
        fresh, outer, ninner, ndiff, worst, nmod = t
        shared = c.line.split()[1] == "1"
        where = "from inside the integrand of another integration" + (" over the same region vector object" if shared else "")
        if ndiff != "0":
            out.append(("nested:history-dependence", f"same call, same seed: {fresh} in a fresh process but {worst} when made {where} ({ndiff} of {ninner} such calls differ)"))
        if nmod != "0":
            out.append(("nested:caller-region-modified", f"{nmod} calls changed the limits in the region vector of their caller (during the call or for good)"))
    return out
