"""C03 — adaptive Simpson integration: Integrate(func, a, b, epsilon, maxRecursionDepth)."""
import math
from fractions import Fraction
from vcheck import Case, hx, parse_vals, compare_lines, tokf

PID = "C03"
EPS = 2.0 ** -53
TRACE_CAP = 520          # harness and driver print the full trace up to this many evaluations, else min/max
RULE = ("one case = one call Integrate(f,a,b,eps,depth) (ops swap/epssign: two calls); non-trivial = the recursion tree has at least "
        "one split node (more than 5 integrand evaluations) or a leaf forced by the depth limit (non-convergence warning); "
        "distinct by case text")
LEVEL_TEXT = ("Theorems (Coq, over the reals, for all inputs): exactness on every polynomial of degree <= 5 for every epsilon, depth and "
              "pair of limits; swapping the limits negates the value; equal limits give 0 without evaluating; the sign of epsilon is "
              "irrelevant; every evaluation abscissa lies in [min(a,b),max(a,b)] and there are at most 2^(depth+2)+1 of them, for every "
              "integrand. The 4*epsilon error bound is a theorem at full strength (C03_error_bound): for every integrand with four derivatives "
              "on an open interval containing the range whose fourth derivative keeps one sign and varies by at most a factor four, every "
              "depth and epsilon, whenever no non-convergence warning is raised; the remainder of Simpson's rule it rests on is proved "
              "(C03_simpson_remainder), not assumed. Not theorems: 'to rounding' / 'plus rounding' (the theorems are about exact real "
              "arithmetic), and the case of a raised warning (forced leaf), where no bound in epsilon is claimed. For doubles the Gallina "
              "model is the term that is extracted and run against the C++ code on every run (value, warning flag, evaluation count and the "
              "multiset of abscissae, bit for bit), and every clause is also evaluated on the implementation's output (S4) with a-priori "
              "rounding slack.")
LEVEL_NOTE = ("Coq 8.16.1 kernel + Coquelicot; standard-library real-number axioms (listed in the evidence). Hand-written model tied by "
              "differential correspondence (extraction with ExtrOcamlBasic only). The order in which C++ evaluates the two recursive calls "
              "in `ASI(left) + ASI(right)` is unspecified: traces are compared as multisets. The error-bound theorem carries no analytic premise beyond differentiability: "
              "derivatives of orders 1..4 on an open interval containing the integration range and the factor-four bound on the fourth one.")
TOL = (1e-11, 1e-300)
TRUSTED = ["the integrand call-backs are prefix expressions evaluated by harness/common.hpp and ocaml/common.ml with the same libm",
           "the non-convergence warning is observed as the text 'did not converge' on the library's stdout"]
ASSUMPTIONS = ["the 4*eps clause is read as applying when Integrate raises no non-convergence warning (with a forced leaf no bound in terms of eps can hold)"]


# ---------------------------------------------------------------- fexpr evaluation in Python (independent of harness / model)
def _div(a, b):
    try: return a / b
    except ZeroDivisionError:
        if a != a or a == 0: return math.nan
        return math.copysign(math.inf, a) * math.copysign(1.0, b)
def _wrap(fn):
    def g(a):
        try: return fn(a)
        except ValueError: return math.nan
        except OverflowError: return math.inf
    return g
def _pow(a, c):
    try: return math.pow(a, c)
    except ValueError: return math.nan
    except OverflowError: return math.inf
def _log(a):
    if a == 0: return -math.inf
    try: return math.log(a)
    except ValueError: return math.nan
_UN = {"neg": lambda a: -a, "exp": _wrap(math.exp), "log": _log, "sin": _wrap(math.sin), "cos": _wrap(math.cos), "atan": math.atan,
       "erf": math.erf, "cosh": _wrap(math.cosh), "tanh": math.tanh, "abs": abs, "sqrt": _wrap(math.sqrt),
       "step": lambda a: 1.0 if a >= 0.0 else 0.0}


def parse_fexpr(t, i):
    """tokens, index -> (python function of x, next index)"""
    o = t[i]
    if o == "x": return (lambda x: x), i + 1
    if o == "c":
        c = tokf(t[i + 1]); return (lambda x: c), i + 2
    if o in "+-*/" and len(o) == 1:
        f, j = parse_fexpr(t, i + 1); g, k = parse_fexpr(t, j)
        if o == "+": return (lambda x: f(x) + g(x)), k
        if o == "-": return (lambda x: f(x) - g(x)), k
        if o == "*": return (lambda x: f(x) * g(x)), k
        return (lambda x: _div(f(x), g(x))), k
    if o == "pow":
        f, j = parse_fexpr(t, i + 1); c = tokf(t[j]); return (lambda x: _pow(f(x), c)), j + 1
    if o == "pwl":
        n = int(t[i + 1]); px = [tokf(t[i + 2 + 2 * k]) for k in range(n)]; py = [tokf(t[i + 3 + 2 * k]) for k in range(n)]
        f, j = parse_fexpr(t, i + 2 + 2 * n)
        def pw(x):
            a = f(x); k = 0
            while k + 2 < n and a >= px[k + 1]: k += 1
            return py[k] + (a - px[k]) * ((py[k + 1] - py[k]) / (px[k + 1] - px[k]))
        return pw, j
    if o in _UN:
        f, j = parse_fexpr(t, i + 1); u = _UN[o]; return (lambda x: u(f(x))), j
    raise ValueError("fexpr op " + o)


def simulate_count(f, a, b, eps, depth, cap):
    """number of integrand evaluations Integrate would make (None when above cap); generator-side cost control only"""
    if a == b: return 0
    if a > b: a, b = b, a
    eps = abs(eps); n = 3
    c = (a + b) / 2; fa, fb, fc = f(a), f(b), f(c); S = (b - a) / 6 * (fa + 4 * fc + fb)
    st = [(a, b, eps, S, fa, fb, fc, max(depth, 0))]
    while st:
        a, b, eps, S, fa, fb, fc, bot = st.pop()
        c = (a + b) / 2; h = b - a; d = (a + c) / 2; e = (b + c) / 2; fd = f(d); fe = f(e); n += 2
        if n > cap: return None
        Sl = h / 12 * (fa + 4 * fd + fc); Sr = h / 12 * (fc + 4 * fe + fb); S2 = Sl + Sr
        if bot <= 0 or abs(S2 - S) <= 15 * eps: continue
        st.append((a, c, eps / 2, Sl, fa, fc, fd, bot - 1)); st.append((c, b, eps / 2, Sr, fc, fb, fe, bot - 1))
    return n


# ---------------------------------------------------------------- generators
def C(v): return "c " + hx(v)
def horner(cs):
    e = C(cs[-1])
    for c in reversed(cs[:-1]): e = f"+ {C(c)} * x {e}"
    return e
def powsum(cs):
    terms = [C(cs[0])] + [f"* {C(c)} " + ("x" if k == 1 else f"pow x {hx(float(k))}") for k, c in enumerate(cs) if k >= 1]
    e = terms[0]
    for t in terms[1:]: e = f"+ {e} {t}"
    return e


def rand_interval(rng):
    w = 10 ** rng.uniform(-6, 3)
    r = rng.random()
    if r < 0.25: x0 = 0.0
    elif r < 0.5: x0 = -w * rng.random()          # contains 0
    else: x0 = rng.choice([-1, 1]) * 10 ** rng.uniform(-3, 3)
    a, b = x0, x0 + w
    if b == a: b = math.nextafter(a, math.inf)
    return a, b


def rand_eps(rng, scale=None):
    if scale is not None and scale > 0 and rng.random() < 0.7:
        e = scale * 10 ** rng.uniform(-13, -1)
        e = min(max(e, 1e-18), 1e2)
    else:
        e = 10 ** rng.uniform(-18, 2)
    return e * rng.choice([1, 1, 1, -1])


def fam_line(op, a, b, eps, depth, fam, params, fx):
    return f"{op} {hx(a)} {hx(b)} {hx(eps)} {depth} {fam} {len(params)} " + " ".join(hx(p) for p in params) + (" " if params else "") + fx


def gen_quintic(rng, dmax):
    deg = rng.choice([0, 1, 2, 3, 4, 5, 5, 5])
    cs = [(rng.choice([-1, 1]) * 10 ** rng.uniform(-6, 6) if rng.random() < 0.85 else 0.0) if k <= deg else 0.0 for k in range(6)]
    if rng.random() < 0.2: cs = [float(rng.randint(-9, 9)) if k <= deg else 0.0 for k in range(6)]
    a, b = rand_interval(rng)
    X = max(abs(a), abs(b)); fmax = sum(abs(c) * X ** k for k, c in enumerate(cs))
    eps = rand_eps(rng, abs(b - a) * fmax)
    depth = rng.choice([0, 1, 2, 3, 5, 8, dmax, rng.randint(0, dmax)])
    fx = horner(cs) if rng.random() < 0.6 else powsum(cs)
    return a, b, eps, depth, "quintic", cs, fx


def gen_regular(rng, dmax):
    fam = rng.choice(["exp", "cosh", "invpow", "pow"])
    if fam == "exp":
        a, b = rand_interval(rng); w = rng.choice([-1, 1]) * rng.uniform(0.05, 0.999) * math.log(4) / (b - a)
        if abs(w) * max(abs(a), abs(b)) > 300:      # keep exp(wx) in range: move the interval towards the origin
            wd = b - a; a = rng.uniform(-1, 1) * 100 / abs(w); b = a + wd
        fx = f"exp * {C(w)} x"; params = [w]; sc = abs(b - a) * max(math.exp(w * a), math.exp(w * b))
    elif fam == "cosh":
        a, b = rand_interval(rng); w = rng.uniform(0.05, 0.999) * math.log(4) / (b - a)
        X = max(abs(a), abs(b))
        if a < 0 < b and rng.random() < 0.7: w = rng.uniform(0.3, 0.999) * math.acosh(4) / X    # the ratio is cosh(wX)/1
        if w * X > 300: w = 300 / X
        fx = f"cosh * {C(w)} x"; params = [w]; sc = abs(b - a) * math.cosh(w * X)
    elif fam == "invpow":
        k = rng.choice([1.0, 2.0, 3.0, 4.0, 0.5, 1.5, 2.5, rng.uniform(0.1, 6)])
        t = 10 ** rng.uniform(-3, 3); rho = 4 ** (1 / (k + 4))
        wd = t * rng.uniform(0.05, 0.999) * (rho - 1)
        s = rng.choice([0.0, t * rng.uniform(-100, 100), rng.choice([-1, 1]) * 10 ** rng.uniform(-3, 3)])
        if abs(s) > 1e3 * t: s = 0.0
        a = t - s; b = a + wd
        if not (a + s > 0 and b > a): return None
        fx = f"pow + x {C(s)} {hx(-k)}"; params = [s, k]; sc = abs(b - a) * (a + s) ** (-k)
    else:
        p = rng.choice([4.0, 5.0, 6.0, 7.0, -1.0, -2.0, 0.5, 1.5, 2.5, 3.5, rng.uniform(-3, 8)])
        if p in (0.0, 1.0, 2.0, 3.0): p = 4.5
        a = 10 ** rng.uniform(-3, 3)
        rmax = 1e3 if p == 4.0 else min(1e3, 4 ** (1 / abs(p - 4)))
        b = a * (1 + rng.uniform(0.05, 0.999) * (rmax - 1))
        if b - a > 1e3: b = a + 1e3 * rng.random()
        fx = f"pow x {hx(p)}"; params = [p]; sc = abs(b - a) * max(a ** p, b ** p)
    if rng.random() < 0.5: eps = sc * 10 ** rng.uniform(-12, -2) * rng.choice([1, 1, -1])
    else: eps = rand_eps(rng, sc)
    eps = math.copysign(min(max(abs(eps), 1e-18), 1e2), eps)
    depth = rng.choice([dmax, dmax, dmax, rng.randint(0, dmax)])
    if rng.random() < 0.5: a, b = b, a
    return a, b, eps, depth, fam, params, fx


def gen_any(rng, dmax):
    a, b = rand_interval(rng)
    w = b - a; m = a + w * rng.random()
    kind = rng.choice(["step", "pwl", "abs", "sin", "runge", "sqrtabs", "erf", "tanh", "log", "sinexp", "stepsum"])
    if kind == "step": fx = f"step - x {C(m)}"
    elif kind == "stepsum": fx = f"+ step - x {C(m)} * {C(-2.5)} step - x {C(a + w * rng.random())}"
    elif kind == "pwl":
        n = rng.randint(2, 7); xs = sorted(a + w * rng.uniform(-0.1, 1.1) for _ in range(n))
        if len(set(xs)) < n: xs = [a + w * k / (n - 1) for k in range(n)]
        ys = [rng.uniform(-3, 3) * rng.choice([1, 1, 10]) for _ in range(n)]
        fx = f"pwl {n} " + " ".join(f"{hx(u)} {hx(v)}" for u, v in zip(xs, ys)) + " x"
    elif kind == "abs": fx = f"abs - x {C(m)}"
    elif kind == "sin": fx = f"sin * {C(rng.uniform(0.5, 60) / w)} x"
    elif kind == "runge": fx = f"/ c 0x1p+0 + c 0x1p+0 * {C(rng.uniform(1, 400) / (w * w))} * - x {C(m)} - x {C(m)}"
    elif kind == "sqrtabs": fx = f"sqrt abs - x {C(m)}"
    elif kind == "erf": fx = f"erf * {C(rng.uniform(1, 50) / w)} - x {C(m)}"
    elif kind == "tanh": fx = f"tanh * {C(rng.uniform(1, 200) / w)} - x {C(m)}"
    elif kind == "log": fx = f"log abs - x {C(a - w * rng.uniform(0.001, 1))}"
    else: fx = f"* sin * {C(rng.uniform(1, 30) / w)} x exp * {C(rng.uniform(-3, 3) / w)} - x {C(m)}"
    eps = rand_eps(rng, w)
    depth = rng.choice([0, 1, 2, 4, 7, dmax, rng.randint(0, dmax), rng.randint(-3, 0)])
    if rng.random() < 0.4: a, b = b, a
    return a, b, eps, depth, "any", [], fx


def generate(rng, tier):
    cs = []
    big = tier != "quick"
    dmax = 12
    cap = 70000
    def add(op, g, tags):
        if g is None: return
        a, b, eps, depth, fam, params, fx = g
        if depth > 12:      # cost control for deep requests: simulate, fall back to depth 12
            f, _ = parse_fexpr(fx.split(), 0)
            if simulate_count(f, a, b, eps, depth, cap) is None: depth = 12
        tol = None
        if fam == "quintic":
            X = max(abs(a), abs(b)); fmax = sum(abs(c) * X ** k for k, c in enumerate(params))
            tol = (1e-11, 64 * EPS * abs(b - a) * fmax)
        cs.append(Case(fam_line(op, a, b, eps, depth, fam, params, fx), (op, fam) + tuple(tags), tol=tol))
    nq, nr, na = (30000, 30000, 30000) if big else (900, 900, 900)
    for k in range(nq):
        g = gen_quintic(rng, dmax)
        if big and k % 40 == 0: g = g[:3] + (rng.choice([15, 20, 25]),) + g[4:]
        add("int" if k % 10 else rng.choice(["swap", "epssign"]), g, ())
    for k in range(nr):
        g = gen_regular(rng, dmax)
        if big and g and k % 20 == 0: g = g[:3] + (rng.choice([15, 20, 25]),) + g[4:]
        add("int", g, ())
    for k in range(na):
        g = gen_any(rng, dmax)
        if big and k % 40 == 0: g = g[:3] + (rng.choice([15, 20, 25]),) + g[4:]
        add("int" if k % 5 else rng.choice(["swap", "epssign"]), g, ())
    # equal limits, depth <= 0, eps = 0, nan integrand
    for _ in range(200 if big else 40):
        a, b, eps, depth, fam, params, fx = gen_any(rng, dmax)
        cs.append(Case(fam_line("int", a, a, eps, depth, "any", [], fx), ("int", "equal-limits")))
        cs.append(Case(fam_line("int", a, b, eps, rng.choice([0, -1, -7]), "any", [], fx), ("int", "depth<=0")))
        cs.append(Case(fam_line("int", a, b, 0.0, rng.choice([0, 1, 3, 6]), "any", [], fx), ("int", "eps=0")))
        cs.append(Case(fam_line("swap", a, a, eps, depth, "any", [], fx), ("swap", "equal-limits")))
        cs.append(Case(fam_line("findeps", a, b, 10 ** rng.uniform(-12, -1), 0, "any", [], fx).replace(" 0 any", " any", 1), ("findeps",)))
    cs.append(Case(fam_line("int", -1.0, 2.0, 1e-6, 6, "any", [], "log x"), ("int", "nan")))
    cs.append(Case(fam_line("int", 0.0, 1.0, 1e-6, 6, "any", [], "/ c 0x1p+0 x"), ("int", "inf")))
    return cs


# ---------------------------------------------------------------- comparison (traces as multisets)
def _split(line, op):
    """-> list of (value, warn, count, trace tokens) per call"""
    t = line.split()
    if op == "int":
        return [(t[0], t[1], t[2], t[3:])] if len(t) >= 3 else None
    if len(t) != 6: return None
    return [(t[0], t[1], t[2], []), (t[3], t[4], t[5], [])]


def compare(c, io, mo, tol):
    ok, bit, detail = compare_lines(io, mo, tol)
    if ok: return ok, bit, detail
    op = c.line.split()[0]
    if op != "int": return ok, bit, detail
    a, b = _split(io, op), _split(mo, op)
    if not a or not b: return ok, bit, detail
    (v1, w1, n1, t1), (v2, w2, n2, t2) = a[0], b[0]
    ok2, _, d2 = compare_lines(f"{v1} {w1} {n1}", f"{v2} {w2} {n2}", tol)
    if not ok2: return False, False, d2
    if len(t1) != len(t2): return False, False, "trace lengths differ"
    s1 = sorted(tokf(x) for x in t1); s2 = sorted(tokf(x) for x in t2)
    if s1 != s2:
        k = next(i for i, (x, y) in enumerate(zip(s1, s2)) if x != y)
        return False, False, f"evaluation abscissae differ as multisets (sorted position {k}: impl {s1[k]!r} model {s2[k]!r})"
    return True, False, ""


# ---------------------------------------------------------------- S4
def parse_case(line):
    t = line.split(); op = t[0]
    if op == "findeps":
        a, b, p = (tokf(x) for x in t[1:4]); k = 4; eps, depth = p, 0
    else:
        a, b, eps = (tokf(x) for x in t[1:4]); depth = int(t[4]); k = 5
    fam = t[k]; n = int(t[k + 1]); params = [tokf(x) for x in t[k + 2:k + 2 + n]]
    return op, a, b, eps, depth, fam, params, t[k + 2 + n:]


def exact_quintic(cs, a, b):
    A, B = Fraction(a), Fraction(b)
    return sum(Fraction(c) * (B ** (k + 1) - A ** (k + 1)) / (k + 1) for k, c in enumerate(cs))


def analytic(fam, p, a, b):
    """(integral from a to b, max|f| on the interval, condition number of f w.r.t. x) — a<b"""
    if fam == "exp":
        w = p[0]; I = math.exp(w * a) * math.expm1(w * (b - a)) / w
        return I, max(math.exp(w * a), math.exp(w * b)), abs(w) * max(abs(a), abs(b))
    if fam == "cosh":
        w = p[0]; I = 2 * math.cosh(w * (a + b) / 2) * math.sinh(w * (b - a) / 2) / w
        return I, math.cosh(w * max(abs(a), abs(b))), abs(w) * max(abs(a), abs(b))
    if fam == "invpow":
        s, k = p; t = a + s; r = (b - a) / t
        I = t * r if False else (math.log1p(r) if k == 1.0 else t ** (1 - k) * math.expm1((1 - k) * math.log1p(r)) / (1 - k))
        return I, t ** (-k), k * (max(abs(a), abs(b)) + abs(s)) / t
    if fam == "pow":
        q = p[0]; r = (b - a) / a
        I = math.log1p(r) if q == -1.0 else a ** (q + 1) * math.expm1((q + 1) * math.log1p(r)) / (q + 1)
        return I, max(a ** q, b ** q), abs(q)
    return None


def predicates(c, io):
    out = []
    if io.startswith(("CRASH", "SANITIZER", "TIMEOUT", "HARNESSERR")): return out
    op, a, b, eps, depth, fam, params, fx = parse_case(c.line)
    if io.startswith("EXIT"): return [(op + ":exit", "Integrate terminated the process")]
    if op == "findeps": return out
    calls = _split(io, op)
    if not calls: return [(op + ":output", "unexpected output shape")]
    dn = max(depth, 0); lo, hi = min(a, b), max(a, b)
    for (v, w, n, tr) in calls:
        v = tokf(v); n = int(n)
        # count bound, every integrand
        if n > 2 ** (dn + 2) + 1:
            out.append((op + ":count", f"{n} integrand evaluations exceed 2^(depth+2)+1 = {2 ** (dn + 2) + 1}"))
        if a == b and (n != 0 or v != 0.0):
            out.append((op + ":equal-limits", f"equal limits returned {v!r} after {n} evaluations, expected 0 without evaluations"))
        if a != b and n < 5: out.append((op + ":count-min", f"only {n} evaluations for distinct limits"))
        # location bound
        pts = [tokf(x) for x in tr]
        bad = [x for x in pts if not (lo <= x <= hi)]
        if bad: out.append((op + ":location", f"integrand evaluated at {bad[0]!r} outside [{lo!r},{hi!r}]"))
        if len(pts) == n and n and len(set(pts)) < n and hi - lo > 2 ** (dn + 4) * EPS * max(abs(lo), abs(hi)):
            out.append((op + ":distinct", "an abscissa was evaluated twice"))
    if op == "swap":
        (v1, w1, n1, _), (v2, w2, n2, _) = calls
        x1, x2 = tokf(v1), tokf(v2)
        if not ((x1 != x1 and x2 != x2) or x2 == -x1): out.append(("swap:negates", f"Integrate(a,b) = {x1!r} but Integrate(b,a) = {x2!r}"))
        if n1 != n2 or w1 != w2: out.append(("swap:same-work", f"swapped limits changed the evaluation count or warning ({n1},{w1}) vs ({n2},{w2})"))
        return out
    if op == "epssign":
        (v1, w1, n1, _), (v2, w2, n2, _) = calls
        x1, x2 = tokf(v1), tokf(v2)
        if not ((x1 != x1 and x2 != x2) or x1 == x2) or n1 != n2 or w1 != w2:
            out.append(("epssign:irrelevant", f"epsilon and -epsilon give {x1!r} ({n1} evals) vs {x2!r} ({n2} evals)"))
        return out
    v = tokf(calls[0][0]); warn = calls[0][1] == "1"
    if a == b: return out
    X = max(abs(a), abs(b)); wd = abs(b - a)
    if fam == "quintic":
        I = exact_quintic(params, a, b); fmax = sum(abs(cf) * X ** k for k, cf in enumerate(params))
        # a-priori rounding slack (DESIGN 5.3): ~25 eps per leaf relative to h*max|f| (function value, abscissa, panel
        # rule, Richardson) summed over leaves (sum h = |b-a|) + one eps per level of the summation tree; factor >= 2 margin
        slack = (64 + 2 * dn) * EPS * wd * fmax
        if not (abs(Fraction(v) - I) <= Fraction(slack)) if v == v and abs(v) != math.inf else True:
            out.append(("int:quintic-exact", f"polynomial of degree <= 5: returned {v!r}, exact integral {float(I)!r}, difference {float(abs(Fraction(v) - I)) if v == v and abs(v) != math.inf else v!r} > rounding slack {slack!r}"))
    elif fam in ("exp", "cosh", "invpow", "pow"):
        sgn = 1.0 if a < b else -1.0
        I, fmax, kappa = analytic(fam, params, lo, hi); I *= sgn
        slack = (64 + 2 * dn) * EPS * wd * fmax * (1 + kappa) + 16 * EPS * abs(I) * (1 + kappa)
        if not warn and not (abs(v - I) <= 4 * abs(eps) + slack):
            out.append(("int:error-bound", f"{fam} {params}: |result - integral| = {abs(v - I)!r} > 4*|eps| + rounding = {4 * abs(eps) + slack!r} (result {v!r}, integral {I!r}, no warning)"))
    return out


def nontrivial(c, io):
    op = c.line.split()[0]
    if op == "findeps" or io.startswith(("EXIT", "CRASH")): return False
    calls = _split(io, op)
    if not calls: return False
    return any(int(n) > 5 or w == "1" for (_, w, n, _) in calls)
