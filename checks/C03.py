"""C03 — adaptive Simpson integration: Integrate(func, a, b, epsilon, maxRecursionDepth)."""
import math
from fractions import Fraction
from vcheck import Case, hx, parse_vals, compare_lines, tokf

PID = "C03"
EPS = 2.0 ** -53
TRACE_CAP = 520          # harness and driver print the full trace up to this many evaluations, else min/max
RULE = ("one case = one call Integrate(f,a,b,eps,depth) (ops swap/epssign: two calls; op seq: two to six calls of Integrate with explicit "
        "or default depth, of the \"Adaptive-Simpson\" string overload and of Find_Epsilon made in one process); non-trivial = the recursion "
        "tree of at least one call has a split node (more than 5 integrand evaluations) or a leaf forced by the depth limit "
        "(non-convergence warning); distinct by case text")
LEVEL_TEXT = ("Theorems (Coq, over the reals, for all inputs): exactness on every polynomial of degree <= 5 for every epsilon, depth and "
              "pair of limits; swapping the limits negates the value; equal limits give 0 without evaluating; the sign of epsilon is "
              "irrelevant; every evaluation abscissa lies in [min(a,b),max(a,b)] and there are at most 2^(depth+2)+1 of them, for every "
              "integrand; the same for the default depth and for the \"Adaptive-Simpson\" method of the string overload; in a sequence of "
              "calls made in one process every answer is the answer of that call made alone (the model's state is empty, and the "
              "correspondence check runs such sequences through the library). The 4*epsilon error bound is a theorem at full strength (C03_error_bound): for every integrand with four derivatives "
              "on an open interval containing the range whose fourth derivative keeps one sign and varies by at most a factor four, every "
              "depth and epsilon, whenever no non-convergence warning is raised; the remainder of Simpson's rule it rests on is proved "
              "(C03_simpson_remainder), not assumed. Not theorems: 'to rounding' / 'plus rounding' (the theorems are about exact real "
              "arithmetic), and the case of a raised warning (forced leaf), where no bound in epsilon is claimed. For doubles the Gallina "
              "model is the term that is extracted and run against the C++ code on every run (value, warning flag, evaluation count and the "
              "multiset of abscissae, bit for bit), and every clause is also evaluated on the implementation's output (S4) with a-priori "
              "rounding slack.")
LEVEL_NOTE = ("Coq 8.16.1 kernel + Coquelicot; standard-library real-number axioms (listed in the evidence). Hand-written model tied by "
              "differential correspondence (extraction with ExtrOcamlBasic only). The order in which C++ evaluates the two recursive calls "
              "in `ASI(left) + ASI(right)` is unspecified: traces are compared as multisets. The error-bound theorem carries no analytic premise beyond differentiability: "
              "derivatives of orders 1..4 on an open interval containing the integration range and the factor-four bound on the fourth one.")
TOL = (1e-11, 1e-300)
TRUSTED = ["the integrand call-backs are prefix expressions evaluated by harness/common.hpp and ocaml/common.ml with the same libm",
           "the non-convergence warning is observed as the text 'did not converge' on the library's stdout"]
ASSUMPTIONS = ["the 4*eps clause is read as applying when Integrate raises no non-convergence warning (with a forced leaf no bound in terms of eps can hold)"]


# ---------------------------------------------------------------- fexpr evaluation in Python (independent of harness / model)
def _div(a, b):
    try: return a / b
    except ZeroDivisionError:
        if a != a or a == 0: return math.nan
        return math.copysign(math.inf, a) * math.copysign(1.0, b)
def _wrap(fn):
    def g(a):
        try: return fn(a)
        except ValueError: return math.nan
        except OverflowError: return math.inf
    return g
def _pow(a, c):
    try: return math.pow(a, c)
    except ValueError:
        if a == 0 and c < 0:      # pole: C's pow gives +-inf (math.pow raises)
            return -math.inf if (math.copysign(1.0, a) < 0 and c == int(c) and int(c) % 2) else math.inf
        return math.nan
    except OverflowError: return math.inf
def _log(a):
    if a == 0: return -math.inf
    try: return math.log(a)
    except ValueError: return math.nan
_UN = {"neg": lambda a: -a, "exp": _wrap(math.exp), "log": _log, "sin": _wrap(math.sin), "cos": _wrap(math.cos), "atan": math.atan,
       "erf": math.erf, "cosh": _wrap(math.cosh), "tanh": math.tanh, "abs": abs, "sqrt": _wrap(math.sqrt),
       "step": lambda a: 1.0 if a >= 0.0 else 0.0}


def parse_fexpr(t, i):
    """tokens, index -> (python function of x, next index)"""
    o = t[i]
    if o == "x": return (lambda x: x), i + 1
    if o == "c":
        c = tokf(t[i + 1]); return (lambda x: c), i + 2
    if o in "+-*/" and len(o) == 1:
        f, j = parse_fexpr(t, i + 1); g, k = parse_fexpr(t, j)
        if o == "+": return (lambda x: f(x) + g(x)), k
        if o == "-": return (lambda x: f(x) - g(x)), k
        if o == "*": return (lambda x: f(x) * g(x)), k
        return (lambda x: _div(f(x), g(x))), k
    if o == "pow":
        f, j = parse_fexpr(t, i + 1); c = tokf(t[j]); return (lambda x: _pow(f(x), c)), j + 1
    if o == "pwl":
        n = int(t[i + 1]); px = [tokf(t[i + 2 + 2 * k]) for k in range(n)]; py = [tokf(t[i + 3 + 2 * k]) for k in range(n)]
        f, j = parse_fexpr(t, i + 2 + 2 * n)
        def pw(x):
            a = f(x); k = 0
            while k + 2 < n and a >= px[k + 1]: k += 1
            return py[k] + (a - px[k]) * ((py[k + 1] - py[k]) / (px[k + 1] - px[k]))
        return pw, j
    if o in _UN:
        f, j = parse_fexpr(t, i + 1); u = _UN[o]; return (lambda x: u(f(x))), j
    raise ValueError("fexpr op " + o)


def simulate_count(f, a, b, eps, depth, cap):
    """number of integrand evaluations Integrate would make (None when above cap); generator-side cost control only"""
    if a == b: return 0
    if a > b: a, b = b, a
    eps = abs(eps); n = 3
    c = (a + b) / 2; fa, fb, fc = f(a), f(b), f(c); S = (b - a) / 6 * (fa + 4 * fc + fb)
    st = [(a, b, eps, S, fa, fb, fc, max(depth, 0))]
    while st:
        a, b, eps, S, fa, fb, fc, bot = st.pop()
        c = (a + b) / 2; h = b - a; d = (a + c) / 2; e = (b + c) / 2; fd = f(d); fe = f(e); n += 2
        if n > cap: return None
        Sl = h / 12 * (fa + 4 * fd + fc); Sr = h / 12 * (fc + 4 * fe + fb); S2 = Sl + Sr
        if bot <= 0 or abs(S2 - S) <= 15 * eps: continue
        st.append((a, c, eps / 2, Sl, fa, fc, fd, bot - 1)); st.append((c, b, eps / 2, Sr, fc, fb, fe, bot - 1))
    return n


# ---------------------------------------------------------------- generators
def C(v): return "c " + hx(v)
def horner(cs, arg="x"):
    e = C(cs[-1])
    for c in reversed(cs[:-1]): e = f"+ {C(c)} * {arg} {e}"
    return e
def powsum(cs):
    terms = [C(cs[0])] + [f"* {C(c)} " + ("x" if k == 1 else f"pow x {hx(float(k))}") for k, c in enumerate(cs) if k >= 1]
    e = terms[0]
    for t in terms[1:]: e = f"+ {e} {t}"
    return e


def rand_interval(rng, far=False):
    """widths 1e-6..1e3 (the quantifier); location: at / around the origin or |x0| = 1e-3..1e3; with far=True a geometric
    ladder of |x0|/width = 1e0..1e15.5, i.e. down to intervals a few ulps wide (x0 up to ~1e18)"""
    w = 10 ** rng.uniform(-6, 3)
    if far:
        x0 = rng.choice([-1, 1]) * w * 10 ** rng.uniform(0, 15.5)
        if rng.random() < 0.3 and 1 <= abs(x0) < 2 ** 62: x0 = float(round(x0))      # round numbers such as 4e6
        a, b = x0, x0 + w
        if b == a: b = math.nextafter(a, math.inf)
        if rng.random() < 0.15:       # exactly k ulps wide, k = 1, 2, 3, 4, 8, odd / even (width still within 1e-6..1e3)
            a = rng.choice([-1, 1]) * 10 ** rng.uniform(10, 18); b = a
            for _ in range(rng.choice([1, 2, 3, 4, 7, 8, 33, 1024])): b = math.nextafter(b, math.inf)
            if not (1e-6 <= b - a <= 1e3): b = a + min(max(b - a, 1e-6), 1e3)
        return a, b
    r = rng.random()
    if r < 0.25: x0 = 0.0
    elif r < 0.5: x0 = -w * rng.random()          # contains 0
    else: x0 = rng.choice([-1, 1]) * 10 ** rng.uniform(-3, 3)
    a, b = x0, x0 + w
    if b == a: b = math.nextafter(a, math.inf)
    return a, b


def rand_eps(rng, scale=None):
    if scale is not None and scale > 0 and rng.random() < 0.7:
        e = scale * 10 ** rng.uniform(-13, -1)
        e = min(max(e, 1e-18), 1e2)
    else:
        e = 10 ** rng.uniform(-18, 2)
    return e * rng.choice([1, 1, 1, -1])


def fam_text(fam, params, fx):
    return f"{fam} {len(params)} " + " ".join(hx(p) for p in params) + (" " if params else "") + fx


def fam_line(op, a, b, eps, depth, fam, params, fx):
    return f"{op} {hx(a)} {hx(b)} {hx(eps)} {depth} " + fam_text(fam, params, fx)


def gen_quintic(rng, dmax):
    deg = rng.choice([0, 1, 2, 3, 4, 5, 5, 5])
    cs = [(rng.choice([-1, 1]) * 10 ** rng.uniform(-6, 6) if rng.random() < 0.85 else 0.0) if k <= deg else 0.0 for k in range(6)]
    if rng.random() < 0.2: cs = [float(rng.randint(-9, 9)) if k <= deg else 0.0 for k in range(6)]
    a, b = rand_interval(rng)
    X = max(abs(a), abs(b)); fmax = sum(abs(c) * X ** k for k, c in enumerate(cs))
    eps = rand_eps(rng, abs(b - a) * fmax)
    depth = rng.choice([0, 1, 2, 3, 5, 8, dmax, rng.randint(0, dmax)])
    fx = horner(cs) if rng.random() < 0.6 else powsum(cs)
    return a, b, eps, depth, "quintic", cs, fx


def gen_qshift(rng, dmax, far=True):
    """polynomial of degree <= 5 in t = x - s with coefficients on the natural scale of the interval (c_k ~ width^-k), so that
    all six terms matter on a narrow interval far from the origin; s at / near the interval or 0"""
    a, b = rand_interval(rng, far=far)
    w = b - a
    s = rng.choice([a, a, b, (a + b) / 2, a + w * rng.uniform(-2, 3), a - w * 10 ** rng.uniform(0, 3), 0.0])
    deg = rng.choice([0, 1, 2, 3, 4, 5, 5, 5])
    T = max(abs(a - s), abs(b - s), w)
    cs = [(rng.choice([-1, 1]) * 10 ** rng.uniform(-3, 3) / T ** k if rng.random() < 0.85 else 0.0) if k <= deg else 0.0 for k in range(6)]
    if rng.random() < 0.2: cs = [float(rng.randint(-9, 9)) / 4 if k <= deg else 0.0 for k in range(6)]
    cs = [c if abs(c) < 1e250 else 0.0 for c in cs]
    fmax = sum(abs(c) * T ** k for k, c in enumerate(cs))
    eps = rand_eps(rng, w * fmax)
    depth = rng.choice([0, 1, 2, 3, 5, 8, dmax, rng.randint(0, dmax)])
    fx = horner(cs, f"- x {C(s)}")
    if rng.random() < 0.3: a, b = b, a
    return a, b, eps, depth, "qshift", [s] + cs, fx


def gen_regular(rng, dmax, far=False):
    fam = rng.choice(["exp", "cosh", "invpow", "pow"])
    if far and fam == "pow": fam = "exp"
    if fam == "exp":
        a, b = rand_interval(rng, far); w = rng.choice([-1, 1]) * rng.uniform(0.05, 0.999) * math.log(4) / (b - a)
        s = 0.0
        if far: s = rng.choice([a, b, (a + b) / 2])
        elif abs(w) * max(abs(a), abs(b)) > 300:      # keep exp(wx) in range: move the interval towards the origin
            wd = b - a; a = rng.uniform(-1, 1) * 100 / abs(w); b = a + wd
        if far: fx = f"exp * {C(w)} - x {C(s)}"; params = [w, s]
        else: fx = f"exp * {C(w)} x"; params = [w]
        sc = abs(b - a) * max(math.exp(w * (a - s)), math.exp(w * (b - s)))
    elif fam == "cosh":
        a, b = rand_interval(rng, far); w = rng.uniform(0.05, 0.999) * math.log(4) / (b - a)
        s = 0.0
        if far: s = rng.choice([a, b, (a + b) / 2, a + (b - a) * rng.random()])
        X = max(abs(a - s), abs(b - s))
        if a - s < 0 < b - s and rng.random() < 0.7: w = rng.uniform(0.3, 0.999) * math.acosh(4) / X    # the ratio is cosh(wX)/1
        if w * X > 300: w = 300 / X
        if far: fx = f"cosh * {C(w)} - x {C(s)}"; params = [w, s]
        else: fx = f"cosh * {C(w)} x"; params = [w]
        sc = abs(b - a) * math.cosh(w * X)
    elif fam == "invpow":
        k = rng.choice([1.0, 2.0, 3.0, 4.0, 0.5, 1.5, 2.5, rng.uniform(0.1, 6)])
        t = 10 ** rng.uniform(-3, 3); rho = 4 ** (1 / (k + 4))
        wd = t * rng.uniform(0.05, 0.999) * (rho - 1)
        s = rng.choice([0.0, t * rng.uniform(-100, 100), rng.choice([-1, 1]) * 10 ** rng.uniform(-3, 3)])
        if abs(s) > 1e3 * t: s = 0.0
        if far: s = rng.choice([-1, 1]) * t * 10 ** rng.uniform(0, 13)
        a = t - s; b = a + wd
        if not (a + s > 0 and b > a and (b + s) / (a + s) < rho): return None
        fx = f"pow + x {C(s)} {hx(-k)}"; params = [s, k]; sc = abs(b - a) * (a + s) ** (-k)
    else:
        p = rng.choice([4.0, 5.0, 6.0, 7.0, -1.0, -2.0, 0.5, 1.5, 2.5, 3.5, rng.uniform(-3, 8)])
        if p in (0.0, 1.0, 2.0, 3.0): p = 4.5
        a = 10 ** rng.uniform(-3, 3)
        rmax = 1e3 if p == 4.0 else min(1e3, 4 ** (1 / abs(p - 4)))
        b = a * (1 + rng.uniform(0.05, 0.999) * (rmax - 1))
        if b - a > 1e3: b = a + 1e3 * rng.random()
        fx = f"pow x {hx(p)}"; params = [p]; sc = abs(b - a) * max(a ** p, b ** p)
    if rng.random() < 0.5: eps = sc * 10 ** rng.uniform(-12, -2) * rng.choice([1, 1, -1])
    else: eps = rand_eps(rng, sc)
    eps = math.copysign(min(max(abs(eps), 1e-18), 1e2), eps)
    depth = rng.choice([dmax, dmax, dmax, rng.randint(0, dmax)])
    if rng.random() < 0.5: a, b = b, a
    return a, b, eps, depth, fam, params, fx


SMOOTH_KINDS = ["step", "pwl", "abs", "sin", "runge", "sqrtabs", "erf", "tanh", "log", "sinexp", "stepsum"]
SING_KINDS = ["pole-sqrt", "pole-1", "pole-log", "nan-point", "nan-half", "pole-both", "huge"]


def any_fx(rng, kind, a, b):
    """integrand text of the given kind for the (ordered) interval [a,b]"""
    w = b - a; m = a + w * rng.random()
    if kind == "step": return f"step - x {C(m)}"
    if kind == "stepsum": return f"+ step - x {C(m)} * {C(-2.5)} step - x {C(a + w * rng.random())}"
    if kind == "pwl":
        n = rng.randint(2, 7); xs = sorted(a + w * rng.uniform(-0.1, 1.1) for _ in range(n))
        if len(set(xs)) < n: xs = [a + w * k / (n - 1) for k in range(n)]
        if len(set(xs)) < n: return f"abs - x {C(m)}"
        ys = [rng.uniform(-3, 3) * rng.choice([1, 1, 10]) for _ in range(n)]
        return f"pwl {n} " + " ".join(f"{hx(u)} {hx(v)}" for u, v in zip(xs, ys)) + " x"
    if kind == "abs": return f"abs - x {C(m)}"
    if kind == "sin": return f"sin * {C(rng.uniform(0.5, 60) / w)} - x {C(a)}"
    if kind == "runge": return f"/ c 0x1p+0 + c 0x1p+0 * {C(rng.uniform(1, 400) / (w * w))} * - x {C(m)} - x {C(m)}"
    if kind == "sqrtabs": return f"sqrt abs - x {C(m)}"
    if kind == "erf": return f"erf * {C(rng.uniform(1, 50) / w)} - x {C(m)}"
    if kind == "tanh": return f"tanh * {C(rng.uniform(1, 200) / w)} - x {C(m)}"
    if kind == "log": return f"log abs - x {C(a - w * rng.uniform(0.001, 1))}"
    if kind == "sinexp": return f"* sin * {C(rng.uniform(1, 30) / w)} - x {C(a)} exp * {C(rng.uniform(-3, 3) / w)} - x {C(m)}"
    # integrands that are not finite at points the integrator evaluates: the limits, the midpoint, the quarter points
    # (computed with the integrator's own expressions), an eighth point, or a generic interior point
    c = (a + b) / 2; d = (a + c) / 2; e = (b + c) / 2
    p = rng.choice([a, a, b, b, c, d, e, (a + d) / 2, m])
    dist = f"abs - x {C(p)}"
    if kind == "pole-sqrt": return f"pow {dist} {hx(-rng.choice([0.5, 0.25, 0.75]))}"
    if kind == "pole-1": return f"/ {C(rng.choice([-1.0, 1.0, w]))} - x {C(p)}"
    if kind == "pole-log": return f"log {dist}"
    if kind == "nan-point": return f"+ {C(1.0)} / - x {C(p)} - x {C(p)}"            # 0/0 at p only, 2 elsewhere
    if kind == "nan-half": return f"sqrt - x {C(p)}"                               # nan left of p
    if kind == "pole-both": return f"* pow - x {C(a)} {hx(-0.25)} pow - {C(b)} x {hx(-0.25)}"
    return f"* {C(rng.choice([1e300, 1e-300, 1e154, 1e308]))} + {C(1.0)} * {C(1 / w)} - x {C(m)}"   # overflow / underflow of the estimates


def gen_any(rng, dmax, far=False, kinds=None):
    a, b = rand_interval(rng, far)
    kind = rng.choice(kinds or (SMOOTH_KINDS + SMOOTH_KINDS + SING_KINDS))
    fx = any_fx(rng, kind, a, b)
    eps = rand_eps(rng, b - a)
    depth = rng.choice([0, 1, 2, 4, 7, dmax, rng.randint(0, dmax), rng.randint(-3, 0)])
    if rng.random() < 0.4: a, b = b, a
    return a, b, eps, depth, "any", [], fx


# ---------------------------------------------------------------- sequences of calls in one process
DEFAULT_DEPTH = 20


def py_find_epsilon(f, a, b, prec):
    c = (a + b) / 2; h = b - a; fa = f(a); fb = f(b); fc = f(c)
    return prec * ((h / 6) * (fa + 4 * fc + fb))


def gen_seq(rng, dmax, cap):
    """2..6 calls drawn from a small pool of limits (one interval, its reversal, sometimes its left half) and of integrands
    (a polynomial / estimator-regular one whose clauses are evaluated, and others), so that consecutive calls share limits,
    integrand, both or neither; kinds: Find_Epsilon, Integrate with explicit depth, with the default depth, string overload;
    epsilon a number or the value returned by the latest Find_Epsilon (@)"""
    r = rng.random()
    base = None
    while base is None:
        base = (gen_quintic(rng, dmax) if r < 0.3 else gen_qshift(rng, dmax, far=rng.random() < 0.5) if r < 0.5
                else gen_regular(rng, dmax, far=rng.random() < 0.2) if r < 0.8 else gen_any(rng, dmax))
    a, b, eps0, depth0, fam, params, fx = base
    lo, hi = min(a, b), max(a, b)
    limits = [(a, b), (a, b), (b, a)]
    if rng.random() < 0.3 and (lo + hi) / 2 not in (lo, hi): limits.append((lo, (lo + hi) / 2))
    funs = [(fam, params, fx)]
    for _ in range(rng.choice([1, 1, 2])):
        q = rng.random()
        if q < 0.35:
            cs = [rng.uniform(-3, 3) for _ in range(rng.randint(1, 6))]; cs += [0.0] * (6 - len(cs))
            funs.append(("qshift", [lo] + cs, horner(cs, f"- x {C(lo)}")))
        elif q < 0.5: funs.append(("any", [], f"+ {C(10.0)} cos - x {C(lo)}"))
        else: funs.append(("any", [], any_fx(rng, rng.choice(SMOOTH_KINDS + ["pole-sqrt", "huge"]), lo, hi)))
    k = rng.randint(2, 6)
    pattern = rng.random()
    calls = []; last = None; text = []
    for j in range(k):
        la, lb = rng.choice(limits)
        fm, pr, fxx = funs[0] if rng.random() < 0.5 else rng.choice(funs)
        kind = rng.choice(["I", "I", "I", "D", "M", "F", "F"])
        if pattern < 0.35:      # Find_Epsilon on a reference integrand, then Integrate on the same limits (same or other integrand)
            if j == 0: kind = "F"; la, lb = limits[0] if rng.random() < 0.8 else limits[2]
            elif j == 1:
                kind = rng.choice(["I", "I", "D"]); la, lb = calls[0][1], calls[0][2]
                if rng.random() < 0.6: fm, pr, fxx = rng.choice([f for f in funs if f[2] != calls[0][6]] or funs)
        elif pattern < 0.5 and j > 0 and rng.random() < 0.7:     # the previous request again: identical, other depth, other integrand
            pk, pa, pb, pe, pd, pfm, ppr, pfx = calls[-1][:8]
            la, lb = pa, pb
            if rng.random() < 0.5: fm, pr, fxx = pfm, ppr, pfx
            if rng.random() < 0.5: kind = pk
        f, _ = parse_fexpr(fxx.split(), 0)
        if kind == "F":
            prec = 10 ** rng.uniform(-12, -1)
            last = py_find_epsilon(f, la, lb, prec)
            calls.append(("F", la, lb, prec, 0, fm, pr, fxx)); text.append(f"F {hx(la)} {hx(lb)} {hx(prec)} " + fam_text(fm, pr, fxx))
            continue
        use_last = last is not None and rng.random() < 0.6
        eps = last if use_last else (eps0 if rng.random() < 0.5 else rand_eps(rng, hi - lo))
        depth = rng.choice([depth0, 0, 1, 3, 6, dmax])
        if kind in ("D", "M"):     # cost control for the default depth 20: fall back to an explicit depth
            e_eff = py_find_epsilon(f, min(la, lb), max(la, lb), 1e-9) if kind == "M" else eps
            if not (e_eff == e_eff) or simulate_count(f, la, lb, e_eff, DEFAULT_DEPTH, cap) is None: kind = "I"
        et = "@" if use_last else hx(eps)
        if kind == "I": text.append(f"I {hx(la)} {hx(lb)} {et} {depth} " + fam_text(fm, pr, fxx))
        elif kind == "D": text.append(f"D {hx(la)} {hx(lb)} {et} " + fam_text(fm, pr, fxx))
        else: text.append(f"M {hx(la)} {hx(lb)} " + fam_text(fm, pr, fxx))
        calls.append((kind, la, lb, eps, depth, fm, pr, fxx))
    kinds = "".join(c[0] for c in calls)
    return Case(f"seq {len(calls)} " + " ".join(text), ("seq", "seq:" + kinds[:2] + ("+" if len(kinds) > 2 else "")))


def generate(rng, tier):
    cs = []
    big = tier != "quick"
    dmax = 12
    cap = 70000
    def add(op, g, tags):
        if g is None: return
        a, b, eps, depth, fam, params, fx = g
        if depth > 12:      # cost control for deep requests: simulate, fall back to depth 12
            f, _ = parse_fexpr(fx.split(), 0)
            if simulate_count(f, a, b, eps, depth, cap) is None: depth = 12
        tol = None
        if fam == "quintic":
            X = max(abs(a), abs(b)); fmax = sum(abs(c) * X ** k for k, c in enumerate(params))
            tol = (1e-11, 64 * EPS * abs(b - a) * fmax)
        cs.append(Case(fam_line(op, a, b, eps, depth, fam, params, fx), (op, fam) + tuple(tags), tol=tol))
    nq, nr, na = (30000, 30000, 30000) if big else (900, 900, 900)
    for k in range(nq):
        g = gen_quintic(rng, dmax)
        if big and k % 40 == 0: g = g[:3] + (rng.choice([15, 20, 25]),) + g[4:]
        add("int" if k % 10 else rng.choice(["swap", "epssign"]), g, ())
    for k in range(nr):
        g = gen_regular(rng, dmax)
        if big and g and k % 20 == 0: g = g[:3] + (rng.choice([15, 20, 25]),) + g[4:]
        add("int", g, ())
    for k in range(na):
        g = gen_any(rng, dmax)
        if big and k % 40 == 0: g = g[:3] + (rng.choice([15, 20, 25]),) + g[4:]
        add("int" if k % 5 else rng.choice(["swap", "epssign"]), g, ())
    # intervals far from the origin relative to their width (ladder |x0|/width = 1 .. 1e15.5): shifted polynomials,
    # shifted estimator-regular families, arbitrary integrands
    nf = 12000 if big else 500
    for k in range(nf):
        add("int" if k % 10 else rng.choice(["swap", "epssign"]), gen_qshift(rng, dmax, far=k % 4 != 0), ("far",))
    for k in range(nf // 2):
        add("int", gen_regular(rng, dmax, far=True), ("far",))
        add("int" if k % 5 else rng.choice(["swap", "epssign"]), gen_any(rng, dmax, far=True), ("far",))
    # full recursion trees (the evaluation-count bound is attained): eps = 0 / the smallest of the quantifier, depths 0..7, every kind
    # of integrand, half of them not finite somewhere on the grid
    for k in range(6000 if big else 400):
        a, b, eps, depth, fam, params, fx = gen_any(rng, dmax, far=k % 8 == 0, kinds=SING_KINDS if k % 2 else None)
        eps = rng.choice([0.0, 0.0, 1e-18, -1e-18, 5e-324, 1e-300])
        depth = rng.choice([0, 0, 1, 2, 3, 4, 5, 6, 7, -1])
        cs.append(Case(fam_line("int" if k % 6 else rng.choice(["swap", "epssign"]), a, b, eps, depth, "any", [], fx), ("int", "full-tree")))
    # several calls in one process
    for k in range(8000 if big else 500):
        cs.append(gen_seq(rng, dmax, 20000 if big else 3000))
    # equal limits, depth <= 0, eps = 0, nan integrand
    for _ in range(200 if big else 40):
        a, b, eps, depth, fam, params, fx = gen_any(rng, dmax)
        cs.append(Case(fam_line("int", a, a, eps, depth, "any", [], fx), ("int", "equal-limits")))
        cs.append(Case(fam_line("int", a, b, eps, rng.choice([0, -1, -7]), "any", [], fx), ("int", "depth<=0")))
        cs.append(Case(fam_line("int", a, b, 0.0, rng.choice([0, 1, 3, 6]), "any", [], fx), ("int", "eps=0")))
        cs.append(Case(fam_line("swap", a, a, eps, depth, "any", [], fx), ("swap", "equal-limits")))
        cs.append(Case(fam_line("findeps", a, b, 10 ** rng.uniform(-12, -1), 0, "any", [], fx).replace(" 0 any", " any", 1), ("findeps",)))
        cs.append(Case(f"seq 3 M {hx(a)} {hx(a)} any 0 {fx} D {hx(a)} {hx(a)} {hx(eps)} any 0 {fx} I {hx(a)} {hx(a)} {hx(eps)} {depth} any 0 {fx}", ("seq", "equal-limits")))
    cs.append(Case(fam_line("int", -1.0, 2.0, 1e-6, 6, "any", [], "log x"), ("int", "nan")))
    cs.append(Case(fam_line("int", 0.0, 1.0, 1e-6, 6, "any", [], "/ c 0x1p+0 x"), ("int", "inf")))
    return cs


# ---------------------------------------------------------------- comparison (traces as multisets)
def _split(line, op):
    """-> list of (value, warn, count, trace tokens) per call"""
    t = line.split()
    if op == "int":
        return [(t[0], t[1], t[2], t[3:])] if len(t) >= 3 else None
    if op == "seq":
        if len(t) % 5: return None
        return [(t[i], t[i + 1], t[i + 2], t[i + 3:i + 5]) for i in range(0, len(t), 5)]
    if len(t) != 6: return None
    return [(t[0], t[1], t[2], []), (t[3], t[4], t[5], [])]


def compare(c, io, mo, tol):
    ok, bit, detail = compare_lines(io, mo, tol)
    if ok: return ok, bit, detail
    op = c.line.split()[0]
    if op != "int": return ok, bit, detail
    a, b = _split(io, op), _split(mo, op)
    if not a or not b: return ok, bit, detail
    (v1, w1, n1, t1), (v2, w2, n2, t2) = a[0], b[0]
    ok2, _, d2 = compare_lines(f"{v1} {w1} {n1}", f"{v2} {w2} {n2}", tol)
    if not ok2: return False, False, d2
    if len(t1) != len(t2): return False, False, "trace lengths differ"
    s1 = sorted(tokf(x) for x in t1); s2 = sorted(tokf(x) for x in t2)
    if s1 != s2:
        k = next(i for i, (x, y) in enumerate(zip(s1, s2)) if x != y)
        return False, False, f"evaluation abscissae differ as multisets (sorted position {k}: impl {s1[k]!r} model {s2[k]!r})"
    return True, False, ""


# ---------------------------------------------------------------- S4
def parse_family(t, k):
    fam = t[k]; n = int(t[k + 1]); params = [tokf(x) for x in t[k + 2:k + 2 + n]]
    return fam, params, k + 2 + n


def parse_case(line):
    t = line.split(); op = t[0]
    if op == "findeps":
        a, b, p = (tokf(x) for x in t[1:4]); k = 4; eps, depth = p, 0
    else:
        a, b, eps = (tokf(x) for x in t[1:4]); depth = int(t[4]); k = 5
    fam, params, k = parse_family(t, k)
    return op, a, b, eps, depth, fam, params, t[k:]


def parse_seq(line):
    """-> list of (kind, a, b, eps-or-'@'-or-precision, depth, fam, params, fexpr tokens)"""
    t = line.split(); n = int(t[1]); i = 2; out = []
    for _ in range(n):
        kind = t[i]; a = tokf(t[i + 1]); b = tokf(t[i + 2]); i += 3
        eps = None; depth = DEFAULT_DEPTH
        if kind in ("I", "D"):
            eps = "@" if t[i] == "@" else tokf(t[i]); i += 1
        if kind == "I": depth = int(t[i]); i += 1
        if kind == "F": eps = tokf(t[i]); i += 1
        fam, params, i = parse_family(t, i)
        _, j = parse_fexpr(t, i)
        out.append((kind, a, b, eps, depth, fam, params, t[i:j])); i = j
    return out


def exact_quintic(cs, a, b, s=0.0):
    A, B = Fraction(a) - Fraction(s), Fraction(b) - Fraction(s)
    return sum(Fraction(c) * (B ** (k + 1) - A ** (k + 1)) / (k + 1) for k, c in enumerate(cs))


def analytic(fam, p, a, b):
    """(integral from a to b, max|f| on the interval, condition number of f w.r.t. x) — a<b"""
    if fam == "exp":
        w = p[0]; s = p[1] if len(p) > 1 else 0.0
        I = math.exp(w * (a - s)) * math.expm1(w * (b - a)) / w
        return I, max(math.exp(w * (a - s)), math.exp(w * (b - s))), abs(w) * max(abs(a), abs(b))
    if fam == "cosh":
        w = p[0]; s = p[1] if len(p) > 1 else 0.0
        I = 2 * math.cosh(w * ((a - s) + (b - s)) / 2) * math.sinh(w * (b - a) / 2) / w
        return I, math.cosh(w * max(abs(a - s), abs(b - s))), abs(w) * max(abs(a), abs(b))
    if fam == "invpow":
        s, k = p; t = a + s; r = (b - a) / t
        I = (math.log1p(r) if k == 1.0 else t ** (1 - k) * math.expm1((1 - k) * math.log1p(r)) / (1 - k))
        return I, t ** (-k), k * (max(abs(a), abs(b)) + abs(s)) / t
    if fam == "pow":
        q = p[0]; r = (b - a) / a
        I = math.log1p(r) if q == -1.0 else a ** (q + 1) * math.expm1((q + 1) * math.log1p(r)) / (q + 1)
        return I, max(a ** q, b ** q), abs(q)
    return None


def value_preds(op, a, b, eps, dn, fam, params, v, warn, leaves):
    """the clauses about the returned value of one call Integrate(f,a,b,eps,depth>=0 = dn), a != b.
    A-priori rounding slack (DESIGN 5.3), relative to h*max|f| per leaf and summed over the leaves (sum h = |b-a|):
      ~25 eps per leaf (function value, abscissae, panel rule, Richardson) + one eps per level of the summation tree, factor >= 2
      margin: (64 + 2 dn) eps |b-a| max|f|;
      the abscissae are rounded with an absolute error up to eps*X (X = max(|a|,|b|)), which moves the nodes of a panel: (64 + 2 dn) eps
      |b-a| X max|f'| (for a polynomial in x itself X max|f'| <= 5 sum |c_k| X^k, already contained in the first term);
      a leaf whose sibling was split inherits the coarse estimate S = (h/12)(..) of its parent, computed with the parent's h/2 while
      its own width is h/2 + delta, |delta| <= eps*X, the rounding error of the parent's midpoint: S is off by delta*mean(f), the
      returned S2 + (S2 - S)/15 by delta*mean(f)/15 <= eps X max|f| / 15 for each such leaf (`leaves` = number of leaves of the tree,
      (count-1)/4; nothing is inherited when the tree is a single leaf)."""
    out = []
    X = max(abs(a), abs(b)); wd = abs(b - a)
    inh = (leaves if leaves > 1 else 0) * EPS * X / 15
    fin = v == v and abs(v) != math.inf
    if fam in ("quintic", "qshift"):
        s, cs = (0.0, params) if fam == "quintic" else (params[0], params[1:])
        I = exact_quintic(cs, a, b, s)
        T = max(abs(a - s), abs(b - s))
        fmax = sum(abs(cf) * T ** k for k, cf in enumerate(cs))
        dfmax = sum(k * abs(cf) * T ** (k - 1) for k, cf in enumerate(cs) if k >= 1)
        slack = (64 + 2 * dn) * EPS * wd * (fmax + (X * dfmax if fam == "qshift" else 0.0)) + inh * fmax
        if not (slack == slack and slack != math.inf): return out
        if not fin or not (abs(Fraction(v) - I) <= Fraction(slack)):
            out.append((op + ":quintic-exact", f"polynomial of degree <= 5: returned {v!r}, exact integral {float(I)!r}, difference {float(abs(Fraction(v) - I)) if fin else v!r} > rounding slack {slack!r}"))
    elif fam in ("exp", "cosh", "invpow", "pow"):
        lo, hi = min(a, b), max(a, b)
        sgn = 1.0 if a < b else -1.0
        I, fmax, kappa = analytic(fam, params, lo, hi); I *= sgn
        slack = (64 + 2 * dn) * EPS * wd * fmax * (1 + kappa) + 16 * EPS * abs(I) * (1 + kappa) + inh * fmax
        if not warn and not (abs(v - I) <= 4 * abs(eps) + slack):
            out.append((op + ":error-bound", f"{fam} {params}: |result - integral| = {abs(v - I)!r} > 4*|eps| + rounding = {4 * abs(eps) + slack!r} (result {v!r}, integral {I!r}, no warning)"))
    return out


def predicates(c, io):
    out = []
    if io.startswith(("CRASH", "SANITIZER", "TIMEOUT", "HARNESSERR")): return out
    if c.line.startswith("seq "): return seq_predicates(c, io)
    op, a, b, eps, depth, fam, params, fx = parse_case(c.line)
    if io.startswith("EXIT"): return [(op + ":exit", "Integrate terminated the process")]
    if op == "findeps": return out
    calls = _split(io, op)
    if not calls: return [(op + ":output", "unexpected output shape")]
    dn = max(depth, 0); lo, hi = min(a, b), max(a, b)
    for (v, w, n, tr) in calls:
        v = tokf(v); n = int(n)
        # count bound, every integrand
        if n > 2 ** (dn + 2) + 1:
            out.append((op + ":count", f"{n} integrand evaluations exceed 2^(depth+2)+1 = {2 ** (dn + 2) + 1}"))
        if a == b and (n != 0 or v != 0.0):
            out.append((op + ":equal-limits", f"equal limits returned {v!r} after {n} evaluations, expected 0 without evaluations"))
        if a != b and n < 5: out.append((op + ":count-min", f"only {n} evaluations for distinct limits"))
        # location bound
        pts = [tokf(x) for x in tr]
        bad = [x for x in pts if not (lo <= x <= hi)]
        if bad: out.append((op + ":location", f"integrand evaluated at {bad[0]!r} outside [{lo!r},{hi!r}]"))
        if len(pts) == n and n and len(set(pts)) < n and hi - lo > 2 ** (dn + 4) * EPS * max(abs(lo), abs(hi)):
            out.append((op + ":distinct", "an abscissa was evaluated twice"))
    if op == "swap":
        (v1, w1, n1, _), (v2, w2, n2, _) = calls
        x1, x2 = tokf(v1), tokf(v2)
        if not ((x1 != x1 and x2 != x2) or x2 == -x1): out.append(("swap:negates", f"Integrate(a,b) = {x1!r} but Integrate(b,a) = {x2!r}"))
        if n1 != n2 or w1 != w2: out.append(("swap:same-work", f"swapped limits changed the evaluation count or warning ({n1},{w1}) vs ({n2},{w2})"))
    if op == "epssign":
        (v1, w1, n1, _), (v2, w2, n2, _) = calls
        x1, x2 = tokf(v1), tokf(v2)
        if not ((x1 != x1 and x2 != x2) or x1 == x2) or n1 != n2 or w1 != w2:
            out.append(("epssign:irrelevant", f"epsilon and -epsilon give {x1!r} ({n1} evals) vs {x2!r} ({n2} evals)"))
    if a == b: return out
    # value clauses on the first call (the requested a, b, eps)
    v = tokf(calls[0][0]); warn = calls[0][1] == "1"; n = int(calls[0][2])
    out += value_preds("int", a, b, eps, dn, fam, params, v, warn, max((n - 1) // 4, 1))
    return out


def seq_predicates(c, io):
    """every call of a sequence must satisfy the clauses of a single call (whatever was called before it in the process)"""
    out = []
    if io.startswith("EXIT"): return [("seq:exit", "the library terminated the process")]
    reqs = parse_seq(c.line); res = _split(io, "seq")
    if not res or len(res) != len(reqs): return [("seq:output", "unexpected output shape")]
    last = 0.0; seen = {}
    for j, ((kind, a, b, eps, depth, fam, params, fx), (v, w, n, mm)) in enumerate(zip(reqs, res)):
        v = tokf(v); n = int(n); warn = w == "1"; pmin, pmax = tokf(mm[0]), tokf(mm[1])
        lo, hi = min(a, b), max(a, b); tag = f"seq:{kind}"
        where = f"call {j + 1} ({kind}) of the sequence: "
        if n and not (lo <= pmin and pmax <= hi):
            out.append((tag + ":location", where + f"integrand evaluated in [{pmin!r},{pmax!r}], outside [{lo!r},{hi!r}]"))
        if kind == "F":
            last = v
            if n != 3: out.append((tag + ":count", where + f"Find_Epsilon made {n} evaluations"))
            continue
        if eps == "@": eps = last
        dn = max(depth, 0)
        extra = 3 if kind == "M" else 0           # the string overload evaluates a, b, midpoint in Find_Epsilon first
        bound = 2 ** (dn + 2) + 1 + extra
        if a == b:
            if n != 0 or v != 0.0: out.append((tag + ":equal-limits", where + f"equal limits returned {v!r} after {n} evaluations"))
            continue
        if n > bound: out.append((tag + ":count", where + f"{n} integrand evaluations exceed the bound {bound}"))
        if n < 5: out.append((tag + ":count-min", where + f"only {n} evaluations for distinct limits"))
        if kind == "M":
            f, _ = parse_fexpr(fx, 0); eps = py_find_epsilon(f, lo, hi, 1e-9)
        if eps == eps:
            for sig, msg in value_preds(tag, a, b, eps, dn, fam, params, v, warn, max((n - extra - 1) // 4, 1)):
                out.append((sig, where + msg))
        # the same request made twice in one process must be answered identically; reversed limits negate
        key = (kind, lo, hi, abs(eps) if eps == eps else "nan", dn, " ".join(fx))
        if key in seen:
            (pa, pv, pw, pn) = seen[key]
            want = pv if pa == a else -pv
            if not ((v != v and want != want) or v == want) or pn != n or pw != warn:
                out.append((tag + ":repeat", where + f"the same request was answered {pv!r} ({pn} evaluations) earlier in the process and {v!r} ({n} evaluations) now" + ("" if pa == a else " (limits reversed: expected the negative)")))
        else: seen[key] = (a, v, warn, n)
    return out


def nontrivial(c, io):
    op = c.line.split()[0]
    if op == "findeps" or io.startswith(("EXIT", "CRASH")): return False
    calls = _split(io, op)
    if not calls: return False
    return any(int(n) > 5 or w == "1" for (_, w, n, _) in calls)
