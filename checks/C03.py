"""C03 — adaptive Simpson integration: Integrate(func, a, b, epsilon, maxRecursionDepth)."""
import math
from fractions import Fraction
from vcheck import Case, hx, parse_vals, compare_lines, tokf

PID = "C03"
EPS = 2.0 ** -53
TRACE_CAP = 520          # harness and driver print the full trace up to this many evaluations, else min/max
RULE = ("one case = one call Integrate(f,a,b,eps,depth) (ops swap/epssign: two calls; op diag: one call with all its notices; op named: one call of the string overload "
        "with an arbitrary method name, non-trivial when it is answered after more than 8 evaluations; ops i2d / i3d: one call of Integrate_2D / Integrate_3D with method "
        "Adaptive-Simpson, non-trivial when some call of the nest splits (more than 64 / 512 evaluations) or warns; op seq: two to eight calls of Integrate with explicit "
        "or default depth, of the \"Adaptive-Simpson\" string overload and of Find_Epsilon made in one process, some of them abandoned by "
        "their integrand (calls of every kind, abandoned at any of their evaluations, followed by a request made in both orientations of its limits; "
        "calls of the other methods of the string overload in between, for the history only), with unrelated limits, the same limits, or limits that abut / share an end with those of the call before; op nest: one call whose integrand itself calls the integrator at every abscissa); non-trivial = the recursion "
        "tree of at least one (outer) call has a split node (more than 5 integrand evaluations) or a leaf forced by the depth limit "
        "(non-convergence warning); distinct by case text")
LEVEL_TEXT = ("Theorems (Coq, over the reals, for all inputs): exactness on every polynomial of degree <= 5 for every epsilon, depth and "
              "pair of limits; swapping the limits negates the value; equal limits give 0 without evaluating; the sign of epsilon is "
              "irrelevant; every evaluation abscissa lies in [min(a,b),max(a,b)] and there are at most 2^(depth+2)+1 of them, for every "
              "integrand; the same for the default depth and for the \"Adaptive-Simpson\" method of the string overload; in a sequence of "
              "calls made in one process every answer is the answer of that call made alone (the model's state is empty, and the "
              "correspondence check runs such sequences through the library, including calls that their integrand abandons by an exception, "
              "and chains of calls whose limits abut exactly or share an end, each with its own integrand: C03_piecewise_quintic_exact, "
              "C03_abutting_pieces_additive); "
              "an integrand that itself calls the integrator (re-entrant use, as Integrate_2D does) is an ordinary integrand for the outer call "
              "and each inner call obeys its own count and location bounds and returns what it returns when made alone (C03_reentrant_outer, "
              "C03_reentrant_inner; checked on the library by running nested requests and repeating every inner request outside the outer call). The 4*epsilon error bound is a theorem at full strength (C03_error_bound): for every integrand with four derivatives "
              "on an open interval containing the range whose fourth derivative keeps one sign and varies by at most a factor four, every "
              "depth and epsilon, whenever no non-convergence warning is raised; the remainder of Simpson's rule it rests on is proved "
              "(C03_simpson_remainder), not assumed. The case of a raised warning (a panel forced by the depth limit) is covered by theorems too "
              "(coq/C03_Proofs_Post.v, same regularity premises, over the reals): for EVERY depth and epsilon, warning or not, "
              "|value - integral| <= 4|eps| + |b-a|^5 m / (14400 * 16^depth) with m the lower bound of |f4| (fourth derivative) (C03_error_bound_any_depth; with eps = 0 the "
              "convergence rate in the depth; evaluated on the library's answers that carry the warning as int:error-bound-forced with max|f4| (fourth derivative) in place of m); "
              "when |b-a|^5 m <= 10800 |eps| 16^depth no warning can be raised and the 4|eps| bound holds unconditionally "
              "(C03_sufficient_depth_no_warning; evaluated on the library as :warning-unjustified - a warning on a request whose depth suffices by this criterion, "
              "with a-priori rounding slack, is a violation); the clause read literally, without the proviso about the warning, is false of the rule as coded "
              "(C03_error_bound_without_warning_refuted: x^6 on [1,2], epsilon 1e-6, depth 0, error 1/2688; replayed on the library, which prints its warning); "
              "for a fourth derivative varying by a factor r, 1 <= r < 16, the bound without warning is 16(r-1)/(16-r)|eps| (C03_error_bound_general_ratio; "
              "r = 4 is the property's clause); a-posteriori the error is at most 4/15 of the sum of the discrepancies |S2-S| of the final panels "
              "(C03_error_bound_posterior); for every integrand the warning is raised exactly when some panel of width |b-a|/2^depth reached with "
              "the depth exhausted fails the test against 15|eps|/2^depth (C03_warning_iff_forced_failure); for every integrand no abscissa is "
              "evaluated twice (C03_eval_points_distinct; evaluated on the library's traces as :distinct); Find_Epsilon is precision times the "
              "integral on cubics and antisymmetric in the limits (C03_find_epsilon). Not theorems: 'to rounding' / 'plus rounding' (the theorems are about exact real "
              "arithmetic). For doubles the Gallina "
              "model is the term that is extracted and run against the C++ code on every run (value, warning flag, evaluation count and the "
              "multiset of abscissae, bit for bit), and every clause is also evaluated on the implementation's output (S4) with a-priori "
              "rounding slack. "
              "Theorems for EVERY arithmetic (model over an arbitrary number type and arbitrary operations, hence also for the extracted double "
              "instance with rounding, infinities and NaN integrand values; coq/C03_Proofs_Arith.v): the evaluation count is at most 2^(depth+2)+1 "
              "with no premise at all (C03_eval_count_any_arithmetic) and has the form 4L+1, 1 <= L <= 2^depth (C03_eval_count_shape; 4L+4 for the "
              "string overload, C03_method_count_shape) - the check evaluates this shape on every count the library reports; swapping two limits "
              "that are ordered one way negates the rounded value exactly - same bits, sign flipped - with the same warning and abscissae, given only "
              "(-1)*r = -(1*r) and --r = r (C03_swap_negates_any_arithmetic); limits comparing equal give zero without an evaluation "
              "(C03_equal_limits_any_arithmetic); the sign of epsilon is irrelevant given |-e| = |e| (C03_eps_sign_any_arithmetic); every abscissa "
              "lies between the ordered limits in every transitive order in which the rounded midpoint of two ordered numbers stays between them "
              "(C03_eval_points_inside_any_order; for doubles this premise holds when a+b does not overflow - it is a premise, not proved about "
              "IEEE arithmetic); sequences in which calls are abandoned by their integrand are part of the extracted model (run_seq_ab) and every "
              "request is answered as the call made alone or not at all (C03_history_free_with_abandoned_calls, C03_abandoned_calls_pointwise). "
              "Over the reals in addition: the 4*epsilon bound for the string overload with the tolerance it chooses itself "
              "(C03_method_error_bound) and at any position of a call sequence (C03_error_bound_after_any_history); and the refinement of Integrate to a "
              "simple specification (C03_integrate_is_composite_rule): for distinct limits the value is +-1 times the sum, over the panels on which the "
              "recursion stops, of the five-point value S2+(S2-S)/15, these panels abut, tile the ordered interval and are the interval halved "
              "k <= depth times, and the integrand is evaluated four times per panel plus once. A-priori size of the estimates over the reals (C03_leaf_value_bounded, C03_value_bounded): for an integrand bounded by M every estimate is at most |b-a| M, "
              "S2 - S at most 2 |b-a| M, every accepted value and the returned value at most (17/15) |b-a| M - the check uses these bounds to decide from the request whether an "
              "intermediate of the rule as written can reach the largest double; polynomials whose values, estimates and integral lie anywhere below that (ladder DBL_MAX * 2^-j) "
              "are held to exactness, beyond it the library returns NaN for representable integrals (known finding K-C03-1). Seventh pass (coq/C03_Model2.v, coverage/C03.md): everything Integrate writes is in the model and compared on every run "
              "(op diag: swap notice of Check_Integration_Limits on stderr, non-convergence warning, 'Result is nan.' / 'Result is inf.' notices) - the report's value part IS integrate "
              "in every arithmetic (C03_report_is_integrate), the swap notice is printed exactly for a > b and by exactly one of the two orientations (C03_swap_notice), the nan and inf "
              "notices exclude each other (C03_diag_exclusive), and over the reals no inf notice is possible when (17/15)|b-a| max|f| <= DBL_MAX (C03_diag_real); the method guard of the "
              "string overload (op named: an unrecognised name ends the process, C03_method_guard); Integrate_2D and Integrate_3D with method \"Adaptive-Simpson\" are model terms "
              "(integrate_2d, integrate_3d: the string overload nested in itself; ops i2d, i3d, bit for bit): every point at which a 2D integrand is evaluated lies in the closed rectangle, "
              "at most (2^22+4)^2 of them (C03_2d_points_inside_and_count, C03_2d_points_any_arithmetic), and Integrate_2D is exact on polynomials of degree <= 5 in each variable "
              "(C03_2d_quintic_exact; evaluated on the library with a-priori slack as i2d:quintic-exact, i3d:quintic-exact). Still only tested, not "
              "proved: how far the rounded value of a polynomial's integral is from the exact one (the 'to rounding' part), and that the laws "
              "named as premises hold for the C++ double operations.")
LEVEL_NOTE = ("Coq 8.16.1 kernel + Coquelicot; standard-library real-number axioms (listed in the evidence). Hand-written model tied by "
              "differential correspondence (extraction with ExtrOcamlBasic only). The order in which C++ evaluates the two recursive calls "
              "in `ASI(left) + ASI(right)` is unspecified: traces are compared as multisets. The error-bound theorem carries no analytic premise beyond differentiability: "
              "derivatives of orders 1..4 on an open interval containing the integration range and the factor-four bound on the fourth one.")
TOL = (1e-11, 1e-300)
TRUSTED = ["std::isnan is the nisnan operation of the number type, std::isinf(x) is modelled by its specification |x| > DBL_MAX; the notices are observed as the texts "
           "'Sign will get swapped', 'Result is nan', 'Result is inf' in the output of the process; the numbers printed inside the warning (Round) are not compared",
           "the method name of the string overload is compared by the driver (Adaptive-Simpson / one of the five other recognised names / anything else); the recognised "
           "other methods are not called by op named unless the limits are equal",
           "calls of the other methods of the string overload (Trapezoidal, Gauss-Legendre, Gauss-Kronrod, Gauss-Legendre_2) are made between the "
           "calls of a sequence for the history only; their answers are neither modelled nor compared (Tanh-Sinh is left out: boost aborts on intervals a few ulps wide)",
           "the integrand call-backs are prefix expressions evaluated by harness/common.hpp and ocaml/common.ml with the same libm",
           "the non-convergence warning is observed as the text 'did not converge' on the library's stdout; for an integrand that calls the "
           "integrator itself the harness reads and then discards what the inner call printed, so that only the outer call's warning remains",
           "a nested request whose outer integrand is evaluated more than 256 times beyond the bound of the property is stopped by the harness "
           "(exception thrown by the integrand) and reported with the count reached"]
ASSUMPTIONS = ["the 4*eps clause is read as applying when Integrate raises no non-convergence warning (with a forced leaf no bound in terms of eps alone can hold; "
               "what holds then is C03_error_bound_any_depth: 4|eps| + |b-a|^5 m / (14400 16^depth))"]


# ---------------------------------------------------------------- fexpr evaluation in Python (independent of harness / model)
def _div(a, b):
    try: return a / b
    except ZeroDivisionError:
        if a != a or a == 0: return math.nan
        return math.copysign(math.inf, a) * math.copysign(1.0, b)
def _wrap(fn):
    def g(a):
        try: return fn(a)
        except ValueError: return math.nan
        except OverflowError: return math.inf
    return g
def _pow(a, c):
    try: return math.pow(a, c)
    except ValueError:
        if a == 0 and c < 0:      # pole: C's pow gives +-inf (math.pow raises)
            return -math.inf if (math.copysign(1.0, a) < 0 and c == int(c) and int(c) % 2) else math.inf
        return math.nan
    except OverflowError: return math.inf
def _log(a):
    if a == 0: return -math.inf
    try: return math.log(a)
    except ValueError: return math.nan
_UN = {"neg": lambda a: -a, "exp": _wrap(math.exp), "log": _log, "sin": _wrap(math.sin), "cos": _wrap(math.cos), "atan": math.atan,
       "erf": math.erf, "cosh": _wrap(math.cosh), "tanh": math.tanh, "abs": abs, "sqrt": _wrap(math.sqrt),
       "step": lambda a: 1.0 if a >= 0.0 else 0.0}


def _parse(t, i):
    """tokens, index -> (python function of the list [x, y], next index)"""
    o = t[i]
    if o == "x": return (lambda v: v[0]), i + 1
    if o == "y": return (lambda v: v[1]), i + 1
    if o == "c":
        c = tokf(t[i + 1]); return (lambda v: c), i + 2
    if o in "+-*/" and len(o) == 1:
        f, j = _parse(t, i + 1); g, k = _parse(t, j)
        if o == "+": return (lambda v: f(v) + g(v)), k
        if o == "-": return (lambda v: f(v) - g(v)), k
        if o == "*": return (lambda v: f(v) * g(v)), k
        return (lambda v: _div(f(v), g(v))), k
    if o == "pow":
        f, j = _parse(t, i + 1); c = tokf(t[j]); return (lambda v: _pow(f(v), c)), j + 1
    if o == "pwl":
        n = int(t[i + 1]); px = [tokf(t[i + 2 + 2 * k]) for k in range(n)]; py = [tokf(t[i + 3 + 2 * k]) for k in range(n)]
        f, j = _parse(t, i + 2 + 2 * n)
        def pw(v):
            a = f(v); k = 0
            while k + 2 < n and a >= px[k + 1]: k += 1
            return py[k] + (a - px[k]) * ((py[k + 1] - py[k]) / (px[k + 1] - px[k]))
        return pw, j
    if o in _UN:
        f, j = _parse(t, i + 1); u = _UN[o]; return (lambda v: u(f(v))), j
    raise ValueError("fexpr op " + o)


def parse_fexpr(t, i):
    """tokens, index -> (python function of x, next index)"""
    f, j = _parse(t, i)
    return (lambda x: f((x, 0.0))), j


def parse_fexpr2(t, i):
    """tokens, index -> (python function of x and y, next index)"""
    f, j = _parse(t, i)
    return (lambda x, y: f((x, y))), j


def simulate_count(f, a, b, eps, depth, cap):
    """number of integrand evaluations Integrate would make (None when above cap); generator-side cost control only"""
    if a == b: return 0
    if a > b: a, b = b, a
    eps = abs(eps); n = 3
    c = (a + b) / 2; fa, fb, fc = f(a), f(b), f(c); S = (b - a) / 6 * (fa + 4 * fc + fb)
    st = [(a, b, eps, S, fa, fb, fc, max(depth, 0))]
    while st:
        a, b, eps, S, fa, fb, fc, bot = st.pop()
        c = (a + b) / 2; h = b - a; d = (a + c) / 2; e = (b + c) / 2; fd = f(d); fe = f(e); n += 2
        if n > cap: return None
        Sl = h / 12 * (fa + 4 * fd + fc); Sr = h / 12 * (fc + 4 * fe + fb); S2 = Sl + Sr
        if bot <= 0 or abs(S2 - S) <= 15 * eps: continue
        st.append((a, c, eps / 2, Sl, fa, fc, fd, bot - 1)); st.append((c, b, eps / 2, Sr, fc, fb, fe, bot - 1))
    return n


# ---------------------------------------------------------------- generators
def C(v): return "c " + hx(v)
def horner(cs, arg="x"):
    e = C(cs[-1])
    for c in reversed(cs[:-1]): e = f"+ {C(c)} * {arg} {e}"
    return e
def powsum(cs):
    terms = [C(cs[0])] + [f"* {C(c)} " + ("x" if k == 1 else f"pow x {hx(float(k))}") for k, c in enumerate(cs) if k >= 1]
    e = terms[0]
    for t in terms[1:]: e = f"+ {e} {t}"
    return e


def rand_interval(rng, far=False):
    """widths 1e-6..1e3 (the quantifier); location: at / around the origin or |x0| = 1e-3..1e3; with far=True a geometric
    ladder of |x0|/width = 1e0..1e15.5, i.e. down to intervals a few ulps wide (x0 up to ~1e18)"""
    w = 10 ** rng.uniform(-6, 3)
    if far:
        x0 = rng.choice([-1, 1]) * w * 10 ** rng.uniform(0, 15.5)
        if rng.random() < 0.3 and 1 <= abs(x0) < 2 ** 62: x0 = float(round(x0))      # round numbers such as 4e6
        a, b = x0, x0 + w
        if b == a: b = math.nextafter(a, math.inf)
        if rng.random() < 0.15:       # exactly k ulps wide, k = 1, 2, 3, 4, 8, odd / even (width still within 1e-6..1e3)
            a = rng.choice([-1, 1]) * 10 ** rng.uniform(10, 18); b = a
            for _ in range(rng.choice([1, 2, 3, 4, 7, 8, 33, 1024])): b = math.nextafter(b, math.inf)
            if not (1e-6 <= b - a <= 1e3): b = a + min(max(b - a, 1e-6), 1e3)
        return a, b
    r = rng.random()
    if r < 0.25: x0 = 0.0
    elif r < 0.5: x0 = -w * rng.random()          # contains 0
    else: x0 = rng.choice([-1, 1]) * 10 ** rng.uniform(-3, 3)
    a, b = x0, x0 + w
    if b == a: b = math.nextafter(a, math.inf)
    return a, b


def rand_eps(rng, scale=None):
    if scale is not None and scale > 0 and rng.random() < 0.7:
        e = scale * 10 ** rng.uniform(-13, -1)
        e = min(max(e, 1e-18), 1e2)
    else:
        e = 10 ** rng.uniform(-18, 2)
    return e * rng.choice([1, 1, 1, -1])


def fam_text(fam, params, fx):
    return f"{fam} {len(params)} " + " ".join(hx(p) for p in params) + (" " if params else "") + fx


def fam_line(op, a, b, eps, depth, fam, params, fx):
    return f"{op} {hx(a)} {hx(b)} {hx(eps)} {depth} " + fam_text(fam, params, fx)


def gen_quintic(rng, dmax):
    deg = rng.choice([0, 1, 2, 3, 4, 5, 5, 5])
    cs = [(rng.choice([-1, 1]) * 10 ** rng.uniform(-6, 6) if rng.random() < 0.85 else 0.0) if k <= deg else 0.0 for k in range(6)]
    if rng.random() < 0.2: cs = [float(rng.randint(-9, 9)) if k <= deg else 0.0 for k in range(6)]
    a, b = rand_interval(rng)
    X = max(abs(a), abs(b)); fmax = sum(abs(c) * X ** k for k, c in enumerate(cs))
    eps = rand_eps(rng, abs(b - a) * fmax)
    depth = rng.choice([0, 1, 2, 3, 5, 8, dmax, rng.randint(0, dmax)])
    fx = horner(cs) if rng.random() < 0.6 else powsum(cs)
    return a, b, eps, depth, "quintic", cs, fx


def gen_qshift(rng, dmax, far=True):
    """polynomial of degree <= 5 in t = x - s with coefficients on the natural scale of the interval (c_k ~ width^-k), so that
    all six terms matter on a narrow interval far from the origin; s at / near the interval or 0"""
    a, b = rand_interval(rng, far=far)
    w = b - a
    s = rng.choice([a, a, b, (a + b) / 2, a + w * rng.uniform(-2, 3), a - w * 10 ** rng.uniform(0, 3), 0.0])
    deg = rng.choice([0, 1, 2, 3, 4, 5, 5, 5])
    T = max(abs(a - s), abs(b - s), w)
    cs = [(rng.choice([-1, 1]) * 10 ** rng.uniform(-3, 3) / T ** k if rng.random() < 0.85 else 0.0) if k <= deg else 0.0 for k in range(6)]
    if rng.random() < 0.2: cs = [float(rng.randint(-9, 9)) / 4 if k <= deg else 0.0 for k in range(6)]
    cs = [c if abs(c) < 1e250 else 0.0 for c in cs]
    fmax = sum(abs(c) * T ** k for k, c in enumerate(cs))
    eps = rand_eps(rng, w * fmax)
    depth = rng.choice([0, 1, 2, 3, 5, 8, dmax, rng.randint(0, dmax)])
    fx = horner(cs, f"- x {C(s)}")
    if rng.random() < 0.3: a, b = b, a
    return a, b, eps, depth, "qshift", [s] + cs, fx


def gen_regular(rng, dmax, far=False):
    fam = rng.choice(["exp", "cosh", "invpow", "pow"])
    if far and fam == "pow": fam = "exp"
    if fam == "exp":
        a, b = rand_interval(rng, far); w = rng.choice([-1, 1]) * rng.uniform(0.05, 0.999) * math.log(4) / (b - a)
        s = 0.0
        if far: s = rng.choice([a, b, (a + b) / 2])
        elif abs(w) * max(abs(a), abs(b)) > 300:      # keep exp(wx) in range: move the interval towards the origin
            wd = b - a; a = rng.uniform(-1, 1) * 100 / abs(w); b = a + wd
        if far: fx = f"exp * {C(w)} - x {C(s)}"; params = [w, s]
        else: fx = f"exp * {C(w)} x"; params = [w]
        sc = abs(b - a) * max(math.exp(w * (a - s)), math.exp(w * (b - s)))
    elif fam == "cosh":
        a, b = rand_interval(rng, far); w = rng.uniform(0.05, 0.999) * math.log(4) / (b - a)
        s = 0.0
        if far: s = rng.choice([a, b, (a + b) / 2, a + (b - a) * rng.random()])
        X = max(abs(a - s), abs(b - s))
        if a - s < 0 < b - s and rng.random() < 0.7: w = rng.uniform(0.3, 0.999) * math.acosh(4) / X    # the ratio is cosh(wX)/1
        if w * X > 300: w = 300 / X
        if far: fx = f"cosh * {C(w)} - x {C(s)}"; params = [w, s]
        else: fx = f"cosh * {C(w)} x"; params = [w]
        sc = abs(b - a) * math.cosh(w * X)
    elif fam == "invpow":
        k = rng.choice([1.0, 2.0, 3.0, 4.0, 0.5, 1.5, 2.5, rng.uniform(0.1, 6)])
        t = 10 ** rng.uniform(-3, 3); rho = 4 ** (1 / (k + 4))
        wd = t * rng.uniform(0.05, 0.999) * (rho - 1)
        s = rng.choice([0.0, t * rng.uniform(-100, 100), rng.choice([-1, 1]) * 10 ** rng.uniform(-3, 3)])
        if abs(s) > 1e3 * t: s = 0.0
        if far: s = rng.choice([-1, 1]) * t * 10 ** rng.uniform(0, 13)
        a = t - s; b = a + wd
        if not (a + s > 0 and b > a and (b + s) / (a + s) < rho): return None
        fx = f"pow + x {C(s)} {hx(-k)}"; params = [s, k]; sc = abs(b - a) * (a + s) ** (-k)
    else:
        p = rng.choice([4.0, 5.0, 6.0, 7.0, -1.0, -2.0, 0.5, 1.5, 2.5, 3.5, rng.uniform(-3, 8)])
        if p in (0.0, 1.0, 2.0, 3.0): p = 4.5
        a = 10 ** rng.uniform(-3, 3)
        rmax = 1e3 if abs(p - 4.0) < 0.2 else min(1e3, 4 ** (1 / abs(p - 4)))      # (4^(1/0.2) = 1024 > 1e3; avoids the overflow of 4^(1/tiny))
        b = a * (1 + rng.uniform(0.05, 0.999) * (rmax - 1))
        if b - a > 1e3: b = a + 1e3 * rng.random()
        fx = f"pow x {hx(p)}"; params = [p]; sc = abs(b - a) * max(a ** p, b ** p)
    if rng.random() < 0.5: eps = sc * 10 ** rng.uniform(-12, -2) * rng.choice([1, 1, -1])
    else: eps = rand_eps(rng, sc)
    eps = math.copysign(min(max(abs(eps), 1e-18), 1e2), eps)
    depth = rng.choice([dmax, dmax, dmax, rng.randint(0, dmax)])
    if rng.random() < 0.5: a, b = b, a
    return a, b, eps, depth, fam, params, fx


# ---------------------------------------------------------------- polynomials at the upper end of the double range
DBL_MAX = 1.7976931348623157e308


def estimates_representable(wd, fmax):
    """a-priori: no intermediate of Integrate can reach DBL_MAX when every |f(x)| <= fmax on the interval of width wd.
    Panel sums fa + 4 fc + fb are at most 6 fmax; every estimate (h/6)(..), (h/12)(..), Sleft + Sright is at most wd fmax; S2 - S at most
    2 wd fmax; a leaf value S2 + (S2 - S)/15 at most (17/15) h fmax and the sum of the leaves at most (17/15) wd fmax
    (theorem C03_leaf_value_bounded, over the reals; the factor 1 + 1e-9 covers the roundings)."""
    m = 1 + 1e-9
    return 6 * fmax * m < DBL_MAX and 2 * wd * fmax * m < DBL_MAX


def gen_huge(rng, dmax):
    """polynomial of degree <= 5 (both families, both ways of writing it) scaled to the upper end of the double range: the a-priori
    bound max(6 max|f|, 2 |b-a| max|f|) of the integrator's intermediates - or the exact integral itself - is put on a geometric ladder
    DBL_MAX * 2^-j, j = 0 .. 80 (function values, panel estimates and the integral all representable), small depths mostly (the
    tolerance is never met at such magnitudes: the whole tree down to the depth limit is realised); a small share with j in -2 .. 0,
    where an intermediate of the rule as written may exceed DBL_MAX although the integral does not (signature suffix
    estimate-overflow)."""
    base = gen_quintic(rng, dmax) if rng.random() < 0.55 else gen_qshift(rng, dmax, far=rng.random() < 0.15)
    a, b, _, _, fam, params, _ = base
    s, cs = (0.0, params) if fam == "quintic" else (params[0], params[1:])
    if rng.random() < 0.25:      # one sign: no cancellation between the terms on a one-sided interval
        cs = [abs(c) for c in cs]
    wd = abs(b - a); T = max(abs(a - s), abs(b - s))
    fmax = sum(abs(c) * T ** k for k, c in enumerate(cs))
    if not (0 < fmax < 1e300): return None
    bound = max(6 * fmax, 2 * wd * fmax)
    r = rng.random()
    j = rng.choice([0.0, 0.5, 1.0, 1.5, 2.0, 2.5, 3.0, 3.5, 4.0, 5.0, 6.0, 8.0, 12.0, 20.0, 40.0, 80.0]) + rng.random() * 0.5 + 1e-6
    if r < 0.12: j = -rng.uniform(0, 2)                      # beyond the a-priori bound
    if r < 0.6:
        scale = DBL_MAX / bound * 2.0 ** -j
    else:                                                    # the integral itself on the ladder, as far as the a-priori bound allows
        I = abs(float(exact_quintic(cs, a, b, s)))
        if not (I > 0): return None
        scale = min(DBL_MAX * 2.0 ** -max(j, 1.0) / I, DBL_MAX * 2.0 ** -rng.uniform(1e-6, 1) / bound)
    cs = [c * scale for c in cs]
    if not all(abs(c) < DBL_MAX / 2 for c in cs): return None
    # the integrand's own arithmetic must not overflow (Horner intermediates c_k + t (c_k+1 + ...); powers and partial sums)
    H = max(sum(abs(cs[i]) * T ** (i - k) for i in range(k, 6)) for k in range(6))
    if not (H < DBL_MAX / 4): return None
    if not (abs(exact_quintic(cs, a, b, s)) < Fraction(DBL_MAX) * (1 - Fraction(1, 10 ** 9))): return None       # the integral is representable
    eps = rand_eps(rng, None)
    depth = rng.choice([0, 0, 1, 1, 2, 2, 3, 3, 4, 5, 6, 8, rng.randint(0, dmax)])
    if fam == "quintic": fx = horner(cs) if rng.random() < 0.6 else powsum(cs); params = cs
    else: fx = horner(cs, f"- x {C(s)}"); params = [s] + cs
    if rng.random() < 0.3: a, b = b, a
    return a, b, eps, depth, fam, params, fx


SMOOTH_KINDS = ["step", "pwl", "abs", "sin", "runge", "sqrtabs", "erf", "tanh", "log", "sinexp", "stepsum"]
SING_KINDS = ["pole-sqrt", "pole-1", "pole-log", "nan-point", "nan-half", "pole-both", "huge"]


def any_fx(rng, kind, a, b):
    """integrand text of the given kind for the (ordered) interval [a,b]"""
    w = b - a; m = a + w * rng.random()
    if kind == "step": return f"step - x {C(m)}"
    if kind == "stepsum": return f"+ step - x {C(m)} * {C(-2.5)} step - x {C(a + w * rng.random())}"
    if kind == "pwl":
        n = rng.randint(2, 7); xs = sorted(a + w * rng.uniform(-0.1, 1.1) for _ in range(n))
        if len(set(xs)) < n: xs = [a + w * k / (n - 1) for k in range(n)]
        if len(set(xs)) < n: return f"abs - x {C(m)}"
        ys = [rng.uniform(-3, 3) * rng.choice([1, 1, 10]) for _ in range(n)]
        return f"pwl {n} " + " ".join(f"{hx(u)} {hx(v)}" for u, v in zip(xs, ys)) + " x"
    if kind == "abs": return f"abs - x {C(m)}"
    if kind == "sin": return f"sin * {C(rng.uniform(0.5, 60) / w)} - x {C(a)}"
    if kind == "runge": return f"/ c 0x1p+0 + c 0x1p+0 * {C(rng.uniform(1, 400) / (w * w))} * - x {C(m)} - x {C(m)}"
    if kind == "sqrtabs": return f"sqrt abs - x {C(m)}"
    if kind == "erf": return f"erf * {C(rng.uniform(1, 50) / w)} - x {C(m)}"
    if kind == "tanh": return f"tanh * {C(rng.uniform(1, 200) / w)} - x {C(m)}"
    if kind == "log": return f"log abs - x {C(a - w * rng.uniform(0.001, 1))}"
    if kind == "sinexp": return f"* sin * {C(rng.uniform(1, 30) / w)} - x {C(a)} exp * {C(rng.uniform(-3, 3) / w)} - x {C(m)}"
    # integrands that are not finite at points the integrator evaluates: the limits, the midpoint, the quarter points
    # (computed with the integrator's own expressions), an eighth point, or a generic interior point
    c = (a + b) / 2; d = (a + c) / 2; e = (b + c) / 2
    p = rng.choice([a, a, b, b, c, d, e, (a + d) / 2, m])
    dist = f"abs - x {C(p)}"
    if kind == "pole-sqrt": return f"pow {dist} {hx(-rng.choice([0.5, 0.25, 0.75]))}"
    if kind == "pole-1": return f"/ {C(rng.choice([-1.0, 1.0, w]))} - x {C(p)}"
    if kind == "pole-log": return f"log {dist}"
    if kind == "nan-point": return f"+ {C(1.0)} / - x {C(p)} - x {C(p)}"            # 0/0 at p only, 2 elsewhere
    if kind == "nan-half": return f"sqrt - x {C(p)}"                               # nan left of p
    if kind == "pole-both": return f"* pow - x {C(a)} {hx(-0.25)} pow - {C(b)} x {hx(-0.25)}"
    return f"* {C(rng.choice([1e300, 1e-300, 1e154, 1e308]))} + {C(1.0)} * {C(1 / w)} - x {C(m)}"   # overflow / underflow of the estimates


def gen_any(rng, dmax, far=False, kinds=None):
    a, b = rand_interval(rng, far)
    kind = rng.choice(kinds or (SMOOTH_KINDS + SMOOTH_KINDS + SING_KINDS))
    fx = any_fx(rng, kind, a, b)
    eps = rand_eps(rng, b - a)
    depth = rng.choice([0, 1, 2, 4, 7, dmax, rng.randint(0, dmax), rng.randint(-3, 0)])
    if rng.random() < 0.4: a, b = b, a
    return a, b, eps, depth, "any", [], fx


# ---------------------------------------------------------------- sequences of calls in one process
DEFAULT_DEPTH = 20


def py_find_epsilon(f, a, b, prec):
    c = (a + b) / 2; h = b - a; fa = f(a); fb = f(b); fc = f(c)
    return prec * ((h / 6) * (fa + 4 * fc + fb))


OTHER_METHODS = ["Trapezoidal", "Gauss-Legendre", "Gauss-Kronrod", "Gauss-Legendre_2"]      # not "Tanh-Sinh": boost aborts the process on intervals a few ulps wide (outside this property)


def call_count(kind, f, a, b, eps, depth, cap):
    """number of integrand evaluations of the call (None: above cap / not computable); generator side only"""
    if kind == "F": return 3
    if a == b: return 0
    if kind == "M":
        e = py_find_epsilon(f, min(a, b), max(a, b), 1e-9)
        if e != e: return None
        n = simulate_count(f, a, b, e, DEFAULT_DEPTH, cap)
        return None if n is None else n + 3
    return simulate_count(f, a, b, eps, DEFAULT_DEPTH if kind == "D" else depth, cap)


def abandon_point(rng, n):
    """the evaluation at which the integrand abandons a call of n evaluations: the first values (a, b, midpoint; for the string overload
    those of its Find_Epsilon and of the integration proper), the first panels, somewhere in the tree, the very last evaluation"""
    k = rng.choice([1, 2, 3, 4, 5, 6, 7, 8, 9, n, n, n - 1, rng.randint(1, max(n, 1)), rng.randint(1, max(n, 1))])
    return min(max(k, 1), max(n, 1))


def call_text(kind, la, lb, et, depth, fm, pr, fxx, kx=0, method=None):
    """text of one call of a sequence; kx > 0: abandoned by its integrand at the kx-th evaluation"""
    x = "X" if kx else ""; k = f" {kx}" if kx else ""
    if kind == "I": head = f"{x or 'I'} {hx(la)} {hx(lb)} {et} {depth}{k}"
    elif kind == "D": head = f"{x}D {hx(la)} {hx(lb)} {et}{k}"
    elif kind == "M": head = f"{x}M {hx(la)} {hx(lb)}{k}"
    elif kind == "F": head = f"{x}F {hx(la)} {hx(lb)} {et}{k}"
    else: head = f"{x}O {hx(la)} {hx(lb)} {method}{k}"
    return head + " " + fam_text(fm, pr, fxx)


def gen_abandoned(rng, dmax, cap):
    """A call of any kind (Integrate with explicit / default depth, the string overload with "Adaptive-Simpson" or another method,
    Find_Epsilon) that its integrand abandons by an exception at any of its evaluations, or that completes, directly followed by a
    request made in both orientations of its limits (descending first, mostly) - on the limits of the first call, on abutting limits
    or on unrelated ones - with the same or another integrand; then sometimes the whole again.  Every answer must be the answer of the call made
    alone (model), the two orientations must negate each other exactly, and the value clauses are evaluated on each."""
    r = rng.random()
    base = None
    while base is None:
        base = (gen_quintic(rng, dmax) if r < 0.25 else gen_qshift(rng, dmax, far=rng.random() < 0.3) if r < 0.45
                else gen_regular(rng, dmax, far=rng.random() < 0.15) if r < 0.85 else gen_any(rng, dmax, kinds=SMOOTH_KINDS))
    a, b, eps0, depth0, fam, params, fx = base
    lo, hi = min(a, b), max(a, b); w = hi - lo
    f0, _ = parse_fexpr(fx.split(), 0)
    funs = [(fam, params, fx)]
    cs = [rng.uniform(-3, 3) for _ in range(rng.randint(1, 6))]; cs += [0.0] * (6 - len(cs))
    if fam not in REGULAR: funs.append(("qshift", [lo] + cs, horner(cs, f"- x {C(lo)}")))
    else: funs.append(variant_fun(rng, fam, params))
    text = []; kinds = ""
    for rep in range(rng.choice([1, 1, 2])):
        # the first call
        k1 = rng.choice(["M", "M", "M", "I", "D", "F", "O"])
        fm, pr, fxx = rng.choice(funs)
        f, _ = parse_fexpr(fxx.split(), 0)
        la, lb = rng.choice([(lo, hi), (lo, hi), (hi, lo)])
        sc = fun_scale(f, lo, hi)
        eps = eps0 if rng.random() < 0.4 else rand_eps(rng, sc)
        depth = rng.choice([depth0, 2, 4, 6, dmax])
        method = rng.choice(OTHER_METHODS)
        if k1 == "O":
            kx = rng.choice([0, 0, 1, 2, 3, 4, 5, 8, 16, rng.randint(1, 40)])
            text.append(call_text("O", la, lb, None, 0, fm, pr, fxx, kx, method)); kinds += "O"
        else:
            n = call_count(k1, f, la, lb, eps, depth, cap)
            if n is None: k1 = "I"; depth = min(depth, 6); n = call_count("I", f, la, lb, eps, depth, cap)
            if k1 == "D" and rng.random() < 0.85: eps = abs(eps)
            kx = abandon_point(rng, n) if (n and rng.random() < 0.85) else 0
            et = hx(10 ** rng.uniform(-12, -1)) if k1 == "F" else hx(eps)
            text.append(call_text(k1, la, lb, et, depth, fm, pr, fxx, kx)); kinds += ("X" if kx else "") + k1
        # the request that follows, in both orientations
        q = rng.random()
        if q < 0.6: ra, rb = lo, hi
        elif q < 0.75: ra, rb = hi, hi + min(max(w * 10 ** rng.uniform(-1, 1), 1e-6), 1e3)
        elif q < 0.85 and (lo + hi) / 2 not in (lo, hi): ra, rb = lo, (lo + hi) / 2
        else: ra, rb = rand_interval(rng)
        if not (ra < rb) or not (rb - ra <= 1e3): ra, rb = lo, hi
        pool = funs if (lo <= ra and rb <= hi) else [g for g in funs if g[0] not in REGULAR] or [("qshift", [lo] + cs, horner(cs, f"- x {C(lo)}"))]
        fm, pr, fxx = rng.choice(pool)
        f, _ = parse_fexpr(fxx.split(), 0)
        sc = fun_scale(f, ra, rb)
        if sc is not None and rng.random() < 0.7: eps = sc * 10 ** rng.uniform(-12, -3) * rng.choice([1, 1, -1])
        else: eps = rand_eps(rng, sc)
        eps = math.copysign(min(max(abs(eps), 1e-18), 1e2), eps)
        depth = rng.choice([depth0, 0, 1, 2, 3, 6, dmax])
        k2 = rng.choice(["I", "I", "I", "D", "D", "M"])
        if k2 != "I" and call_count(k2, f, ra, rb, eps, depth, cap) is None: k2 = "I"
        if k2 == "D" and rng.random() < 0.85: eps = abs(eps)      # (a lost fabs makes every such call a full tree of depth 20: keep those few)
        order = [(rb, ra), (ra, rb)] if rng.random() < 0.8 else [(ra, rb), (rb, ra)]
        if rng.random() < 0.15: order = order[:1]
        for (xa, xb) in order:
            text.append(call_text(k2, xa, xb, hx(eps), depth, fm, pr, fxx)); kinds += k2
    return Case(f"seq {len(text)} " + " ".join(text), ("seq", "abandon", "seq:" + kinds[:3]))


def gen_seq(rng, dmax, cap):
    """2..6 calls drawn from a small pool of limits (one interval, its reversal, sometimes its left half) and of integrands
    (a polynomial / estimator-regular one whose clauses are evaluated, and others), so that consecutive calls share limits,
    integrand, both or neither; kinds: Find_Epsilon, Integrate with explicit depth, with the default depth, string overload;
    epsilon a number or the value returned by the latest Find_Epsilon (@)"""
    r = rng.random()
    base = None
    while base is None:
        base = (gen_quintic(rng, dmax) if r < 0.3 else gen_qshift(rng, dmax, far=rng.random() < 0.5) if r < 0.5
                else gen_regular(rng, dmax, far=rng.random() < 0.2) if r < 0.8 else gen_any(rng, dmax))
    a, b, eps0, depth0, fam, params, fx = base
    lo, hi = min(a, b), max(a, b)
    limits = [(a, b), (a, b), (b, a)]
    if rng.random() < 0.3 and (lo + hi) / 2 not in (lo, hi): limits.append((lo, (lo + hi) / 2))
    funs = [(fam, params, fx)]
    for _ in range(rng.choice([1, 1, 2])):
        q = rng.random()
        if q < 0.35:
            cs = [rng.uniform(-3, 3) for _ in range(rng.randint(1, 6))]; cs += [0.0] * (6 - len(cs))
            funs.append(("qshift", [lo] + cs, horner(cs, f"- x {C(lo)}")))
        elif q < 0.5: funs.append(("any", [], f"+ {C(10.0)} cos - x {C(lo)}"))
        else: funs.append(("any", [], any_fx(rng, rng.choice(SMOOTH_KINDS + ["pole-sqrt", "huge"]), lo, hi)))
    k = rng.randint(2, 6)
    pattern = rng.random()
    calls = []; last = None; text = []
    for j in range(k):
        la, lb = rng.choice(limits)
        fm, pr, fxx = funs[0] if rng.random() < 0.5 else rng.choice(funs)
        kind = rng.choice(["I", "I", "I", "D", "M", "F", "F", "X"])
        if pattern < 0.35:      # Find_Epsilon on a reference integrand, then Integrate on the same limits (same or other integrand)
            if j == 0: kind = "F"; la, lb = limits[0] if rng.random() < 0.8 else limits[2]
            elif j == 1:
                kind = rng.choice(["I", "I", "D"]); la, lb = calls[0][1], calls[0][2]
                if rng.random() < 0.6: fm, pr, fxx = rng.choice([f for f in funs if f[2] != calls[0][6]] or funs)
        elif pattern < 0.5 and j > 0 and rng.random() < 0.7:     # the previous request again: identical, other depth, other integrand
            pk, pa, pb, pe, pd, pfm, ppr, pfx = calls[-1][:8]
            la, lb = pa, pb
            if rng.random() < 0.5: fm, pr, fxx = pfm, ppr, pfx
            if rng.random() < 0.5: kind = pk
        f, _ = parse_fexpr(fxx.split(), 0)
        if kind == "F":
            prec = 10 ** rng.uniform(-12, -1)
            last = py_find_epsilon(f, la, lb, prec)
            calls.append(("F", la, lb, prec, 0, fm, pr, fxx)); text.append(f"F {hx(la)} {hx(lb)} {hx(prec)} " + fam_text(fm, pr, fxx))
            continue
        use_last = last is not None and rng.random() < 0.6
        eps = last if use_last else (eps0 if rng.random() < 0.5 else rand_eps(rng, hi - lo))
        depth = rng.choice([depth0, 0, 1, 3, 6, dmax])
        if kind in ("D", "M"):     # cost control for the default depth 20: fall back to an explicit depth
            e_eff = py_find_epsilon(f, min(la, lb), max(la, lb), 1e-9) if kind == "M" else eps
            if not (e_eff == e_eff) or simulate_count(f, la, lb, e_eff, DEFAULT_DEPTH, cap) is None: kind = "I"
        et = "@" if use_last else hx(eps)
        if 0.5 <= pattern < 0.62 and j in (1, 2) and calls[0][0] == "I":
            # a request, the same request abandoned by its integrand somewhere in the tree, the same request again
            _, la, lb, eps, depth, fm, pr, fxx = calls[0]; et = hx(eps)
            kind = "X" if j == 1 else "I"
        elif 0.5 <= pattern < 0.62 and j == 0:
            kind = "I"; et = hx(eps); depth = rng.choice([1, 2, 3, 4, 6, dmax])
        if kind == "I": text.append(f"I {hx(la)} {hx(lb)} {et} {depth} " + fam_text(fm, pr, fxx))
        elif kind == "X":      # the integrand abandons the integration at its k-th evaluation (first values, somewhere in the tree, at the very end)
            kx = rng.choice([1, 2, 3, 4, 5, 6, 7, 9, rng.randint(1, 40), 2 ** (max(depth, 0) + 2) + 1, 2 ** (max(depth, 0) + 2)])
            text.append(f"X {hx(la)} {hx(lb)} {et} {depth} {kx} " + fam_text(fm, pr, fxx))
        elif kind == "D": text.append(f"D {hx(la)} {hx(lb)} {et} " + fam_text(fm, pr, fxx))
        else: text.append(f"M {hx(la)} {hx(lb)} " + fam_text(fm, pr, fxx))
        calls.append((kind, la, lb, eps, depth, fm, pr, fxx))
    kinds = "".join(c[0] for c in calls)
    return Case(f"seq {len(calls)} " + " ".join(text), ("seq", "seq:" + kinds[:2] + ("+" if len(kinds) > 2 else "")))


# ---------------------------------------------------------------- chains: consecutive calls whose limits are related
REGULAR = ("exp", "cosh", "invpow", "pow")


def variant_fun(rng, fam, params):
    """another member of the same estimator-regular family that satisfies the factor-four condition on every interval on which
    the given member does (smaller rate / exponent closer to the one with constant fourth derivative)"""
    u = rng.uniform(0.2, 0.95)
    if fam == "exp":
        w = params[0] * u * rng.choice([-1, 1])
        if len(params) > 1: return fam, [w, params[1]], f"exp * {C(w)} - x {C(params[1])}"
        return fam, [w], f"exp * {C(w)} x"
    if fam == "cosh":
        w = params[0] * u
        if len(params) > 1: return fam, [w, params[1]], f"cosh * {C(w)} - x {C(params[1])}"
        return fam, [w], f"cosh * {C(w)} x"
    if fam == "invpow":
        s, k = params; k = k * u
        return fam, [s, k], f"pow + x {C(s)} {hx(-k)}"
    p = params[0]
    p = 4 + (p - 4) * u if p != 4.0 else 4 + rng.choice([-1, 1]) * 0.2 * u
    return "pow", [p], f"pow x {hx(p)}"


def fun_scale(f, a, b):
    """|b-a| * max|f| over the first three abscissae (generator side: choice of epsilon only)"""
    vals = [abs(f(x)) for x in (a, b, (a + b) / 2)]
    m = max([v for v in vals if v == v and v != math.inf] or [0.0])
    s = abs(b - a) * m
    return s if 0 < s < 1e300 else None


def chain_poly(rng, ks, far):
    """polynomial of degree <= 5 in x - s, s a knot (or 0), coefficients on the natural scale of the whole knot range"""
    s = rng.choice(ks + ks + ([] if far else [0.0]))
    T = max(abs(ks[0] - s), abs(ks[-1] - s), ks[-1] - ks[0])
    deg = rng.choice([0, 1, 2, 3, 4, 5, 5, 5])
    mag = 10 ** rng.uniform(-3, 3)
    cs = [(rng.choice([-1, 1]) * mag * 10 ** rng.uniform(-2, 2) / T ** k if rng.random() < 0.85 else 0.0) if k <= deg else 0.0 for k in range(6)]
    if rng.random() < 0.2: cs = [float(rng.randint(-9, 9)) / 4 if k <= deg else 0.0 for k in range(6)]
    cs = [c if abs(c) < 1e250 else 0.0 for c in cs]
    if s == 0.0 and rng.random() < 0.5: return "quintic", cs, (horner(cs) if rng.random() < 0.6 else powsum(cs))
    return "qshift", [s] + cs, horner(cs, f"- x {C(s)}")


def gen_chain(rng, dmax, cap):
    """2..8 calls whose limits are related to those of the call before: the pieces between consecutive knots k0 < k1 < ... (a piecewise
    defined function integrated piece by piece: the lower limit of a call is bit for bit the upper limit of the call before), in
    ascending or descending order, each piece in either orientation; intervals with a common lower / upper limit; up and down again;
    random pieces and unions of adjacent pieces.  Knots: the limits of a base request, its midpoint and quarter points (abscissae the
    integrator itself evaluates), interior points, and continuations beyond both limits.  Consecutive calls mostly have different
    integrands: polynomials of degree <= 5 (exactness is evaluated on every call), members of one estimator-regular family on
    sub-intervals of the base interval (error bound), arbitrary integrands.  Kinds as in gen_seq, with Find_Epsilon, equal-limits
    and abandoned calls put between abutting calls."""
    r = rng.random()
    base = None
    while base is None:
        base = (gen_quintic(rng, dmax) if r < 0.2 else gen_qshift(rng, dmax, far=rng.random() < 0.4) if r < 0.45
                else gen_regular(rng, dmax, far=rng.random() < 0.2) if r < 0.85 else gen_any(rng, dmax))
    a, b, eps0, depth0, fam, params, fx = base
    lo, hi = min(a, b), max(a, b); w = hi - lo
    far = w < 1e-3 * max(abs(lo), abs(hi))
    regular = fam in REGULAR
    c = (lo + hi) / 2; d = (lo + c) / 2; e = (hi + c) / 2
    knots = {lo, hi}
    for _ in range(rng.choice([0, 1, 1, 2, 3, 4])):
        knots.add(rng.choice([c, c, d, e, lo + w * rng.random(), lo + w * rng.random()]))
    def beyond(x, sgn):
        step = min(max(w * 10 ** rng.uniform(-1.5, 1.5), 1e-6), 1e3)
        y = x + sgn * step
        if y == x: y = math.nextafter(x, sgn * math.inf)
        return y
    nl, nr = (rng.choice([0, 0, 1, 2]), rng.choice([0, 1, 1, 2])) if (not regular or rng.random() < 0.4) else (0, 0)
    x = lo
    for _ in range(nl): x = beyond(x, -1); knots.add(x)
    x = hi
    for _ in range(nr): x = beyond(x, +1); knots.add(x)
    ks = []
    for k in sorted(knots):          # every piece at least 1e-6 wide (the quantifier)
        if not ks or k - ks[-1] >= 1e-6: ks.append(k)
    while len(ks) < 3: ks.append(beyond(ks[-1], +1))
    n = len(ks) - 1
    # integrands: usable on every piece / on the pieces inside the base interval only
    anywhere = [chain_poly(rng, ks, far) for _ in range(rng.choice([1, 2, 2, 3]))]
    if rng.random() < 0.35:
        anywhere.append(("any", [], f"+ {C(10.0)} cos - x {C(lo)}") if rng.random() < 0.4
                        else ("any", [], any_fx(rng, rng.choice(SMOOTH_KINDS + ["pole-sqrt", "huge"]), ks[0], ks[-1])))
    inside = []
    if regular:
        inside = [(fam, params, fx)] * 2 + [variant_fun(rng, fam, params) for _ in range(rng.choice([1, 2]))]
    else:
        anywhere += [(fam, params, fx)] * 2
    # the intervals, as (lower knot index, upper knot index)
    pattern = rng.choice(["up", "up", "up", "up", "down", "down", "fan", "updown", "random", "random"])
    L = rng.randint(2, min(n, 6)) if n >= 2 else 2
    i0 = rng.randint(0, n - L)
    up = [(i, i + 1) for i in range(i0, i0 + L)]
    if pattern == "up": ivs = up
    elif pattern == "down": ivs = up[::-1]
    elif pattern == "updown": ivs = (up + up[::-1][rng.choice([0, 1]):])[:7]
    elif pattern == "fan":
        ivs = [(i0, j) for j in range(i0 + 1, i0 + L + 1)] if rng.random() < 0.5 else [(j, i0 + L) for j in range(i0, i0 + L)]
        if rng.random() < 0.5: ivs = ivs[::-1]
    else:
        ivs = []
        for _ in range(rng.randint(2, 6)):
            i = rng.randint(0, n - 1); ivs.append((i, rng.randint(i + 1, min(n, i + 2))))
    ivs = [(i, j) for (i, j) in ivs if ks[j] - ks[i] <= 1e3]
    if len(ivs) < 2: ivs = [(0, 1), (1, 2)]
    orient = rng.choice(["fwd", "fwd", "rev", "mixed"])
    text = []; kinds = ""; last = None; prev_fx = None
    def emit(kind, la, lb, fm, pr, fxx, depth=None):
        nonlocal last, kinds
        f, _ = parse_fexpr(fxx.split(), 0)
        if kind == "F":
            prec = 10 ** rng.uniform(-12, -1)
            last = py_find_epsilon(f, la, lb, prec)
            text.append(f"F {hx(la)} {hx(lb)} {hx(prec)} " + fam_text(fm, pr, fxx)); kinds += "F"; return
        sc = fun_scale(f, la, lb)
        use_last = last is not None and rng.random() < 0.3
        if use_last: eps = last
        elif sc is not None and fm in REGULAR and rng.random() < 0.6: eps = sc * 10 ** rng.uniform(-12, -2) * rng.choice([1, 1, -1])
        elif rng.random() < 0.15: eps = eps0
        else: eps = rand_eps(rng, sc)
        if not use_last: eps = math.copysign(min(max(abs(eps), 1e-18), 1e2), eps)
        if depth is None: depth = rng.choice([depth0, 0, 1, 2, 3, 6, dmax])
        if kind in ("D", "M"):     # cost control for the default depth 20: fall back to an explicit depth
            e_eff = py_find_epsilon(f, min(la, lb), max(la, lb), 1e-9) if kind == "M" else eps
            if not (e_eff == e_eff) or simulate_count(f, la, lb, e_eff, DEFAULT_DEPTH, cap) is None: kind = "I"
        et = "@" if use_last else hx(eps)
        if kind == "I": text.append(f"I {hx(la)} {hx(lb)} {et} {depth} " + fam_text(fm, pr, fxx))
        elif kind == "X":
            kx = rng.choice([1, 2, 3, 4, 5, 6, 7, 9, rng.randint(1, 40), 2 ** (max(depth, 0) + 2) + 1])
            text.append(f"X {hx(la)} {hx(lb)} {et} {depth} {kx} " + fam_text(fm, pr, fxx))
        elif kind == "D": text.append(f"D {hx(la)} {hx(lb)} {et} " + fam_text(fm, pr, fxx))
        else: text.append(f"M {hx(la)} {hx(lb)} " + fam_text(fm, pr, fxx))
        kinds += kind
    for (i, j) in ivs:
        if len(text) >= 8: break
        la, lb = ks[i], ks[j]
        if orient == "rev" or (orient == "mixed" and rng.random() < 0.5): la, lb = lb, la
        pool = anywhere + (inside + inside if lo <= ks[i] and ks[j] <= hi else [])
        other = [g for g in pool if g[2] != prev_fx]
        fm, pr, fxx = rng.choice(other) if other and rng.random() < 0.85 else rng.choice(pool)
        q = rng.random()
        if text and q < 0.08 and len(text) < 7:        # an equal-limits call at the common knot
            emit("I", la, la, fm, pr, fxx)
        elif text and q < 0.2 and len(text) < 7:       # Find_Epsilon on the next piece with a reference integrand
            emit("F", la, lb, *rng.choice(pool))
        elif q < 0.28 and len(text) < 7:               # the request abandoned by its integrand, then made again
            emit("X", la, lb, fm, pr, fxx)
        emit(rng.choice(["I"] * 7 + ["D", "M", "F"]), la, lb, fm, pr, fxx)
        prev_fx = fxx
    return Case(f"seq {len(text)} " + " ".join(text), ("seq", "chain", "chain:" + pattern, "seq:" + kinds[:2] + ("+" if len(kinds) > 2 else "")))


# ---------------------------------------------------------------- re-entrant integrands (the integrand calls the integrator)
class OverBudget(Exception): pass


def py_integrate(f, a, b, eps, depth, bud):
    """Integrate(f,a,b,eps,depth) in Python floats, same operation order; bud = [remaining evaluations] (OverBudget when exhausted).
    Generator-side cost control only."""
    if a == b: return 0.0
    sign = 1.0
    if a > b: a, b, sign = b, a, -1.0
    bud[0] -= 3
    if bud[0] < 0: raise OverBudget()
    c = (a + b) / 2; h = b - a; fa = f(a); fb = f(b); fc = f(c); S = (h / 6) * (fa + 4 * fc + fb)
    def asr(a, b, eps, S, fa, fb, fc, bottom):
        bud[0] -= 2
        if bud[0] < 0: raise OverBudget()
        c = (a + b) / 2; h = b - a; d = (a + c) / 2; e = (b + c) / 2; fd = f(d); fe = f(e)
        Sl = (h / 12) * (fa + 4 * fd + fc); Sr = (h / 12) * (fc + 4 * fe + fb); S2 = Sl + Sr
        if bottom <= 0 or abs(S2 - S) <= 15 * eps: return S2 + (S2 - S) / 15
        return asr(a, c, eps / 2, Sl, fa, fc, fd, bottom - 1) + asr(c, b, eps / 2, Sr, fc, fb, fe, bottom - 1)
    return sign * asr(a, b, abs(eps), S, fa, fb, fc, depth)


def py_call(kind, f, a, b, eps, depth, bud):
    if kind == "I": return py_integrate(f, a, b, eps, depth, bud)
    if kind == "D": return py_integrate(f, a, b, eps, DEFAULT_DEPTH, bud)
    if kind == "F":
        bud[0] -= 3
        return py_find_epsilon(f, a, b, eps)
    if a == b: return 0.0
    lo, hi, sign = (a, b, 1.0) if a < b else (b, a, -1.0)
    bud[0] -= 3
    return sign * py_integrate(f, lo, hi, py_find_epsilon(f, lo, hi, 1e-9), DEFAULT_DEPTH, bud)


def nest_affordable(ok, a, b, eps, depth, ik, ieps, idepth, lo, hi, g, E, budget):
    """the nested request costs at most `budget` integrand evaluations (inner ones included)"""
    flo, _ = parse_fexpr(lo.split(), 0); fhi, _ = parse_fexpr(hi.split(), 0)
    fg, _ = parse_fexpr2(g.split(), 0); fE, _ = parse_fexpr2(E.split(), 0)
    bud = [budget]
    def F(x):
        return fE(x, py_call(ik, (lambda t: fg(x, t)), flo(x), fhi(x), ieps, idepth, bud))
    try:
        py_call(ok, F, a, b, eps, depth, bud)
    except (OverBudget, RecursionError):
        return False
    return True


def horner_e(es, arg):
    """Horner form with coefficient expressions es (lowest degree first)"""
    e = es[-1]
    for c in reversed(es[:-1]): e = f"+ {c} * {arg} {e}"
    return e


def nest_line(ok, a, b, eps, depth, ik, ieps, idepth, fam, params, lo, hi, g, E):
    o = f"{ok} {hx(a)} {hx(b)}" + (f" {hx(eps)}" if ok in "ID" else "") + (f" {depth}" if ok == "I" else "")
    i = ik + (f" {hx(ieps)}" if ik in "IDF" else "") + (f" {idepth}" if ik == "I" else "")
    return f"nest {o} {i} " + fam_text(fam, params, f"{lo} {hi} {g} {E}")


def gen_nest(rng, budget):
    """One call of Integrate whose integrand F(x) = E(x, J(x)) obtains J(x) from the integrator itself: J(x) = the value of
    Integrate (explicit / default depth, string overload) or Find_Epsilon applied to t -> g(x,t) between lo(x) and hi(x).
    Families: nq = polynomial g (degree <= 5 in t), constant or linear limits, E affine in J with a polynomial offset, such that F is
    a polynomial of degree <= 5 (exactness is evaluated); nany = arbitrary g, limits and E (count, location, re-entrancy clauses).
    Outer epsilon: reachable, unreachable (0, tiny) - the whole outer tree down to the depth limit is then realised."""
    far = rng.random() < 0.2
    a, b = rand_interval(rng, far)
    w = b - a
    ok = rng.choice(["I"] * 8 + ["D", "M"])
    ik = rng.choice(["I"] * 5 + ["D", "M", "F", "F"])
    depth = rng.choice([0, 1, 1, 2, 2, 3, 3, 4, 5, 6, rng.randint(-2, 0)])
    idepth = rng.choice([0, 1, 2, 3, 4, 5, 6, rng.randint(-2, 0)])
    while max(depth, 0) + max(idepth, 0) > 9: idepth -= 1
    if rng.random() < 0.6:
        # ---- polynomial family
        fam = "nq"
        sx = rng.choice([a, (a + b) / 2, b, a if far else 0.0])
        U = max(abs(a - sx), abs(b - sx))
        l0, h0 = rand_interval(rng)
        if rng.random() < 0.3: l0, h0 = h0, l0
        wi = abs(h0 - l0)
        st = rng.choice([l0, h0, 0.0, (l0 + h0) / 2])
        linear = rng.random() < 0.35
        dt = rng.randint(0, 3 if ik == "F" else 5)
        if linear and dt > 3: dt = rng.randint(0, 3)
        dx = rng.randint(0, 5 - (dt + 1) if linear else 5)
        l1 = h1 = 0.0
        if linear:
            l1 = rng.choice([0.0, rng.uniform(-1, 1) * wi / U]); h1 = rng.uniform(-1, 1) * wi / U
        T = max(abs(l0 - st) + abs(l1) * U, abs(h0 - st) + abs(h1) * U, wi)
        cij = [[(rng.choice([-1, 1]) * 10 ** rng.uniform(-2, 2) / (U ** i * T ** j) if rng.random() < 0.7 or (i == dx and j == dt) else 0.0)
                for j in range(dt + 1)] for i in range(dx + 1)]
        gs = sum(abs(cij[i][j]) * U ** i * T ** j for i in range(dx + 1) for j in range(dt + 1))
        e1 = rng.choice([1.0, -1.0, rng.choice([-1, 1]) * 10 ** rng.uniform(-2, 2)])
        prec = 10 ** rng.uniform(-9, 0) * rng.choice([1, 1, -1])
        js = gs * (wi + (abs(l1) + abs(h1)) * U) * (abs(prec) if ik == "F" else 1.0)
        pk = [0.0] * 6
        if rng.random() < 0.5:
            for k in range(rng.randint(0, 5) + 1): pk[k] = rng.choice([-1, 1]) * 10 ** rng.uniform(-2, 2) * js / U ** k
        vals = [l0, h0, l1, h1, e1, js] + pk + [c for row in cij for c in row]
        if not all(v == v and abs(v) < 1e200 for v in vals) or not (js > 1e-200): return None
        ux = f"- x {C(sx)}"; ty = f"- y {C(st)}"
        lo = C(l0) if l1 == 0.0 else f"+ {C(l0)} * {C(l1)} {ux}"
        hi = C(h0) if h1 == 0.0 else f"+ {C(h0)} * {C(h1)} {ux}"
        # polynomial in t whose coefficients are polynomials in u
        g = horner_e([horner([cij[i][j] for i in range(dx + 1)], ux) for j in range(dt + 1)], ty)
        E = f"+ * {C(e1)} y {horner(pk, ux)}"
        params = [sx, st, l0, l1, h0, h1, e1, float(dx), float(dt)] + pk + [c for row in cij for c in row]
        ieps = prec if ik == "F" else rng.choice([0.0, 1e-18, -1e-300, rand_eps(rng, js), rand_eps(rng, js)])
        Fs = abs(e1) * js + sum(abs(c) * U ** k for k, c in enumerate(pk))
        eps = rng.choice([0.0, 0.0, 1e-18, -1e-18, rand_eps(rng, w * Fs), rand_eps(rng, w * Fs)])
    else:
        fam = "nany"; params = []
        u = f"/ - x {C(a)} {C(w)}"          # the outer variable scaled to [0,1]
        p, q = rng.choice([(0.0, 1.0), (0.0, 1.0), (-0.5, 1.5), (1.0, 0.0), (0.25, 0.75), (-1.0, 1.0), (0.0, 1e-6), (1000.0, 1001.0)])
        r = rng.random()
        if r < 0.5: lo, hi = C(p), C(q)
        elif r < 0.65: lo, hi = C(p), u             # triangle: equal inner limits at one outer abscissa
        elif r < 0.8: lo, hi = u, f"+ {u} {C(q - p)}"
        elif r < 0.9: lo, hi = f"- {C(p)} {u}", f"+ {C(q)} * {u} {u}"
        else: lo, hi = u, u                          # always equal
        k = rng.uniform(0.5, 8)
        g = rng.choice([f"exp * * {C(k)} {u} y", f"abs - y {u}", f"step - y {u}", f"/ {C(1.0)} + {C(1.0)} * {C(10 * k)} * - y {u} - y {u}",
                        f"sin + * {C(k)} {u} y", f"sqrt abs - y {u}", f"* {u} y", f"pow + + {C(1.5)} {u} abs y {hx(-2.0)}",
                        f"/ {C(1.0)} - y {u}", f"log abs - y {u}", f"cos * {C(k)} * y {u}", f"+ x y", f"tanh * {C(20 * k)} - y {u}",
                        f"* {C(1e300)} * {u} + {C(1e10)} y", "y", C(1.0)])
        E = rng.choice(["y", "y", "y", f"+ y * {C(k)} x", "* y y", f"- y {C(0.5)}", f"exp neg abs y", f"* y {u}", f"abs - y {C(0.3)}",
                        f"/ {C(1.0)} y", f"step - y {C(0.4)}", f"+ {C(1.0)} x"])
        prec = 10 ** rng.uniform(-9, 0) * rng.choice([1, 1, -1])
        ieps = prec if ik == "F" else rng.choice([0.0, 1e-18, rand_eps(rng, 1.0), rand_eps(rng, 1.0), 10 ** rng.uniform(-10, -2)])
        eps = rng.choice([0.0, 0.0, 1e-18, -1e-18, rand_eps(rng, w), rand_eps(rng, w), w * 10 ** rng.uniform(-10, -2)])
    if rng.random() < 0.3: a, b = b, a
    if ok in "DM" or ik in "DM":
        # default depth 20 somewhere: only when the whole request is affordable, else explicit depths
        if not nest_affordable(ok, a, b, eps, depth, ik, ieps, idepth, lo, hi, g, E, budget):
            if ok in "DM": ok = "I"
            if ik in "DM": ik = "I"
    tags = ["nest", fam, "nest:" + ok + ik] + (["far"] if far else [])
    return Case(nest_line(ok, a, b, eps, depth, ik, ieps, idepth, fam, params, lo, hi, g, E), tuple(tags))

# ---------------------------------------------------------------- seventh pass: diagnostics, method guard, Integrate_2D / Integrate_3D
METHOD_NAMES = ["Adaptive-Simpson", "Adaptive-Simpson", "adaptive-simpson", "Adaptive_Simpson", "Adaptive-Simpson2", "Adaptive-Simpso", "Simpson",
                "AdaptiveSimpson", "Vegas", "Monte-Carlo", "Miser", "gauss-legendre", "Gauss-Legendre_3", "Tanh-Sinh", "Trapezoidal", "Gauss-Kronrod",
                "Gauss-Legendre", "Gauss-Legendre_2", "?", "0"]
RECOGNISED_OTHER = ("Trapezoidal", "Gauss-Legendre", "Gauss-Kronrod", "Tanh-Sinh", "Gauss-Legendre_2")


def gen_diag(rng, dmax):
    """one call of Integrate with everything it writes (swap notice on stderr, non-convergence warning, nan / inf notices): integrands
    that are not finite somewhere on the grid, polynomials at the upper end of the double range, ordinary ones; both orientations, equal limits"""
    r = rng.random()
    g = None
    while g is None:
        g = (gen_any(rng, dmax, far=rng.random() < 0.1, kinds=SING_KINDS) if r < 0.4 else gen_huge(rng, dmax) if r < 0.65
             else gen_any(rng, dmax) if r < 0.85 else gen_quintic(rng, dmax))
    a, b, eps, depth, fam, params, fx = g
    depth = min(depth, 8)
    if rng.random() < 0.35: a, b = b, a
    if rng.random() < 0.06: b = a
    return Case(fam_line("diag", a, b, eps, depth, "any", [], fx), ("diag",))


def gen_named(rng, cap):
    """the string overload with recognised and unrecognised method names (the guard: unrecognised -> the process is ended)"""
    name = rng.choice(METHOD_NAMES)
    a, b = rand_interval(rng)
    if rng.random() < 0.3: a, b = b, a
    if rng.random() < 0.15: b = a
    cs = [rng.uniform(0.5, 3) for _ in range(rng.randint(1, 6))]; cs += [0.0] * (6 - len(cs))
    fx = horner(cs, f"- x {C(min(a, b))}")
    f, _ = parse_fexpr(fx.split(), 0)
    if name == "Adaptive-Simpson" and call_count("M", f, a, b, 0.0, 0, cap) is None:
        cs = cs[:3] + [0.0] * 3; fx = horner(cs, f"- x {C(min(a, b))}")
    return Case(f"named {name} {hx(a)} {hx(b)} " + fam_text("qshift", [min(a, b)] + cs, fx), ("named", "named:" + ("AS" if name == "Adaptive-Simpson" else "other" if name in RECOGNISED_OTHER else "unknown")))


def box_interval(rng):
    w = 10 ** rng.uniform(-2, 0.5); x0 = rng.uniform(-2, 2)
    if rng.random() < 0.3: x0 = abs(x0) + 0.1
    a, b = x0, x0 + w
    if rng.random() < 0.3: a, b = b, a
    if rng.random() < 0.04: b = a
    return a, b


def nd_affordable(fg, lims, budget):
    """Integrate_2D / Integrate_3D ("Adaptive-Simpson") on fg costs at most `budget` evaluations (Python floats, same operation order)"""
    bud = [budget]
    def level(k, args):
        if k == len(lims): return fg(*args)
        return py_call("M", (lambda t: level(k + 1, args + [t])), lims[k][0], lims[k][1], 0.0, 0, bud)
    try:
        v = level(0, [])
    except (OverBudget, RecursionError):
        return False
    return v == v


def gen_i2d(rng, budget):
    """Integrate_2D(func,x1,x2,y1,y2,"Adaptive-Simpson"): q2 = polynomial sum c_ij x^i y^j, i, j <= 5 (exactness is evaluated),
    any2 = other integrands (location, count shape, equal limits)"""
    x1, x2 = box_interval(rng); y1, y2 = box_interval(rng)
    if rng.random() < 0.65:
        dx, dy = rng.randint(0, 5), rng.randint(0, 5)
        pos = rng.random() < 0.5
        cij = [[((1 if pos else rng.choice([-1, 1])) * 10 ** rng.uniform(-2, 2) if rng.random() < 0.7 or (i == dx and j == dy) else 0.0)
                for j in range(dy + 1)] for i in range(dx + 1)]
        g = horner_e([horner([cij[i][j] for i in range(dx + 1)], "x") for j in range(dy + 1)], "y")
        fam, params = "q2", [float(dx), float(dy)] + [c for row in cij for c in row]
    else:
        k = rng.uniform(0.2, 3)
        g = rng.choice([f"exp * {C(k)} * x y", f"sin + * {C(k)} x y", f"/ {C(1.0)} + {C(1.0)} + * x x * y y", f"abs - y x", f"cos * x y", "+ x y",
                        f"sqrt + {C(9.0)} + x y", f"* x exp neg * y y", C(k), f"step - y x", f"/ {C(1.0)} - y x"])
        fam, params = "any2", []
    fg, _ = parse_fexpr2(g.split(), 0)
    if not nd_affordable(lambda x, y: fg(x, y), [(x1, x2), (y1, y2)], budget): return None
    return Case(f"i2d {hx(x1)} {hx(x2)} {hx(y1)} {hx(y2)} " + fam_text(fam, params, g), ("i2d", fam))


def gen_i3d(rng, budget):
    """Integrate_3D(func,x1,x2,y1,y2,z1,z2,"Adaptive-Simpson") on polynomials sum c_ijk x^i y^j z^k, i, j, k <= 3 (one of them up to 5)"""
    lims = [box_interval(rng) for _ in range(3)]
    d = [rng.randint(0, 3) for _ in range(3)]
    if rng.random() < 0.5: d[rng.randint(0, 2)] = rng.randint(4, 5)
    pos = rng.random() < 0.6
    c = [[[((1 if pos else rng.choice([-1, 1])) * 10 ** rng.uniform(-1, 1) if rng.random() < 0.6 or (i, j, k) == tuple(d) else 0.0)
           for k in range(d[2] + 1)] for j in range(d[1] + 1)] for i in range(d[0] + 1)]
    g = horner_e([horner_e([horner([c[i][j][k] for i in range(d[0] + 1)], "x") for j in range(d[1] + 1)], "y") for k in range(d[2] + 1)], "z")
    params = [float(v) for v in d] + [c[i][j][k] for i in range(d[0] + 1) for j in range(d[1] + 1) for k in range(d[2] + 1)]
    def fg(x, y, z):
        return sum(c[i][j][k] * x ** i * y ** j * z ** k for i in range(d[0] + 1) for j in range(d[1] + 1) for k in range(d[2] + 1))
    if not nd_affordable(fg, lims, budget): return None
    return Case("i3d " + " ".join(hx(v) for l in lims for v in l) + " " + fam_text("q3", params, g), ("i3d", "q3"))


def generate(rng, tier):
    cs = []
    big = tier != "quick"
    dmax = 12
    cap = 70000
    def add(op, g, tags):
        if g is None: return
        a, b, eps, depth, fam, params, fx = g
        if depth > 12:      # cost control for deep requests: simulate, fall back to depth 12
            f, _ = parse_fexpr(fx.split(), 0)
            if simulate_count(f, a, b, eps, depth, cap) is None: depth = 12
        tol = None
        if fam == "quintic":
            X = max(abs(a), abs(b)); fmax = sum(abs(c) * X ** k for k, c in enumerate(params))
            tol = (1e-11, 64 * EPS * abs(b - a) * fmax)
        cs.append(Case(fam_line(op, a, b, eps, depth, fam, params, fx), (op, fam) + tuple(tags), tol=tol))
    nq, nr, na = (30000, 30000, 30000) if big else (900, 900, 900)
    for k in range(nq):
        g = gen_quintic(rng, dmax)
        if big and k % 40 == 0: g = g[:3] + (rng.choice([15, 20, 25]),) + g[4:]
        add("int" if k % 10 else rng.choice(["swap", "epssign"]), g, ())
    for k in range(nr):
        g = gen_regular(rng, dmax)
        if big and g and k % 20 == 0: g = g[:3] + (rng.choice([15, 20, 25]),) + g[4:]
        add("int", g, ())
    for k in range(na):
        g = gen_any(rng, dmax)
        if big and k % 40 == 0: g = g[:3] + (rng.choice([15, 20, 25]),) + g[4:]
        add("int" if k % 5 else rng.choice(["swap", "epssign"]), g, ())
    # intervals far from the origin relative to their width (ladder |x0|/width = 1 .. 1e15.5): shifted polynomials,
    # shifted estimator-regular families, arbitrary integrands
    nf = 12000 if big else 500
    for k in range(nf):
        add("int" if k % 10 else rng.choice(["swap", "epssign"]), gen_qshift(rng, dmax, far=k % 4 != 0), ("far",))
    for k in range(nf // 2):
        add("int", gen_regular(rng, dmax, far=True), ("far",))
        add("int" if k % 5 else rng.choice(["swap", "epssign"]), gen_any(rng, dmax, far=True), ("far",))
    # polynomials whose values, panel estimates and integral lie at the upper end of the double range (ladder DBL_MAX * 2^-j)
    for k in range(12000 if big else 360):
        add("int" if k % 8 else rng.choice(["swap", "epssign"]), gen_huge(rng, dmax), ("huge",))
    # full recursion trees (the evaluation-count bound is attained): eps = 0 / the smallest of the quantifier, depths 0..7, every kind
    # of integrand, half of them not finite somewhere on the grid
    for k in range(6000 if big else 400):
        a, b, eps, depth, fam, params, fx = gen_any(rng, dmax, far=k % 8 == 0, kinds=SING_KINDS if k % 2 else None)
        eps = rng.choice([0.0, 0.0, 1e-18, -1e-18, 5e-324, 1e-300])
        depth = rng.choice([0, 0, 1, 2, 3, 4, 5, 6, 7, -1])
        cs.append(Case(fam_line("int" if k % 6 else rng.choice(["swap", "epssign"]), a, b, eps, depth, "any", [], fx), ("int", "full-tree")))
    # several calls in one process
    for k in range(8000 if big else 500):
        cs.append(gen_seq(rng, dmax, 20000 if big else 3000))
    # a call of any kind abandoned by its integrand (or completed), then a request in both orientations of its limits
    for k in range(8000 if big else 600):
        cs.append(gen_abandoned(rng, dmax, 20000 if big else 3000))
    # integrands that call the integrator themselves
    for k in range(4000 if big else 320):
        c = gen_nest(rng, 20000 if big else 6000)
        if c is not None: cs.append(c)
    # equal limits, depth <= 0, eps = 0, nan integrand
    for _ in range(200 if big else 40):
        a, b, eps, depth, fam, params, fx = gen_any(rng, dmax)
        cs.append(Case(fam_line("int", a, a, eps, depth, "any", [], fx), ("int", "equal-limits")))
        cs.append(Case(fam_line("int", a, b, eps, rng.choice([0, -1, -7]), "any", [], fx), ("int", "depth<=0")))
        cs.append(Case(fam_line("int", a, b, 0.0, rng.choice([0, 1, 3, 6]), "any", [], fx), ("int", "eps=0")))
        cs.append(Case(fam_line("swap", a, a, eps, depth, "any", [], fx), ("swap", "equal-limits")))
        cs.append(Case(fam_line("findeps", a, b, 10 ** rng.uniform(-12, -1), 0, "any", [], fx).replace(" 0 any", " any", 1), ("findeps",)))
        cs.append(Case(nest_line("I", a, a, eps, depth, "I", eps, 2, "nany", [], C(0.0), C(1.0), "* x y", "y"), ("nest", "equal-limits")))
        cs.append(Case(f"seq 3 M {hx(a)} {hx(a)} any 0 {fx} D {hx(a)} {hx(a)} {hx(eps)} any 0 {fx} I {hx(a)} {hx(a)} {hx(eps)} {depth} any 0 {fx}", ("seq", "equal-limits")))
    # calls whose limits are related to those of the call before (abutting pieces of a piecewise function, common limits, ...)
    for k in range(6000 if big else 400):
        cs.append(gen_chain(rng, dmax, 20000 if big else 3000))
    # seventh pass: everything Integrate writes; the method guard of the string overload; Integrate_2D / Integrate_3D ("Adaptive-Simpson")
    for k in range(6000 if big else 400): cs.append(gen_diag(rng, dmax))
    for k in range(1500 if big else 120): cs.append(gen_named(rng, 20000 if big else 3000))
    for k in range(3000 if big else 220):
        c = gen_i2d(rng, 60000 if big else 12000)
        if c is not None: cs.append(c)
    for k in range(600 if big else 40):
        c = gen_i3d(rng, 200000 if big else 40000)
        if c is not None: cs.append(c)
    cs.append(Case(fam_line("int", -1.0, 2.0, 1e-6, 6, "any", [], "log x"), ("int", "nan")))
    cs.append(Case(fam_line("int", 0.0, 1.0, 1e-6, 6, "any", [], "/ c 0x1p+0 x"), ("int", "inf")))
    return cs


# ---------------------------------------------------------------- comparison (traces as multisets)
def _split(line, op):
    """-> list of (value, warn, count, trace tokens) per call"""
    t = line.split()
    if op == "int":
        return [(t[0], t[1], t[2], t[3:])] if len(t) >= 3 else None
    if op == "nest":
        return [(t[0], t[1], t[2], t[9:])] if len(t) >= 9 else None
    if op == "seq":
        if len(t) % 5: return None
        return [(t[i], t[i + 1], t[i + 2], t[i + 3:i + 5]) for i in range(0, len(t), 5)]
    if len(t) != 6: return None
    return [(t[0], t[1], t[2], []), (t[3], t[4], t[5], [])]


def compare(c, io, mo, tol):
    ok, bit, detail = compare_lines(io, mo, tol)
    if ok: return ok, bit, detail
    op = c.line.split()[0]
    if op not in ("int", "nest"): return ok, bit, detail
    a, b = _split(io, op), _split(mo, op)
    if not a or not b: return ok, bit, detail
    (v1, w1, n1, t1), (v2, w2, n2, t2) = a[0], b[0]
    if op == "nest":       # value warn count + the six inner statistics, then the trace
        v1 = " ".join([v1] + io.split()[3:9]); v2 = " ".join([v2] + mo.split()[3:9])
    ok2, _, d2 = compare_lines(f"{v1} {w1} {n1}", f"{v2} {w2} {n2}", tol)
    if not ok2: return False, False, d2
    if len(t1) != len(t2): return False, False, "trace lengths differ"
    s1 = sorted(tokf(x) for x in t1); s2 = sorted(tokf(x) for x in t2)
    if s1 != s2:
        k = next(i for i, (x, y) in enumerate(zip(s1, s2)) if x != y)
        return False, False, f"evaluation abscissae differ as multisets (sorted position {k}: impl {s1[k]!r} model {s2[k]!r})"
    return True, False, ""


# ---------------------------------------------------------------- S4
def parse_family(t, k):
    fam = t[k]; n = int(t[k + 1]); params = [tokf(x) for x in t[k + 2:k + 2 + n]]
    return fam, params, k + 2 + n


def parse_case(line):
    t = line.split(); op = t[0]
    if op == "findeps":
        a, b, p = (tokf(x) for x in t[1:4]); k = 4; eps, depth = p, 0
    else:
        a, b, eps = (tokf(x) for x in t[1:4]); depth = int(t[4]); k = 5
    fam, params, k = parse_family(t, k)
    return op, a, b, eps, depth, fam, params, t[k:]


def parse_seq(line):
    """-> list of (kind, a, b, eps-or-'@'-or-precision-or-method, depth, fam, params, fexpr tokens); kind = I D M F O, or X<kind><k> for
    the call that its integrand abandons at its k-th evaluation"""
    t = line.split(); n = int(t[1]); i = 2; out = []
    for _ in range(n):
        kind = t[i]; a = tokf(t[i + 1]); b = tokf(t[i + 2]); i += 3
        eps = None; depth = DEFAULT_DEPTH
        kx = 0; ab = kind.startswith("X")
        if ab: kind = kind[1:] or "I"
        if kind in ("I", "D"):
            eps = "@" if t[i] == "@" else tokf(t[i]); i += 1
        if kind == "I": depth = int(t[i]); i += 1
        if kind == "F": eps = tokf(t[i]); i += 1
        if kind == "O": eps = t[i]; i += 1
        if ab: kx = int(t[i]); i += 1
        fam, params, i = parse_family(t, i)
        _, j = parse_fexpr(t, i)
        out.append((kind if not ab else "X%s%d" % (kind, kx), a, b, eps, depth, fam, params, t[i:j])); i = j
    return out


def parse_nest(line):
    """-> dict of the nested request"""
    t = line.split(); d = {"ok": t[1], "a": tokf(t[2]), "b": tokf(t[3]), "eps": 0.0, "depth": DEFAULT_DEPTH}; i = 4
    if d["ok"] in "ID": d["eps"] = tokf(t[i]); i += 1
    if d["ok"] == "I": d["depth"] = int(t[i]); i += 1
    d["ik"] = t[i]; i += 1; d["ieps"] = 0.0; d["idepth"] = DEFAULT_DEPTH
    if d["ik"] in "IDF": d["ieps"] = tokf(t[i]); i += 1
    if d["ik"] == "I": d["idepth"] = int(t[i]); i += 1
    d["fam"], d["params"], i = parse_family(t, i)
    return d


def poly_mul(p, q):
    r = [Fraction(0)] * (len(p) + len(q) - 1)
    for i, x in enumerate(p):
        for j, y in enumerate(q): r[i + j] += x * y
    return r


def poly_add(p, q, sq=1):
    n = max(len(p), len(q))
    return [(p[k] if k < len(p) else 0) + sq * (q[k] if k < len(q) else 0) for k in range(n)]


def nq_reference(d, imax):
    """exact integral and a-priori rounding slack of the nested polynomial request (family nq).
    F(x) = e1*K*int_{lo(u)}^{hi(u)} g(u,t) dt + p(u), u = x - sx, g = sum c_ij u^i (t-st)^j, lo = l0 + l1 u, hi = h0 + h1 u, K = 1 (the
    inner call is an integration) or the precision argument (Find_Epsilon: Simpson's rule, exact for degree <= 3 in t).
    Slack (DESIGN 5.3; see value_preds for the single call): the inner call returns J with an error dJ = the single-call slack of a
    polynomial in t (its coefficients, polynomials in u evaluated by Horner, carry up to ~25 eps relative to sum |c_ij| U^i T^j: factor 6
    on that sum) + the rounding of the two limits (2 eps each, relative to their terms) times max|g|; F then carries dF = |e1| dJ + 8 eps
    max|F|.  Every leaf value S2 + (S2-S)/15 of the outer call is a linear form in five values of F with weights summing (in modulus) to at
    most (1 + 2/15) h, so the outer result moves by at most 1.2 |b-a| dF, on top of the single-call slack of the exact F."""
    pr = d["params"]; sx, st, l0, l1, h0, h1, e1 = pr[:7]; dx, dt = int(pr[7]), int(pr[8]); pk = pr[9:15]
    cij = [pr[15 + i * (dt + 1):15 + (i + 1) * (dt + 1)] for i in range(dx + 1)]
    a, b = d["a"], d["b"]; K = d["ieps"] if d["ik"] == "F" else 1.0
    LO = [Fraction(l0) - Fraction(st), Fraction(l1)]; HI = [Fraction(h0) - Fraction(st), Fraction(h1)]
    J = [Fraction(0)]
    plo, phi = [Fraction(1)], [Fraction(1)]
    for j in range(dt + 1):
        plo = poly_mul(plo, LO); phi = poly_mul(phi, HI)          # (lo-st)^(j+1), (hi-st)^(j+1)
        diff = [c / (j + 1) for c in poly_add(phi, plo, -1)]
        col = [Fraction(cij[i][j]) for i in range(dx + 1)]
        J = poly_add(J, poly_mul(col, diff))
    Fp = poly_add([Fraction(e1) * Fraction(K) * c for c in J], [Fraction(c) for c in pk])
    A, B = Fraction(a) - Fraction(sx), Fraction(b) - Fraction(sx)
    I = sum(c * (B ** (k + 1) - A ** (k + 1)) / (k + 1) for k, c in enumerate(Fp))
    # slack
    U = max(abs(a - sx), abs(b - sx)); X = max(abs(a), abs(b)); wd = abs(b - a)
    ends = [(l0 + l1 * u, h0 + h1 * u) for u in (a - sx, b - sx)]
    T = max(max(abs(l - st), abs(h - st)) for l, h in ends)
    wi = max(abs(h - l) for l, h in ends) + 4 * EPS * (abs(l0) + abs(h0) + (abs(l1) + abs(h1)) * U)
    Xi = max(max(abs(l), abs(h)) for l, h in ends)
    gmax = sum(abs(cij[i][j]) * U ** i * T ** j for i in range(dx + 1) for j in range(dt + 1))
    dgt = sum(j * abs(cij[i][j]) * U ** i * T ** (j - 1) for i in range(dx + 1) for j in range(1, dt + 1))
    dgu = sum(i * abs(cij[i][j]) * U ** (i - 1) * T ** j for i in range(1, dx + 1) for j in range(dt + 1))
    din = max(d["idepth"], 0); leaves_in = max((imax - 1) // 4, 1)
    dJ = ((64 + 2 * din) * EPS * wi * (6 * gmax + Xi * dgt) + (leaves_in if leaves_in > 1 else 0) * EPS * Xi / 15 * gmax
          + 4 * EPS * (abs(l0) + abs(h0) + (abs(l1) + abs(h1)) * U) * gmax)
    Jmax = abs(K) * wi * gmax; dJ = abs(K) * dJ + 4 * EPS * Jmax
    pmax = sum(abs(c) * U ** k for k, c in enumerate(pk)); dp = sum(k * abs(c) * U ** (k - 1) for k, c in enumerate(pk) if k >= 1)
    Fmax = abs(e1) * Jmax + pmax
    dF = abs(e1) * dJ + 8 * EPS * Fmax
    dFdx = abs(e1) * abs(K) * (wi * dgu + (abs(l1) + abs(h1)) * gmax) + dp
    return I, Fmax, dF, dFdx


def nest_predicates(c, io):
    """a call whose integrand calls the integrator: the clauses of the outer call (count, location, equal limits, exactness on
    polynomials) and, for the calls made by the integrand, their own count and location bounds and independence of the running outer call"""
    out = []
    d = parse_nest(c.line); t = io.split()
    if io.startswith("EXIT"): return [("nest:exit", "the library terminated the process")]
    if len(t) < 9: return [("nest:output", "unexpected output shape")]
    v = tokf(t[0]); warn = t[1] == "1"; n = int(t[2]); itot, imax, iwarn, iout, imis = (int(x) for x in t[3:8]); xmis = tokf(t[8])
    a, b, ok, ik = d["a"], d["b"], d["ok"], d["ik"]
    dn = max(d["depth"], 0); lo, hi = min(a, b), max(a, b)
    bound = 2 ** (dn + 2) + 1 + (3 if ok == "M" else 0)
    tag = "nest:" + ok
    if n > bound:
        out.append((tag + ":count", f"the integrand (which itself calls the integrator, kind {ik}) was evaluated {n} times" + (" or more (stopped by the harness)" if v != v and n >= bound + 256 else "") + f", more than the bound {bound}"))
    if a == b:
        if n != 0 or v != 0.0: out.append((tag + ":equal-limits", f"equal limits returned {v!r} after {n} evaluations, expected 0 without evaluations"))
        return out
    if n < 5: out.append((tag + ":count-min", f"only {n} evaluations for distinct limits"))
    if n <= bound and (n - (3 if ok == "M" else 0)) % 4 != 1:
        out.append((tag + ":count-shape", f"{n} evaluations of the integrand (which itself calls the integrator): not of the form 4 L + {4 if ok == 'M' else 1}"))
    pts = [tokf(x) for x in t[9:]]
    bad = [x for x in pts if not (lo <= x <= hi)]
    if bad: out.append((tag + ":location", f"integrand evaluated at {bad[0]!r} outside [{lo!r},{hi!r}]"))
    # the calls made by the integrand
    ibound = {"I": 2 ** (max(d["idepth"], 0) + 2) + 1, "D": 2 ** (DEFAULT_DEPTH + 2) + 1, "M": 2 ** (DEFAULT_DEPTH + 2) + 4, "F": 3}[ik]
    if imax > ibound: out.append((f"nest:inner-{ik}:count", f"a call made by the integrand evaluated its own integrand {imax} times, more than the bound {ibound}"))
    if iout: out.append((f"nest:inner-{ik}:location", f"{iout} evaluations of calls made by the integrand lie outside the limits of those calls"))
    if imis: out.append((f"nest:inner-{ik}:reentrant", f"{imis} of the {n} calls made by the integrand while the outer integration was running were answered differently "
                         f"(value, evaluation count or warning) from the same call made alone; first at the outer abscissa {xmis!r}"))
    if n > bound: return out
    if d["fam"] == "nq":
        I, Fmax, dF, dFdx = nq_reference(d, imax)
        X = max(abs(a), abs(b)); wd = abs(b - a)
        leaves = max((n - (3 if ok == "M" else 0) - 1) // 4, 1)
        slack = (64 + 2 * dn) * EPS * wd * (Fmax + X * dFdx) + (leaves if leaves > 1 else 0) * EPS * X / 15 * Fmax + 1.2 * wd * dF
        fin = v == v and abs(v) != math.inf
        if slack == slack and slack != math.inf and (not fin or not (abs(Fraction(v) - I) <= Fraction(slack))):
            out.append((tag + ":quintic-exact", f"nested polynomial (degree <= 5 in the outer variable): returned {v!r}, exact integral {float(I)!r}, "
                        f"difference {float(abs(Fraction(v) - I)) if fin else v!r} > rounding slack {slack!r}"))
    return out


def exact_quintic(cs, a, b, s=0.0):
    A, B = Fraction(a) - Fraction(s), Fraction(b) - Fraction(s)
    return sum(Fraction(c) * (B ** (k + 1) - A ** (k + 1)) / (k + 1) for k, c in enumerate(cs))


def analytic(fam, p, a, b):
    """(integral from a to b, max|f| on the interval, condition number of f w.r.t. x) — a<b"""
    if fam == "exp":
        w = p[0]; s = p[1] if len(p) > 1 else 0.0
        I = math.exp(w * (a - s)) * math.expm1(w * (b - a)) / w
        return I, max(math.exp(w * (a - s)), math.exp(w * (b - s))), abs(w) * max(abs(a), abs(b))
    if fam == "cosh":
        w = p[0]; s = p[1] if len(p) > 1 else 0.0
        I = 2 * math.cosh(w * ((a - s) + (b - s)) / 2) * math.sinh(w * (b - a) / 2) / w
        return I, math.cosh(w * max(abs(a - s), abs(b - s))), abs(w) * max(abs(a), abs(b))
    if fam == "invpow":
        s, k = p; t = a + s; r = (b - a) / t
        I = (math.log1p(r) if k == 1.0 else t ** (1 - k) * math.expm1((1 - k) * math.log1p(r)) / (1 - k))
        return I, t ** (-k), k * (max(abs(a), abs(b)) + abs(s)) / t
    if fam == "pow":
        q = p[0]; r = (b - a) / a
        I = math.log1p(r) if q == -1.0 else a ** (q + 1) * math.expm1((q + 1) * math.log1p(r)) / (q + 1)
        return I, max(a ** q, b ** q), abs(q)
    return None


def f4max(fam, p, a, b):
    """max |f4| (fourth derivative) on [a,b] (a<b) for the estimator-regular families: |f4| is monotone (cosh: symmetric about s), so the maximum is at an end"""
    try:
        if fam == "exp":
            w = p[0]; s = p[1] if len(p) > 1 else 0.0
            return w ** 4 * max(math.exp(w * (a - s)), math.exp(w * (b - s)))
        if fam == "cosh":
            w = p[0]; s = p[1] if len(p) > 1 else 0.0
            return w ** 4 * math.cosh(w * max(abs(a - s), abs(b - s)))
        if fam == "invpow":
            s, k = p; c = abs(k * (k + 1) * (k + 2) * (k + 3))
            return c * max((a + s) ** (-k - 4), (b + s) ** (-k - 4))
        if fam == "pow":
            q = p[0]; c = abs(q * (q - 1) * (q - 2) * (q - 3))
            return c * max(a ** (q - 4), b ** (q - 4))
    except (OverflowError, ZeroDivisionError, ValueError):
        pass
    return math.nan


def value_preds(op, a, b, eps, dn, fam, params, v, warn, leaves):
    """the clauses about the returned value of one call Integrate(f,a,b,eps,depth>=0 = dn), a != b.
    A-priori rounding slack (DESIGN 5.3), relative to h*max|f| per leaf and summed over the leaves (sum h = |b-a|):
      ~25 eps per leaf (function value, abscissae, panel rule, Richardson) + one eps per level of the summation tree, factor >= 2
      margin: (64 + 2 dn) eps |b-a| max|f|;
      the abscissae are rounded with an absolute error up to eps*X (X = max(|a|,|b|)), which moves the nodes of a panel: (64 + 2 dn) eps
      |b-a| X max|f'| (for a polynomial in x itself X max|f'| <= 5 sum |c_k| X^k, already contained in the first term);
      a leaf whose sibling was split inherits the coarse estimate S = (h/12)(..) of its parent, computed with the parent's h/2 while
      its own width is h/2 + delta, |delta| <= eps*X, the rounding error of the parent's midpoint: S is off by delta*mean(f), the
      returned S2 + (S2 - S)/15 by delta*mean(f)/15 <= eps X max|f| / 15 for each such leaf (`leaves` = number of leaves of the tree,
      (count-1)/4; nothing is inherited when the tree is a single leaf)."""
    out = []
    X = max(abs(a), abs(b)); wd = abs(b - a)
    inh = (leaves if leaves > 1 else 0) * EPS * X / 15
    fin = v == v and abs(v) != math.inf
    if fam in ("quintic", "qshift"):
        s, cs = (0.0, params) if fam == "quintic" else (params[0], params[1:])
        I = exact_quintic(cs, a, b, s)
        T = max(abs(a - s), abs(b - s))
        fmax = sum(abs(cf) * T ** k for k, cf in enumerate(cs))
        dfmax = sum(k * abs(cf) * T ** (k - 1) for k, cf in enumerate(cs) if k >= 1)
        k0 = (64 + 2 * dn) * EPS * wd
        slack = k0 * fmax + (k0 * X * dfmax if fam == "qshift" else 0.0) + inh * fmax
        if not (slack == slack and slack != math.inf): return out
        # region of the signature, decided from the request: can an intermediate of the rule as written reach DBL_MAX?
        region = "" if estimates_representable(wd, fmax) else ":estimate-overflow"
        if abs(I) + Fraction(slack) >= Fraction(DBL_MAX): return out      # the integral itself is not (safely) representable: nothing is claimed
        if not fin or not (abs(Fraction(v) - I) <= Fraction(slack)):
            out.append((op + ":quintic-exact" + region, f"polynomial of degree <= 5: returned {v!r}, exact integral {float(I)!r}, difference {float(abs(Fraction(v) - I)) if fin else v!r} > rounding slack {slack!r}"))
    elif fam in ("exp", "cosh", "invpow", "pow"):
        lo, hi = min(a, b), max(a, b)
        sgn = 1.0 if a < b else -1.0
        I, fmax, kappa = analytic(fam, params, lo, hi); I *= sgn
        slack = (64 + 2 * dn) * EPS * wd * fmax * (1 + kappa) + 16 * EPS * abs(I) * (1 + kappa) + inh * fmax
        if not warn and not (abs(v - I) <= 4 * abs(eps) + slack):
            out.append((op + ":error-bound", f"{fam} {params}: |result - integral| = {abs(v - I)!r} > 4*|eps| + rounding = {4 * abs(eps) + slack!r} (result {v!r}, integral {I!r}, no warning)"))
        # C03_error_bound_any_depth: with or without the warning |result - integral| <= 4|eps| + |b-a|^5 m / (14400 16^depth), m = min|f4|
        # (here the larger max|f4| is used, a weaker but equally a-priori bound)
        M4 = f4max(fam, params, lo, hi)
        if warn and M4 == M4 and M4 != math.inf:
            # C03_sufficient_depth_no_warning: a panel of width w = |b-a|/2^depth has |S2 - S| <= w^5 max|f4| / 720; when that (doubled, plus the
            # rounding of S2 - S on such a panel: panel rule and abscissae 64 eps w max|f| (1+kappa), inherited estimate 2 eps X max|f|) stays
            # below the tolerance 15 |eps| / 2^depth in force there, no panel can be forced with a failing test: the warning must not appear
            w = wd / 2.0 ** dn
            dmax = 2 * (w ** 5 * M4 / 720.0) + 64 * EPS * w * fmax * (1 + kappa) + 2 * EPS * X * fmax
            if dmax <= 15 * abs(eps) / 2.0 ** dn:
                out.append((op + ":warning-unjustified", f"{fam} {params}: non-convergence warning although every panel of width |b-a|/2^depth = {w!r} has |S2-S| <= {dmax!r} <= 15|eps|/2^depth = {15 * abs(eps) / 2.0 ** dn!r}"))
            forced = wd ** 5 * M4 / (14400.0 * 16.0 ** dn) * (1 + 1e-9)
            if not (abs(v - I) <= 4 * abs(eps) + forced + slack):
                out.append((op + ":error-bound-forced", f"{fam} {params}: |result - integral| = {abs(v - I)!r} > 4*|eps| + |b-a|^5 max|f4| / (14400*16^depth) + rounding = {4 * abs(eps) + forced + slack!r} (result {v!r}, integral {I!r}, warning raised)"))
    return out


def pass7_predicates(c, io):
    """ops diag, named, i2d, i3d"""
    out = []
    t = c.line.split(); op = t[0]; r = io.split()
    if op == "named":
        name = t[1]; a, b = tokf(t[2]), tokf(t[3])
        unknown = name != "Adaptive-Simpson" and name not in RECOGNISED_OTHER
        if unknown:
            if not io.startswith("EXIT"): out.append(("named:guard", f"Integrate(f,a,b,{name!r}) answered {io[:60]!r}: an unrecognised method must end the process with a diagnostic"))
            return out
        if io.startswith("EXIT"): return [("named:exit", f"Integrate(f,a,b,{name!r}) terminated the process")]
        if io.startswith("SKIP"): return out
        if len(r) != 3: return [("named:output", "unexpected output shape")]
        v = tokf(r[0]); n = int(r[2])
        if a == b:
            if n != 0 or v != 0.0: out.append(("named:equal-limits", f"equal limits returned {v!r} after {n} evaluations"))
            return out
        if n > 2 ** 22 + 4: out.append(("named:count", f"{n} evaluations exceed 2^22+4"))
        if n % 4 != 0 or n < 8: out.append(("named:count-shape", f"{n} evaluations: not of the form 4 L + 4"))
        fam, params, _ = parse_family(t, 4)
        f, _ = parse_fexpr(t[4 + 2 + len(params):], 0)
        eps = py_find_epsilon(f, min(a, b), max(a, b), 1e-9)
        if eps == eps: out += value_preds("named", a, b, eps, DEFAULT_DEPTH, fam, params, v, r[1] == "1", max((n - 4) // 4, 1))
        return out
    if io.startswith("EXIT"): return [(op + ":exit", "the library terminated the process")]
    if op == "diag":
        a, b = tokf(t[1]), tokf(t[2]); depth = int(t[4])
        if len(r) != 6: return [("diag:output", "unexpected output shape")]
        v = tokf(r[0]); n = int(r[2]); notice, wnan, winf = (x == "1" for x in r[3:6])
        if notice != (a > b): out.append(("diag:swap-notice", f"limits {a!r}, {b!r}: swap notice " + ("printed" if notice else "missing")))
        if wnan != (v != v): out.append(("diag:nan-notice", f"result {v!r}: nan notice " + ("printed" if wnan else "missing")))
        if winf != (abs(v) == math.inf): out.append(("diag:inf-notice", f"result {v!r}: inf notice " + ("printed" if winf else "missing")))
        if a == b and (n != 0 or v != 0.0 or r[1] == "1"): out.append(("diag:equal-limits", f"equal limits returned {v!r} after {n} evaluations"))
        if a != b and (n % 4 != 1 or n < 5 or n > 2 ** (max(depth, 0) + 2) + 1): out.append(("diag:count", f"{n} integrand evaluations at depth {depth}"))
        return out
    nd = 2 if op == "i2d" else 3
    lims = [(tokf(t[1 + 2 * k]), tokf(t[2 + 2 * k])) for k in range(nd)]
    if len(r) != (7 if nd == 2 else 3): return [(op + ":output", "unexpected output shape")]
    v = tokf(r[0]); n = int(r[2])
    fam, params, _ = parse_family(t, 1 + 2 * nd)
    if n > (2 ** 22 + 4) ** nd: out.append((op + ":count", f"{n} evaluations of the integrand"))
    # equal limits in the outermost variable: no evaluation at all; in an inner variable: the calls of that level return 0 without evaluating
    if any(l[0] == l[1] for l in lims):
        if n != 0 or v != 0.0: out.append((op + ":equal-limits", f"a pair of equal limits: returned {v!r} after {n} evaluations of the integrand"))
        return out
    if n % 4 != 0 or n < 8 ** nd: out.append((op + ":count-shape", f"{n} evaluations: the innermost calls make 4 L + 4 each, at least 8 per level"))
    if nd == 2:
        xmn, xmx, ymn, ymx = (tokf(x) for x in r[3:7])
        if not (min(lims[0]) <= xmn and xmx <= max(lims[0]) and min(lims[1]) <= ymn and ymx <= max(lims[1])):
            out.append(("i2d:location", f"integrand evaluated in [{xmn!r},{xmx!r}] x [{ymn!r},{ymx!r}], outside the rectangle of the limits"))
    if fam in ("q2", "q3"):
        d = [int(x) for x in params[:nd]]; cf = params[nd:]
        A = [max(abs(l[0]), abs(l[1])) for l in lims]; W = [abs(l[1] - l[0]) for l in lims]
        I = Fraction(0); gmax = 0.0; idx = 0
        def mono(k, e):
            lo, hi = Fraction(lims[k][0]), Fraction(lims[k][1])
            return (hi ** (e + 1) - lo ** (e + 1)) / (e + 1)
        import itertools
        for e in itertools.product(*[range(x + 1) for x in d]):
            cc = cf[idx]; idx += 1
            term = Fraction(cc); g = abs(cc)
            for k in range(nd): term *= mono(k, e[k]); g *= A[k] ** e[k]
            I += term; gmax += g
        vol = 1.0
        for w in W: vol *= w
        # a-priori rounding slack: per level (64 + 2*20) eps relative to 6 * volume * max|f| (function value and abscissae of a polynomial
        # in the variables themselves, panel rule, Richardson, summation tree of depth <= 20); inherited coarse estimates: at most n/4 panels,
        # each off by eps * |abscissa| * (cross-section) * max|f| / 15
        slack = nd * (64 + 2 * DEFAULT_DEPTH) * 6 * EPS * vol * gmax + 1.2 * (n / 4) * EPS * sum(A[k] * vol / W[k] for k in range(nd)) * gmax / 15
        fin = v == v and abs(v) != math.inf
        if not fin or not (abs(Fraction(v) - I) <= Fraction(slack)):
            out.append((op + ":quintic-exact", f"polynomial of degree <= 5 in each variable: returned {v!r}, exact integral {float(I)!r}, difference {float(abs(Fraction(v) - I)) if fin else v!r} > rounding slack {slack!r}"))
    return out


def predicates(c, io):
    out = []
    if io.startswith(("CRASH", "SANITIZER", "TIMEOUT", "HARNESSERR")): return out
    if c.line.startswith(("diag ", "named ", "i2d ", "i3d ")): return pass7_predicates(c, io)
    if c.line.startswith("seq "): return seq_predicates(c, io)
    if c.line.startswith("nest "): return nest_predicates(c, io)
    op, a, b, eps, depth, fam, params, fx = parse_case(c.line)
    if io.startswith("EXIT"): return [(op + ":exit", "Integrate terminated the process")]
    if op == "findeps": return out
    calls = _split(io, op)
    if not calls: return [(op + ":output", "unexpected output shape")]
    dn = max(depth, 0); lo, hi = min(a, b), max(a, b)
    for (v, w, n, tr) in calls:
        v = tokf(v); n = int(n)
        # count bound, every integrand
        if n > 2 ** (dn + 2) + 1:
            out.append((op + ":count", f"{n} integrand evaluations exceed 2^(depth+2)+1 = {2 ** (dn + 2) + 1}"))
        if a == b and (n != 0 or v != 0.0):
            out.append((op + ":equal-limits", f"equal limits returned {v!r} after {n} evaluations, expected 0 without evaluations"))
        if a != b and n < 5: out.append((op + ":count-min", f"only {n} evaluations for distinct limits"))
        if a != b and n % 4 != 1:      # C03_eval_count_shape: 3 first values + 2 per node of a binary tree = 4 L + 1
            out.append((op + ":count-shape", f"{n} integrand evaluations: not of the form 4 L + 1 (three first values and two per panel of a binary tree with L leaves)"))
        # location bound
        pts = [tokf(x) for x in tr]
        bad = [x for x in pts if not (lo <= x <= hi)]
        if bad: out.append((op + ":location", f"integrand evaluated at {bad[0]!r} outside [{lo!r},{hi!r}]"))
        if len(pts) == n and n and len(set(pts)) < n and hi - lo > 2 ** (dn + 4) * EPS * max(abs(lo), abs(hi)):
            out.append((op + ":distinct", "an abscissa was evaluated twice"))
    if op == "swap":
        (v1, w1, n1, _), (v2, w2, n2, _) = calls
        x1, x2 = tokf(v1), tokf(v2)
        if not ((x1 != x1 and x2 != x2) or x2 == -x1): out.append(("swap:negates", f"Integrate(a,b) = {x1!r} but Integrate(b,a) = {x2!r}"))
        if n1 != n2 or w1 != w2: out.append(("swap:same-work", f"swapped limits changed the evaluation count or warning ({n1},{w1}) vs ({n2},{w2})"))
    if op == "epssign":
        (v1, w1, n1, _), (v2, w2, n2, _) = calls
        x1, x2 = tokf(v1), tokf(v2)
        if not ((x1 != x1 and x2 != x2) or x1 == x2) or n1 != n2 or w1 != w2:
            out.append(("epssign:irrelevant", f"epsilon and -epsilon give {x1!r} ({n1} evals) vs {x2!r} ({n2} evals)"))
    if a == b: return out
    # value clauses on the first call (the requested a, b, eps)
    v = tokf(calls[0][0]); warn = calls[0][1] == "1"; n = int(calls[0][2])
    out += value_preds("int", a, b, eps, dn, fam, params, v, warn, max((n - 1) // 4, 1))
    return out


def seq_predicates(c, io):
    """every call of a sequence must satisfy the clauses of a single call (whatever was called before it in the process)"""
    out = []
    if io.startswith("EXIT"): return [("seq:exit", "the library terminated the process")]
    reqs = parse_seq(c.line); res = _split(io, "seq")
    if not res or len(res) != len(reqs): return [("seq:output", "unexpected output shape")]
    last = 0.0; seen = {}
    for j, ((kind, a, b, eps, depth, fam, params, fx), (v, w, n, mm)) in enumerate(zip(reqs, res)):
        v = tokf(v); n = int(n); warn = w == "1"; pmin, pmax = tokf(mm[0]), tokf(mm[1])
        lo, hi = min(a, b), max(a, b)
        kx = 0; base = kind
        if kind.startswith("X"): kx = int(kind[2:]); base = kind[1]; kind = "X" + (base if base != "I" else "")
        tag = f"seq:{kind}"
        where = f"call {j + 1} ({kind}) of the sequence: "
        if base == "O": continue      # another method of the string overload: history only
        if kx and n >= kx:        # abandoned by the integrand at its kx-th evaluation: nothing to evaluate but the count
            bound = {"I": 2 ** (max(depth, 0) + 2) + 1, "D": 2 ** (DEFAULT_DEPTH + 2) + 1, "M": 2 ** (DEFAULT_DEPTH + 2) + 4, "F": 3}[base]
            if kx > bound:
                out.append((tag + ":count", where + f"the integrand was evaluated a {kx}-th time, the bound is {bound}"))
            continue
        kind = base
        if n and not (lo <= pmin and pmax <= hi):
            out.append((tag + ":location", where + f"integrand evaluated in [{pmin!r},{pmax!r}], outside [{lo!r},{hi!r}]"))
        if kind == "F":
            last = v
            if n != 3: out.append((tag + ":count", where + f"Find_Epsilon made {n} evaluations"))
            continue
        if eps == "@": eps = last
        dn = max(depth, 0)
        extra = 3 if kind == "M" else 0           # the string overload evaluates a, b, midpoint in Find_Epsilon first
        bound = 2 ** (dn + 2) + 1 + extra
        if a == b:
            if n != 0 or v != 0.0: out.append((tag + ":equal-limits", where + f"equal limits returned {v!r} after {n} evaluations"))
            continue
        if n > bound: out.append((tag + ":count", where + f"{n} integrand evaluations exceed the bound {bound}"))
        if n < 5: out.append((tag + ":count-min", where + f"only {n} evaluations for distinct limits"))
        if (n - extra) % 4 != 1:
            out.append((tag + ":count-shape", where + f"{n} integrand evaluations: not of the form 4 L + {1 + extra}"))
        if kind == "M":
            f, _ = parse_fexpr(fx, 0); eps = py_find_epsilon(f, lo, hi, 1e-9)
        if eps == eps:
            for sig, msg in value_preds(tag, a, b, eps, dn, fam, params, v, warn, max((n - extra - 1) // 4, 1)):
                out.append((sig, where + msg))
        # the same request made twice in one process must be answered identically; reversed limits negate
        key = ("I" if kind in "ID" else kind, lo, hi, abs(eps) if eps == eps else "nan", dn, " ".join(fx))
        if key in seen:
            (pa, pv, pw, pn) = seen[key]
            want = pv if pa == a else -pv
            if not ((v != v and want != want) or v == want) or pn != n or pw != warn:
                out.append((tag + (":repeat" if pa == a else ":swap-negates"), where + f"the same request was answered {pv!r} ({pn} evaluations) earlier in the process and {v!r} ({n} evaluations) now" + ("" if pa == a else " (limits reversed: expected the negative)")))
        else: seen[key] = (a, v, warn, n)
    return out


def nontrivial(c, io):
    op = c.line.split()[0]
    if op in ("diag", "named", "i2d", "i3d"):
        r = io.split()
        if io.startswith(("EXIT", "CRASH", "SKIP")) or len(r) < 3: return False
        return r[1] == "1" or int(r[2]) > {"diag": 5, "named": 8, "i2d": 64, "i3d": 512}[op]
    if op == "findeps" or io.startswith(("EXIT", "CRASH")): return False
    calls = _split(io, op)
    if not calls: return False
    return any(int(n) > 5 or w == "1" for (_, w, n, _) in calls)
