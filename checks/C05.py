"""C05 — Inverse and Determinant are correct for every square matrix.

Case grammar (see harness/C05.cpp, ocaml/C05_driver.ml); a matrix is a table `rows` + each row as a list:
  det A | invertible A (prints flag, and the determinant when square) | inverse A
  det_swap A i j  -> det(A), det(A with rows i,j exchanged)
  det_laws A B    -> det A, det B, det(A*B), det(A^T)
The reference in S4 is exact rational arithmetic (fractions.Fraction) on the double-valued input.
"""
import math, itertools, functools
from fractions import Fraction
from vcheck import Case, hx, flist, tokf

PID = "C05"
MODEL_DEPS = ["C04_Model.v"]
EPS = 2.0 ** -53
# Determinant by Laplace expansion = sum of n! signed products of n entries, each accumulated through at most
# n-1 multiplications and n additions: relative error per product <= 2n*eps <= 14*eps (n <= 7).  DESIGN 5.3 fixes
# the slack at 64*eps*sum|t_k| with sum|t_k| = perm(|A|).
DET_SLACK = 64 * EPS
# Inverse: "relative accuracy of a small multiple of n times the condition number times machine epsilon".
# The multiple is fixed a priori at C_INV = 64 (the same 64 as everywhere in DESIGN 5.3; Gauss-Jordan with partial
# pivoting has forward error c(n)*growth*kappa*eps with growth ~ 1..n in practice): with kappa = ||M||_F ||M^-1||_F
#   ||X - M^-1||_F <= C_INV*n*kappa*eps*||M^-1||_F,  ||X*M - 1||_F <= C_INV*n*kappa*eps,  ||M*X - 1||_F <= C_INV*n*kappa^2*eps.
C_INV = 64.0
RULE = ("one case = one call of Determinant / Invertible / Inverse (or a determinant law on two calls); non-trivial = the matrix has a zero or "
        "tiny (< 1e-8*||M||^k for the k-th) leading principal minor, or a condition number above 1e4, or is non-square / exactly singular "
        "(guard exercised); distinct by case text")
LEVEL_TEXT = ("Theorems (Coq/MathComp, every size, every field): the model's Laplace determinant is the determinant (\\det), hence multiplicative, "
              "transpose-invariant, sign-changing under a row swap and the product of the diagonal for triangular matrices; Invertible <-> det != 0; "
              "whenever Inverse returns X then X*M = 1 and M*X = 1; a singular or non-square matrix exits; see evidence.coverage.theorems. "
              "NOT a theorem: the floating-point accuracy clause (c*n*kappa*eps) - it is checked in S4 against the exact rational inverse and "
              "determinant of the double-valued input. The Gallina model is extracted and run against libphysica on every run (bit-identical).")
LEVEL_NOTE = ("Coq 8.16.1 + MathComp 1.15, axiom-free; hand-written model (coq/C05_Model.v, uses coq/C04_Model.v) tied by differential correspondence; "
              "theorems are about exact field arithmetic (the exact values of the doubles); pivot choice (fabs, >) is left uninterpreted in the "
              "soundness theorem, so it holds for every pivoting rule")
TOL = (1e-9, 0.0)
TRUSTED = ["accuracy reference: exact rational Gauss-Jordan in Python fractions.Fraction (checks/C05.py)"]


# ---------------------------------------------------------------- exact arithmetic
def key(A): return tuple(tuple(r) for r in A)


@functools.lru_cache(maxsize=4096)
def exact(Ak):
    """(det, inverse or None) of a square matrix of doubles, exactly"""
    n = len(Ak)
    M = [[Fraction(x) for x in row] + [Fraction(int(i == j)) for j in range(n)] for i, row in enumerate(Ak)]
    det = Fraction(1)
    for c in range(n):
        p = next((r for r in range(c, n) if M[r][c] != 0), None)
        if p is None: return Fraction(0), None
        if p != c: M[c], M[p] = M[p], M[c]; det = -det
        piv = M[c][c]; det *= piv
        M[c] = [x / piv for x in M[c]]
        for r in range(n):
            if r != c and M[r][c] != 0:
                f = M[r][c]; M[r] = [x - f * y for x, y in zip(M[r], M[c])]
    return det, [row[n:] for row in M]


def perm_abs(A):
    """permanent of |A| (sum of the magnitudes of the n! Leibniz terms), DP over column subsets, in floats"""
    n = len(A)
    dp = {0: 1.0}
    for i in range(n):
        nd = {}
        for mask, v in dp.items():
            for j in range(n):
                if not mask & (1 << j):
                    nd[mask | (1 << j)] = nd.get(mask | (1 << j), 0.0) + v * abs(A[i][j])
        dp = nd
    return dp.get((1 << n) - 1, 0.0) if n else 1.0


def fro(M): return math.sqrt(sum(float(x) ** 2 for r in M for x in r))


def fprod(A, B):
    """the double-precision product exactly as Matrix::Product forms it (k ascending from 0.0)"""
    out = []
    for i in range(len(A)):
        row = []
        for j in range(len(B[0])):
            acc = 0.0
            for k in range(len(B)): acc += A[i][k] * B[k][j]
            row.append(acc)
        out.append(row)
    return out


def kappa(A):
    d, inv = exact(key(A))
    if inv is None: return math.inf
    return fro(A) * fro(inv)


def small_int(A): return all(x == int(x) and abs(x) <= 9 for r in A for x in r)


# ---------------------------------------------------------------- generators
def mtab(A): return f"{len(A)} " + " ".join(flist(r) for r in A)


def rot(rng, n):
    """a well-conditioned matrix: product of random Givens rotations (orthogonal up to rounding)"""
    Q = [[1.0 if i == j else 0.0 for j in range(n)] for i in range(n)]
    for _ in range(2 * n):
        if n < 2: break
        i, j = rng.sample(range(n), 2); t = rng.uniform(0, 2 * math.pi); c, s = math.cos(t), math.sin(t)
        for k in range(n):
            a, b = Q[i][k], Q[j][k]; Q[i][k], Q[j][k] = c * a - s * b, s * a + c * b
    return Q


def gen_matrix(rng, n, kind):
    U = lambda: rng.choice([-1, 1]) * rng.uniform(0.1, 1) * 10 ** rng.uniform(-1, 1)
    I = lambda: float(rng.randint(-5, 5))
    if kind == "dense": return [[U() for _ in range(n)] for _ in range(n)]
    if kind == "dense-int": return [[I() for _ in range(n)] for _ in range(n)]
    if kind in ("perm", "signed-perm", "scaled-perm"):
        p = list(range(n)); rng.shuffle(p)
        v = (lambda: 1.0) if kind == "perm" else (lambda: rng.choice([-1.0, 1.0])) if kind == "signed-perm" else U
        return [[v() if p[i] == j else 0.0 for j in range(n)] for i in range(n)]
    if kind == "zero-minor":
        A = [[U() for _ in range(n)] for _ in range(n)]
        k = rng.randint(1, max(1, n - 1))
        if k == 1 or n == 1: A[0][0] = 0.0
        else:   # leading k x k block made exactly singular with small integers: row k-1 = row 0
            for i in range(k):
                for j in range(k): A[i][j] = I()
            A[k - 1][:k] = A[0][:k]
        if rng.random() < 0.3: A[0] = [0.0] * (n - 1) + [A[0][-1] or 1.0]     # whole first row zero but the last entry
        return A
    if kind == "tiny-minor":
        A = [[U() for _ in range(n)] for _ in range(n)]; A[0][0] = rng.choice([1e-20, -1e-20, 1e-16, 3e-19])
        if n > 2 and rng.random() < 0.5: A[1][1] = A[1][0] * A[0][1] / A[0][0] if False else A[1][1]; A[1][0] = 1e-20 * rng.uniform(1, 9)
        return A
    if kind in ("upper", "lower"):
        A = [[(U() if (j >= i if kind == "upper" else j <= i) else 0.0) for j in range(n)] for i in range(n)]
        if rng.random() < 0.15: A[rng.randrange(n)][rng.randrange(n)] = I()
        return A
    if kind == "tri-int":
        up = rng.random() < 0.5
        A = [[(I() if (j >= i if up else j <= i) else 0.0) for j in range(n)] for i in range(n)]
        return A
    if kind == "diag": return [[(U() if i == j else 0.0) for j in range(n)] for i in range(n)]
    if kind == "symmetric":
        A = [[0.0] * n for _ in range(n)]
        for i in range(n):
            for j in range(i, n): A[i][j] = A[j][i] = U()
        return A
    if kind == "rank-deficient":
        A = [[I() for _ in range(n)] for _ in range(n)]
        how = rng.random()
        if n == 1: return [[0.0]]
        i, j = rng.sample(range(n), 2)
        if how < 0.3: A[i] = list(A[j])
        elif how < 0.55:
            k = rng.choice([x for x in range(n) if x != i] or [j]); a, b = rng.randint(-1, 1), rng.choice([-1, 1])
            A[i] = [max(-9, min(9, a * A[j][c] + b * A[k][c])) if False else a * A[j][c] + b * A[k][c] for c in range(n)]
            if not small_int(A): A[i] = list(A[j])
        elif how < 0.7: A[i] = [0.0] * n
        elif how < 0.85:
            for r in range(n): A[r][i] = 0.0
        else:
            for r in range(n): A[r][i] = A[r][j]
        return A
    if kind == "graded":
        g1, g2 = rng.uniform(0, 8), 0.0
        if rng.random() < 0.5: g1, g2 = rng.uniform(0, 4), rng.uniform(0, 4)
        Q = rot(rng, n)
        d1 = [10 ** (-g1 * i / max(1, n - 1)) for i in range(n)]; d2 = [10 ** (-g2 * i / max(1, n - 1)) for i in range(n)]
        rng.shuffle(d1); rng.shuffle(d2)
        return [[d1[i] * Q[i][j] * d2[j] for j in range(n)] for i in range(n)]
    if kind == "hilbert":
        m = min(n, 6); s = rng.randint(1, 3)
        return [[1.0 / (i + j + s) for j in range(m)] for i in range(m)]
    if kind == "vandermonde":
        m = min(n, 6); xs = rng.sample([0.5, 1.0, 1.5, 2.0, -1.0, -0.5, 3.0, 0.25], m)
        return [[x ** j for j in range(m)] for x in xs]
    raise ValueError(kind)


KINDS = ["dense", "dense", "dense-int", "perm", "signed-perm", "scaled-perm", "zero-minor", "zero-minor", "tiny-minor", "upper", "lower",
         "tri-int", "diag", "symmetric", "rank-deficient", "rank-deficient", "graded", "graded", "graded", "hilbert", "vandermonde"]


def inv_case(A, kind):
    n = len(A); d, inv = exact(key(A))
    tol = None
    if inv is not None:
        k = fro(A) * fro(inv); xm = max(abs(float(x)) for r in inv for x in r)
        tol = (1e-9, C_INV * n * k * EPS * xm)
    return Case(f"inverse {mtab(A)}", ("inverse", kind, f"n={n}"), tol=tol)


def det_tol(A): return (1e-9, DET_SLACK * perm_abs(A))


def generate(rng, tier):
    cs = []
    big = tier != "quick"
    reps = 26 if big else 2
    for n in range(1, 8):
        for kind in KINDS:
            for _ in range(reps * (2 if n <= 4 else 1)):
                A = gen_matrix(rng, n, kind); m = len(A)
                cs.append(inv_case(A, kind))
                cs.append(Case(f"det {mtab(A)}", ("det", kind, f"n={m}"), tol=det_tol(A)))
                r = rng.random()
                if r < 0.35: cs.append(Case(f"invertible {mtab(A)}", ("invertible", kind), tol=det_tol(A)))
                if m >= 2 and r > 0.5:
                    i, j = rng.sample(range(m), 2)
                    cs.append(Case(f"det_swap {mtab(A)} {i} {j}", ("det-law", "row-swap", kind), tol=det_tol(A)))
                if r > 0.7:
                    B = gen_matrix(rng, m, rng.choice(["dense", "dense-int", "upper", "signed-perm", "symmetric", "graded"]))
                    if len(B) == m:
                        P = fprod(A, B)
                        cs.append(Case(f"det_laws {mtab(A)} {mtab(B)}", ("det-law", "multiplicative+transpose", kind),
                                       tol=(1e-9, max(det_tol(A)[1], det_tol(B)[1], det_tol(P)[1]))))
    # the witnesses of the defects fixed earlier, and hand-picked pivoting situations
    for A in ([[0.0, 1.0], [1.0, 0.0]], [[1e-20, 1.0], [1.0, 1.0]], [[0.0, 0.0, 1.0], [0.0, 1.0, 0.0], [1.0, 0.0, 0.0]],
              [[1.0, 2.0, 3.0], [2.0, 4.0, 6.0], [1.0, 0.0, 1.0]], [[1.0, 1.0], [1.0, 1.0]], [[0.0]], [[5.0]], [[-0.0]],
              [[1.0, 2.0], [3.0, 4.0]], [[2.0, 1.0, 1.0], [4.0, 2.0, 3.0], [1.0, 5.0, 7.0]],      # second pivot zero without exchange
              [[1.0, -1.0, 0.0], [-1.0, 1.0, 1.0], [0.0, 1.0, 5.0]], [[1.0, 2.0], [-2.0, 1.0]]):   # tie |a| = |b| in the pivot search
        cs.append(inv_case(A, "hand")); cs.append(Case(f"det {mtab(A)}", ("det", "hand"), tol=det_tol(A)))
        cs.append(Case(f"invertible {mtab(A)}", ("invertible", "hand"), tol=det_tol(A)))
    # ties in the pivot search (first maximal row wins) and sign patterns
    for _ in range(300 if big else 40):
        n = rng.randint(2, 6); A = gen_matrix(rng, n, "dense-int")
        c = rng.randrange(n - 1); v = float(rng.randint(1, 5))
        rows = rng.sample(range(n), 2)
        for i in range(n): A[i][c] = rng.choice([-1, 1]) * v if i in rows else float(rng.randint(-int(v), int(v)))
        cs.append(inv_case(A, "pivot-tie")); cs.append(Case(f"det {mtab(A)}", ("det", "pivot-tie"), tol=det_tol(A)))
    # non-square requests
    for (m, n) in [(1, 2), (2, 1), (2, 3), (3, 2), (1, 4), (4, 3), (3, 4), (5, 6), (7, 6), (2, 7)]:
        for _ in range(6 if big else 1):
            A = [[rng.uniform(-2, 2) for _ in range(n)] for _ in range(m)]
            for op in ("det", "inverse", "invertible"): cs.append(Case(f"{op} {mtab(A)}", (op, "non-square")))
    return cs


# ---------------------------------------------------------------- parsing
class Rd:
    def __init__(s, line): s.t = line.split(); s.i = 1; s.op = s.t[0]
    def int(s): s.i += 1; return int(s.t[s.i - 1])
    def num(s): s.i += 1; return tokf(s.t[s.i - 1])
    def list(s): n = s.int(); return [s.num() for _ in range(n)]
    def table(s): n = s.int(); return [s.list() for _ in range(n)]


def parse_mat(io):
    t = io.split()
    if not t or t[0] != "M": return None
    r, c = int(t[1]), int(t[2]); v = [tokf(x) for x in t[3:]]
    return [v[i * c:(i + 1) * c] for i in range(r)]


def leading_minor_small(A):
    """a zero or tiny leading principal minor (relative to ||M||^k)"""
    n = len(A); nm = fro(A) or 1.0
    for k in range(1, n):
        d, _ = exact(key([row[:k] for row in A[:k]]))
        if abs(float(d)) < 1e-8 * nm ** k: return True
    return False


def nontrivial(c, io):
    r = Rd(c.line); A = r.table()
    if any(len(row) != len(A) for row in A): return True
    if r.op == "det_laws": return True
    d, inv = exact(key(A))
    if inv is None: return True
    return kappa(A) > 1e4 or leading_minor_small(A)


# ---------------------------------------------------------------- S4
def predicates(c, io):
    if io.startswith(("CRASH", "SANITIZER", "TIMEOUT", "HARNESSERR")): return []
    r = Rd(c.line); op = r.op; out = []
    def bad(clause, msg): out.append((f"{op}:{clause}", msg))
    ex = io.startswith("EXIT")
    A = r.table(); m = len(A); square = all(len(row) == m for row in A)
    if not square:
        if op in ("det", "inverse") and not ex: bad("non-square", f"{op} of a {m}x{len(A[0])} matrix returned numbers instead of terminating with a diagnostic")
        if op == "invertible" and io.split()[:1] != ["0"]: bad("non-square", "Invertible() of a non-square matrix is not false")
        return out
    n = m; d, inv = exact(key(A)); bound = DET_SLACK * perm_abs(A) + 1e-300
    if op == "det":
        if ex: bad("defined", "Determinant of a square matrix terminated the process"); return out
        g = tokf(io.split()[0])
        if not abs(Fraction(g) - d) <= Fraction(bound): bad("value", f"Determinant = {g!r}, exact {float(d)!r} (allowed rounding {bound:.3g})")
        if all(A[i][j] == 0 for i in range(n) for j in range(i)) or all(A[i][j] == 0 for i in range(n) for j in range(i + 1, n)):
            pd = functools.reduce(lambda a, b: a * b, [Fraction(A[i][i]) for i in range(n)], Fraction(1))
            if not abs(Fraction(g) - pd) <= Fraction(bound): bad("triangular", f"Determinant of a triangular matrix = {g!r}, product of the diagonal = {float(pd)!r}")
    elif op == "invertible":
        if ex: bad("defined", "Invertible() terminated the process"); return out
        t = io.split(); flag = int(t[0]); g = tokf(t[1])
        if flag != int(g != 0): bad("iff-det-nonzero", f"Invertible() = {flag} while Determinant() = {g!r}")
        if d == 0 and small_int(A) and flag != 0: bad("singular", "exactly singular integer matrix reported invertible")
        if abs(float(d)) > 4 * bound and flag != 1: bad("regular", f"matrix with determinant {float(d)!r} reported not invertible")
    elif op == "det_swap":
        i, j = r.int(), r.int()
        if ex: bad("defined", "Determinant terminated the process"); return out
        g1, g2 = [tokf(x) for x in io.split()[:2]]
        if not abs(Fraction(g1) - d) <= Fraction(bound): bad("value", f"Determinant = {g1!r}, exact {float(d)!r}")
        if not abs(Fraction(g2) + d) <= Fraction(bound): bad("row-swap", f"after exchanging rows {i},{j} the determinant is {g2!r}, expected {-float(d)!r}")
    elif op == "det_laws":
        B = r.table()
        if ex: bad("defined", "Determinant terminated the process"); return out
        dA, dB, dAB, dAt = [tokf(x) for x in io.split()[:4]]
        dBe, _ = exact(key(B)); P = fprod(A, B); dP, _ = exact(key(P))
        if not abs(Fraction(dAt) - d) <= Fraction(bound): bad("transpose", f"det(A^T) = {dAt!r}, exact det(A) = {float(d)!r}")
        if not abs(Fraction(dAB) - dP) <= Fraction(DET_SLACK * perm_abs(P) + 1e-300): bad("product-value", f"det(A*B) = {dAB!r}, exact determinant of the product formed = {float(dP)!r}")
        absP = [[sum(abs(A[i][k] * B[k][j]) for k in range(n)) for j in range(n)] for i in range(n)]
        mb = DET_SLACK * n * perm_abs(absP) + 1e-300
        if not abs(Fraction(dAB) - d * dBe) <= Fraction(mb): bad("multiplicative", f"det(A*B) = {dAB!r}, det(A)*det(B) = {float(d * dBe)!r} (allowed {mb:.3g})")
    elif op == "inverse":
        if inv is None:
            if small_int(A) and not ex: bad("singular", "exactly singular matrix: Inverse returned numbers instead of terminating with a diagnostic")
            return out
        if abs(float(d)) <= 4 * bound: return out      # not distinguishable from singular at working precision
        if ex: bad("regular", f"invertible matrix (det {float(d)!r}) : Inverse terminated the process"); return out
        X = parse_mat(io)
        if X is None or len(X) != n or any(len(row) != n for row in X): bad("shape", "Inverse is not an n x n matrix"); return out
        if any(math.isnan(x) or math.isinf(x) for row in X for x in row): bad("finite", "Inverse contains inf/nan"); return out
        k = fro(A) * fro(inv); ninv = fro(inv)
        XF = [[Fraction(x) for x in row] for row in X]; AF = [[Fraction(x) for x in row] for row in A]
        e1 = fro([[XF[i][j] - inv[i][j] for j in range(n)] for i in range(n)])
        left = fro([[sum(XF[i][t] * AF[t][j] for t in range(n)) - (i == j) for j in range(n)] for i in range(n)])
        right = fro([[sum(AF[i][t] * XF[t][j] for t in range(n)) - (i == j) for j in range(n)] for i in range(n)])
        if not e1 <= C_INV * n * k * EPS * ninv: bad("accuracy", f"||X - M^-1|| / ||M^-1|| = {e1 / ninv:.3g} exceeds {C_INV:g}*n*kappa*eps = {C_INV * n * k * EPS:.3g} (n={n}, kappa={k:.3g})")
        if not left <= C_INV * n * k * EPS: bad("left-residual", f"||X*M - 1|| = {left:.3g} exceeds {C_INV:g}*n*kappa*eps = {C_INV * n * k * EPS:.3g} (kappa={k:.3g})")
        if not right <= C_INV * n * k * k * EPS: bad("right-residual", f"||M*X - 1|| = {right:.3g} exceeds {C_INV:g}*n*kappa^2*eps = {C_INV * n * k * k * EPS:.3g} (kappa={k:.3g})")
    return out
