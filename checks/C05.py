"""C05 — Inverse and Determinant are correct for every square matrix.

Case grammar (see harness/C05.cpp, ocaml/C05_driver.ml); a matrix is a table `rows` + each row as a list:
  det A | invertible A (prints flag, and the determinant when square) | inverse A
  det_swap A i j  -> det(A), det(A with rows i,j exchanged)
  det_laws A B    -> det A, det B, det(A*B), det(A^T)
  seq A k step_1 .. step_k   a call history on ONE object with initial entries A; steps:
      queries  det | invertible | inverse | orthogonal | copydet | transdet | subdet i j
      updates  add B (+=) | sub B (-=) | set i j v | swap i j | assignm B (=) | assign r c v | resize r c | delrow i | delcol j
    references kept by the caller (both forms of history):  hold h i (std::vector<double>& r_h = M[i]) | holde h i j (double& e_h = M[i][j])
      taken at one time and written through later, between two queries and without any member call:
      hset h j v (r_h[j] = v) | hswap h1 h2 (std::swap(r_h1, r_h2)) | hrow h l (r_h = l) | eset h v (e_h = v)
    another facility of the library called in between, on an argument B of its own (the object is not involved; the model keeps the entries):
      lib eigensystem|eigenvectors|eigenvalues|qr|rotation|outer B
    output: per query `D x x'` / `F b b'` / `X M.. M..` = the object's answer and the answer of a new object built from the
    object's current entries; `U` per update.  A call that terminates the process makes the whole case EXIT.
  hist m A_1 .. A_m k (obj step)_1 .. (obj step)_k   a call history on m objects (fixed storage each), calls interleaved, and NOTHING
    else called in the process (no probe objects: state kept outside the objects - statics, address-keyed memos - stays as the
    history left it).  Steps as in seq, plus  renew B (the object is destroyed and a new one constructed from B in the same
    storage) | copyinvertible | copyinverse (the query on a copy).  Output: `D x` / `F b` / `X M..` / `U`; the reference is the
    model (mrun) and the clauses evaluated on the entries the object has at that call.
The reference in S4 is exact rational arithmetic (fractions.Fraction) on the double-valued input, normalised by the power of two
of its largest entry so that every clause is evaluated the same way at every scale (entries * 2^k, |k| <= 900).  Matrices whose
columns are in units more than 2^40 apart (M = B*diag(2^c_j)) get the accuracy clauses of Inverse also for (B, diag(2^c_j)*X).
"""
import math, itertools, functools
from fractions import Fraction
from vcheck import Case, hx, flist, tokf

PID = "C05"
MODEL_DEPS = ["C04_Model.v"]
EPS = 2.0 ** -53
# Determinant by Laplace expansion = sum of n! signed products of n entries, each accumulated through at most
# n-1 multiplications and n additions: relative error per product <= 2n*eps <= 14*eps (n <= 7).  DESIGN 5.3 fixes
# the slack at 64*eps*sum|t_k| with sum|t_k| = perm(|A|).
DET_SLACK = 64 * EPS
# Inverse: "relative accuracy of a small multiple of n times the condition number times machine epsilon".
# The multiple is fixed a priori at C_INV = 64 (the same 64 as everywhere in DESIGN 5.3; Gauss-Jordan with partial
# pivoting has forward error c(n)*growth*kappa*eps with growth ~ 1..n in practice): with kappa = ||M||_F ||M^-1||_F
#   ||X - M^-1||_F <= C_INV*n*kappa*eps*||M^-1||_F,  ||X*M - 1||_F <= C_INV*n*kappa*eps,  ||M*X - 1||_F <= C_INV*n*kappa^2*eps.
C_INV = 64.0
COLUNIT_SPREAD = 40      # binary orders between the units of two columns above which the accuracy clauses are (also) evaluated with the units taken out
RULE = ("one case = one call of Determinant / Invertible / Inverse (or a determinant law on two calls, or a call history of 3..12 calls on "
        "one object, or interleaved on up to three objects, the updates made by member calls or through references to rows / entries that the caller took earlier, calls of other facilities of the library in between); non-trivial = the matrix has a zero or tiny (< 1e-8*||M||^k for the k-th) leading principal minor, or a condition "
        "number above 1e4, or is non-square / exactly singular (guard exercised), or its determinant leaves the normal double range, or "
        "the case is a call history; distinct by case text")
LEVEL_TEXT = ("Theorems (Coq/MathComp, every size, every field): the model's Laplace determinant is the determinant (\\det), hence multiplicative, "
              "transpose-invariant, sign-changing under a row swap and the product of the diagonal for triangular matrices; Invertible <-> det != 0; "
              "whenever Inverse returns X then X*M = 1 and M*X = 1; a singular or non-square matrix exits; with the code's pivoting rule (real field) "
              "Inverse returns for every matrix with det != 0 (C05_inverse_complete); see evidence.coverage.theorems. "
              "Rounding, Determinant (C05_det_rounding_error, every size N, every matrix, by induction over the recursion with a fold_left loop invariant): in ANY "
              "arithmetic whose + - * obey the standard model fl(x op y) = (x op y)(1+d), |d| <= u, the model's Determinant returns a value within "
              "((1+u)^e(N) - 1) * perm|M| of det M, e(1)=0, e(2)=2, e(N)=e(N-1)+N+2 <= N^2, perm|M| = sum over permutations of prod |m_i,s(i)| "
              "(C05_det_le_perm, C05_perm_expand_row: Laplace expansion of the permanent, proved here); for the property's sizes 1..7 and u <= 2^-7 this is "
              "<= 64*u*perm|M| (C05_det_rounding_error_le7) = the a-priori slack DET_SLACK of the S4 clause 'lu-reference', and (1+u)^k - 1 <= ku/(1-ku) "
              "(C05_gamma_bound); Invertible() tests the computed determinant, so 'reported singular' implies |det M| <= E*perm|M| and an exactly singular "
              "matrix gives a computed determinant of at most E*perm|M| - possibly non-zero, which is known finding K-C05-1 (C05_invertible_rounding). The premise that IEEE double arithmetic obeys the standard model with u = 2^-53 (no overflow/underflow in the evaluation) is "
              "a hypothesis of these theorems, not proved; the S4 clause adds an explicit underflow term. "
              "Orthogonal() (the library's own caller of the Invertible()/Inverse() gate): answer true => M^T M = 1 = M M^T for every pivoting rule "
              "(C05_orthogonal_sound), non-square => false, and with the code's pivoting rule it never exits on a square matrix and decides M^T M = 1 "
              "(C05_orthogonal_iff). "
              "Pivot search of Inverse() (real field): for every work array and column it selects a row at or below the diagonal with an entry of maximal absolute value "
              "(C05_pivot_row_maximal, at every magnitude: nothing is multiplied in the search), and the selection does not depend on the unit of the column "
              "(C05_pivot_row_unit_free: column times any d != 0 gives the same row; C05_pivot_row_example); in floating point this is checked by S4 on matrices whose row exchange matters, "
              "as a whole at the entry exponents where products of 2..7 entries over-/underflow and with single columns in such units (there the accuracy clauses are evaluated with the "
              "power-of-two column units taken out, which changes no comparison and no rounding of the elimination inside the double range). "
              "The other determinant clauses in rounded arithmetic (same standard-model premise, every size, E = (1+u)^e(N) - 1): Determinant() of M and of M.Transpose() differ by "
              "<= 2E perm|M| (C05_det_round_transpose); for the rows of M in the order of ANY permutation t, |d' - sign(t) d| <= 2E perm|M| (C05_det_round_row_perm; one exchange: "
              "|d' + d| <= 2E perm|M|, C05_det_round_row_swap; as a call history of any number of std::swap(M[i], M[j]) on one object, by induction over the history: "
              "C05_swaps_then_det_rounded, exact arithmetic: C05_swaps_then_det gives (-1)^k det A and an unchanged Invertible(); the entries after such a history are the permuted rows "
              "in EVERY arithmetic, C05_swaps_entries); for a triangular matrix |d - prod m_ii| <= E |prod m_ii|, a relative bound (C05_det_round_triangular); these rest on "
              "perm|A^T| = perm|A| = perm|P A| and perm|A| = prod|a_ii| for triangular A (C05_perm_invariants). 'Multiplicative' in rounded arithmetic is NOT a theorem (S4 clause 'multiplicative'). "
              "Outcomes in EVERY arithmetic, every size (IEEE doubles with NaN / inf included; C05_any_arith_square, C05_any_arith_nonsquare): on a square matrix Determinant() returns a number "
              "(never the recursion bound, never a failed Sub_Matrix), Invertible() is the test of that number against 0.0, Inverse() exits when it is 0.0 and otherwise either exits with "
              "'Matrix is singular.' or returns an N x N matrix; non-square: Exit / false / Exit / Orthogonal() false. "
              "Exact arithmetic: what Inverse() returns is invmx M = adj(M) / Determinant(), det X = 1/det M (C05_inverse_adjugate); the identities X - M^-1 = (XM - 1) M^-1 and "
              "MX - 1 = M (XM - 1) M^-1 behind 'X*M is the identity to that accuracy and M*X to one further factor of the condition number' (C05_inverse_error_identities) - identities only. "
              "NOT a theorem: the floating-point accuracy clause for Inverse (c*n*kappa*eps, backward stability of Gauss-Jordan with partial pivoting) - it is "
              "checked in S4 against the exact rational inverse of the double-valued input; likewise Orthogonal() in floating point is only compared with the model. "
              "Call histories on one object: for every arithmetic the model's answer depends on the current "
              "entries only (theorems C05_seq_*, C05_hist_*), also when the caller writes through references to rows / entries taken earlier (C05_href_*: such a write is the indexed write, the answer is the one for the current entries); "
              "in exact arithmetic, after any history, M += B / M -= B gives det(A +- B) (C05_seq_det_after_update), std::swap(M[i], M[j]) flips the sign of Determinant() and "
              "keeps Invertible() (C05_seq_det_after_swap), M[i][j] = v gives det A + (v - a_ij) cofactor_ij (C05_seq_det_after_set); "
              "that the implementation has no other state is checked by correspondence and by the S4 clause "
              "'history' (object's answer = answer of a new object with the same entries, bit for bit). "
              "C05 requests made after calls of OTHER facilities of the library in the same process (Eigensystem, Eigenvectors, Eigenvalues, QR_Decomposition, Rotation_Matrix, "
              "Outer_Vector_Product; history step 'lib'): that such calls leave nothing behind that changes a later answer or its exit status is not a theorem (the model has no such state) - it is checked by "
              "correspondence and S4 on singular (integer with rounding residue, duplicate / dependent rows, generic entries) and regular matrices. Known findings K-C05-1/-2 (see "
              "known_findings.d/C05.json) are properties of floating-point evaluation (overflow / underflow, i.e. outside the standard-model premise), outside the theorems. "
              "Inverse() statement by statement (coq/C05_Model2.v, inverse_lbl: the work array Matrix A(N, 2N, 0.0) changed IN PLACE one assignment after the other in loop order, "
              "std::swap of two rows, N calls of Delete_Column(0)) is the term whose result is compared with the library for every request 'inverse' (bit-identical; the driver also "
              "compares it with the table model on every case); C05_inverse_inplace_is_model proves inverse_lbl = inverse for EVERY arithmetic, every size, every matrix, by induction over "
              "every loop (parts: C05_inplace_augment, C05_inplace_row_exchange, C05_inplace_eliminate, C05_inplace_finish; C05_pivot_row_in_range: the pivot search returns a row inside "
              "the array in every arithmetic), so the theorems about Inverse hold for the in-place code as written. Not represented: the test i >= rows of the non-const operator[] inside "
              "Inverse() (all indices are loop variables bounded by N / 2N; see coverage/C05.md for the full table of what is modelled line by line, by specification, or only driven). "
              "The Gallina model is extracted and run against libphysica on every run (bit-identical).")
LEVEL_NOTE = ("Coq 8.16.1 + MathComp 1.15 (+ algebra-tactics ring, mczify lia in the rounding proofs), axiom-free; hand-written model (coq/C05_Model.v, uses coq/C04_Model.v) tied by differential correspondence; "
              "the algebraic theorems are about exact field arithmetic (the exact values of the doubles); pivot choice (fabs, >) is left uninterpreted in the "
              "soundness theorems, so they hold for every pivoting rule; the rounding theorems instantiate the SAME model term with arbitrary rounded + - * over a real field "
              "and carry the standard model of floating-point arithmetic (relative error u per operation, no overflow/underflow) as an explicit hypothesis")
TOL = (1e-9, 0.0)
TRUSTED = ["accuracy reference: exact rational Gauss-Jordan in Python fractions.Fraction (checks/C05.py)"]


# ---------------------------------------------------------------- exact arithmetic
def key(A): return tuple(tuple(r) for r in A)


@functools.lru_cache(maxsize=8192)
def exact(Ak):
    """(det, inverse or None) of a square matrix (doubles or Fractions), exactly"""
    n = len(Ak)
    M = [[Fraction(x) for x in row] + [Fraction(int(i == j)) for j in range(n)] for i, row in enumerate(Ak)]
    det = Fraction(1)
    for c in range(n):
        p = next((r for r in range(c, n) if M[r][c] != 0), None)
        if p is None: return Fraction(0), None
        if p != c: M[c], M[p] = M[p], M[c]; det = -det
        piv = M[c][c]; det *= piv
        M[c] = [x / piv for x in M[c]]
        for r in range(n):
            if r != c and M[r][c] != 0:
                f = M[r][c]; M[r] = [x - f * y for x, y in zip(M[r], M[c])]
    return det, [row[n:] for row in M]


def perm_abs(A):
    """permanent of |A| (sum of the magnitudes of the n! Leibniz terms), DP over column subsets, in floats"""
    n = len(A)
    dp = {0: 1.0}
    for i in range(n):
        nd = {}
        for mask, v in dp.items():
            for j in range(n):
                if not mask & (1 << j):
                    nd[mask | (1 << j)] = nd.get(mask | (1 << j), 0.0) + v * abs(A[i][j])
        dp = nd
    return dp.get((1 << n) - 1, 0.0) if n else 1.0


def pow2(e): return Fraction(2) ** e
def fro2(M): return sum((Fraction(x) ** 2 for r in M for x in r), Fraction(0))
def fsqrt(q):
    """sqrt of a non-negative Fraction as a float (the argument is O(1) wherever this is used)"""
    try: return math.sqrt(q)
    except OverflowError: return math.inf


def fprod(A, B):
    """the double-precision product exactly as Matrix::Product forms it (k ascending from 0.0)"""
    out = []
    for i in range(len(A)):
        row = []
        for j in range(len(B[0])):
            acc = 0.0
            for k in range(len(B)): acc += A[i][k] * B[k][j]
            row.append(acc)
        out.append(row)
    return out


DBL_MIN_NORMAL = pow2(-1022)


class Ctx:
    """Everything the clauses need about one square matrix of doubles.  All scale-free quantities are computed on the
    matrix normalised by the power of two 2^e of its largest entry (exact), so that they do not depend on the scale:
      ds, invs  exact determinant and inverse of the normalised matrix   (d = ds*2^(e*n), M^-1 = invs*2^-e)
      relb      DET_SLACK * perm(|A|) of the normalised matrix: the rounding allowance of the Laplace sum, relative to the scale
      kappa     ||M||_F ||M^-1||_F"""
    def __init__(s, A):
        s.A = A; n = s.n = len(A)
        s.finite = all(math.isfinite(x) for r in A for x in r)
        amax = max([abs(x) for r in A for x in r if math.isfinite(x)] or [0.0])
        s.e = math.frexp(amax)[1] if amax else 0
        sc = pow2(-s.e)
        s.AF = [[(Fraction(x) * sc if math.isfinite(x) else Fraction(0)) for x in r] for r in A]
        s.ds, s.invs = exact(key(s.AF))
        s.Af = [[float(x) for x in r] for r in s.AF]
        # per-column units: 2^cs[j] = the power of two of the largest entry of column j relative to the largest entry (cs[j] <= 0)
        cm = [max([abs(A[i][j]) for i in range(n) if j < len(A[i]) and math.isfinite(A[i][j])] or [0.0]) for j in range(n)]
        s.cs = [(math.frexp(m)[1] - s.e if m else 0) for m in cm]
        s.colspread = -min(s.cs) if s.cs else 0
        if s.colspread <= 60:
            s.perm = perm_abs(s.Af); s.relb = DET_SLACK * s.perm; s.relbF = Fraction(s.relb)
        else:
            # columns in very different units: the n! products are formed on the matrix with every column normalised (no underflow
            # of the float sum), the units are put back exactly
            Aeq = [[float(s.AF[i][j] * pow2(-s.cs[j])) for j in range(n)] for i in range(n)]
            s.relbF = Fraction(DET_SLACK * perm_abs(Aeq)) * pow2(sum(s.cs))
            s.relb = float(s.relbF); s.perm = s.relb / DET_SLACK
        s.d = s.ds * pow2(s.e * n)
        s.amax = Fraction(amax)
        nz = [abs(x) for r in A for x in r if x != 0 and math.isfinite(x)]
        amin = Fraction(min(nz)) if nz else Fraction(1)
        nf = math.factorial(n)
        # a priori: every intermediate quantity of the Laplace recursion is a sum of at most n! products of at most n entries
        s.overflow_possible = any(nf * s.amax ** k >= pow2(1023) for k in range(1, n + 1))
        s.underflow_possible = any(amin ** k < pow2(-1021) for k in range(1, n + 1))
        # each of the at most n!*n operations may lose up to one quantum 2^-1074 to underflow, amplified by at most n-1 further factors
        s.uf = nf * n * pow2(-1074) * max(Fraction(1), s.amax) ** max(0, n - 1)
        s.bound = s.relbF * pow2(s.e * n) + s.uf       # |Determinant() - d| allowed
        s.singular = s.invs is None
        s.near_singular = (not s.singular) and abs(s.ds) <= 4 * s.relbF     # not distinguishable from singular at working precision (scale-free)
        s.kappa = math.inf if s.singular else fsqrt(fro2(s.AF) * fro2(s.invs))
        s.det_subnormal = (not s.singular) and abs(s.d) < DBL_MIN_NORMAL
        # the exact determinant lies below twice the underflow allowance of the Laplace sum: Determinant() may legitimately be 0
        s.det_underflow = (not s.singular) and abs(s.d) < 2 * s.uf

    def fl(s, q):
        try: return float(q)
        except OverflowError: return math.inf if q > 0 else -math.inf

    def sci(s, q):
        """a Fraction of any magnitude as text (the exact determinant may lie outside the double range)"""
        q = Fraction(q)
        if q == 0: return "0"
        e = q.numerator.bit_length() - q.denominator.bit_length()
        if -1000 < e < 1000: return repr(float(q))
        m = float(q / pow2(e))
        return f"{m!r}*2^{e}"


_ctx_cache = {}
def ctx_of(A):
    k = key(A)
    c = _ctx_cache.get(k)
    if c is None:
        if len(_ctx_cache) > 4096: _ctx_cache.clear()
        c = _ctx_cache[k] = Ctx(A)
    return c


def kappa(A): return ctx_of(A).kappa


def small_int(A): return all(x == int(x) and abs(x) <= 9 for r in A for x in r)


def small_int_scaled(A):
    """2^k times a matrix of integers of magnitude <= 9: every operation of Determinant/Inverse on it is exact up to that power of two"""
    nz = [abs(x) for r in A for x in r if x != 0]
    if not nz: return True
    if not all(math.isfinite(x) for x in nz): return False
    m = min(nz)
    for cand in (math.ldexp(1.0, math.frexp(m)[1] - 1 - t) for t in range(4)):     # unit = 2^k with m/unit in {1..15}
        if all((x / cand) == int(x / cand) and abs(x / cand) <= 9 for x in nz): return True
    return False


def pow2_multiple(r1, r2):
    """r1 = +-2^k * r2 exactly, entry by entry (includes equal rows)"""
    f = None
    for x, y in zip(r1, r2):
        if (x == 0) != (y == 0): return False
        if x == 0: continue
        q = Fraction(x) / Fraction(y)
        if f is None:
            a = abs(q)
            if a.numerator != 1 and a.denominator != 1: return False
            if (a.numerator & (a.numerator - 1)) or (a.denominator & (a.denominator - 1)): return False
            f = q
        elif q != f: return False
    return f is not None


def structure_exact(A):
    """exactly singular matrices on which the elimination of Inverse() meets an exactly vanishing pivot whatever the entries are:
    a zero row or column stays zero, and of two rows that are equal up to a factor +-2^k one is cleared exactly (ratio +-2^k,
    a - 1*a = 0) as soon as the other becomes the pivot row; and 2^k times a small-integer matrix (its Laplace sum is exactly 0,
    so that Invertible() already refuses it, as long as no product leaves the double range)"""
    n = len(A)
    if not all(math.isfinite(x) for r in A for x in r): return False
    c = ctx_of(A)
    if small_int_scaled(A) and not c.overflow_possible and not c.underflow_possible: return True     # Determinant() is exactly 0: the gate refuses
    if any(all(x == 0 for x in r) for r in A): return True
    if any(all(A[i][j] == 0 for i in range(n)) for j in range(n)): return True
    return any(pow2_multiple(A[i], A[j]) for i in range(n) for j in range(i + 1, n))


# ---------------------------------------------------------------- generators
def mtab(A): return f"{len(A)} " + " ".join(flist(r) for r in A)


def rot(rng, n):
    """a well-conditioned matrix: product of random Givens rotations (orthogonal up to rounding)"""
    Q = [[1.0 if i == j else 0.0 for j in range(n)] for i in range(n)]
    for _ in range(2 * n):
        if n < 2: break
        i, j = rng.sample(range(n), 2); t = rng.uniform(0, 2 * math.pi); c, s = math.cos(t), math.sin(t)
        for k in range(n):
            a, b = Q[i][k], Q[j][k]; Q[i][k], Q[j][k] = c * a - s * b, s * a + c * b
    return Q


def gen_growth(rng, n, ratio=None, plain=False):
    """the matrices on which the CHOICE of the pivot row decides the accuracy (Wilkinson's growth-factor shape): entries of
    magnitude ~1 and equal sign below the diagonal, a last column of the opposite sign, and a diagonal that is r times the
    largest candidate below it, r on a ladder from 1 down to 1e-16 (and just above / below each rung).  With the largest
    candidate as pivot all multipliers are <= 1 and the elements grow by at most 2 per step; keeping a diagonal entry of
    relative size r compounds multipliers 1/r over the n-1 steps.  Entries are not dyadic (no exact arithmetic).
    ratio = the rung for all columns (default: random, one for all columns or one per column); plain = only the shape itself,
    else variants too: the transpose, rows / columns with flipped signs, a sparse fill above the diagonal."""
    sg = rng.choice([-1.0, 1.0]); f = 10 ** rng.uniform(-2, 2)
    jit = lambda: 1 + rng.choice([1e-4, 1e-3, 1e-2]) * rng.uniform(-1, 1)
    common = ratio if ratio is not None else rng.choice(PIVOT_RATIOS) if rng.random() < 0.6 else None
    fill = 0.0 if plain else rng.choice([0.0, 0.0, 0.01, 0.3])
    A = [[0.0] * n for _ in range(n)]
    for i in range(n):
        for j in range(n):
            if j < i: A[i][j] = -sg * jit()
            elif j == n - 1 and i < n - 1: A[i][j] = sg * jit() * (1.0 if plain else rng.choice([1.0, 1.0, rng.uniform(0.3, 1)]))
            elif j > i and rng.random() < 0.5: A[i][j] = fill * rng.uniform(-1, 1)
    for i in range(n):
        r = (common if common is not None else rng.choice(PIVOT_RATIOS)) * (1 + rng.choice([0.0, 1e-3, -1e-3, 1e-2, -1e-2, 0.05]) * rng.random())
        below = max([abs(A[k][i]) for k in range(i + 1, n)] or [1.0])
        A[i][i] = sg * (1.0 if plain else rng.choice([1.0, 1.0, 1.0, -1.0])) * r * below
    w = 1.0 if plain else rng.random()
    if w < 0.25: A = [[A[j][i] for j in range(n)] for i in range(n)]
    elif w < 0.4:
        rs = [rng.choice([-1.0, 1.0]) for _ in range(n)]; cs_ = [rng.choice([-1.0, 1.0]) for _ in range(n)]
        A = [[rs[i] * A[i][j] * cs_[j] for j in range(n)] for i in range(n)]
    return [[f * x for x in row] for row in A]


def laplacian(rng, k):
    """the Laplacian of a connected graph on k >= 2 vertices (unit weights, a few double edges), rows / columns optionally
    sign-flipped together: exactly singular (row sums vanish), symmetric, every row weakly diagonally dominant WITH EQUALITY"""
    while True:
        W = [[0.0] * k for _ in range(k)]
        for v in range(1, k):
            u = rng.randrange(v); W[u][v] = W[v][u] = float(rng.choice([1, 1, 1, 2]))
        for _ in range(rng.randint(0, k)):
            u, v = rng.sample(range(k), 2)
            if W[u][v] == 0: W[u][v] = W[v][u] = 1.0
        L = [[(sum(W[i]) if i == j else -W[i][j]) for j in range(k)] for i in range(k)]
        if small_int(L): break
    if rng.random() < 0.3:
        d = [rng.choice([-1.0, 1.0]) for _ in range(k)]
        L = [[d[i] * L[i][j] * d[j] + 0.0 for j in range(k)] for i in range(k)]
    return L


def gen_block(rng, n):
    """reducible matrices: the direct sum of 2..3 blocks of small integers - singular ones with exact ties (graph Laplacians,
    constant +-a blocks, a zero) and regular ones (strictly diagonally dominant, diagonal, dense, signed permutations) - optionally
    coupled one way (block triangular) and with rows and columns permuted together.  Theorems about 'dominant' or 'generic'
    matrices that need irreducibility, and shortcuts that look at rows or blocks separately, go wrong here and nowhere else"""
    if n == 1: return [[float(rng.randint(-3, 3))]]
    parts = []; left = n
    while left > 0:
        k = left if len(parts) == 2 else rng.randint(1, left)
        parts.append(k); left -= k
    rng.shuffle(parts)
    def block(k):
        w = rng.choice(["laplacian", "laplacian", "const", "dominant", "dominant", "diag", "dense", "perm"])
        if k == 1: return [[float(rng.choice([0, 1, 2, 3, 4, -2, -3]))]]
        if w == "laplacian": return laplacian(rng, k)
        if w == "const":          # a * d d^T with d = +-1: rank one, all entries of equal magnitude
            a = float(rng.randint(1, 3)); d = [rng.choice([-1.0, 1.0]) for _ in range(k)]
            return [[a * d[i] * d[j] for j in range(k)] for i in range(k)]
        if w == "dominant":
            B = [[float(rng.randint(-1, 1)) for _ in range(k)] for _ in range(k)]
            for i in range(k): B[i][i] = rng.choice([-1.0, 1.0]) * (sum(abs(B[i][j]) for j in range(k) if j != i) + rng.randint(1, 2))
            return B
        if w == "diag": return [[(float(rng.choice([1, 2, 3, -1, -4])) if i == j else 0.0) for j in range(k)] for i in range(k)]
        if w == "perm": return gen_matrix(rng, k, "signed-perm")
        return [[float(rng.randint(-3, 3)) for _ in range(k)] for _ in range(k)]
    A = [[0.0] * n for _ in range(n)]; off = 0; spans = []
    for k in parts:
        B = block(k)
        for i in range(k):
            for j in range(k): A[off + i][off + j] = B[i][j]
        spans.append((off, off + k)); off += k
    if rng.random() < 0.35:          # one-way coupling: rows of a later block get entries in the columns of an earlier one, or the reverse
        lower = rng.random() < 0.5
        for a in range(len(spans)):
            for b in range(a + 1, len(spans)):
                for i in range(*spans[b if lower else a]):
                    for j in range(*spans[a if lower else b]):
                        if rng.random() < 0.4: A[i][j] = float(rng.choice([-1, 1, 2]))
    if rng.random() < 0.5:
        p = list(range(n)); rng.shuffle(p)
        A = [[A[p[i]][p[j]] for j in range(n)] for i in range(n)]
    return A


def gen_matrix(rng, n, kind):
    U = lambda: rng.choice([-1, 1]) * rng.uniform(0.1, 1) * 10 ** rng.uniform(-1, 1)
    I = lambda: float(rng.randint(-5, 5))
    if kind == "dense": return [[U() for _ in range(n)] for _ in range(n)]
    if kind == "dense-int": return [[I() for _ in range(n)] for _ in range(n)]
    if kind in ("perm", "signed-perm", "scaled-perm"):
        p = list(range(n)); rng.shuffle(p)
        v = (lambda: 1.0) if kind == "perm" else (lambda: rng.choice([-1.0, 1.0])) if kind == "signed-perm" else U
        return [[v() if p[i] == j else 0.0 for j in range(n)] for i in range(n)]
    if kind == "zero-minor":
        A = [[U() for _ in range(n)] for _ in range(n)]
        k = rng.randint(1, max(1, n - 1))
        if k == 1 or n == 1: A[0][0] = 0.0
        else:   # leading k x k block made exactly singular with small integers: row k-1 = row 0
            for i in range(k):
                for j in range(k): A[i][j] = I()
            A[k - 1][:k] = A[0][:k]
        if rng.random() < 0.3: A[0] = [0.0] * (n - 1) + [A[0][-1] or 1.0]     # whole first row zero but the last entry
        return A
    if kind == "tiny-minor":
        A = [[U() for _ in range(n)] for _ in range(n)]; A[0][0] = rng.choice([1e-20, -1e-20, 1e-16, 3e-19])
        if n > 2 and rng.random() < 0.5: A[1][0] = 1e-20 * rng.uniform(1, 9)
        return A
    if kind in ("upper", "lower"):
        A = [[(U() if (j >= i if kind == "upper" else j <= i) else 0.0) for j in range(n)] for i in range(n)]
        if rng.random() < 0.15: A[rng.randrange(n)][rng.randrange(n)] = I()
        return A
    if kind == "tri-int":
        up = rng.random() < 0.5
        A = [[(I() if (j >= i if up else j <= i) else 0.0) for j in range(n)] for i in range(n)]
        return A
    if kind == "diag": return [[(U() if i == j else 0.0) for j in range(n)] for i in range(n)]
    if kind == "symmetric":
        A = [[0.0] * n for _ in range(n)]
        for i in range(n):
            for j in range(i, n): A[i][j] = A[j][i] = U()
        return A
    if kind == "rank-deficient":
        A = [[I() for _ in range(n)] for _ in range(n)]
        how = rng.random()
        if n == 1: return [[0.0]]
        i, j = rng.sample(range(n), 2)
        if how < 0.3: A[i] = list(A[j])
        elif how < 0.55:
            k = rng.choice([x for x in range(n) if x != i] or [j]); a, b = rng.randint(-1, 1), rng.choice([-1, 1])
            A[i] = [a * A[j][c] + b * A[k][c] for c in range(n)]
            if not small_int(A): A[i] = list(A[j])
        elif how < 0.7: A[i] = [0.0] * n
        elif how < 0.85:
            for r in range(n): A[r][i] = 0.0
        else:
            for r in range(n): A[r][i] = A[r][j]
        return A
    if kind == "rank-deficient-combo":
        # exactly singular small-integer matrices WITHOUT a zero / repeated / 2^k-multiple row or column: a row (or column) is a
        # combination of two or three others with coefficients +-1, +-2, +-3, or the rows are in arithmetic progression (1 2 3 / 4 5 6 /
        # 7 8 9).  Only the exact Laplace sum tells that they are singular: the elimination works with multipliers such as 4/7 and
        # leaves a rounding residue where the pivot should vanish
        if n == 1: return [[0.0]]
        if n == 2: return gen_matrix(rng, n, "rank-deficient")
        for _ in range(200):
            A = [[float(rng.randint(-3, 3)) for _ in range(n)] for _ in range(n)]
            w = rng.random()
            if w < 0.2:
                a0 = [float(rng.randint(-3, 3)) for _ in range(n)]; dlt = [float(rng.choice([-1, 1, 1, 2])) for _ in range(n)]
                if rng.random() < 0.5: dlt = [dlt[0]] * n; a0 = [a0[0] + rng.choice([1, 2]) * c for c in range(n)]
                if n <= 4: A = [[a0[c] + r * dlt[c] for c in range(n)] for r in range(n)]
                else:
                    for r in range(3): A[r] = [a0[c] + r * dlt[c] for c in range(n)]
            else:
                i = rng.randrange(n); others = rng.sample([x for x in range(n) if x != i], min(n - 1, rng.choice([2, 2, 3])))
                cf = [float(rng.choice([-3, -2, -1, 1, 2, 3])) for _ in others]
                if w < 0.7: A[i] = [sum(c * A[k][col] for c, k in zip(cf, others)) for col in range(n)]
                else:
                    for r in range(n): A[r][i] = sum(c * A[r][k] for c, k in zip(cf, others))
            if rng.random() < 0.5: rng.shuffle(A)
            if not small_int(A) or not ctx_of(A).singular: continue
            if any(all(x == 0 for x in r) for r in A) or any(all(A[r][c] == 0 for r in range(n)) for c in range(n)): continue
            At = [[A[r][c] for r in range(n)] for c in range(n)]
            if any(pow2_multiple(B[a], B[b]) for B in (A, At) for a in range(n) for b in range(a + 1, n)): continue
            return A
        return gen_matrix(rng, n, "rank-deficient")
    if kind == "rank-deficient-real":
        # exactly singular as doubles although no entry is an integer or a short dyadic number: the Laplace sum of such a
        # matrix is a rounding residue, not 0.  Structures: equal rows, a row +-2^k times another, a zero row / column
        # (the elimination then meets an exactly vanishing pivot), equal columns, a column 2^k times another, a row that is
        # the exactly representable sum / difference of two others (entries on a 2^-q grid)
        if n == 1: return [[0.0]]
        A = [[U() for _ in range(n)] for _ in range(n)]
        i, j = rng.sample(range(n), 2); how = rng.randrange(8)
        s = rng.choice([-1.0, 1.0]) * 2.0 ** rng.randint(-6, 6)
        if how == 0: A[i] = list(A[j])
        elif how == 1: A[i] = [s * x for x in A[j]]
        elif how == 2: A[i] = [0.0] * n
        elif how == 3:
            for r in range(n): A[r][i] = 0.0
        elif how == 4:
            for r in range(n): A[r][i] = A[r][j]
        elif how == 5:
            for r in range(n): A[r][i] = s * A[r][j]
        else:
            q = 2.0 ** -rng.choice([4, 8, 20, 30])
            A = [[round(x / q) * q for x in row] for row in A]
            k = rng.choice([x for x in range(n) if x not in (i, j)] or [j])
            A[i] = [A[j][c] + (A[k][c] if how == 6 else -A[k][c]) for c in range(n)]
        return A
    if kind == "near-singular":
        # two rows (or columns) that agree to a relative distance on the ladder 1e-12 .. 1e-3
        if n == 1: return [[U()]]
        A = [[U() for _ in range(n)] for _ in range(n)]
        i, j = rng.sample(range(n), 2); dl = 10.0 ** -rng.uniform(3, 12)
        if rng.random() < 0.5: A[i] = [x * (1 + dl * rng.uniform(-1, 1)) for x in A[j]]
        else:
            for r in range(n): A[r][i] = A[r][j] * (1 + dl * rng.uniform(-1, 1))
        return A
    if kind == "graded":
        g1, g2 = rng.uniform(0, 8), 0.0
        if rng.random() < 0.5: g1, g2 = rng.uniform(0, 4), rng.uniform(0, 4)
        Q = rot(rng, n)
        d1 = [10 ** (-g1 * i / max(1, n - 1)) for i in range(n)]; d2 = [10 ** (-g2 * i / max(1, n - 1)) for i in range(n)]
        rng.shuffle(d1); rng.shuffle(d2)
        return [[d1[i] * Q[i][j] * d2[j] for j in range(n)] for i in range(n)]
    if kind == "growth": return gen_growth(rng, n)
    if kind == "block": return gen_block(rng, n)
    if kind == "laplacian": return laplacian(rng, n) if n >= 2 else [[0.0]]
    if kind == "hilbert":
        m = min(n, 6); s = rng.randint(1, 3)
        return [[1.0 / (i + j + s) for j in range(m)] for i in range(m)]
    if kind == "vandermonde":
        m = min(n, 6); xs = rng.sample([0.5, 1.0, 1.5, 2.0, -1.0, -0.5, 3.0, 0.25], m)
        return [[x ** j for j in range(m)] for x in xs]
    raise ValueError(kind)


# relative size of a diagonal entry to the largest pivot candidate below it ("growth" family)
PIVOT_RATIOS = [1.0, 0.99, 0.9, 0.75, 0.6, 0.5, 0.4, 0.3, 0.25, 0.2, 0.15, 0.125, 0.11, 0.101, 0.1, 0.099, 0.09, 0.05, 0.02, 0.01, 1e-3, 1e-4, 1e-6,
                1e-8, 1e-10, 1e-13, 1e-16]
KINDS = ["dense", "dense", "dense-int", "perm", "signed-perm", "scaled-perm", "zero-minor", "zero-minor", "tiny-minor", "upper", "lower",
         "tri-int", "diag", "symmetric", "rank-deficient", "rank-deficient", "rank-deficient-combo", "rank-deficient-real", "rank-deficient-real", "near-singular",
         "graded", "graded", "graded", "hilbert", "vandermonde", "block", "block", "laplacian"]
# the families that are also run at extreme scales (entries times 2^k): the property does not depend on the unit of the entries
SCALED_KINDS = ["dense", "dense-int", "signed-perm", "scaled-perm", "diag", "symmetric", "upper", "zero-minor", "graded", "rank-deficient",
                "rank-deficient-real"]
# exponents (base 2) at which the determinant of the scaled matrix is aimed: well inside the range, at both ends of the normal
# range (2^-1022, 2^1024), inside and at both ends of the subnormal range (2^-1074), and beyond (underflow to 0 / overflow)
DET_EXPONENTS = [-1300, -1150, -1090, -1078, -1075, -1074, -1073, -1070, -1060, -1040, -1025, -1023, -1022, -1021, -1019, -1000, -900, -600, -300,
                 300, 600, 900, 1000, 1015, 1020, 1022, 1023, 1024, 1025, 1030, 1060, 1150, 1300]
MAX_SCALE_EXP = 900       # |k| <= 900: with a dynamic range below 2^40 inside the matrix, M and M^-1 stay far inside the normal range


def scale_mat(A, k): return [[math.ldexp(x, k) for x in r] for r in A]


def scaled_variant(rng, A, et=None):
    """A * 2^k with k chosen so that det(A) * 2^(k*n) has a binary exponent near `et` (a random entry of DET_EXPONENTS)"""
    n = len(A); c = ctx_of(A)
    et = rng.choice(DET_EXPONENTS) if et is None else et
    ld = 0 if c.singular else (math.frexp(c.fl(abs(c.ds)))[1] + c.e * n)
    k = round((et - ld) / n) + rng.choice([0, 0, 0, -1, 1, -2, 2])
    k = max(-MAX_SCALE_EXP, min(MAX_SCALE_EXP, k))
    return scale_mat(A, k), k


# ---- the pivot search (and every other comparison / product of entries) at the ends of the double range
# binary exponents E at which a product of k = 2..7 entries of size 2^E crosses a limit of the double range (2^1024 overflow, 2^-1022
# smallest normal number, 2^-1074 smallest subnormal), with a geometric ladder of offsets on both sides of each, and far beyond
def _entry_exponents():
    out = {}
    for k in range(2, 8):
        es = set()
        for lim in (1024, -1022, -1074):
            for off in (0, 1, 2, 4, 8, 16, 32, 64):
                for sg in (-1, 1): es.add(round(lim / k) + sg * off)
        if k == 2: es.update([-900, -800, -700, -600, 600, 700, 800, 900])
        out[k] = sorted(e for e in es if abs(e) <= MAX_SCALE_EXP)
    return out


ENTRY_EXPONENTS = _entry_exponents()
# relative size of a diagonal entry to the entries below it, continued far below the rounding level (the entry is still not zero)
PIVOT_RATIOS_WIDE = PIVOT_RATIOS[8:] + [1e-20, 1e-24, 1e-30, 1e-45, 1e-60, 1e-90]


def entry_exponent(rng):
    k = rng.choice([2, 2, 2, 2, 3, 4, 5, 6, 7])          # a comparison or product of two entries is the commonest pattern
    return rng.choice(ENTRY_EXPONENTS[k])


def gen_pivot_sensitive(rng, n):
    """(matrix, family): a safely regular matrix (condition number below 1e8) with entries of magnitude ~1 on which the row exchange
    decides the accuracy: the growth-factor shapes, and dense matrices whose diagonal entries (the first one above all) are a factor
    r below the entries under them - r on the wide ladder, or exactly zero"""
    for _ in range(50):
        w = rng.random()
        if w < 0.25: A, fam = gen_growth(rng, n), "growth"
        elif w < 0.45: A, fam = gen_growth(rng, n, ratio=rng.choice(PIVOT_RATIOS_WIDE), plain=True), "growth"
        else:
            A = gen_matrix(rng, n, rng.choice(["dense", "dense", "symmetric", "graded"])); fam = "small-diagonal"
            cols = [c for c in range(n - 1) if c == 0 and rng.random() < 0.8 or rng.random() < 0.3] or [0]
            for c in cols:
                r = rng.choice(PIVOT_RATIOS_WIDE + [0.0, 0.0])
                A[c][c] = rng.choice([-1.0, 1.0]) * r * max(abs(A[i][c]) for i in range(c + 1, n)) * rng.uniform(0.5, 1)
        c = ctx_of(A)
        if safe_for_inverse(A) and c.kappa < 1e8: return A, fam
    return gen_matrix(rng, n, "dense"), "dense"


def at_entry_exponent(rng, A, E):
    """A * 2^k, k such that the largest (or the smallest non-zero) entry gets the binary exponent E; every entry stays inside 2^+-1000"""
    nz = [abs(x) for r in A for x in r if x != 0]
    hi, lo = math.frexp(max(nz))[1], math.frexp(min(nz))[1]
    k = E - (hi if rng.random() < 0.5 else lo)
    k = max(-1000 - lo, min(1000 - hi, k)); k = max(-MAX_SCALE_EXP, min(MAX_SCALE_EXP, k))
    return scale_mat(A, k), k


def col_units(rng, B):
    """B * diag(2^c_j): one column (the first, mostly) is put at an exponent of the ladder, the others stay, compensate (the
    determinant keeps its size), follow half way, or (c < 0) bring the determinant into the subnormal range.  No product of
    entries from different columns leaves the double range on the way except, in the last mode, the full products"""
    n = len(B); cb = ctx_of(B)
    t = 0 if rng.random() < 0.6 else rng.randrange(n)
    E = entry_exponent(rng)
    while abs(E) < 100: E = entry_exponent(rng)
    ct = E - math.frexp(max(abs(B[i][t]) for i in range(n)) or 1.0)[1]
    mode = rng.choice(["stay", "stay", "compensate", "half", "subnormal-det"])
    if mode == "subnormal-det" and ct > 0: mode = "compensate"
    if mode == "stay": o = 0
    elif mode == "compensate": o = -round(ct / (n - 1))
    elif mode == "half": o = round(ct / 2)
    else:
        ld = math.frexp(cb.fl(abs(cb.ds)))[1] + cb.e * n
        o = round((rng.choice([-1072, -1070, -1065, -1060, -1050, -1040, -1030, -1024]) - ct - ld) / (n - 1))
    cs = [ct if j == t else o for j in range(n)]
    neg = sorted(c for c in cs if c < 0); pos = sorted(c for c in cs if c > 0)
    low = sum(neg) - (0 if mode != "subnormal-det" or len(neg) < 2 else neg[-1])        # the lowest product of entries of distinct columns (proper subsets in the last mode)
    if low < -1000 + 12 * n or sum(pos) > 1000 - 12 * n or any(abs(c) > MAX_SCALE_EXP for c in cs): cs = [ct if j == t else 0 for j in range(n)]
    return [[math.ldexp(B[i][j], cs[j]) for j in range(n)] for i in range(n)], cs, mode


def inv_case(A, kind, extra_tags=()):
    n = len(A); tol = None
    if all(len(r) == n for r in A):
        c = ctx_of(A)
        if not c.singular and math.isfinite(c.kappa):
            xm = c.fl(max(abs(x) for r in c.invs for x in r) * pow2(-c.e))
            tol = (1e-9, C_INV * n * c.kappa * EPS * xm)
            if not math.isfinite(tol[1]): tol = None
    return Case(f"inverse {mtab(A)}", ("inverse", kind, f"n={n}") + tuple(extra_tags), tol=tol)


def det_tol(A):
    if any(len(r) != len(A) for r in A): return None
    c = ctx_of(A)
    return (1e-9, c.fl(c.bound))


# ---- call histories on one object (`seq`: every query also put to a fresh object) and on several objects (`hist`: nothing but
# the calls of the history runs in the process, so that state kept OUTSIDE the objects - file statics, address-keyed memos -
# is not disturbed by the probe; the reference there is the model and the clauses)
QUERIES = ["det", "det", "invertible", "inverse", "orthogonal", "copydet", "transdet", "subdet"]
PURE_QUERIES = QUERIES + ["invertible", "inverse", "copyinvertible", "copyinverse"]
UPDATES = ["add", "add", "sub", "sub", "set", "set", "setrow", "swap", "swap", "assignm", "assign", "resize", "delrow+delcol", "add-singular", "add-regular", "add-zero", "lib"]
QUERY_ALIAS = {"copyinvertible": "invertible", "copyinverse": "inverse"}
REF_WORDS = ("hold", "holde", "hset", "hswap", "hrow", "eset")
UPDATE_WORDS = ("add", "sub", "set", "swap", "assignm", "renew", "assign", "resize", "delrow", "delcol", "lib") + REF_WORDS
# other facilities of the library (Linear_Algebra.cpp) called between two calls of a history, on an argument of their own
LIB_FACILITIES = ["eigensystem", "eigensystem", "eigenvectors", "eigenvectors", "eigenvalues", "qr", "rotation", "outer"]


def sim_update(A, st):
    """the entries after one update step (None = the step terminates the process); mirrors the C++ semantics independently of the model"""
    m = len(A); nc = len(A[0]) if A else 0
    op = st[0]
    if op in ("add", "sub"):
        B = st[1]
        if len(B) != m or (len(B[0]) if B else 0) != nc: return None
        return [[(x + y) if op == "add" else (x - y) for x, y in zip(ra, rb)] for ra, rb in zip(A, B)]
    if op == "set":
        i, j, v = st[1:]
        if i >= m or j >= nc: return None
        R = [list(r) for r in A]; R[i][j] = v; return R
    if op == "swap":
        i, j = st[1:]
        if i >= m or j >= m: return None
        R = [list(r) for r in A]; R[i], R[j] = R[j], R[i]; return R
    if op in ("assignm", "renew"): return [list(r) for r in st[1]]
    if op == "lib": return [list(r) for r in A] if m >= 1 else None          # the object is not involved (generated only for objects with >= 1 row)
    if op == "assign": return [[st[3]] * st[2] for _ in range(st[1])]
    if op == "resize":
        r, c = st[1:]
        return [[(A[i][j] if i < m and j < nc else 0.0) for j in range(c)] for i in range(r)]
    if op == "delrow":
        if st[1] >= m: return None
        return [list(r) for k, r in enumerate(A) if k != st[1]]
    if op == "delcol":
        if st[1] >= nc: return None
        return [[x for k, x in enumerate(r) if k != st[1]] for r in A]
    raise ValueError(op)


def sim_refs(A, H, st):
    """entries and held references after one non-query step -> (entries, references); entries None = the step terminates the
    process (or uses a reference that is not held: never generated).  H: handle -> ('r', i) a row reference, ('e', i, j) an entry
    reference.  Which references survive a member call follows the container rules (value-only calls: all; row exchange and
    Delete_Column: the row references; Resize / Assign to at most the current number of rows: the row references to the rows
    that remain, to more rows: none; Delete_Row(k): the rows before k; operator= / a new object: none)"""
    op = st[0]; m = len(A); nc = len(A[0]) if A else 0
    rows_only = lambda keep=(lambda i: True): {h: r for h, r in H.items() if r[0] == "r" and keep(r[1])}
    if op == "hold":
        if st[2] >= m: return None, H
        H = dict(H); H[st[1]] = ("r", st[2]); return A, H
    if op == "holde":
        if st[2] >= m or st[3] >= nc: return None, H
        H = dict(H); H[st[1]] = ("e", st[2], st[3]); return A, H
    if op in ("hset", "hrow"):
        r = H.get(st[1])
        if r is None or r[0] != "r": return None, H
        if op == "hset": return sim_update(A, ("set", r[1], st[2], st[3])), H
        if len(st[2]) != nc: return None, H
        R = [list(x) for x in A]; R[r[1]] = list(st[2]); return R, rows_only()
    if op == "eset":
        r = H.get(st[1])
        if r is None or r[0] != "e": return None, H
        return sim_update(A, ("set", r[1], r[2], st[2])), H
    if op == "hswap":
        r1, r2 = H.get(st[1]), H.get(st[2])
        if r1 is None or r2 is None or r1[0] != "r" or r2[0] != "r": return None, H
        return sim_update(A, ("swap", r1[1], r2[1])), rows_only()
    nxt = sim_update(A, st)
    if nxt is None: return None, H
    if op in ("add", "sub", "set"): return nxt, H
    if op in ("swap", "delcol", "lib"): return nxt, rows_only()
    if op in ("resize", "assign"): return nxt, (rows_only(lambda i: i < st[1]) if st[1] <= m else {})
    if op == "delrow": return nxt, rows_only(lambda i: i < st[1])
    return nxt, {}


def step_text(st):
    op = st[0]
    if op == "hset": return f"hset {st[1]} {st[2]} {hx(st[3])}"
    if op == "eset": return f"eset {st[1]} {hx(st[2])}"
    if op == "hrow": return f"hrow {st[1]} {flist(st[2])}"
    if op in ("add", "sub", "assignm", "renew"): return f"{op} {mtab(st[1])}"
    if op == "lib": return f"lib {st[1]} {mtab(st[2])}"
    if op in ("set", "assign"): return f"{op} {st[1]} {st[2]} {hx(st[3])}"
    return " ".join([op] + [str(x) for x in st[1:]])


def is_square(A): return len(A) > 0 and all(len(r) == len(A) for r in A)


def safe_for_inverse(A):
    if not is_square(A): return False
    c = ctx_of(A)
    return (not c.singular) and abs(c.ds) > 1000 * c.relbF


class Obj:
    """the call history of one object under construction: the generator follows the entries (`cur`) so that only the last
    call of a history may be one that has to terminate the process.  pure = the history is run without fresh-object probes
    (`hist`), where the queries on a copy and the re-construction in place are available too"""
    def __init__(s, rng, n, kind, pure=False, A=None, refs=None):
        s.rng = rng; s.kind = kind; s.pure = pure
        # refs: the caller keeps references to rows / entries of the object (taken before a query) and makes the updates
        # `set`, `swap`, `setrow` through them whenever a reference to the place is held
        s.refs = (rng.random() < 0.5) if refs is None else refs
        s.H = {}; s.nexth = 0; s.used_refs = False
        s.A = gen_matrix(rng, n, kind) if A is None else A
        s.n = len(s.A); s.cur = [list(r) for r in s.A]; s.steps = []
        s.intish = small_int(s.A)

    def V(s):
        rng = s.rng
        return float(rng.randint(-5, 5)) if s.intish else rng.choice([-1, 1]) * rng.uniform(0.1, 1) * 10 ** rng.uniform(-1, 1)

    def new_mat(s, m, sing=None):
        rng = s.rng
        while True:
            B = gen_matrix(rng, m, "dense-int" if s.intish else "dense") if sing is None else gen_matrix(rng, m, rng.choice(["rank-deficient", "rank-deficient-combo"]) if sing else "dense-int")
            if sing is None or ctx_of(B).singular == sing: return B

    def row_ref(s, i): return next((h for h, r in s.H.items() if r == ("r", i)), None)

    def take_refs(s):
        """references to all rows (or to some), and to a few entries, taken now"""
        rng = s.rng; cur = s.cur; m = len(cur); nc = len(cur[0]) if cur else 0
        if m == 0 or nc == 0: return
        p = rng.choice([1.0, 1.0, 0.6])
        for i in range(m):
            if rng.random() < p and s.row_ref(i) is None:
                s.apply(("hold", s.nexth, i)); s.nexth += 1
        for _ in range(rng.choice([0, 0, 1, 2])):
            s.apply(("holde", s.nexth, rng.randrange(m), rng.randrange(nc))); s.nexth += 1

    def through_refs(s, st):
        """the same update made through a held reference, when there is one to the place"""
        rng = s.rng
        if st[0] == "set":
            he = [h for h, r in s.H.items() if r == ("e", st[1], st[2])]; hr = s.row_ref(st[1])
            if he and rng.random() < 0.8: return ("eset", rng.choice(he), st[3])
            if hr is not None and rng.random() < 0.8: return ("hset", hr, st[2], st[3])
        if st[0] == "swap":
            h1, h2 = s.row_ref(st[1]), s.row_ref(st[2])
            if h1 is not None and h2 is not None and rng.random() < 0.8: return ("hswap", h1, h2)
        return st

    def apply(s, st):
        if st[0] in REF_WORDS: s.used_refs = True
        if st[0] in UPDATE_WORDS: s.cur, s.H = sim_refs(s.cur, s.H, st)
        s.steps.append(st)

    def push(s, st):
        if s.refs:
            if st[0] not in UPDATE_WORDS and not any(r[0] == "r" for r in s.H.values()) and s.rng.random() < 0.7: s.take_refs()   # before a query
            st = s.through_refs(st)
        s.apply(st)

    def query(s, among=None):
        rng = s.rng; cur = s.cur
        q = rng.choice(among or (PURE_QUERIES if s.pure else QUERIES))
        sq = is_square(cur)
        if QUERY_ALIAS.get(q, q) == "inverse" and not safe_for_inverse(cur): q = "copyinvertible" if q.startswith("copy") else "invertible"
        if q == "orthogonal" and not safe_for_inverse(cur): q = "det"
        if q == "subdet":
            if sq and len(cur) >= 2: return ("subdet", rng.randrange(len(cur)), rng.randrange(len(cur)))
            q = "det"
        if q in ("det", "copydet", "transdet") and not sq: q = "invertible"
        return (q,)

    def lib_step(s):
        """another facility of the library runs on an argument of its own: a symmetric, strictly diagonally dominant matrix of small
        integers with distinct diagonal entries (size 2..4), on which the eigen-solvers and the QR decomposition are defined"""
        rng = s.rng; k = rng.randint(2, 4)
        dg = rng.sample([4, 7, 11, 16, 22, 29], k)
        B = [[0.0] * k for _ in range(k)]
        for i in range(k):
            B[i][i] = float(dg[i])
            for j in range(i + 1, k): B[i][j] = B[j][i] = float(rng.choice([0, 1, 1, -1]))
        return ("lib", rng.choice(LIB_FACILITIES), B)

    def replace(s, B):
        """the object gets the entries B wholesale: copy assignment, or (pure) a new object in the same storage"""
        return [("renew" if s.pure and s.rng.random() < 0.4 else "assignm", B)]

    def update(s):
        rng = s.rng; cur = s.cur; n = s.n
        u = rng.choice(UPDATES); m = len(cur); nc = len(cur[0]) if cur else 0
        if m == 0 or nc == 0 or m != nc: return s.replace(s.new_mat(max(1, n)))
        if u == "lib": return [s.lib_step()]
        if u in ("add", "sub"): return [(u, s.new_mat(m))]
        if u == "add-zero": return [(rng.choice(["add", "sub"]), [[0.0] * m for _ in range(m)])]
        if u in ("add-singular", "add-regular"):
            # the entries become a prescribed singular / regular integer matrix: B = target - current, exact for small integers
            T = s.new_mat(m, sing=(u == "add-singular"))
            if small_int(cur): return [("add", [[t - x for t, x in zip(rt, rx)] for rt, rx in zip(T, cur)])]
            return s.replace(T)
        if u == "set": return [("set", rng.randrange(m), rng.randrange(m), s.V())]
        if u == "setrow":
            i = rng.randrange(m); vals = [s.V() for _ in range(m)]; h = s.row_ref(i)
            return [("hrow", h, vals)] if h is not None and s.refs else [("set", i, j, vals[j]) for j in range(m)]
        if u == "swap": return [("swap", rng.randrange(m), rng.randrange(m))]
        if u == "assignm": return s.replace(s.new_mat(rng.choice([m, m, max(1, m - 1), min(7, m + 1)])))
        if u == "assign":
            if rng.random() < 0.5: return [("assign", m, m, s.V())] + [("set", i, i, s.V()) for i in range(m)]
            return [("assign", m, m, s.V()), ("add", s.new_mat(m))]
        if u == "resize":
            if m < 6 and rng.random() < 0.6:
                w = rng.randrange(3)      # the new row and column are zero: leave them, or fill through operator[] / through +=
                return [("resize", m + 1, m + 1)] + ([("set", m, m, s.V())] if w == 0 else [("add", s.new_mat(m + 1))] if w == 1 else [])
            if m > 1: return [("resize", m - 1, m - 1)]
            return [("resize", m + 1, m + 1)]
        if u == "delrow+delcol":
            if m > 1:
                a, b = ("delrow", rng.randrange(m)), ("delcol", rng.randrange(m))
                return [a, b] if rng.random() < 0.5 else [b, a]
            return [("set", 0, 0, s.V())]
        raise ValueError(u)

    def random_history(s, L):
        """first a query (fills whatever may be remembered), then update / query alternation with repeats"""
        rng = s.rng
        s.push(s.query())
        while len(s.steps) < L:
            if rng.random() < 0.55:
                for st in s.update(): s.push(st)
                s.push(s.query())
                if rng.random() < 0.3: s.push(s.steps[-1])          # the same query again
            else:
                s.push(s.query())

    def terminal(s):
        """a last call that must (or may) terminate: Inverse of what has become singular / non-square, Determinant of non-square"""
        rng = s.rng; cur = s.cur
        w = rng.randrange(4)
        if w == 0 and is_square(cur) and small_int(cur) and len(cur) >= 2:
            T = s.new_mat(len(cur), sing=True)
            s.push(("add", [[t - x for t, x in zip(rt, rx)] for rt, rx in zip(T, cur)])); s.push(("inverse",))
        elif w == 1 and len(cur) >= 2: s.push(("delrow", 0)); s.push((rng.choice(["det", "inverse"]),))
        elif w == 2: s.push(("resize", len(cur) + 1, len(cur))); s.push((rng.choice(["det", "inverse", "invertible"]),))
        else: s.push(("inverse",))

    # ---- regular <-> singular by in-place updates
    def route_to(s, T):
        """update steps after which the entries are T (same shape as the current, square entries), by every in-place route"""
        rng = s.rng; cur = s.cur; m = len(cur)
        diff = [(i, j) for i in range(m) for j in range(m) if cur[i][j] != T[i][j]]
        routes = ["replace", "replace"]
        if len(diff) <= 2: routes += ["set"] * 6
        if small_int(cur) and small_int(T): routes += ["add", "sub", "assign+add"]
        w = rng.choice(routes)
        if w == "set": return [("set", i, j, T[i][j]) for i, j in diff]
        if w == "add": return [("add", [[t - x for t, x in zip(rt, rx)] for rt, rx in zip(T, cur)])]
        if w == "sub": return [("sub", [[x - t for t, x in zip(rt, rx)] for rt, rx in zip(T, cur)])]
        if w == "assign+add":
            v = float(rng.randint(-2, 2))
            return [("assign", m, m, v), ("add", [[t - v for t in rt] for rt in T])]
        return s.replace(T)

    def flip_chain(s, T, flips):
        """T = an exactly singular matrix; the object (regular at the start: T with one entry changed, or unrelated) is asked,
        made equal to T in place, asked again, made regular again in place, ...: whatever an implementation remembers from
        the answer for the earlier entries is wrong for the new ones.  Only the last call may be entitled to terminate."""
        rng = s.rng
        # the three functions of the property carry the weight, before and after the change
        reg_q = ["invertible"] * 3 + ["inverse"] * 2 + ["det"] * 2 + ["orthogonal", "copydet", "transdet"] + (["copyinvertible", "copyinverse"] if s.pure else [])
        sing_q = ["inverse"] * 4 + ["invertible"] * 2 + ["det", "orthogonal"] + (["copyinverse", "copyinvertible"] if s.pure else [])
        for f in range(flips):
            for _ in range(rng.choice([1, 1, 2])): s.push(s.query(reg_q))
            for st in s.route_to(T): s.push(st)
            if rng.random() < 0.35 and len(s.cur) >= 1: s.push(s.lib_step())      # another facility runs before the object is asked again
            q = rng.choice(sing_q)
            s.push((q,))
            if QUERY_ALIAS.get(q, q) == "inverse": return True          # this call has to terminate (or may, K-C05-1)
            R = regular_near(rng, T, s.V)
            for st in s.route_to(R): s.push(st)
        s.push(s.query(reg_q))
        return False


def regular_near(rng, T, V):
    """T with one entry changed so that the matrix is safely regular (else an unrelated regular matrix of the same size)"""
    m = len(T)
    for _ in range(12):
        R = [list(r) for r in T]; i, j = rng.randrange(m), rng.randrange(m); v = V()
        if v == R[i][j]: continue
        R[i][j] = v
        if safe_for_inverse(R): return R
    while True:
        R = gen_matrix(rng, m, "dense-int" if small_int(T) else "dense")
        if safe_for_inverse(R): return R


def singular_target(rng, n):
    """(T, V): an exactly singular n x n matrix (n >= 2) - small integers of every structure (dependent rows whose elimination
    leaves a rounding residue instead of an exact zero included), the same times 2^k, or generic entries - and a source of
    further entries of the same sort"""
    w = rng.random()
    while True:
        T = gen_matrix(rng, n, "rank-deficient-real" if w < 0.2 else rng.choice(["rank-deficient", "rank-deficient-combo", "rank-deficient-combo"]))
        if ctx_of(T).singular: break
    if w < 0.2: return T, (lambda: rng.choice([-1, 1]) * rng.uniform(0.1, 1) * 10 ** rng.uniform(-1, 1))
    if w < 0.3:
        k = rng.randint(-40, 40)
        return scale_mat(T, k), (lambda: math.ldexp(float(rng.randint(-5, 5)), k))
    return T, (lambda: float(rng.randint(-5, 5)))


def seq_case(o, tags):
    return Case(f"seq {mtab(o.A)} {len(o.steps)} " + " ".join(step_text(st) for st in o.steps), tuple(tags))


def hist_case(objs, order, tags):
    """order = list of (object index, step)"""
    return Case(f"hist {len(objs)} " + " ".join(mtab(o.A) for o in objs) + f" {len(order)} " + " ".join(f"{k} {step_text(st)}" for k, st in order), tuple(tags))


def interleave(rng, lists, weights):
    """merge the step lists keeping the order inside each; -> [(index, step)]"""
    pos = [0] * len(lists); out = []
    while True:
        live = [k for k in range(len(lists)) if pos[k] < len(lists[k])]
        if not live: return out
        k = rng.choices(live, [weights[x] for x in live])[0]
        out.append((k, lists[k][pos[k]])); pos[k] += 1


def gen_seq(rng, n, kind):
    """one object, 3..9 calls: queries interleaved with every kind of update, every query also put to a fresh object"""
    o = Obj(rng, n, kind); o.random_history(rng.randint(3, 9))
    tags = ["seq", kind, f"n={o.n}"]
    if rng.random() < 0.12: o.terminal(); tags.append("last-call-may-exit")
    if o.used_refs: tags.append("held-references")
    return seq_case(o, tags)


SEQ_KINDS = ["dense", "dense-int", "dense-int", "symmetric", "upper", "signed-perm", "rank-deficient", "zero-minor", "graded", "block"]


def gen_hist(rng, n):
    """1..3 objects (sizes around n), random histories interleaved, nothing else called in the process"""
    m = rng.choice([1, 1, 2, 2, 3])
    objs = [Obj(rng, n if k == 0 else rng.randint(1, 6), rng.choice(SEQ_KINDS), pure=True) for k in range(m)]
    for o in objs: o.random_history(rng.randint(2, 7) if m > 1 else rng.randint(3, 9))
    order = interleave(rng, [o.steps for o in objs], [1] * m)
    tags = ["hist", f"objects={m}", f"n={objs[0].n}"]
    if rng.random() < 0.12:
        k = rng.randrange(m); o = objs[k]; before = len(o.steps); o.terminal()
        order += [(k, st) for st in o.steps[before:]]; tags.append("last-call-may-exit")
    if any(o.used_refs for o in objs): tags.append("held-references")
    return hist_case(objs, order, tags)


def gen_after_lib(rng, n):
    """C05 requests made AFTER calls of other facilities of the library in the same process and nothing else (`hist`): 1..3 such
    calls, then Determinant / Invertible / Inverse / Orthogonal on an object that was not touched - exactly singular (small integers
    whose elimination leaves a rounding residue, duplicate / dependent rows, zero row, generic entries, graph Laplacians) or regular"""
    n = max(2, n); w = rng.random()
    kind = rng.choice(["rank-deficient-combo", "rank-deficient-combo", "rank-deficient", "rank-deficient-real", "laplacian", "block"]) if w < 0.7 else rng.choice(["dense-int", "dense", "signed-perm", "zero-minor", "symmetric"])
    o = Obj(rng, n, kind, pure=True, refs=False)
    if rng.random() < 0.3: o.push(o.query(["det", "invertible"]))
    for _ in range(rng.choice([1, 1, 2, 3])): o.push(o.lib_step())
    sing = is_square(o.cur) and ctx_of(o.cur).singular
    q = rng.choice(["inverse", "inverse", "copyinverse", "invertible", "det", "orthogonal"])
    if not sing and q in ("inverse", "copyinverse", "orthogonal") and not safe_for_inverse(o.cur): q = "invertible"
    o.push((q,))
    may_exit = exit_status(o.cur, (q,)) is not None
    if not may_exit and rng.random() < 0.5: o.push(o.query())
    return hist_case([o], [(0, st) for st in o.steps], ["hist", "objects=1", "after-other-facility", kind, f"n={o.n}"] + (["last-call-may-exit"] if may_exit else []))


def gen_flip(rng, n, pure):
    """regular <-> singular in place (see Obj.flip_chain), as `seq` (with probes) or as `hist` among 1..3 objects"""
    n = max(2, n)
    T, V = singular_target(rng, n)
    o = Obj(rng, n, "flip", pure=pure, A=regular_near(rng, T, V))
    o.V = V
    may_exit = o.flip_chain(T, rng.choice([1, 1, 2, 3]))
    tags = ["flip", f"n={n}"] + (["last-call-may-exit"] if may_exit else []) + (["held-references"] if o.used_refs else [])
    if not pure: return seq_case(o, ["seq"] + tags)
    m = rng.choice([1, 1, 2, 3])
    objs = [o] + [Obj(rng, rng.randint(1, 5), rng.choice(["dense-int", "dense", "signed-perm"]), pure=True) for _ in range(m - 1)]
    for x in objs[1:]: x.random_history(rng.randint(1, 4))
    order = interleave(rng, [x.steps for x in objs], [3] + [1] * (m - 1))
    if may_exit:          # nothing runs after the call that terminates
        last = max(i for i, (k, st) in enumerate(order) if k == 0)
        order = order[:last + 1]
    return hist_case(objs, order, ["hist", f"objects={m}"] + tags)


def generate(rng, tier):
    cs = []
    big = tier != "quick"
    reps = 26 if big else 2
    for n in range(1, 8):
        for kind in KINDS:
            for _ in range(reps * (2 if n <= 4 else 1)):
                A = gen_matrix(rng, n, kind); m = len(A)
                cs.append(inv_case(A, kind))
                cs.append(Case(f"det {mtab(A)}", ("det", kind, f"n={m}"), tol=det_tol(A)))
                r = rng.random()
                if r < 0.35: cs.append(Case(f"invertible {mtab(A)}", ("invertible", kind), tol=det_tol(A)))
                if m >= 2 and r > 0.5:
                    i, j = rng.sample(range(m), 2)
                    cs.append(Case(f"det_swap {mtab(A)} {i} {j}", ("det-law", "row-swap", kind), tol=det_tol(A)))
                if r > 0.7:
                    B = gen_matrix(rng, m, rng.choice(["dense", "dense-int", "upper", "signed-perm", "symmetric", "graded"]))
                    if len(B) == m:
                        P = fprod(A, B)
                        cs.append(Case(f"det_laws {mtab(A)} {mtab(B)}", ("det-law", "multiplicative+transpose", kind),
                                       tol=(1e-9, max(det_tol(A)[1], det_tol(B)[1], det_tol(P)[1]))))
    # the same families at extreme scales: entries * 2^k, k aimed at the ends of the double range for the determinant
    for n in range(1, 8):
        ets = list(DET_EXPONENTS); rng.shuffle(ets)
        per = (len(ets) if big else 16) if n >= 2 else 4
        for t in range(per * (3 if big else 1)):
            kind = rng.choice(SCALED_KINDS)
            A0 = gen_matrix(rng, n, kind)
            A, k = scaled_variant(rng, A0, ets[t % len(ets)])
            tg = (f"scale=2^{100 * round(k / 100)}",)
            cs.append(inv_case(A, kind, tg))
            cs.append(Case(f"det {mtab(A)}", ("det", kind, f"n={n}") + tg, tol=det_tol(A)))
            cs.append(Case(f"invertible {mtab(A)}", ("invertible", kind) + tg, tol=det_tol(A)))
    # exactly singular matrices with generic (non-dyadic) entries, every structure, sizes 2..7: the Laplace sum is a residue
    for n in range(2, 8):
        for _ in range(30 if big else 6):
            A = gen_matrix(rng, n, "rank-deficient-real")
            cs.append(inv_case(A, "rank-deficient-real")); cs.append(Case(f"invertible {mtab(A)}", ("invertible", "rank-deficient-real"), tol=det_tol(A)))
    # call histories on one object
    for n in range(1, 8):
        for _ in range((120 if big else 24) * (2 if 3 <= n <= 5 else 1)):
            cs.append(gen_seq(rng, n, rng.choice(SEQ_KINDS)))
    # call histories on 1..3 objects with nothing else running in the process, and regular <-> singular in place (both forms)
    for n in range(1, 8):
        for _ in range((100 if big else 14) * (2 if 3 <= n <= 5 else 1)):
            cs.append(gen_hist(rng, n))
            for _ in range(2): cs.append(gen_flip(rng, n, pure=True))
            if rng.random() < 0.5: cs.append(gen_flip(rng, n, pure=False))
    # C05 requests after calls of other facilities of the library in the same process
    for n in range(2, 8):
        for _ in range((60 if big else 12) * (2 if n <= 4 else 1)): cs.append(gen_after_lib(rng, n))
    # reducible matrices with exact ties (singular and regular), every size
    for n in range(2, 8):
        for _ in range(40 if big else 8):
            A = gen_matrix(rng, n, "block")
            cs.append(Case(f"invertible {mtab(A)}", ("invertible", "block", f"n={n}"), tol=det_tol(A)))
            cs.append(inv_case(A, "block"))
    # growth-factor shapes: the accuracy clause where it depends on the pivot choice; the larger sizes carry the weight
    for n in range(2, 8):
        for _ in range((12 if big else 2) * (n - 1) * (3 if n >= 6 else 1)):
            A = gen_matrix(rng, n, "growth")
            cs.append(inv_case(A, "growth"))
            if rng.random() < 0.2: cs.append(Case(f"det {mtab(A)}", ("det", "growth", f"n={n}"), tol=det_tol(A)))
    for n in ((4, 5, 6, 7) if big else (6, 7)):          # the whole ladder, rung by rung, at the sizes where the growth compounds
        for r in PIVOT_RATIOS:
            for _ in range(3 if big else 1): cs.append(inv_case(gen_growth(rng, n, ratio=r, plain=True), "growth", (f"ratio={r:g}",)))
    # the pivot search at the ends of the double range: matrices on which the row exchange matters, (a) as a whole at the entry
    # exponents where products of 2..7 entries overflow / underflow, (b) with one column in such a unit and the others not
    for n in range(2, 8):
        for t in range(40 if big else 8):
            B, fam = gen_pivot_sensitive(rng, n)
            E = entry_exponent(rng)
            if n * E < -1040: E = -E          # as a whole only where the determinant does not underflow (K-C05-2)
            A, k = at_entry_exponent(rng, B, E)
            tg = ("pivot-at-scale", f"scale=2^{100 * round(k / 100)}")
            cs.append(inv_case(A, fam, tg))
            cs.append(Case(f"invertible {mtab(A)}", ("invertible", fam) + tg, tol=det_tol(A)))
        for t in range(50 if big else 10):
            B, fam = gen_pivot_sensitive(rng, n) if rng.random() < 0.8 else (gen_matrix(rng, n, "dense"), "dense")
            A, units, mode = col_units(rng, B)
            tg = ("column-units", mode)
            cs.append(inv_case(A, fam, tg))
            cs.append(Case(f"invertible {mtab(A)}", ("invertible", fam) + tg, tol=det_tol(A)))
            if t % 3 == 0: cs.append(Case(f"det {mtab(A)}", ("det", fam, f"n={n}") + tg, tol=det_tol(A)))
    # the witnesses of the defects fixed earlier, and hand-picked pivoting situations
    for A in ([[0.0, 1.0], [1.0, 0.0]], [[1e-20, 1.0], [1.0, 1.0]], [[0.0, 0.0, 1.0], [0.0, 1.0, 0.0], [1.0, 0.0, 0.0]],
              [[1.0, 2.0, 3.0], [2.0, 4.0, 6.0], [1.0, 0.0, 1.0]], [[1.0, 1.0], [1.0, 1.0]], [[0.0]], [[5.0]], [[-0.0]],
              [[1.0, 2.0], [3.0, 4.0]], [[2.0, 1.0, 1.0], [4.0, 2.0, 3.0], [1.0, 5.0, 7.0]],      # second pivot zero without exchange
              [[1.0, -1.0, 0.0], [-1.0, 1.0, 1.0], [0.0, 1.0, 5.0]], [[1.0, 2.0], [-2.0, 1.0]]):   # tie |a| = |b| in the pivot search
        cs.append(inv_case(A, "hand")); cs.append(Case(f"det {mtab(A)}", ("det", "hand"), tol=det_tol(A)))
        cs.append(Case(f"invertible {mtab(A)}", ("invertible", "hand"), tol=det_tol(A)))
    # ties in the pivot search (first maximal row wins) and sign patterns
    for _ in range(300 if big else 40):
        n = rng.randint(2, 6); A = gen_matrix(rng, n, "dense-int")
        c = rng.randrange(n - 1); v = float(rng.randint(1, 5))
        rows = rng.sample(range(n), 2)
        for i in range(n): A[i][c] = rng.choice([-1, 1]) * v if i in rows else float(rng.randint(-int(v), int(v)))
        cs.append(inv_case(A, "pivot-tie")); cs.append(Case(f"det {mtab(A)}", ("det", "pivot-tie"), tol=det_tol(A)))
    # non-square requests
    for (m, n) in [(1, 2), (2, 1), (2, 3), (3, 2), (1, 4), (4, 3), (3, 4), (5, 6), (7, 6), (2, 7)]:
        for _ in range(6 if big else 1):
            A = [[rng.uniform(-2, 2) for _ in range(n)] for _ in range(m)]
            for op in ("det", "inverse", "invertible"): cs.append(Case(f"{op} {mtab(A)}", (op, "non-square")))
    return cs


# ---------------------------------------------------------------- parsing
class Rd:
    def __init__(s, line): s.t = line.split(); s.i = 1; s.op = s.t[0]
    def word(s): s.i += 1; return s.t[s.i - 1]
    def int(s): s.i += 1; return int(s.t[s.i - 1])
    def num(s): s.i += 1; return tokf(s.t[s.i - 1])
    def list(s): n = s.int(); return [s.num() for _ in range(n)]
    def table(s): n = s.int(); return [s.list() for _ in range(n)]
    def step(s):
        w = s.word()
        if w in ("add", "sub", "assignm", "renew"): return (w, s.table())
        if w == "lib": return (w, s.word(), s.table())
        if w in ("set", "assign"): return (w, s.int(), s.int(), s.num())
        if w in ("swap", "resize", "subdet", "hold", "hswap"): return (w, s.int(), s.int())
        if w == "holde": return (w, s.int(), s.int(), s.int())
        if w == "hset": return (w, s.int(), s.int(), s.num())
        if w == "eset": return (w, s.int(), s.num())
        if w == "hrow": return (w, s.int(), s.list())
        if w in ("delrow", "delcol"): return (w, s.int())
        return (w,)


def take_mat(t, p):
    """tokens `M r c x..` at position p -> (matrix or None, next position)"""
    if p + 2 >= len(t) + 0 and not (p + 2 < len(t)): return None, len(t)
    if t[p] != "M": return None, len(t)
    r, c = int(t[p + 1]), int(t[p + 2]); v = [tokf(x) for x in t[p + 3:p + 3 + r * c]]
    if len(v) != r * c: return None, len(t)
    return [v[i * c:(i + 1) * c] for i in range(r)], p + 3 + r * c


def parse_mat(io): return take_mat(io.split(), 0)[0]


def leading_minor_small(A):
    """a zero or tiny leading principal minor (relative to ||M||^k); scale-free: evaluated on the normalised matrix"""
    c = ctx_of(A); n = len(A); nm = fsqrt(fro2(c.AF)) or 1.0
    for k in range(1, n):
        d, _ = exact(key([row[:k] for row in c.AF[:k]]))
        if abs(d) < Fraction(1e-8 * nm ** k): return True
    return False


def nontrivial(c, io):
    r = Rd(c.line)
    if r.op == "hist": return True
    A = r.table()
    if any(len(row) != len(A) for row in A): return True
    if r.op in ("det_laws", "seq"): return True
    cx = ctx_of(A)
    if cx.singular: return True
    return cx.kappa > 1e4 or leading_minor_small(A) or cx.det_subnormal or cx.overflow_possible


# ---------------------------------------------------------------- S4: the clauses, on one (matrix, answer) pair
def sfx(c): return ":det-underflow" if c.det_underflow else ""


def clause_det(A, g):
    """Determinant() = g for the square matrix A"""
    c = ctx_of(A); n = c.n; out = []
    if not c.finite or c.overflow_possible: return out        # a product of entries may exceed the double range: no rounding model
    if not math.isfinite(g):
        out.append(("value", f"Determinant = {g!r}, exact {c.sci(c.d)}")); return out
    if not abs(Fraction(g) - c.d) <= c.bound:
        out.append(("value", f"Determinant = {g!r}, exact {c.sci(c.d)} (allowed rounding {c.fl(c.bound):.3g})"))
    if all(A[i][j] == 0 for i in range(n) for j in range(i)) or all(A[i][j] == 0 for i in range(n) for j in range(i + 1, n)):
        pd = functools.reduce(lambda a, b: a * b, [Fraction(A[i][i]) for i in range(n)], Fraction(1))
        if not abs(Fraction(g) - pd) <= c.bound:
            out.append(("triangular", f"Determinant of a triangular matrix = {g!r}, product of the diagonal = {c.fl(pd)!r}"))
    return out


def clause_invertible(A, flag, g=None):
    """Invertible() = flag (and Determinant() = g of the same object, when asked)"""
    c = ctx_of(A); out = []
    if g is not None and flag != int(g != 0): out.append(("iff-det-nonzero", f"Invertible() = {flag} while Determinant() = {g!r}"))
    if not c.finite: return out
    if c.singular and small_int_scaled(A) and not c.overflow_possible and not c.underflow_possible and flag != 0:
        out.append(("singular", "exactly singular integer matrix reported invertible"))
    if (not c.singular) and (not c.near_singular) and flag != 1:
        out.append(("regular" + sfx(c), f"matrix with determinant {c.sci(c.d)} (condition number {c.kappa:.3g}) reported not invertible"))
    return out


def clause_inverse(A, ex, X):
    """Inverse() of the square matrix A terminated (ex) or returned X"""
    c = ctx_of(A); n = c.n; out = []
    if not c.finite: return out
    if c.singular:
        if not ex:
            if structure_exact(A): out.append(("singular", "exactly singular matrix: Inverse returned numbers instead of terminating with a diagnostic"))
            else: out.append(("singular:rounded-residue", "exactly singular matrix (determinant and pivot are rounding residues): Inverse returned numbers instead of terminating with a diagnostic"))
        return out
    if c.near_singular: return out      # not distinguishable from singular at working precision
    if ex:
        out.append(("regular" + sfx(c), f"invertible matrix (det {c.sci(c.d)}, condition number {c.kappa:.3g}) : Inverse terminated the process")); return out
    if X is None or len(X) != n or any(len(row) != n for row in X): out.append(("shape", "Inverse is not an n x n matrix")); return out
    if any(math.isnan(x) or math.isinf(x) for row in X for x in row): out.append(("finite", "Inverse contains inf/nan")); return out
    k = c.kappa; sc = pow2(c.e)
    XF = [[Fraction(x) * sc for x in row] for row in X]; AF = c.AF; inv = c.invs      # normalised: XF ~ invs
    ninv2 = fro2(inv)
    e1 = fro2([[XF[i][j] - inv[i][j] for j in range(n)] for i in range(n)])
    left = fro2([[sum(XF[i][t] * AF[t][j] for t in range(n)) - (i == j) for j in range(n)] for i in range(n)])
    right = fro2([[sum(AF[i][t] * XF[t][j] for t in range(n)) - (i == j) for j in range(n)] for i in range(n)])
    lim = C_INV * n * k * EPS
    if not math.isfinite(lim * k): lim = None        # kappa beyond the double range (columns in units far apart): only the clauses below apply
    if lim is None: pass
    elif not e1 <= Fraction(lim) ** 2 * ninv2: out.append(("accuracy", f"||X - M^-1|| / ||M^-1|| = {fsqrt(e1 / ninv2):.3g} exceeds {C_INV:g}*n*kappa*eps = {lim:.3g} (n={n}, kappa={k:.3g})"))
    if lim is not None and not left <= Fraction(lim) ** 2: out.append(("left-residual", f"||X*M - 1|| = {fsqrt(left):.3g} exceeds {C_INV:g}*n*kappa*eps = {lim:.3g} (kappa={k:.3g})"))
    if lim is not None and not right <= Fraction(lim * k) ** 2: out.append(("right-residual", f"||M*X - 1|| = {fsqrt(right):.3g} exceeds {C_INV:g}*n*kappa^2*eps = {lim * k:.3g} (kappa={k:.3g})"))
    if out or c.colspread <= COLUNIT_SPREAD: return out
    # Columns in very different units (M = B*D, D = diag(2^c_j), spread above 2^40): kappa(M) is then dominated by D and the clauses
    # above say little.  Multiplying a column by a power of two changes no comparison and no rounding of the elimination (as long as
    # nothing leaves the double range: |c_j| <= 900 here), so Inverse(M) = D^-1 Inverse(B) digit by digit, and B - every column
    # normalised to largest entry in [1/2, 1) - is a matrix of the quantifier itself: the three clauses are evaluated for (B, D*X)
    # with kappa(B).  Skipped when an entry of the exact inverse lies outside 2^+-1000 (the premise 'nothing leaves the range').
    xs = [abs(x) * pow2(-c.e) for row in inv for x in row if x != 0]
    if not xs or max(xs) > pow2(1000) or min(xs) < pow2(-1000): return out
    BF = [[AF[i][j] * pow2(-c.cs[j]) for j in range(n)] for i in range(n)]
    invB = [[inv[i][j] * pow2(c.cs[i]) for j in range(n)] for i in range(n)]
    XB = [[XF[i][j] * pow2(c.cs[i]) for j in range(n)] for i in range(n)]
    kb = fsqrt(fro2(BF) * fro2(invB)); limb = C_INV * n * kb * EPS; nb2 = fro2(invB)
    if not math.isfinite(limb * kb): return out
    e1 = fro2([[XB[i][j] - invB[i][j] for j in range(n)] for i in range(n)])
    left = fro2([[sum(XB[i][t] * BF[t][j] for t in range(n)) - (i == j) for j in range(n)] for i in range(n)])
    right = fro2([[sum(BF[i][t] * XB[t][j] for t in range(n)) - (i == j) for j in range(n)] for i in range(n)])
    note = f"columns in units 2^{[cj + c.e for cj in c.cs]}, taken out: n={n}, kappa={kb:.3g}"
    if not e1 <= Fraction(limb) ** 2 * nb2: out.append(("accuracy", f"||X - M^-1|| / ||M^-1|| = {fsqrt(e1 / nb2):.3g} exceeds {C_INV:g}*n*kappa*eps = {limb:.3g} ({note})"))
    if not left <= Fraction(limb) ** 2: out.append(("left-residual", f"||X*M - 1|| = {fsqrt(left):.3g} exceeds {C_INV:g}*n*kappa*eps = {limb:.3g} ({note})"))
    if not right <= Fraction(limb * kb) ** 2: out.append(("right-residual", f"||M*X - 1|| = {fsqrt(right):.3g} exceeds {C_INV:g}*n*kappa^2*eps = {limb * kb:.3g} ({note})"))
    return out


def exit_status(A, q):
    """for the query q on an object with entries A: 'must' terminate, 'may' terminate, or None"""
    sq = is_square(A); q0 = QUERY_ALIAS.get(q[0], q[0])
    if q0 in ("det", "copydet", "transdet"): return None if sq else "must"
    if q0 == "subdet":
        if q[1] >= len(A) or q[2] >= (len(A[0]) if A else 0): return "must"
        S = [[x for k, x in enumerate(r) if k != q[2]] for i, r in enumerate(A) if i != q[1]]
        return None if (len(S) == 0 or is_square(S)) and (len(S) > 0 or len(A) == 1) else "must"
    if q0 == "invertible": return None
    if not sq: return "must" if q0 == "inverse" else None
    c = ctx_of(A)
    if not c.finite: return "may"
    if q0 == "inverse":
        if c.singular: return "must" if structure_exact(A) else "may"
        return "may" if c.near_singular else None
    if q0 == "orthogonal": return "may" if (c.singular or c.near_singular) else None
    return None


def predicates_seq(r, io):
    """`seq` (one object, every answer twice: the object's and a fresh object's) and `hist` (several objects, every answer once)"""
    out = []; op = r.op; probe = op == "seq"
    def bad(clause, msg): out.append((f"{op}:{clause}", msg))
    if probe: objs = [r.table()]
    else:
        m = r.int(); objs = [r.table() for _ in range(m)]
    k = r.int(); steps = []
    for _ in range(k):
        w = 0 if probe else r.int()
        steps.append((w, r.step()))
    ex = io.startswith("EXIT"); t = io.split(); p = 0
    held = [{} for _ in objs]
    for idx, (w, st) in enumerate(steps):
        where = f"call {idx + 1} ({st[0]})" if probe else f"call {idx + 1} (object {w}: {st[0]})"
        if w >= len(objs): return out
        cur = objs[w]
        if st[0] in UPDATE_WORDS:
            nxt, held[w] = sim_refs(cur, held[w], st)
            if nxt is None:
                if not ex: bad("guard", f"{where}: request outside the shape of the matrix did not terminate with a diagnostic")
                return out
            if not ex:
                if p >= len(t) or t[p] != "U": bad("shape", f"{where}: unexpected output"); return out
                p += 1
            objs[w] = nxt; continue
        q0 = QUERY_ALIAS.get(st[0], st[0])
        es = exit_status(cur, st)
        if ex:
            if es: return out          # this call is entitled to terminate the process
            continue
        if es == "must":
            sq = is_square(cur)
            bad("non-square" if not sq else "singular", f"{where}: {'non-square' if not sq else 'exactly singular'} matrix: numbers instead of terminating with a diagnostic"); return out
        if p >= len(t): bad("shape", f"{where}: output missing"); return out
        tag = t[p]; p += 1
        if q0 in ("det", "copydet", "transdet", "subdet"):
            if tag != "D" or p + (2 if probe else 1) > len(t): bad("shape", f"{where}: unexpected output"); return out
            a = t[p]; b = t[p + 1] if probe else a; p += 2 if probe else 1
            if a != b: bad("history", f"{where}: the object with this call history answers {tokf(a)!r}, a new object with the same entries answers {tokf(b)!r}")
            T = cur
            if q0 == "transdet": T = [[cur[i][j] for i in range(len(cur))] for j in range(len(cur))]
            if q0 == "subdet": T = [[x for kk, x in enumerate(rw) if kk != st[2]] for i, rw in enumerate(cur) if i != st[1]]
            if len(T) >= 1:
                for cl, msg in clause_det(T, tokf(a)): bad(cl, f"{where}: {msg}")
        elif q0 in ("invertible", "orthogonal"):
            if tag != "F" or p + (2 if probe else 1) > len(t): bad("shape", f"{where}: unexpected output"); return out
            a = t[p]; b = t[p + 1] if probe else a; p += 2 if probe else 1
            if a != b: bad("history", f"{where}: the object with this call history answers {a}, a new object with the same entries answers {b}")
            if q0 == "invertible":
                if not is_square(cur):
                    if a != "0": bad("non-square", f"{where}: Invertible() of a non-square matrix is not false")
                else:
                    for cl, msg in clause_invertible(cur, int(a)): bad(cl, f"{where}: {msg}")
        elif q0 == "inverse":
            if tag != "X": bad("shape", f"{where}: unexpected output"); return out
            X1, p1 = take_mat(t, p)
            if X1 is None: bad("shape", f"{where}: unexpected output"); return out
            if probe:
                X2, p2 = take_mat(t, p1)
                if X2 is None: bad("shape", f"{where}: unexpected output"); return out
                if t[p:p1] != t[p1:p2]: bad("history", f"{where}: Inverse() of the object with this call history differs from Inverse() of a new object with the same entries")
                p = p2
            else: p = p1
            for cl, msg in clause_inverse(cur, False, X1): bad(cl, f"{where}: {msg}")
    if ex:
        # no call of the history was entitled to terminate
        bad("regular", "the process terminated although every call of the history is defined (square, invertible where Inverse is asked)")
    return out


def predicates(c, io):
    if io.startswith(("CRASH", "SANITIZER", "TIMEOUT", "HARNESSERR")): return []
    r = Rd(c.line); op = r.op; out = []
    def bad(clause, msg): out.append((f"{op}:{clause}", msg))
    if op in ("seq", "hist"): return predicates_seq(r, io)
    ex = io.startswith("EXIT")
    A = r.table(); m = len(A); square = all(len(row) == m for row in A)
    if not square:
        if op in ("det", "inverse") and not ex: bad("non-square", f"{op} of a {m}x{len(A[0])} matrix returned numbers instead of terminating with a diagnostic")
        if op == "invertible" and io.split()[:1] != ["0"]: bad("non-square", "Invertible() of a non-square matrix is not false")
        return out
    n = m; cx = ctx_of(A)
    if op == "det":
        if ex: bad("defined", "Determinant of a square matrix terminated the process"); return out
        for cl, msg in clause_det(A, tokf(io.split()[0])): bad(cl, msg)
    elif op == "invertible":
        if ex: bad("defined", "Invertible() terminated the process"); return out
        t = io.split(); flag = int(t[0]); g = tokf(t[1])
        for cl, msg in clause_invertible(A, flag, g): bad(cl, msg)
    elif op == "det_swap":
        i, j = r.int(), r.int()
        if ex: bad("defined", "Determinant terminated the process"); return out
        g1, g2 = [tokf(x) for x in io.split()[:2]]
        for cl, msg in clause_det(A, g1): bad(cl, msg)
        B = [list(rw) for rw in A]; B[i], B[j] = B[j], B[i]
        if not cx.overflow_possible and cx.finite:
            if not (math.isfinite(g2) and abs(Fraction(g2) + cx.d) <= cx.bound): bad("row-swap", f"after exchanging rows {i},{j} the determinant is {g2!r}, expected {cx.sci(-cx.d)}")
    elif op == "det_laws":
        B = r.table()
        if ex: bad("defined", "Determinant terminated the process"); return out
        dA, dB, dAB, dAt = [tokf(x) for x in io.split()[:4]]
        cb = ctx_of(B); P = fprod(A, B); cp = ctx_of(P)
        if cx.overflow_possible or cb.overflow_possible or cp.overflow_possible or not (cx.finite and cb.finite and cp.finite): return out
        if not all(math.isfinite(x) for x in (dA, dB, dAB, dAt)): bad("value", "a determinant is not finite"); return out
        if not abs(Fraction(dAt) - cx.d) <= cx.bound: bad("transpose", f"det(A^T) = {dAt!r}, exact det(A) = {cx.sci(cx.d)}")
        if not abs(Fraction(dAB) - cp.d) <= cp.bound: bad("product-value", f"det(A*B) = {dAB!r}, exact determinant of the product formed = {cp.sci(cp.d)}")
        absP = [[sum(abs(A[i][k] * B[k][j]) for k in range(n)) for j in range(n)] for i in range(n)]
        mb = DET_SLACK * n * perm_abs(absP) + float(cp.uf)
        if not abs(Fraction(dAB) - cx.d * cb.d) <= Fraction(mb): bad("multiplicative", f"det(A*B) = {dAB!r}, det(A)*det(B) = {cx.sci(cx.d * cb.d)} (allowed {mb:.3g})")
    elif op == "inverse":
        X = None if ex else parse_mat(io)
        for cl, msg in clause_inverse(A, ex, X): bad(cl, msg)
    return out
