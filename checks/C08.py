"""C08 — interpolation integrals and extrema are those of the interpolated curve.

Case grammar (one line = one table + a list of operations; P/X change the object, queries run on a copy of it):
  t1 <x_dim> <f_dim> <list xs> <list ys> <nops> op*
  h1 ... (as t1)   the same, but every query goes to the ONE live object (search history); expected values are those of t1
  d1 | e1 <x_dim> <f_dim> <table rows (x, f)> <nops> op*      the constructor from a data table (d1 as t1, e1 as h1)
  t0 | h0 <nops> op*                                           the default constructor (abscissae -1, 0, 1, ordinates 0)
  t2 <x_dim> <y_dim> <f_dim> <list xs> <list ys> <table f> <nops> op2*
  h2 ... (as t2)   every query on the ONE live object
  d2 <x_dim> <y_dim> <f_dim> <table rows (x, y, f), x-major> <nops> op2*    Interpolation_2D(data_table, ...)
  z2 <nops> op2*                                               Interpolation_2D()
 op : P c | X c            Set_Prefactor(c) | Multiply(c)                                   (no output)
      I x | D k x | N a b | m a b | M a b | g | G        Interpolate, Derivative, Integrate, Local_Min/Max, Global_Min/Max
      E a b n   Local_Minimum(a,b), Local_Maximum(a,b), then Interpolate on the (n+1)-point grid of [a,b]
      Z n       Global_Minimum, Global_Maximum, then Interpolate on the (n+1)-point grid of the whole domain
      Q a b     Integrate(a,b), Integrate(b,a), then Interpolate at the 3 Gauss nodes of every piece of [a,b] between knots
      A a b c   Integrate(a,b), Integrate(b,c), Integrate(a,c)
      B a b     Integrate(a,b), Local_Minimum(a,b), Local_Maximum(a,b)
      U a x d   Integrate(a,x+d), Integrate(a,x-d), Interpolate(x), Derivative(x,2)
 op2: P c | X c | I x y | g | G | Z n   ((n+1)^2 grid of the whole domain)
 Several objects in one program (value semantics of the classes; model: the store of C08_Model.v):
  s1 | r1 <ntab> { L <x_dim> <f_dim> <list xs> <list ys> | R <x_dim> <f_dim> <table rows> }* <nslots> <nops> sop*     (r1: queries on the live objects)
  s2 | r2 <ntab> { <x_dim> <y_dim> <f_dim> <list xs> <list ys> <table f> }* <nslots> <nops> sop*
 sop: mk k t | mn k t    slot k = Obj(table t), assigned in place / after destroying the old object
      cp k j | cc k j    copy assignment (construction into an empty slot) / copy construction of a new object
      val k j | vec k j n   a copy through a by-value parameter / copied out of a std::vector of n copies that is then destroyed
      mv k j | rm k | sw k j   move (the source is left moved-from), destruction, std::swap
      at k                the slot the following op / op2 address
 Long tables given by rule (rule_table below): b1 | k1 <x_dim> <f_dim> <N> <s0> <xk> <X0> <jit> <ykind> <p1> <p2> <ym> <nops> op*
  (b1: one copy of the object per operation, k1: the live object), with the additional
      W a b     Integrate(a,b), Integrate(b,a), 3-point Gauss sum of Interpolate over every piece of [a,b] between knots"""
import math, sys
from vcheck import Case, hx, flist
import C01
from C01 import scaled, locate_ref, steffen_ref, seg_slack, table_ok, Rd, is_int_tok, EPS

PID = "C08"
DRIVER = "C08"
MODEL_DEPS = ["C01_Model.v"]
TOL = (1e-12, 1e-300)
RULE = ("a case = one table (or one program with several objects made from a few tables) with its list of operations; non-trivial = a 1-D case containing an extremum query whose limits span >= 3 segments with "
        "the reported extremum taken at an interior knot, or any query made under a negative prefactor; distinct by case text")
LEVEL_TEXT = ("Theorems (Coq, over the reals, every valid table N >= 3, every prefactor c of either sign reached by any sequence of Set_Prefactor/Multiply): "
              "for EVERY pair of limits the library accepts -- inside the tabulated domain or in the 1 % extrapolation zone beyond its ends, in either order -- Integrate(x1,x2) is the Riemann integral (Coquelicot RInt) of c*curve, the curve Interpolate returns there "
              "(C08_accepted_limits), hence additive and antisymmetric, and its derivative in the upper limit is Interpolate at every accepted point, end abscissae included "
              "(C08_integrate_laws_accepted_limits); with a limit that is not accepted Integrate and Local_Minimum/Maximum terminate the process, as do reversed limits of the latter (C08_rejected_limits, C08_local_extremum_reversed_limits). "
              "For limits inside the tabulated domain Integrate is bounded by Local_Minimum/Maximum times the length; Local_Minimum/Maximum(x1,x2) are lower/upper bounds of "
              "c*curve on [x1,x2] and are attained there; Global_Minimum/Maximum likewise on the whole domain (1-D) and on every cell of the grid (2-D); a window encloses each of its sub-windows and the global extrema enclose every window, whatever the number of intervals spanned (C08_extrema_nested); "
              "ALL of these scale with the prefactor as Interpolate does: Integrate under c is c times Integrate under 1, local and global extrema in 1-D and 2-D are c times those under 1, minimum and maximum exchanged for c <= 0 "
              "(C08_prefactor_scaling, C08_prefactor_scaling_2d, C08_local_extrema_scale); the default-constructed objects are proved to be such objects of a valid all-zero table. "
              "Floating point: for ANY number type whose comparisons form a total order (IEEE doubles without NaN, rounding included), any table length, prefactor and limits, the value Local_Minimum/Maximum returns is exactly the least/greatest of the candidates -- Interpolate at the two limits and prefactor*f_k for every tabulated abscissa k = i_1..i_2+1 inside the limits (C08_local_minimum_select, C08_local_maximum_select; no arithmetic law is used); this is the exact reference the S4 predicates compare the library with. "
              "Likewise Global_Minimum/Maximum, 1-D and 2-D, for any such number type and any table size: the value returned is exactly min / max of prefactor*f_min and prefactor*f_max with f_min / f_max an entry of the table not above / not below ANY entry (of any row in 2-D) (C08_global_extrema_select). "
              "For ANY number type, no law assumed: Integrate(a,b) and Integrate(b,a) form the same sum and differ only in the final factor 1 / -1 (bit-exact antisymmetry on doubles), and any history of Set_Prefactor/Multiply changes the prefactor only, to the left fold of the history (C08_any_number_type). "
              "The constructor Interpolation_2D(data_table,...) applied to the x-major listing of ANY valid grid makes exactly the object the constructor from lists makes (sort/unique recover the axes, the fill loop the values; C08_table_constructor_grid), and a table with a row not of three entries terminates the process (C08_table_constructor_bad_row). "
              "The same Gallina terms are extracted and run against the C++ classes on every run, and every clause is "
              "evaluated on the implementation's output (S4: exact reference for the extrema, Gauss quadrature for the integrals, dense sampling). "
              "Programs with several objects: the classes have value semantics, modelled by a store of objects (lstep); theorems: a copy (copy construction / assignment, by-value parameter, vector element) or a moved object keeps the table and prefactor of its source through every later operation on other objects, re-assignment or destruction of the source included; that the C++ objects behave like this store is tied by correspondence and S4 (sessions). "
              "Long tables: the loops of Integrate and Local_Minimum/Maximum can be cut after any number of steps and resumed with the running value (theorems, any NumOps instance); tables of 10^2..10^5 points are run through the extracted functions window by window, "
              "with the remarkable ordinate placed at the first / last abscissa inside the limits and with blocks of ordinates 2^10..2^300 times larger elsewhere in the table. "
              "Seventh pass: the public member domain and operator() (1-D and 2-D) are in the model and compared on every run (ops O, C); after any prefactor history domain is {x_0, x_{N-1}} resp. {{x_0,x_last},{y_0,y_last}} (C08_domain_member) and EVERY call of operator()/Interpolate with arguments inside domain -- whichever interval or cell they fall into -- lies between Global_Minimum and Global_Maximum (C08_global_bounds_whole_domain, C08_global_bounds_whole_domain_2d); "
              "Derivative of every order scales with the prefactor exactly as Interpolate does at every accepted point (C08_derivative_prefactor); "
              "the 2-D data-table constructor returns an object ONLY for the x-major listing of a rectangular table over strictly increasing axes, and then the object of the list constructor (C08_table_constructor_accepts_only_listings, converse of C08_table_constructor_grid), its size check and its wrong-node check terminate the process for any number type (C08_table_constructor_error_branches); "
              "floating point: for any number type with totally ordered comparisons and multiplication by a fixed factor monotone (explicit premise, true of IEEE multiplication without NaN), prefactor*f lies between Global_Minimum and Global_Maximum for EVERY table entry f, 1-D and 2-D (C08_global_bounds_every_entry_fp). "
              "Exactly which code is modelled line by line, by specification, or not at all: coverage/C08.md. "
              "REFUTED for the model (theorem C08_global_bound_accepted_points_refuted, witness replayed on the library on every run, corpus/C08/refuted.case): that Global_Minimum bounds EVERY accepted evaluation -- on the straight-line table 0,1,2 -> 0,1,2 Interpolate(-1/200) = -1/200 < 0 = Global_Minimum (known finding K-C08-1). "
              "Not a theorem: the analogous failure of Local_Minimum/Maximum in the zone (K-C08-1, witness replayed on every run, no refutation theorem); the 1-D data-table constructor is tied to the list constructor by the theorems of C01 (construct_rows_complete), that the 2-D data-table constructor ends in the diagnostic exit (rather than an out-of-range read) on EVERY table that is not a listing is shown by correspondence and S4 only (the theorems give: never an object; exit on the size check and on a wrong node); Save_Function is outside this slice (C09); "
              "rounding of the arithmetic in Interpolate and Integrate (the integrals are compared with quadrature within the a-priori slack).")
LEVEL_NOTE = ("Coq 8.16.1 kernel; theorems over R use the standard library's real-number axioms and Coquelicot; hand-written model tied by differential "
              "correspondence (extraction with ExtrOcamlBasic only); std::min_element/max_element modelled as first smallest / first largest by a fold")
TRUSTED = ["std::min_element / std::max_element are modelled by a left fold keeping the first smallest / largest element",
           "std::pow with exponents 2.0, 3.0, 4.0 is modelled by npowi (powerRZ on R; x*x resp. libm pow on doubles, as g++ -O1 compiles it)",
           "std::sort / std::unique in the 2-D data-table constructor are modelled by specification (insertion sort; first element of every run of equal values); no NaN or -0.0 among the abscissae",
           "long tables (b1, k1): the driver evaluates the extracted construct / locate / interpolate / integrate_loop / knot_scan on windows of 12 segments plus two tabulated points on either side (the Steffen coefficients of a segment depend on those points only) and threads the running sum / extremum from window to window; the choice of the window is a plain binary search in the driver",
           "several objects (s1, r1, s2, r2): the driver maps construction, copy, move, destruction and swap of the C++ objects to the operations LPut, LCopy, LMove, LDrop, LSwap of the store model",
           "the model answers every query from the search state of a fresh object (the search state machine is property C09); the harness asks copies (t1, d1, t0, t2, d2, z2) or the one live object (h1, e1, h0, h2)"]
ASSUMPTIONS = ["the extremum theorems (bounds of the curve, bounded integral, nesting, scaling) assume limits inside [x_0, x_{N-1}]; the integral theorems hold for every accepted limit, the 1 % extrapolation zone included",
               "C08_local_minimum_select / C08_local_maximum_select / C08_global_extrema_select assume OrdLaws (comparisons form a total order: no NaN among the values compared)",
               "C08_global_bounds_every_entry_fp assumes OrdLaws and monotone multiplication by a fixed factor (an explicit hypothesis of the theorem, satisfiable: ROps_mul_monotone)",
               "C08_table_constructor_grid: the data table lists a valid grid (strictly increasing axes, at least 2 x 2) in x-major order, over the reals (std::sort / std::unique by specification)"]

NS = 48   # dense sampling of an extremum query


# ----------------------------------------------------------------------------------------------- generators
def rand_pref(rng):
    r = rng.random()
    if r < 0.3: return rng.choice([-1.0, 2.0, -2.0, 0.5, -0.5, 3.0])
    if r < 0.55: return rng.choice([-1, 1]) * 10 ** rng.uniform(-3, 3)
    if r < 0.7: return rng.choice([-1, 1]) * 10 ** rng.uniform(-30, -10)
    if r < 0.85: return rng.choice([-1, 1]) * 10 ** rng.uniform(10, 30)
    if r < 0.9: return 1.0
    if r < 0.92: return rng.choice([0.0, -0.0])
    return rng.choice([-1, 1]) * rng.uniform(0.1, 10)


def pref_ops(rng, force=False):
    ops = []
    if not force and rng.random() < 0.25: return ops
    for _ in range(rng.choice([1, 1, 2, 3, 5])):
        ops.append(("P" if rng.random() < 0.45 else "X") + " " + hx(rand_pref(rng)))
    return ops


def inside(rng, xs, j):
    h = xs[j + 1] - xs[j]; x = xs[j] + h * rng.random()
    return min(max(x, xs[j]), xs[j + 1])


def pick_limits(rng, xs, kind=None):
    N = len(xs)
    kind = kind or rng.choice(["same", "span", "span", "span3", "knots", "knot-mixed", "zone", "zone-tight", "whole", "equal", "adjacent"])
    tl = 1e-2 * (xs[1] - xs[0]); tr = 1e-2 * (xs[-1] - xs[-2])
    if kind == "same":
        j = rng.randrange(N - 1); a, b = sorted([inside(rng, xs, j), inside(rng, xs, j)])
    elif kind in ("span", "span3"):
        j1 = rng.randrange(N - 1); j2 = rng.randrange(j1, N - 1)
        if kind == "span3" and N >= 5: j1 = rng.randrange(0, N - 4); j2 = rng.randrange(j1 + 3, N - 1)
        a, b = sorted([inside(rng, xs, j1), inside(rng, xs, j2)])
    elif kind == "knots":
        i = rng.randrange(N); k = rng.randrange(i, N); a, b = xs[i], xs[k]
    elif kind == "knot-mixed":
        i = rng.randrange(N); a = xs[i]
        if rng.random() < 0.5 and 0 < i < N - 1: a = math.nextafter(a, rng.choice([-math.inf, math.inf]))
        j = rng.randrange(N - 1); b = inside(rng, xs, j) if rng.random() < 0.6 else xs[rng.randrange(N)]
        a, b = sorted([a, b])
    elif kind == "zone":
        a = xs[0] - tl * rng.uniform(0.0, 0.999) if rng.random() < 0.6 else inside(rng, xs, rng.randrange(N - 1))
        b = xs[-1] + tr * rng.uniform(0.0, 0.999) if rng.random() < 0.6 else inside(rng, xs, rng.randrange(N - 1))
        a, b = sorted([a, b])
    elif kind == "zone-tight":     # dense sampling resolves the extrapolation zone
        if rng.random() < 0.5:
            a = xs[0] - tl * rng.uniform(0.5, 0.999); b = xs[0] + (xs[1] - xs[0]) * rng.choice([0.0, 0.005, 0.02, 0.1])
        else:
            b = xs[-1] + tr * rng.uniform(0.5, 0.999); a = xs[-1] - (xs[-1] - xs[-2]) * rng.choice([0.0, 0.005, 0.02, 0.1])
    elif kind == "whole": a, b = xs[0], xs[-1]
    elif kind == "equal":
        a = b = inside(rng, xs, rng.randrange(N - 1)) if rng.random() < 0.5 else xs[rng.randrange(N)]
    else:
        i = rng.randrange(N - 1); a, b = xs[i], xs[i + 1]
    if not (abs(a - xs[0]) < tl or xs[0] <= a): a = xs[0]
    if not (abs(b - xs[-1]) < tr or b <= xs[-1]): b = xs[-1]
    return a, b, kind


def query_ops(rng, xs, nq):
    ops = []; N = len(xs)
    for _ in range(nq):
        a, b, kind = pick_limits(rng, xs)
        r = rng.random()
        if r < 0.4: ops.append(f"E {hx(a)} {hx(b)} {NS}")
        elif r < 0.6:
            if rng.random() < 0.4: a, b = b, a
            ops.append(f"Q {hx(a)} {hx(b)}")
        elif r < 0.7:
            c, _d, _k = pick_limits(rng, xs); pts = [a, b, c]; rng.shuffle(pts)
            ops.append(f"A {hx(pts[0])} {hx(pts[1])} {hx(pts[2])}")
        elif r < 0.8: ops.append(f"B {hx(a)} {hx(b)}")
        elif r < 0.88:
            j = rng.randrange(N - 1); h = xs[j + 1] - xs[j]; x = xs[j] + h * rng.uniform(0.3, 0.7); d = h / 16.0
            aa = xs[max(0, j - rng.choice([0, 0, 1]))] if rng.random() < 0.7 else inside(rng, xs, j)
            ops.append(f"U {hx(aa)} {hx(x)} {hx(d)}")
        elif r < 0.94: ops.append(f"Z {NS}")
        else:
            ops += [f"m {hx(a)} {hx(b)}", f"M {hx(a)} {hx(b)}", f"N {hx(a)} {hx(b)}", "g", "G", f"I {hx(a)}", f"D 1 {hx(b)}"]
    # operator() next to Interpolate (at a limit: knots, interior points, zone points) and the public member domain
    if rng.random() < 0.5:
        a, b, _k = pick_limits(rng, xs); ops.append(f"C {hx(rng.choice([a, b, xs[0], xs[-1]]))}")
    if rng.random() < 0.35: ops.append("O")
    return ops


def zone_aimed_table(rng):
    """first (or last) slope small against the end secant: 0 < dy_0/s_0 << 1, so that the extrapolated cubic turns inside the 1 % zone"""
    N = rng.choice([3, 4, 6]); h0 = 10 ** rng.uniform(-1, 1); h1 = h0 * 10 ** rng.uniform(-0.5, 0.5)
    s0 = rng.choice([-1, 1]) * 10 ** rng.uniform(-2, 2); al = 10 ** rng.uniform(-3, -1.2); r = h0 / (h0 + h1)
    p0 = al * s0; s1 = (s0 * (1 + r) - p0) / r
    xs = [rng.uniform(-2, 2)]; xs.append(xs[0] + h0); xs.append(xs[1] + h1)
    ys = [rng.uniform(-1, 1)]; ys.append(ys[0] + s0 * h0); ys.append(ys[1] + s1 * h1)
    while len(xs) < N:
        xs.append(xs[-1] + h1 * rng.uniform(0.5, 2)); ys.append(ys[-1] + rng.gauss(0, 1))
    if rng.random() < 0.5:   # mirror: aim at the right end
        xs = [-x for x in reversed(xs)]; ys = list(reversed(ys))
    return xs, ys


DBL_MAX = sys.float_info.max
DBL_MIN = sys.float_info.min


def reshape_values(rng, ys):
    """sign / level structure of the ordinates: tables lying entirely on one side of zero, touching zero, constant, or riding on a large offset"""
    kind = rng.choice(["allneg", "allneg", "allpos", "nonpos", "nonneg", "const", "zero", "offset"])
    mx = max([abs(y) for y in ys] + [0.0])
    if kind == "allneg": out = [-abs(y) - (mx * 2.0 ** -20 if rng.random() < 0.5 else 0.0) for y in ys]
    elif kind == "allpos": out = [abs(y) + (mx * 2.0 ** -20 if rng.random() < 0.5 else 0.0) for y in ys]
    elif kind == "nonpos": out = [0.0 if rng.random() < 0.3 else -abs(y) for y in ys]
    elif kind == "nonneg": out = [0.0 if rng.random() < 0.3 else abs(y) for y in ys]
    elif kind == "const": out = [rng.choice([-1, 1]) * (mx if mx > 0 else 1.0)] * len(ys)
    elif kind == "zero": out = [0.0 * rng.choice([-1, 1])] * len(ys)
    else:
        off = rng.choice([-1, 1]) * (mx if mx > 0 else 1.0) * 10 ** rng.uniform(0.1, 6); out = [y + off for y in ys]
    return out, kind


def edge_table(rng, low):
    """ordinates at the edge of the double range, to be queried under a compensating prefactor: the scaled curve, its extrema and integrals are
    ordinary numbers, and every intermediate quantity of the unscaled cubic and of its antiderivative (largest: d_j * x) stays finite by construction:
      |y| <= Y, |y_{j+1}-y_j| <= delta*Y, h >= 1/2:  |a h^3|,|b h^2|,|c h| <= 6,9,2 * delta*Y,  antiderivative terms <= 5.5*delta*Y*h + Y*max|x|  <= 0.9*DBL_MAX/k (the margin covers the 1 % extrapolation zone).
    k runs down a ladder to just above 1; for k < (window length)/max|x| the UNSCALED integral over the window exceeds DBL_MAX.
    low = True: the mirror image, |y| ~ 1e-295..1e-280 (still normal numbers) under a huge prefactor."""
    N = rng.choice([3, 4, 5, 7, 9]); u = 2.0 ** rng.randint(0, 6)
    hs = [u * rng.randint(4, 32) / 8.0 for _ in range(N - 1)]; tot = sum(hs)
    pos = rng.choice(["sym", "sym", "mid", "left0", "right0", "neg", "pos"])
    if pos == "sym": x0 = -tot / 2
    elif pos == "mid": x0 = -u * round(tot / u * rng.uniform(0.1, 0.9) * 8) / 8.0
    elif pos == "left0": x0 = 0.0
    elif pos == "right0": x0 = -tot
    elif pos == "neg": x0 = -tot - u * rng.randint(1, 16)
    else: x0 = u * rng.randint(1, 16)
    xs = [x0]
    for h in hs: xs.append(xs[-1] + h)
    R = max(abs(xs[0]), abs(xs[-1]), 1.0); hmax = max(hs)
    delta = 10 ** rng.uniform(-9, -2.5)
    shape = rng.choice(["random", "bump", "monotone", "alternating", "const"])
    if shape == "random": w = [rng.random() for _ in xs]
    elif shape == "bump": m = rng.randrange(N); w = [abs(i - m) / float(N) for i in range(N)]
    elif shape == "monotone": w = sorted(rng.random() for _ in xs)
    elif shape == "alternating": w = [float(i % 2) for i in range(N)]
    else: w = [0.0] * N
    if low:
        Y = 10 ** rng.uniform(-295, -280); k = None
    else:
        k = rng.choice([1.02, 1.1, 1.3, 1.7, 1.95, 2.5, 5.0, 50.0, 1e4, 1e10])
        Y = (0.9 * DBL_MAX / k) / (5.5 * delta * hmax + R * (1 + 17 * delta))
    sg = rng.choice([-1, 1]); ys = [sg * Y * (1 - delta * t) for t in w]
    T = 10 ** rng.uniform(-3, 6) if rng.random() < 0.7 else 1.0
    return xs, ys, Y, T, shape, k


def split_pref(rng, c, fresh):
    """a sequence of Set_Prefactor / Multiply calls that leaves the prefactor c (fresh: the prefactor is still 1, so Multiply alone may be used)"""
    r = rng.random()
    if r < 0.4: return [f"P {hx(c)}"]
    if r < 0.55 and fresh: return [f"X {hx(c)}"]
    if r < 0.7: return [f"P {hx(rand_pref(rng))}", f"P {hx(c)}"]
    e = math.frexp(c)[1] // 2; c1 = math.ldexp(1.0, e); c2 = c / c1       # exact split by a power of two
    ops = [f"P {hx(c1)}", f"X {hx(c2)}"] if rng.random() < 0.5 or not fresh else [f"X {hx(c2)}", f"X {hx(c1)}"]
    if rng.random() < 0.4: ops = ops + [f"X {hx(-1.0)}", f"X {hx(-1.0)}"]
    return ops


def window_ops(rng, xs):
    """queries on long windows (whole domain, knot to knot, all but one segment), then the usual mix"""
    N = len(xs); ops = []
    for _ in range(3):
        i = rng.choice([0, 0, 1]) if N > 3 else 0; j = N - 1 - (rng.choice([0, 0, 1]) if N > 3 else 0)
        a, b = xs[i], xs[j]
        if rng.random() < 0.3: a = inside(rng, xs, i)
        if rng.random() < 0.3: b = inside(rng, xs, j - 1)
        a, b = min(a, b), max(a, b)
        m = xs[rng.randrange(i, j + 1)] if rng.random() < 0.6 else inside(rng, xs, rng.randrange(i, j))
        ops += [rng.choice([f"Q {hx(a)} {hx(b)}", f"Q {hx(b)} {hx(a)}"]), f"B {hx(a)} {hx(b)}", f"A {hx(a)} {hx(m)} {hx(b)}"]
        if rng.random() < 0.5: ops.append(f"E {hx(a)} {hx(b)} {NS}")
    return ops + query_ops(rng, xs, 3)


def ftable(rows): return f"{len(rows)} " + " ".join(flist(r) for r in rows)


def line1(xd, fd, xs, ys, ops, op="t1"):
    if op in ("d1", "e1"): return f"{op} {hx(xd)} {hx(fd)} {ftable([[x, y] for x, y in zip(xs, ys)])} {len(ops)} " + " ".join(ops)
    return f"{op} {hx(xd)} {hx(fd)} {flist(xs)} {flist(ys)} {len(ops)} " + " ".join(ops)


def line2(rng, xd, yd, fd, xs, ys, f, ops):
    """a 2-D case through one of the constructors: lists (fresh / history mode) or the data table of rows (x, y, f)"""
    r = rng.random()
    if r < 0.25 and len(xs) * len(ys) <= 60:
        return f"d2 {hx(xd)} {hx(yd)} {hx(fd)} {ftable([[x, y, f[i][j]] for i, x in enumerate(xs) for j, y in enumerate(ys)])} {len(ops)} " + " ".join(ops), "ctor:table"
    op = "h2" if r < 0.45 else "t2"
    return f"{op} {hx(xd)} {hx(yd)} {hx(fd)} {flist(xs)} {flist(ys)} {len(f)} " + " ".join(flist(q) for q in f) + f" {len(ops)} " + " ".join(ops), "ctor:lists" + ("-history" if op == "h2" else "")


# ---- long tables by rule: integers scaled by powers of two (the harness and the model driver build the same doubles from the same integers)
_RT = {}


def rule_table(N, s0, xk, X0, jit, yk, p1, p2, ym):
    key = (N, s0, xk, X0, jit, yk, p1, p2, ym)
    if key in _RT: return _RT[key]
    st = [s0]
    def nxt():
        st[0] = (st[0] * 1103515245 + 12345) & 0x7fffffff
        return st[0] >> 16
    ux = 2.0 ** xk; uy = 2.0 ** ym
    xs = [float(X0 + 8 * i + (nxt() % 7 if jit else 0)) * ux for i in range(N)]
    ys = []; Y = p1
    for i in range(N):
        if yk == 0: v = p1
        elif yk == 1: v = p1 + p2 * i
        elif yk == 2: v = p1 + nxt() % (2 * p2 + 1) - p2
        elif yk == 3:
            if i > 0: Y += nxt() % (2 * p2 + 1) - p2
            v = Y
        elif yk == 4: v = p1 + p2 * ((i % 16) if i % 16 < 8 else 16 - (i % 16))
        elif yk == 5: v = p1 + (1000 if i == p2 else 0)
        elif yk in (6, 7):     # random ordinates p1 .. p1+15, scaled by 2^E on the knots before (6) / from (7) the knot q;  p2 = q + N*E
            q, E = p2 % N, p2 // N
            v = math.ldexp(float(p1 + nxt() % 16), E if ((i < q) == (yk == 6)) else 0)
        elif yk == 8: v = p1 + (p2 if i % 2 == 0 else -p2) * i           # zig-zag of growing amplitude: every window has its extrema at its last knots
        else: v = p1 + (p2 if i % 2 == 0 else -p2) * (N - i)             # ... of shrinking amplitude: at its first knots
        ys.append(float(v) * uy)
    if len(_RT) > 6: _RT.clear()
    _RT[key] = (xs, ys)
    return xs, ys


SIZE_LADDER = [2 ** p + e for p in range(10, 19) for e in (-1, 0, 1, 2, 3)]
SMALL_LADDER = [1, 2, 3, 5] + [2 ** p + e for p in range(3, 10) for e in (-1, 0, 1, 2, 3)]
FULL_LADDER = SMALL_LADDER + SIZE_LADDER
BLOCK_EXP = [10, 20, 30, 40, 50, 53, 64, 90, 150, 300]     # dynamic range 2^E between the two blocks of a table (ykind 6, 7)
ALL_YK = (0, 0, 1, 2, 2, 3, 3, 4, 5, 5, 6, 6, 7, 7, 8, 9)


def big_case(rng, N, yks=ALL_YK):
    """a table of N points by rule, queried on long spans: the whole domain, spans of 2^p + {-1..3} segments (p = 1, 2, ... up to the table), splits next
    to 2^p segments.  Where in a window the table is remarkable is aimed as well:
      ykind 5: one outstanding value, placed at / next to the first or the last tabulated abscissa inside the limits (limits inside the adjacent
               segments, on the abscissa itself, 1 ulp off), or 2^p + {-1..3} knots into the span;
      ykind 6, 7: two blocks whose magnitudes differ by 2^E (E up to 300), windows in the low block at a ladder of distances from the tall one, in the tall
               block, and across the step;
      ykind 8, 9: a zig-zag of growing / shrinking amplitude, so that EVERY window takes its extrema at its last / first abscissae."""
    s0 = rng.randrange(1, 2 ** 31); xk = rng.choice([-3, -3, -6, -10, 0, 4])
    X0 = rng.choice([0, 0, -4 * N, -8 * (N - 1), 2 ** 24, -2 ** 26, 8 * rng.randrange(1, 1000)])
    jit = 1 if rng.random() < 0.7 else 0
    yk = rng.choice(yks); q = None
    if yk == 0: p1, p2 = rng.choice([-1, 1]) * rng.randint(1, 1000), 0
    elif yk == 1: p1, p2 = rng.randint(-1000, 1000), rng.choice([1, -1, 3])
    elif yk == 2: p1, p2 = rng.randint(-100, 100), rng.randint(1, 50)
    elif yk == 3: p1, p2 = rng.randint(-100, 100), rng.randint(1, 8)
    elif yk == 4: p1, p2 = rng.randint(-20, 20), rng.choice([-1, 1]) * rng.randint(1, 5)
    elif yk == 5: p1, p2 = rng.randint(-3, 3), rng.randrange(N)
    elif yk in (6, 7):
        # the step: anywhere, at a quarter of the table (the low block is the long one), or a few (2^p + 2) knots from the end of the tall block
        e = max(3, min(N - 4, rng.choice([5, 17, 50, 66, 130, 514])))
        q = rng.choice([rng.randrange(3, N - 3), N // 4 if yk == 6 else (3 * N) // 4, N // 4 if yk == 6 else (3 * N) // 4, e if yk == 6 else N - 1 - e])
        p1, p2 = rng.choice([-40, -15, -8, -3, 0, 1, 5, 30]), q + N * rng.choice(BLOCK_EXP)
    else: p1, p2 = rng.randint(-20, 20), rng.choice([-1, 1]) * rng.randint(1, 5)
    lad = [L for L in FULL_LADDER if L <= N - 3]; ladL = [L for L in SIZE_LADDER if L <= N - 3]
    if yk == 5 and lad:
        # one outstanding value, placed 2^p + {-1..3} knots after the start of a long span (and of spans on the lower rungs of the ladder)
        L = rng.choice((ladL or lad)[-5:]); i0 = rng.randrange(0, N - 2 - L); p2 = i0 + L
    ym = rng.choice([-4, 0, -20, 10])
    r = rng.random()
    xd, fd = (-1.0, -1.0) if r < 0.6 else ((2.0 ** rng.randint(-20, 20), -1.0) if r < 0.75 else ((-1.0, 10 ** rng.uniform(-6, 6)) if r < 0.9 else (10 ** rng.uniform(-3, 3), 10 ** rng.uniform(-6, 6))))
    xs0, _ys0 = rule_table(N, s0, xk, X0, jit, yk, p1, p2, ym); xs = scaled(xd, xs0)
    def pt(i, knot=None):    # a limit in / at the left end of segment i
        i = max(0, min(N - 2, i))
        if knot is None: knot = rng.random() < 0.5
        return xs[i] if knot else inside(rng, xs, i)
    def near(p, side):
        """a limit next to the tabulated abscissa p, approached from the window that lies on the given side (-1: the window ends here, +1: it starts here):
        inside the adjacent segment beyond p (p is the last / first abscissa inside the limits), on p, 1 ulp off, or short of p (p is just outside)"""
        w = rng.choice(["beyond", "beyond", "beyond", "on", "ulp-beyond", "ulp-short", "short"])
        if w == "on": return xs[p]
        if w == "ulp-beyond": return math.nextafter(xs[p], math.inf * -side)
        if w == "ulp-short": return math.nextafter(xs[p], math.inf * side)
        j = p if (w == "beyond") == (side < 0) else p - 1
        j = max(0, min(N - 2, j)); h = xs[j + 1] - xs[j]
        return xs[j] + h * rng.choice([0.5, 0.25, 0.75, 2.0 ** -10, 1 - 2.0 ** -10, rng.uniform(0.01, 0.99)])
    ops = pref_ops(rng)
    spans = [(0, N - 2, None, None)]; both_signs = set()
    if yk == 5 and lad:
        p = p2
        spans.append((i0, rng.randint(p, N - 2), None, None))
        spans += [(p - L2, rng.randint(p, min(N - 2, p + 50)), None, None) for L2 in rng.sample(lad, min(2, len(lad))) if p - L2 >= 0]
        for L2 in rng.sample(lad, min(4, len(lad))) + ([max(lad)] if rng.random() < 0.5 else []):
            # the outstanding value at the right end of a window of about L2 segments, and at the left end of another
            if 1 <= p <= N - 2 and p - L2 >= 0: spans.append((p - L2, p, pt(p - L2), near(p, -1)))
            if 1 <= p <= N - 2 and p + L2 <= N - 2: spans.append((p, p + L2, near(p, +1), pt(p + L2)))
        both_signs = set(spans[1:])
    if yk in (6, 7):
        # windows in the low block at a ladder of distances from the step; in the tall block; across the step
        for _k in range(8):
            dist = rng.choice([0, 1, 1, 2, 3, 4, 8, 17, 65, 300]); room = (N - 2 - q - dist) if yk == 6 else (q - 2 - dist)
            fit = [L for L in lad if L <= room] or [1]
            L2 = rng.choice(fit[len(fit) // 2:] if _k % 2 else fit)      # every other window from the upper half of the rungs that fit
            if yk == 6: i = min(N - 2, q + dist); k = min(N - 2, i + L2)
            else: k = max(0, q - 2 - dist); i = max(0, k - L2)
            spans.append((i, k, None, None))
        i = rng.randrange(0, N - 2); k = min(N - 2, i + rng.choice(lad)); spans.append((i, k, None, None))
    for L in (rng.sample(ladL, min(len(ladL), 3)) if ladL else []) + rng.sample(lad, min(len(lad), 3)) + ([max(lad)] if lad else []):
        i = rng.randrange(0, N - 1 - L); spans.append((i, i + L, None, None))
    i = rng.randrange(0, N - 2); spans.append((i, rng.randrange(i, N - 1), None, None))
    for sp in spans:
        (i, k, a, b) = sp
        if a is None: a = pt(i)
        if b is None: b = xs[-1] if (k >= N - 2 and rng.random() < 0.5) else pt(k)
        if a > b: a, b = b, a
        # a split point: in the middle, or 2^p + {-1, 0, 1} segments away from one end
        cand = [i + L for L in FULL_LADDER if i + L < k] + [k - L for L in FULL_LADDER if k - L > i]
        m = pt(rng.choice(cand)) if cand and rng.random() < 0.7 else pt(rng.randint(i, k))
        m = min(max(m, a), b)
        # one or two integral operations and one extremum operation on every span
        integ = [[f"A {hx(a)} {hx(m)} {hx(b)}"], [f"A {hx(b)} {hx(a)} {hx(m)}"], [f"W {hx(a)} {hx(b)}"], [f"W {hx(b)} {hx(a)}"],
                 [f"N {hx(a)} {hx(b)}", f"N {hx(a)} {hx(m)}", f"N {hx(m)} {hx(b)}"], [f"B {hx(a)} {hx(b)}"]]
        for blk in rng.sample(integ, rng.choice([1, 2])): ops += blk
        ops += rng.choice([[f"E {hx(a)} {hx(b)} {NS}"], [f"B {hx(a)} {hx(b)}"], [f"m {hx(a)} {hx(b)}", f"M {hx(a)} {hx(b)}"]])
        if sp in both_signs:      # the outstanding value is the maximum under one sign of the prefactor and the minimum under the other
            ops += [f"X {hx(-1.0)}"] + rng.choice([[f"E {hx(a)} {hx(b)} {NS}"], [f"B {hx(a)} {hx(b)}"], [f"m {hx(a)} {hx(b)}", f"M {hx(a)} {hx(b)}"]])
        if rng.random() < 0.3: ops += pref_ops(rng, True)
    j = rng.randrange(N - 1); h = xs[j + 1] - xs[j]
    ops += [f"Z {NS}", "g", "G", f"U {hx(xs[max(0, j - 1)])} {hx(xs[j] + h * rng.uniform(0.3, 0.7))} {hx(h / 16.0)}", f"I {hx(inside(rng, xs, j))}"]
    op = "k1" if rng.random() < 0.3 else "b1"
    line = f"{op} {hx(xd)} {hx(fd)} {N} {s0} {xk} {X0} {jit} {yk} {p1} {p2} {ym} {len(ops)} " + " ".join(ops)
    return Case(line, ("1d", "long-table", "N>2^%d" % (N.bit_length() - 1), "history" if op == "k1" else "fresh", "ykind:%d" % yk))


# ---- several objects in one program
def life_ops(rng, ntab, nslots, same_len, query):
    """a legal history of constructions, copies, moves, swaps and destructions over nslots slots; query(k, t) = the operations asked of the
    live slot k holding table t.  Copies are followed, more often than not, by a change of their source before the copy is asked."""
    st = [None] * nslots      # None: no object, -1: moved-from, t >= 0: holds table t
    ops = []
    def live(): return [k for k in range(nslots) if st[k] is not None and st[k] >= 0]
    def ask(k): ops.append(f"at {k}"); ops.extend(query(k, st[k]))
    def change(j):
        """the slot j receives another table, is moved away or destroyed"""
        others = [t for t in range(ntab) if t != st[j]]; lv = [k for k in live() if k != j]
        r = rng.random()
        if r < 0.3 and others: t = rng.choice(others); ops.append(f"{rng.choice(['mk', 'mk', 'mn'])} {j} {t}"); st[j] = t
        elif r < 0.55 and lv: i = rng.choice(lv); ops.append(f"cp {j} {i}"); st[j] = st[i]
        elif r < 0.7 and lv: i = rng.choice(lv); ops.append(f"sw {j} {i}"); st[j], st[i] = st[i], st[j]
        elif r < 0.85: ops.append(f"rm {j}"); st[j] = None
        else:
            k = rng.choice([k for k in range(nslots) if k != j]); ops.append(f"mv {k} {j}"); st[k] = st[j]; st[j] = -1
    ops.append(f"mk 0 {rng.randrange(ntab)}"); st[0] = int(ops[-1].split()[2])
    if rng.random() < 0.7: ask(0)
    for _ in range(rng.choice([4, 6, 9])):
        lv = live(); r = rng.random()
        if not lv or r < 0.2:
            k = rng.randrange(nslots); t = rng.randrange(ntab); ops.append(f"{rng.choice(['mk', 'mn'])} {k} {t}"); st[k] = t
            if rng.random() < 0.5: ask(k)
        elif r < 0.75:
            j = rng.choice(lv); k = rng.choice([k for k in range(nslots) if k != j] + ([j] if rng.random() < 0.1 else []))
            w = rng.choice(["cp", "cp", "cc", "cc", "val", "vec"])
            ops.append(f"{w} {k} {j}" + (f" {rng.choice([1, 2, 3, 5, 9])}" if w == "vec" else "")); st[k] = st[j]
            if rng.random() < 0.25: ask(k)
            if k != j and rng.random() < 0.75:
                change(j)
                if rng.random() < 0.4 and st[j] is not None and st[j] >= 0: ask(j)
            if st[k] is not None and st[k] >= 0: ask(k)
        elif r < 0.85 and len(lv) >= 2:
            k, j = rng.sample(lv, 2); ops.append(f"sw {k} {j}"); st[k], st[j] = st[j], st[k]; ask(rng.choice([k, j]))
        elif r < 0.93:
            j = rng.choice(lv); k = rng.choice([k for k in range(nslots) if k != j]); ops.append(f"mv {k} {j}"); st[k] = st[j]; st[j] = -1; ask(k)
        else:
            if len(lv) >= 2: j = rng.choice(lv); ops.append(f"rm {j}"); st[j] = None
            ask(rng.choice(live()))
    for k in live():
        if rng.random() < 0.6: ask(k)
    return ops


def session_1d(rng, big):
    ntab = rng.choice([2, 3, 3, 4]); nslots = rng.choice([2, 3, 4]); same = rng.random() < 0.6
    N = rng.choice([3, 4, 5, 7, 9, 16, 33]); xs, xm = C01.gen_xs(rng, N); xd, fd = C01.pick_dims(rng)
    tabs = []
    for t in range(ntab):
        if not same and t > 0:
            N = rng.choice([3, 4, 5, 7, 9, 16, 33]); xs, xm = C01.gen_xs(rng, N)
            if rng.random() < 0.5: xd, fd = C01.pick_dims(rng)
        ys, ym = C01.gen_ys(rng, N, xs, rng.choice(["smooth", "random", "monotone", "plateau", "signchange", "zeros", "steps", "convex"]))
        if rng.random() < 0.3: ys, _k2 = reshape_values(rng, ys)
        tabs.append((rng.choice(["L", "L", "R"]), xd, fd, list(xs), ys))
    def query(k, t):
        sx = scaled(tabs[t][1], tabs[t][3]); ops = pref_ops(rng) if rng.random() < 0.6 else []
        r = rng.random()
        if r < 0.5: ops += [f"Z {rng.choice([4, 8])}"]
        elif r < 0.7: ops += ["g", "G"]
        ops += query_ops(rng, sx, rng.choice([0, 1, 2]))
        if not ops: ops = ["g", "G"]
        return ops
    ops = life_ops(rng, ntab, nslots, same, query)
    head = " ".join(f"L {hx(a)} {hx(b)} {flist(x)} {flist(y)}" if kd == "L" else f"R {hx(a)} {hx(b)} {ftable([[u, v] for u, v in zip(x, y)])}" for kd, a, b, x, y in tabs)
    op = "r1" if rng.random() < 0.4 else "s1"
    return Case(f"{op} {ntab} {head} {nslots} {len(ops)} " + " ".join(ops), ("1d", "session", "history" if op == "r1" else "fresh", "same-grid" if same else "mixed-grids"))


def session_2d(rng, big):
    ntab = rng.choice([2, 3]); nslots = rng.choice([2, 3]); same = rng.random() < 0.6
    Nx, Ny = rng.choice([2, 3, 5]), rng.choice([2, 4, 6]); xs, _m = C01.gen_xs(rng, Nx); ys, _m = C01.gen_xs(rng, Ny)
    tabs = []
    for t in range(ntab):
        if not same and t > 0:
            Nx, Ny = rng.choice([2, 3, 5]), rng.choice([2, 4, 6]); xs, _m = C01.gen_xs(rng, Nx); ys, _m = C01.gen_xs(rng, Ny)
        sc = 10 ** rng.uniform(-6, 6); off = rng.choice([0.0, 0.0, 3 * sc, -3 * sc])
        f = [[off + sc * rng.gauss(0, 1) for _y in ys] for _x in xs]
        xd, yd, fd = [(-1.0 if rng.random() < 0.7 else 10 ** rng.uniform(-4, 4)) for _k in range(3)]
        tabs.append((xd, yd, fd, list(xs), list(ys), f))
    def query(k, t):
        xd, yd, fd, x0, y0, f = tabs[t]; sx, sy = scaled(xd, x0), scaled(yd, y0)
        ops = pref_ops(rng) if rng.random() < 0.6 else []
        ops += [f"Z {rng.choice([2, 4])}"] if rng.random() < 0.6 else ["g", "G"]
        x = sx[0] + (sx[-1] - sx[0]) * rng.random(); y = sy[0] + (sy[-1] - sy[0]) * rng.random()
        if sx[0] <= x <= sx[-1] and sy[0] <= y <= sy[-1]: ops.append(f"I {hx(x)} {hx(y)}")
        return ops
    ops = life_ops(rng, ntab, nslots, same, query)
    head = " ".join(f"{hx(a)} {hx(b)} {hx(c)} {flist(x)} {flist(y)} {len(f)} " + " ".join(flist(q) for q in f) for a, b, c, x, y, f in tabs)
    op = "r2" if rng.random() < 0.4 else "s2"
    return Case(f"{op} {ntab} {head} {nslots} {len(ops)} " + " ".join(ops), ("2d", "session", "history" if op == "r2" else "fresh"))


def generate(rng, tier):
    big = tier != "quick"; cs = []
    for _ in range(5000 if big else 360):
        N = C01.pick_N(rng, big)
        if N > 150 and not big: N = rng.randint(3, 150)
        xs, xm = C01.gen_xs(rng, N); ys, ym = C01.gen_ys(rng, N, xs); xd, fd = C01.pick_dims(rng)
        if rng.random() < 0.2:
            ys, k2 = reshape_values(rng, ys); ym = ym + "/" + k2
        sx = scaled(xd, xs); ops = []
        for _blk in range(rng.choice([1, 2, 3])):
            ops += pref_ops(rng); ops += query_ops(rng, sx, rng.choice([2, 4, 6]))
        hist = rng.random() < 0.3    # h1: all operations on one live object (search history), t1: queries on fresh copies
        rows = rng.random() < 0.12 and N <= 60    # the constructor from a data table
        cs.append(Case(line1(xd, fd, xs, ys, ops, ("e1" if hist else "d1") if rows else ("h1" if hist else "t1")),
                       ("1d", "history" if hist else "fresh", "ctor:table" if rows else "ctor:lists", "x:" + xm, "y:" + ym)))
    # default-constructed objects
    for _ in range(120 if big else 8):
        if rng.random() < 0.6:
            ops = []
            for _blk in range(rng.choice([1, 2])):
                ops += pref_ops(rng); ops += query_ops(rng, [-1.0, 0.0, 1.0], rng.choice([2, 4]))
            cs.append(Case(f"{rng.choice(['t0', 'h0'])} {len(ops)} " + " ".join(ops), ("1d", "ctor:default")))
        else:
            ops = []
            for _blk in range(rng.choice([1, 2])):
                ops += pref_ops(rng) + [f"Z {rng.choice([2, 4])}", "g", "G", f"I {hx(rng.uniform(-1, 1))} {hx(rng.uniform(-1, 1))}", f"C {hx(rng.choice([-1.0, 0.0, 1.0, rng.uniform(-1, 1)]))} {hx(rng.uniform(-1, 1))}", "O"]
            cs.append(Case(f"z2 {len(ops)} " + " ".join(ops), ("2d", "ctor:default")))
    # tables aimed at the extrapolation zone
    for _ in range(1500 if big else 120):
        xs, ys = zone_aimed_table(rng); ops = pref_ops(rng)
        tl = 1e-2 * (xs[1] - xs[0]); tr = 1e-2 * (xs[-1] - xs[-2])
        for f in (0.999, 0.7):
            ops.append(f"E {hx(xs[0] - tl * f)} {hx(xs[0] + (xs[1] - xs[0]) * 0.01)} {NS}")
            ops.append(f"E {hx(xs[-1] - (xs[-1] - xs[-2]) * 0.01)} {hx(xs[-1] + tr * f)} {NS}")
        cs.append(Case(line1(-1.0, -1.0, xs, ys, ops), ("1d", "zone-aimed")))
    # ordinates at the edge of the double range under a compensating prefactor (and the mirror image: tiny ordinates, huge prefactor)
    for _ in range(2500 if big else 70):
        low = rng.random() < 0.3; xs, ys, Y, T, shape, k = edge_table(rng, low)
        c = rng.choice([-1, 1]) * T / Y; fd = -1.0; ys0 = ys
        if rng.random() < 0.4:     # reach the magnitude through the unit argument (a power of two: the scaled table is exactly ys)
            fd = 2.0 ** (rng.randint(1, 300) * (-1 if low else 1)); ys0 = [y / fd for y in ys]
        ops = split_pref(rng, c, True) + window_ops(rng, xs)
        r = rng.random()
        if r < 0.3: ops += [f"X {hx(rng.choice([-1.0, 2.0, -0.5, 0.25]))}"] + window_ops(rng, xs)
        elif r < 0.45: ops += [f"P {hx(rng.choice([0.0, -0.0]))}"] + window_ops(rng, xs)
        elif r < 0.6: ops += split_pref(rng, -c, False) + window_ops(rng, xs)
        hist = rng.random() < 0.3
        cs.append(Case(line1(-1.0, fd, xs, ys0, ops, "h1" if hist else "t1"), ("1d", "edge-low" if low else "edge-high", "shape:" + shape, "k:" + str(k))))
    # guards: reversed limits of the extremum functions, limits outside the tolerance, malformed tables
    for _ in range(600 if big else 60):
        N = rng.choice([3, 5, 12]); xs, xm = C01.gen_xs(rng, N); ys, ym = C01.gen_ys(rng, N, xs)
        a, b, _k = pick_limits(rng, xs, "span"); r = rng.random()
        tl = 1e-2 * (xs[1] - xs[0]); tr = 1e-2 * (xs[-1] - xs[-2])
        if r < 0.35 and a < b: op = f"{rng.choice(['m', 'M'])} {hx(b)} {hx(a)}"
        elif r < 0.5: op = f"{rng.choice(['m', 'M', 'N'])} {hx(xs[0] - tl * rng.choice([1.0, 1.001, 5.0]))} {hx(b)}"
        elif r < 0.65: op = f"{rng.choice(['m', 'M', 'N'])} {hx(a)} {hx(xs[-1] + tr * rng.choice([1.0, 1.001, 5.0]))}"
        elif r < 0.75: op = f"N {hx(b)} {hx(xs[0] - tl * 2)}"
        elif r < 0.8: op = f"{rng.choice(['m', 'M'])} {hx(a)} {hx(a)}"
        elif r < 0.9: op = rng.choice([f"N nan {hx(b)}", f"N {hx(a)} nan", f"m {hx(a)} nan", f"M nan {hx(b)}", "I nan"])
        else:
            ys = ys[:-1]; op = "g"
        cs.append(Case(line1(-1.0, -1.0, xs, ys, pref_ops(rng) + [op]), ("1d", "guards")))
    # 2-D
    for _ in range(1500 if big else 110):
        Nx, Ny = rng.choice([2, 3, 5, 9]), rng.choice([2, 4, 7, 12])
        xs, xm = C01.gen_xs(rng, Nx); ys, ym = C01.gen_xs(rng, Ny)
        fm = rng.choice(["random", "mixedmag", "plateau", "spike", "signed", "onesided", "onesided", "const", "subnormal", "edge", "offset"]); sc = 10 ** rng.uniform(-20, 20) if rng.random() < 0.4 else 1.0
        if fm == "random": f = [[sc * rng.gauss(0, 1) for _y in ys] for _x in xs]
        elif fm == "mixedmag": f = [[rng.choice([-1, 1]) * 10 ** rng.uniform(-20, 20) for _y in ys] for _x in xs]
        elif fm == "plateau": f = [[sc * rng.choice([0.0, 1.0, -1.0]) for _y in ys] for _x in xs]
        elif fm == "signed": f = [[sc * rng.choice([-1, 1]) * rng.uniform(1, 2) * rng.choice([1, 1, 0]) for _y in ys] for _x in xs]
        elif fm == "onesided":     # the whole table on one side of zero (strictly, or touching it)
            sg = rng.choice([-1, -1, 1]); z = rng.choice([0.0, 0.0, 0.2]); wide = rng.random() < 0.3
            f = [[0.0 if rng.random() < z else sg * sc * (10 ** rng.uniform(-12, 12) if wide else rng.uniform(0.5, 2)) for _y in ys] for _x in xs]
        elif fm == "const":
            v = rng.choice([0.0, -0.0, sc, -sc, 1.0, -1.0]); f = [[v for _y in ys] for _x in xs]
        elif fm == "subnormal":    # every entry below the smallest normal number
            sg = rng.choice([-1, 1, 0]); f = [[(sg if sg else rng.choice([-1, 1])) * rng.randint(0, 2 ** rng.choice([1, 20, 51])) * 2.0 ** -1074 for _y in ys] for _x in xs]
        elif fm == "offset":
            off = rng.choice([-1, 1]) * sc * 10 ** rng.uniform(0.5, 6); f = [[off + sc * rng.gauss(0, 1) for _y in ys] for _x in xs]
        elif fm == "edge":         # entries next to the largest double, queried under a compensating prefactor (below)
            k = rng.choice([1.05, 1.2, 2.0, 10.0, 1e6]); sg = rng.choice([-1, 1, 0])
            f = [[(sg if sg else rng.choice([-1, 1])) * DBL_MAX / k * rng.uniform(0.9, 1.0) for _y in ys] for _x in xs]
        else:
            f = [[1e-12 * rng.gauss(0, 1) for _y in ys] for _x in xs]; f[rng.randrange(Nx)][rng.randrange(Ny)] = rng.choice([-1, 1]) * 1e15
        xd, yd, fd = [(-1.0 if rng.random() < 0.6 else 10 ** rng.uniform(-4, 4)) for _k in range(3)]
        if fm in ("edge", "subnormal"): fd = -1.0
        sx, sy = scaled(xd, xs), scaled(yd, ys); ops = []
        for _blk in range(rng.choice([1, 2, 3])):
            if fm == "edge": ops += split_pref(rng, rng.choice([-1, 1]) * 10 ** rng.uniform(-3, 6) / DBL_MAX, _blk == 0)
            elif fm == "subnormal" and (_blk > 0 or rng.random() < 0.5): ops += split_pref(rng, rng.choice([-1, 1]) * 10 ** rng.uniform(280, 300), False)
            else: ops += pref_ops(rng)
            ops.append(f"Z {rng.choice([4, 9])}"); ops += ["g", "G"]
            x = sx[0] + (sx[-1] - sx[0]) * rng.random(); y = sy[0] + (sy[-1] - sy[0]) * rng.random()
            if sx[0] <= x <= sx[-1] and sy[0] <= y <= sy[-1]: ops.append(f"I {hx(x)} {hx(y)}")
            if rng.random() < 0.5: ops.append(f"C {hx(rng.choice([x, sx[0], sx[-1], rng.choice(sx)]) if sx[0] <= x <= sx[-1] else sx[0])} {hx(rng.choice([y, sy[0], sy[-1], rng.choice(sy)]) if sy[0] <= y <= sy[-1] else sy[0])}")
            if rng.random() < 0.35: ops.append("O")
        ln, ct = line2(rng, xd, yd, fd, xs, ys, f, ops)
        cs.append(Case(ln, ("2d", "f:" + fm, ct)))
    # malformed data tables (guards of the two data-table constructors)
    for _ in range(200 if big else 14):
        Nx, Ny = rng.choice([2, 3, 4]), rng.choice([2, 3, 5]); xs, _m = C01.gen_xs(rng, Nx, "dyadic"); ys, _m = C01.gen_xs(rng, Ny, "dyadic")
        rows = [[x, y, rng.gauss(0, 1)] for x in xs for y in ys]; kind = rng.choice(["swap", "drop", "dup", "short", "long", "ymajor", "onex", "d1short", "d1long"])
        if kind == "swap":
            i, j = rng.sample(range(len(rows)), 2); rows[i], rows[j] = rows[j], rows[i]
        elif kind == "drop": del rows[rng.randrange(len(rows))]
        elif kind == "dup": rows[rng.randrange(len(rows))] = list(rows[rng.randrange(len(rows))])
        elif kind == "short": rows[rng.randrange(len(rows))] = rows[0][:2]
        elif kind == "long": rows[rng.randrange(len(rows))] = rows[0] + [1.0]
        elif kind == "ymajor": rows = [[x, y, 1.0] for y in ys for x in xs]
        elif kind == "onex": rows = [[xs[0], y, 1.0] for y in ys]
        if kind in ("d1short", "d1long"):
            r1 = [[x, rng.gauss(0, 1)] for x in C01.gen_xs(rng, 5, "dyadic")[0]]; r1[rng.randrange(5)] = [0.0] if kind == "d1short" else [0.0, 1.0, 2.0]
            cs.append(Case(f"d1 {hx(-1.0)} {hx(-1.0)} {ftable(r1)} 1 g", ("1d", "guards", "table:" + kind)))
        else:
            if kind == "dup" and len(set((a, b) for a, b, _c in rows)) == len(rows): continue
            cs.append(Case(f"d2 {hx(-1.0)} {hx(-1.0)} {hx(-1.0)} {ftable(rows)} 2 g G", ("2d", "guards", "table:" + kind)))
    # several objects in one program: constructions, copies, moves, swaps, destructions between the queries
    for _ in range(2500 if big else 150): cs.append(session_1d(rng, big))
    for _ in range(600 if big else 40): cs.append(session_2d(rng, big))
    # long tables: a size ladder across the powers of two up to 2^17 (2^18 in the thorough tier); every run has tables beyond 2^16 and 2^17 points
    if big: sizes = [rng.choice(SIZE_LADDER) + rng.choice([0, 0, 1, 2, 7, 100]) for _ in range(30)] + [65536 + rng.randint(3, 6000) for _ in range(8)] + [131072 + rng.randint(3, 9000) for _ in range(5)] + [262144 + rng.randint(3, 9000) for _ in range(2)]
    else: sizes = [rng.choice([1025, 4098, 16387, 32770]), 65536 + rng.randint(3, 6000), 131072 + rng.randint(3, 9000), 65536 + rng.randint(10, 6000)]
    for k, N in enumerate(sizes): cs.append(big_case(rng, N, ((2, 3, 3, 4) if k == 1 else (5,) if k == 3 else ALL_YK) if not big else ALL_YK))
    # tables of 2^6 .. 2^12 (+-) points: every ordinate kind; the kinds that aim at the ends of a window and at a change of magnitude inside the table on every run
    mids = [2 ** p + e for p in range(6, 13) for e in (-1, 0, 1, 2, 3, 7)]
    for k in range(400 if big else 18):
        cs.append(big_case(rng, rng.choice(mids) + rng.choice([0, 0, 0, 1, 30]), ((5,), (6,), (7,), (8, 9), (6,), (7,), (5,), (6,), ALL_YK)[k % 9]))
    return cs


# ----------------------------------------------------------------------------------------------- parsing
LIFE = {"at": 1, "mk": 2, "mn": 2, "cp": 2, "cc": 2, "val": 2, "vec": 3, "mv": 2, "rm": 1, "sw": 2}
_PC = {}


def parse_case(line):
    d = _PC.get(line)
    if d is None:
        d = _parse_case(line)
        if len(_PC) > 8: _PC.clear()
        _PC[line] = d
    return d


def read_ops(r, n, two_d):
    ops = []
    for _ in range(n):
        q = r.word()
        if q in LIFE: ops.append((q,) + tuple(r.integer() for _k in range(LIFE[q])))
        elif q in ("P", "X"): ops.append((q, r.num()))
        elif q == "I": ops.append((q, r.num()) if not two_d else (q, r.num(), r.num()))
        elif q == "D": ops.append((q, r.integer(), r.num()))
        elif q in ("N", "m", "M", "Q", "B", "W"): ops.append((q, r.num(), r.num()))
        elif q in ("g", "G", "O"): ops.append((q,))
        elif q == "C": ops.append((q, r.num()) if not two_d else (q, r.num(), r.num()))
        elif q == "E": ops.append((q, r.num(), r.num(), r.integer()))
        elif q == "Z": ops.append((q, r.integer()))
        elif q in ("A", "U"): ops.append((q, r.num(), r.num(), r.num()))
    return ops


class RangeSum:
    """sums of non-negative terms over index ranges, added up directly (whole blocks of 256 terms + the loose ends): a difference of prefix sums
    would lose the terms of a low stretch of a table behind a tall one"""
    B = 256
    def __init__(self, t):
        self.t = t; self.blk = [math.fsum(t[k:k + self.B]) for k in range(0, len(t), self.B)]
    def sum(self, j0, j1):
        if j1 <= j0: return 0.0
        B = self.B; b0 = -(-j0 // B); b1 = j1 // B
        if b0 >= b1: return math.fsum(self.t[j0:j1])
        return math.fsum(self.t[j0:b0 * B]) + math.fsum(self.blk[b0:b1]) + math.fsum(self.t[b1 * B:j1])


class LongAux:
    """sums over the segments of a long table: the scale of the antiderivative terms, the L1 norm of the table and the Gauss-sum slack"""
    def __init__(self, xs, ys):
        n = len(xs) - 1; ts = [0.0] * n; tl = [0.0] * n; tg = [0.0] * n
        for j in range(n):
            h = xs[j + 1] - xs[j]; dy = abs(ys[j + 1] - ys[j]); ym = max(abs(ys[j]), abs(ys[j + 1])); xm = max(abs(xs[j]), abs(xs[j + 1]))
            ts[j] = 4 * (5.5 * dy * h + 1.0101 * ym * xm)      # the piece itself and its left neighbour, as in int_scale; 1 % zone included
            tl[j] = ym * h
            tg[j] = h * 4 * (64 * EPS * (17 * dy + ym))
        self.xs, self.n, self.ps, self.pl, self.pg = xs, n, RangeSum(ts), RangeSum(tl), RangeSum(tg)
    def span(self, a, b):
        lo, hi = min(a, b), max(a, b)
        ja, jb = locate_ref(self.xs, lo), locate_ref(self.xs, hi)
        if ja is None: ja = 0
        if jb is None: jb = self.n - 1
        return max(0, ja - 1), min(self.n, jb + 2)
    def iscale(self, c, a, b):
        """as int_scale, plus the growth of the running sum over many pieces: (number of pieces) * (L1 norm of the span) / 32, i.e. 2 eps per addition
        relative to the largest partial sum once multiplied by the 64 eps of the integral slack"""
        j0, j1 = self.span(a, b)
        return abs(c) * (self.ps.sum(j0, j1) + (j1 - j0) * self.pl.sum(j0, j1) / 32.0)
    def gslack(self, c, a, b):
        j0, j1 = self.span(a, b)
        return abs(c) * (self.pg.sum(j0, j1) + (j1 - j0) * 4 * EPS * self.pl.sum(j0, j1)) + 1e-300


def _parse_case(line):
    r = Rd(line); op = r.word(); d = {"op": op}
    d["two_d"] = op in ("t2", "h2", "d2", "z2", "s2", "r2"); d["malformed"] = False
    if op in ("s1", "r1", "s2", "r2"):
        d["session"] = True; tabs = []
        for _t in range(r.integer()):
            t = {"two_d": d["two_d"], "malformed": False}
            if d["two_d"]:
                t["op"] = "t2"; t["xd"], t["yd"], t["fd"] = r.num(), r.num(), r.num(); t["xs0"], t["ys0"] = r.list(), r.list(); t["f0"] = r.table()
            else:
                kind = r.word(); t["xd"], t["fd"] = r.num(), r.num()
                if kind == "L":
                    t["op"] = "t1"; t["xs0"], t["ys0"] = r.list(), r.list()
                else:
                    t["op"] = "d1"; rows = r.table(); t["malformed"] = not all(len(x) == 2 for x in rows)
                    t["xs0"] = [x[0] for x in rows if len(x) == 2]; t["ys0"] = [x[1] for x in rows if len(x) == 2]
            tabs.append(t)
        d["tables"] = tabs; d["nslots"] = r.integer(); d["ops"] = read_ops(r, r.integer(), d["two_d"])
        d["units"] = session_units(d)
        return d
    if op in ("b1", "k1"):
        d["xd"], d["fd"] = r.num(), r.num(); d["rule"] = tuple(r.integer() for _k in range(9))
        d["xs0"], d["ys0"] = rule_table(*d["rule"]); d["long"] = True
        d["aux"] = LongAux(scaled(d["xd"], d["xs0"]), scaled(d["fd"], d["ys0"]))
        d["ops"] = read_ops(r, r.integer(), False)
        return d
    if op in ("t1", "h1"):
        d["xd"], d["fd"] = r.num(), r.num(); d["xs0"], d["ys0"] = r.list(), r.list()
    elif op in ("d1", "e1"):
        d["xd"], d["fd"] = r.num(), r.num(); rows = r.table()
        d["malformed"] = not all(len(x) == 2 for x in rows)
        d["xs0"] = [x[0] for x in rows if len(x) == 2]; d["ys0"] = [x[1] for x in rows if len(x) == 2]
    elif op in ("t0", "h0"):
        d["xd"] = d["fd"] = -1.0; d["xs0"] = [-1.0, 0.0, 1.0]; d["ys0"] = [0.0, 0.0, 0.0]
    elif op in ("t2", "h2"):
        d["xd"], d["yd"], d["fd"] = r.num(), r.num(), r.num(); d["xs0"], d["ys0"] = r.list(), r.list(); d["f0"] = r.table()
    elif op == "d2":
        d["xd"], d["yd"], d["fd"] = r.num(), r.num(), r.num(); rows = r.table()
        # specification of the constructor: the distinct first / second entries in increasing order span the grid, and the rows must list
        # the grid x-major without gaps or repetitions
        ok = all(len(x) == 3 for x in rows)
        xs0 = sorted(set(x[0] for x in rows)) if ok else []; ys0 = sorted(set(x[1] for x in rows)) if ok else []
        ok = ok and len(xs0) * len(ys0) == len(rows) and len(xs0) >= 2 and len(ys0) >= 2
        ok = ok and all(rows[i * len(ys0) + j][0] == xs0[i] and rows[i * len(ys0) + j][1] == ys0[j] for i in range(len(xs0)) for j in range(len(ys0)))
        d["malformed"] = not ok; d["xs0"], d["ys0"] = xs0, ys0
        d["f0"] = [[rows[i * len(ys0) + j][2] for j in range(len(ys0))] for i in range(len(xs0))] if ok else []
    else:   # z2
        d["xd"] = d["yd"] = d["fd"] = -1.0; d["xs0"] = [-1.0, 0.0, 1.0]; d["ys0"] = [-1.0, 0.0, 1.0]; d["f0"] = [[0.0] * 3 for _ in range(3)]
    d["ops"] = read_ops(r, r.integer(), d["two_d"])
    return d


def session_units(d):
    """replays the constructions, copies, moves, swaps and destructions by value: the session is a sequence of (table, prefactor history, queries)
    units, one for every uninterrupted run of operations addressed to one slot; a unit is a case of its own for the predicates"""
    st = [None] * d["nslots"]; cur = 0; units = []; open_u = None
    for q in d["ops"]:
        w = q[0]
        if w in LIFE:
            open_u = None
            if w == "at": cur = q[1]
            elif w in ("mk", "mn"): st[q[1]] = (q[2], 1.0)
            elif w in ("cp", "cc", "val", "vec"): st[q[1]] = st[q[2]]
            elif w == "mv": st[q[1]] = st[q[2]]; st[q[2]] = None
            elif w == "rm": st[q[1]] = None
            elif w == "sw": st[q[1]], st[q[2]] = st[q[2]], st[q[1]]
            continue
        if st[cur] is None: raise ValueError("query on a slot without a table")
        t, c = st[cur]
        if open_u is None:
            open_u = dict(d["tables"][t]); open_u["ops"] = [("P", c)]; open_u["ctx"] = f"[program with several objects: slot {cur} holds table {t} (prefactor {c!r} before these operations)] "
            units.append(open_u)
        open_u["ops"].append(q)
        if w == "P": st[cur] = (t, q[1])
        elif w == "X": st[cur] = (t, c * q[1])
    return units


def pieces(xs, a, b):
    lo, hi = min(a, b), max(a, b)
    brk = [lo] + [x for x in xs if lo < x < hi] + [hi]
    return list(zip(brk, brk[1:]))


def nout(q, xs=None, two_d=False):
    o = q[0]
    if o in ("P", "X"): return 0
    if o in ("I", "D", "N", "m", "M", "g", "G"): return 1
    if o == "C": return 2
    if o == "O": return 4 if two_d else 2
    if o == "E": return q[3] + 3
    if o == "Z": return 2 + ((q[1] + 1) ** 2 + 1 if two_d else q[1] + 3)
    if o == "Q": return 2 + 3 * len(pieces(xs, q[1], q[2]))
    if o in ("A", "B", "W"): return 3
    if o == "U": return 4


def query_points(q):
    o = q[0]
    if o in ("I", "C"): return [q[1]]
    if o == "D": return [q[2]]
    if o in ("N", "m", "M", "Q", "B", "E", "W"): return [q[1], q[2]]
    if o == "A": return [q[1], q[2], q[3]]
    if o == "U": return [q[1], q[2] + q[3], q[2] - q[3], q[2]]
    return []


def expected_exit(d):
    if d.get("session"): return any(expected_exit(u) for u in d["units"])
    if d["malformed"]: return True
    if d["two_d"]:
        if len(d["f0"]) != len(d["xs0"]) or any(len(r) != len(d["ys0"]) for r in d["f0"]): return True
        for v in (d["xs0"], d["ys0"]):
            if not (len(v) >= 2 and all(b > a for a, b in zip(v, v[1:]))): return True
        xs, ys = scaled(d["xd"], d["xs0"]), scaled(d["yd"], d["ys0"])
        return any(q[0] == "I" and (locate_ref(xs, q[1]) is None or locate_ref(ys, q[2]) is None) for q in d["ops"])
    if not table_ok(d["xs0"], d["ys0"]): return True
    xs = scaled(d["xd"], d["xs0"])
    for q in d["ops"]:
        if q[0] in ("m", "M", "E", "B") and q[2] < q[1]: return True
        if any(locate_ref(xs, x) is None for x in query_points(q)): return True
    return False


def int_scale(xs, ys, h, c, a, b):
    """sum of the magnitudes of the terms of the antiderivative differences Integrate adds up (see DESIGN 5.3)"""
    t = 0.0
    for (u, v) in pieces(xs, a, b):
        # the segment whose antiderivative the code differences for this piece: the one holding the piece; for a piece only a few ulp wide next
        # to a knot the midpoint rounds onto the knot, so the segments located from the left end and from the midpoint both count
        js = []
        for x in (u, 0.5 * (u + v)):
            j = locate_ref(xs, x)
            if j is None: j = 0 if u < xs[0] else len(xs) - 2
            if j not in js: js.append(j)
            if x == xs[j] and j > 0 and (j - 1) not in js: js.append(j - 1)
        for j in js:
            dy = abs(ys[j + 1] - ys[j]); ym = max(abs(ys[j]), abs(ys[j + 1]))
            t += 2 * (abs(c) * 5.5 * dy * h[j] + abs(c) * ym * max(abs(u), abs(v), abs(xs[j]), abs(xs[j + 1])))
    return t


def walk(d):
    """replays the prefactor history; yields (op, c, n_outputs, natural scales of the outputs)"""
    if d.get("session"):
        for u in d["units"]:
            for y in walk(u): yield y
        return
    if d["two_d"]:
        f = [scaled(d["fd"], row) for row in d["f0"]]; mx = max([abs(v) for row in f for v in row] + [0.0]); c = 1.0
        for q in d["ops"]:
            if q[0] == "P": c = q[1]
            elif q[0] == "X": c = c * q[1]
            n = nout(q, None, True); yield q, c, n, [abs(c) * mx] * n
        return
    xs, ys = scaled(d["xd"], d["xs0"]), scaled(d["fd"], d["ys0"]); h, s = steffen_ref(xs, ys); c = 1.0
    isc = d["aux"].iscale if d.get("long") else (lambda cc, a, b: int_scale(xs, ys, h, cc, a, b))
    def vs(x):
        j = locate_ref(xs, x)
        return 0.0 if j is None else abs(c) * abs(ys[j]) + abs(c) * abs(ys[j + 1]) + abs(c) * abs(ys[j + 1] - ys[j])
    def rs(a, b):
        ja, jb = locate_ref(xs, min(a, b)), locate_ref(xs, max(a, b))
        if ja is None or jb is None: return 0.0
        return abs(c) * max(abs(y) for y in ys[ja:jb + 2]) * 2
    for q in d["ops"]:
        o = q[0]
        if o == "P": c = q[1]
        elif o == "X": c = c * q[1]
        n = nout(q, xs)
        if o in ("P", "X"): sc = []
        elif o == "I": sc = [vs(q[1])]
        elif o == "C": sc = [vs(q[1])] * 2
        elif o == "O": sc = [0.0] * 2
        elif o == "D":
            j = locate_ref(xs, q[2]); k = q[1]
            sc = [0.0] if j is None or k > 3 else [abs(c) * [abs(ys[j]) + abs(ys[j + 1]), 40 * abs(s[j]), 54 * abs(s[j]) / h[j], 36 * abs(s[j]) / h[j] ** 2][k]]
        elif o == "N": sc = [isc(c, q[1], q[2])]
        elif o in ("m", "M"): sc = [rs(q[1], q[2])]
        elif o in ("g", "G"): sc = [abs(c) * max(abs(y) for y in ys)]
        elif o == "E":
            a, b, m = q[1], q[2], q[3]
            sc = [rs(a, b)] * 2 + [vs(b if k == m else a + (b - a) * float(k) / float(m)) for k in range(m + 1)]
        elif o == "Z":
            a, b, m = xs[0], xs[-1], q[1]
            sc = [abs(c) * max(abs(y) for y in ys)] * 2 + [vs(b if k == m else a + (b - a) * float(k) / float(m)) for k in range(m + 1)] + [vs(xs[0]), vs(xs[-1])]
        elif o == "Q":
            sc = [isc(c, q[1], q[2])] * 2
            for (u, v) in pieces(xs, q[1], q[2]): sc += [vs(u + (v - u) * 0.5)] * 3
        elif o == "W": sc = [isc(c, q[1], q[2])] * 3
        elif o == "A": sc = [isc(c, q[1], q[2]), isc(c, q[2], q[3]), isc(c, q[1], q[3])]
        elif o == "B": sc = [isc(c, q[1], q[2]), rs(q[1], q[2]), rs(q[1], q[2])]
        elif o == "U":
            j = locate_ref(xs, q[2])
            sc = [isc(c, q[1], q[2] + q[3]), isc(c, q[1], q[2] - q[3]), vs(q[2]), 0.0 if j is None else abs(c) * 54 * abs(s[j]) / h[j]]
        yield q, c, n, sc


def compare(c, io, mo, tol):
    """token-wise comparison; absolute part = 1e-11 of the natural scale of each output (largest term of its evaluation)"""
    if io == mo: return True, True, ""
    a, b = io.split(), mo.split()
    if len(a) != len(b): return False, False, f"shape: impl has {len(a)} tokens, model {len(b)}"
    try:
        d = parse_case(c.line); scales = []
        for q, cc, n, sc in walk(d): scales += sc
    except Exception as e:
        return False, False, f"outputs differ and the case cannot be analysed ({e!r})"
    if len(scales) != len(a): return False, False, "output shape does not match the operations"
    for k, (x, y) in enumerate(zip(a, b)):
        if x == y: continue
        fx, fy = C01_tok(x), C01_tok(y)
        if fx is None or fy is None: return False, False, f"token {k}: impl {x} model {y}"
        if math.isnan(fx) and math.isnan(fy): continue
        if not (abs(fx - fy) <= tol[0] * max(abs(fx), abs(fy)) + 1e-11 * scales[k] + tol[1]):
            return False, False, f"token {k}: impl {fx!r} model {fy!r} (natural scale {scales[k]:.3g})"
    return True, False, ""


def C01_tok(t):
    if t == "nan": return math.nan
    if t == "inf": return math.inf
    if t == "-inf": return -math.inf
    if t.lstrip("-").startswith("0x"):
        try: return float.fromhex(t)
        except ValueError: return None
    return None


# ----------------------------------------------------------------------------------------------- S4 predicates
def pred_1d(c, d, vals):
    out = []; xs, ys = scaled(d["xd"], d["xs0"]), scaled(d["fd"], d["ys0"]); N = len(xs); h, s = steffen_ref(xs, ys)
    def vslack(x, cc):
        j = locate_ref(xs, x)
        return math.inf if j is None else abs(cc) * seg_slack(ys, j) + 1e-300
    isc = d["aux"].iscale if d.get("long") else (lambda cc, a, b: int_scale(xs, ys, h, cc, a, b))
    def islack(cc, a, b): return 64 * EPS * isc(cc, a, b) + 1e-300
    def in_dom(x): return xs[0] <= x <= xs[-1]
    def knot_check(kind, v, a, b, cc):
        """Local_Minimum (Local_Maximum) is the smallest (largest) of a set that holds prefactor * f_i for every tabulated abscissa inside the limits: exact"""
        kn = [cc * ys[i] for i in range(N) if a <= xs[i] <= b]
        if kn and kind == "m" and v > min(kn): return [("m:above-inside-knot", f"Local_Minimum({a!r},{b!r}) = {v!r} under prefactor {cc!r} lies above the tabulated value {min(kn)!r} the curve takes inside the limits")]
        if kn and kind == "M" and v < max(kn): return [("M:below-inside-knot", f"Local_Maximum({a!r},{b!r}) = {v!r} under prefactor {cc!r} lies below the tabulated value {max(kn)!r} the curve takes inside the limits")]
        return []
    k = 0
    for q, cc, n, sc in walk(d):
        o = vals[k:k + n]; k += n
        if len(o) < n: out.append(("1d:shape", "too few output values")); break
        if not math.isfinite(cc): continue      # the prefactor history itself overflowed: no statement
        if any(isinstance(v, float) and math.isnan(v) for v in o) and math.isfinite(cc):
            out.append((q[0] + ":nan", f"{q[0]} returned NaN under the prefactor {cc!r}")); continue
        op = q[0]
        if op == "E":
            a, b, m = q[1], q[2], q[3]; mn, mx = o[0], o[1]; smp = o[2:]
            pts = [b if kk == m else a + (b - a) * float(kk) / float(m) for kk in range(m + 1)]
            zone = not (in_dom(a) and in_dom(b))
            # exact reference (valid by monotonicity of the segments inside the table): end values and the knots inside [a,b]
            cand = [smp[0], smp[-1]] + [cc * ys[i] for i in range(N) if a <= xs[i] <= b]
            if mn != min(cand): out.append(("E:local-min-reference" + ("-zone" if zone else ""), f"Local_Minimum({a!r},{b!r}) = {mn!r} under prefactor {cc!r}, but the smallest of the end values and the tabulated values inside the limits is {min(cand)!r}"))
            if mx != max(cand): out.append(("E:local-max-reference" + ("-zone" if zone else ""), f"Local_Maximum({a!r},{b!r}) = {mx!r} under prefactor {cc!r}, but the largest of the end values and the tabulated values inside the limits is {max(cand)!r}"))
            for x, v in zip(pts, smp):
                sl = 2 * vslack(x, cc); zz = "-zone" if not in_dom(x) else ""
                if v < mn - sl: out.append(("E:sample-below-min" + zz, f"Interpolate({x!r}) = {v!r} lies below Local_Minimum({a!r},{b!r}) = {mn!r} (prefactor {cc!r}) by {mn - v:.3g}, allowed {sl:.3g}")); break
                if v > mx + sl: out.append(("E:sample-above-max" + zz, f"Interpolate({x!r}) = {v!r} lies above Local_Maximum({a!r},{b!r}) = {mx!r} (prefactor {cc!r}) by {v - mx:.3g}, allowed {sl:.3g}")); break
        elif op == "Z":
            m = q[1]; gmn, gmx = o[0], o[1]; smp = o[2:-2]; zs = o[-2:]; a, b = xs[0], xs[-1]
            ref = (min(cc * min(ys), cc * max(ys)), max(cc * min(ys), cc * max(ys)))
            if gmn != ref[0]: out.append(("Z:global-min-reference", f"Global_Minimum = {gmn!r} under prefactor {cc!r}; the smallest scaled tabulated value is {ref[0]!r}"))
            if gmx != ref[1]: out.append(("Z:global-max-reference", f"Global_Maximum = {gmx!r} under prefactor {cc!r}; the largest scaled tabulated value is {ref[1]!r}"))
            for kk, v in enumerate(smp):
                x = b if kk == m else a + (b - a) * float(kk) / float(m); sl = 2 * vslack(x, cc)
                if v < gmn - sl or v > gmx + sl:
                    out.append(("Z:sample-outside-global", f"Interpolate({x!r}) = {v!r} lies outside [Global_Minimum, Global_Maximum] = [{gmn!r},{gmx!r}] (prefactor {cc!r})")); break
            for x, v in ((a - 0.5 * (1e-2 * (xs[1] - xs[0])), zs[0]), (b + 0.5 * (1e-2 * (xs[-1] - xs[-2])), zs[1])):
                sl = 2 * vslack(x, cc)
                if v < gmn - sl or v > gmx + sl:
                    out.append(("Z:sample-outside-global-zone", f"Interpolate({x!r}) = {v!r}, accepted inside the 1 % extrapolation tolerance, lies outside [Global_Minimum, Global_Maximum] = [{gmn!r},{gmx!r}] (prefactor {cc!r})")); break
        elif op == "C":
            if o[0] != o[1]: out.append(("C:call-operator", f"operator()({q[1]!r}) = {o[0]!r} but Interpolate({q[1]!r}) = {o[1]!r} (prefactor {cc!r})"))
        elif op == "O":
            if list(o) != [xs[0], xs[-1]]: out.append(("O:domain", f"the member domain is {list(o)!r}; the table runs from {xs[0]!r} to {xs[-1]!r}"))
        elif op in ("g", "G"):
            ref = min(cc * min(ys), cc * max(ys)) if op == "g" else max(cc * min(ys), cc * max(ys))
            if o[0] != ref: out.append((op + ":global-reference", f"Global_{'Min' if op == 'g' else 'Max'}imum = {o[0]!r} under prefactor {cc!r}; reference {ref!r}"))
        elif op in ("m", "M"):
            a, b = q[1], q[2]; lo = min(cc * min(ys), cc * max(ys)); hi = max(cc * min(ys), cc * max(ys))
            sl = 2 * max(vslack(a, cc), vslack(b, cc)) if in_dom(a) and in_dom(b) else math.inf
            if in_dom(a) and in_dom(b) and not (lo - sl <= o[0] <= hi + sl): out.append((op + ":outside-global", f"Local extremum {o[0]!r} on [{a!r},{b!r}] outside the global range [{lo!r},{hi!r}]"))
            out += knot_check(op, o[0], a, b, cc)
        elif op == "Q":
            a, b = q[1], q[2]; i12, i21 = o[0], o[1]; g = o[2:]
            if i21 != -i12: out.append(("Q:antisymmetric", f"Integrate({b!r},{a!r}) = {i21!r} is not the negative of Integrate({a!r},{b!r}) = {i12!r}"))
            ref = 0.0; err = 0.0
            for t, (u, v) in enumerate(pieces(xs, a, b)):
                f1, f2, f3 = g[3 * t:3 * t + 3]; ref += (v - u) * (5 * f1 + 8 * f2 + 5 * f3) / 18.0
                err += (v - u) * 4 * vslack(0.5 * (u + v), cc)
            if a > b: ref = -ref
            sl = islack(cc, a, b) + err
            if not (abs(i12 - ref) <= sl): out.append(("Q:integral", f"Integrate({a!r},{b!r}) = {i12!r} under prefactor {cc!r}; Gauss quadrature of Interpolate on the pieces between knots gives {ref!r} (off by {abs(i12-ref):.3g}, allowed {sl:.3g})"))
        elif op == "W":
            a, b = q[1], q[2]; i12, i21, gs = o
            if i21 != -i12: out.append(("W:antisymmetric", f"Integrate({b!r},{a!r}) = {i21!r} is not the negative of Integrate({a!r},{b!r}) = {i12!r}"))
            ref = -gs if a > b else gs
            sl = islack(cc, a, b) + d["aux"].gslack(cc, a, b)
            if not (abs(i12 - ref) <= sl): out.append(("W:integral", f"Integrate({a!r},{b!r}) = {i12!r} under prefactor {cc!r} on a table of {N} points; Gauss quadrature of Interpolate summed over the pieces between knots gives {ref!r} (off by {abs(i12-ref):.3g}, allowed {sl:.3g})"))
        elif op == "A":
            a, b, e = q[1], q[2], q[3]; sl = islack(cc, a, b) + islack(cc, b, e) + islack(cc, a, e)
            if not (abs(o[0] + o[1] - o[2]) <= sl): out.append(("A:additive", f"Integrate({a!r},{b!r}) + Integrate({b!r},{e!r}) = {o[0] + o[1]!r} but Integrate({a!r},{e!r}) = {o[2]!r} (allowed {sl:.3g})"))
        elif op == "B":
            a, b = q[1], q[2]; I, mn, mx = o; L = b - a; sl = islack(cc, a, b) + 8 * EPS * (abs(mn) + abs(mx)) * L
            zz = "" if in_dom(a) and in_dom(b) else "-zone"
            out += knot_check("m", mn, a, b, cc) + knot_check("M", mx, a, b, cc)
            if not (mn * L - sl <= I <= mx * L + sl): out.append(("B:bounded" + zz, f"Integrate({a!r},{b!r}) = {I!r} is not between Local_Minimum*length = {mn * L!r} and Local_Maximum*length = {mx * L!r}"))
        elif op == "U":
            a, x, dd = q[1], q[2], q[3]; ip, im, fx, d2 = o; two_d = (x + dd) - (x - dd)
            j = locate_ref(xs, x)
            if two_d > 0 and j is not None and xs[j] < x - dd and x + dd < xs[j + 1]:
                est = (ip - im) / two_d - d2 * (two_d / 2) ** 2 / 6.0
                sl = (islack(cc, a, x + dd) + islack(cc, a, x - dd)) / two_d + 4 * vslack(x, cc) + 64 * EPS * abs(d2) * dd * dd
                if not (abs(est - fx) <= sl): out.append(("U:upper-limit-derivative", f"d/dx Integrate({a!r},x) at x = {x!r} is {est!r} (central difference, cubic term removed) but Interpolate(x) = {fx!r} (allowed {sl:.3g})"))
    return out


def pred_2d(c, d, vals):
    out = []; f = [scaled(d["fd"], row) for row in d["f0"]]; flat = [v for row in f for v in row]; k = 0
    # 32 eps of the largest scaled entry; the four products weight * entry may each lose 2^-1075 to underflow before the prefactor is applied
    def slack2(cc): return 32 * EPS * (abs(cc) * max(abs(v) for v in flat)) + abs(cc) * 2.0 ** -1070 + 1e-300
    for q, cc, n, sc in walk(d):
        o = vals[k:k + n]; k += n
        if len(o) < n: out.append(("2d:shape", "too few output values")); break
        if not math.isfinite(cc): continue      # the prefactor history itself overflowed: no statement
        lo, hi = min(cc * min(flat), cc * max(flat)), max(cc * min(flat), cc * max(flat))
        if q[0] in ("g", "Z") and o[0] != lo: out.append(("2d:global-min-reference", f"Global_Minimum = {o[0]!r} under prefactor {cc!r}; smallest scaled grid value {lo!r}"))
        if q[0] == "G" and o[0] != hi: out.append(("2d:global-max-reference", f"Global_Maximum = {o[0]!r} under prefactor {cc!r}; largest scaled grid value {hi!r}"))
        if q[0] == "Z":
            if o[1] != hi: out.append(("2d:global-max-reference", f"Global_Maximum = {o[1]!r} under prefactor {cc!r}; largest scaled grid value {hi!r}"))
            sl = slack2(cc)
            for v in o[2:-1]:
                if not (o[0] - sl <= v <= o[1] + sl): out.append(("2d:sample-outside-global", f"an evaluation {v!r} lies outside [Global_Minimum, Global_Maximum] = [{o[0]!r},{o[1]!r}] (prefactor {cc!r})")); break
            if not (o[0] - sl <= o[-1] <= o[1] + sl): out.append(("2d:sample-outside-global-zone", f"an evaluation {o[-1]!r} accepted inside the 1 % extrapolation tolerance lies outside [Global_Minimum, Global_Maximum] = [{o[0]!r},{o[1]!r}] (prefactor {cc!r})"))
        if q[0] == "C" and o[0] != o[1]: out.append(("2d:call-operator", f"operator()({q[1]!r},{q[2]!r}) = {o[0]!r} but Interpolate = {o[1]!r} (prefactor {cc!r})"))
        if q[0] == "O":
            xa, ya = scaled(d["xd"], d["xs0"]), scaled(d["yd"], d["ys0"])
            if list(o) != [xa[0], xa[-1], ya[0], ya[-1]]: out.append(("2d:domain", f"the member domain is {list(o)!r}; the grid runs over [{xa[0]!r},{xa[-1]!r}] x [{ya[0]!r},{ya[-1]!r}]"))
        if q[0] == "I":
            sl = slack2(cc)
            if not (lo - sl <= o[0] <= hi + sl): out.append(("2d:sample-outside-global", f"Interpolate({q[1]!r},{q[2]!r}) = {o[0]!r} lies outside the global range [{lo!r},{hi!r}]"))
    return out


def predicates(c, io):
    if io.startswith(("CRASH", "SANITIZER", "TIMEOUT", "HARNESSERR", "EXIT0", "EXIT_NODIAG")): return []
    d = parse_case(c.line); ee = expected_exit(d)
    if io.startswith("EXIT"):
        return [] if ee else [(d["op"] + ":exit", "a valid table with limits inside the domain (or its 1 % tolerance) in the right order terminated the process")]
    if ee: return [(d["op"] + ":no-exit", "a malformed table, limits outside the 1 % tolerance or reversed extremum limits were accepted")]
    vals = [C01_tok(t) if not is_int_tok(t) else int(t) for t in io.split()]
    if d.get("session"):
        out = []; k = 0
        for u in d["units"]:
            n = sum(nn for _q, _c, nn, _s in walk(u))
            out += [(sig, u["ctx"] + msg) for sig, msg in (pred_2d if u["two_d"] else pred_1d)(c, u, vals[k:k + n])]; k += n
        if k != len(vals): out.append((d["op"] + ":shape", f"{len(vals)} output values for {k} expected"))
        return out
    return pred_2d(c, d, vals) if d["two_d"] else pred_1d(c, d, vals)


def nontrivial(c, io):
    if io.startswith(("EXIT", "CRASH")): return False
    d = parse_case(c.line)
    if d["two_d"]: return any(cc < 0 and q[0] not in ("P", "X") for q, cc, n, sc in walk(d))
    if d.get("session"):
        vals = io.split(); k = 0
        for u in d["units"]:
            n = sum(nn for _q, _c, nn, _s in walk(u))
            if nontrivial_1d(u, vals[k:k + n]): return True
            k += n
        return False
    return nontrivial_1d(d, io.split())


def nontrivial_1d(d, vals):
    xs, ys = scaled(d["xd"], d["xs0"]), scaled(d["fd"], d["ys0"]); k = 0
    for q, cc, n, sc in walk(d):
        o = vals[k:k + n]; k += n
        if cc < 0 and q[0] not in ("P", "X"): return True
        if q[0] == "E":
            ja, jb = locate_ref(xs, q[1]), locate_ref(xs, q[2])
            if ja is not None and jb is not None and jb - ja >= 2:
                mn = C01_tok(o[0]); inner = [cc * ys[i] for i in range(ja + 1, jb + 1) if q[1] < xs[i] < q[2]]
                if inner and mn == min(inner) and mn < min(C01_tok(o[2]), C01_tok(o[-1])): return True
    return False
