"""C01 — interpolants reproduce the data and never overshoot it (class Interpolation, Interpolation_2D).

Case grammar (one line = one table + a list of queries, every query on a copy of the fresh object):
  t1 <x_dim> <f_dim> <list xs> <list ys> <nq> query*          Interpolation(xs, ys, x_dim, f_dim)
  h1 ... (as t1)                                              the same, but all queries go to ONE live object in the given order
                                                              (history mode: the cached index / search-method switch of Locate is
                                                              exercised; the expected values are still those of a fresh object)
  tr <x_dim> <f_dim> <table rows> <nq> query*                 Interpolation(rows, x_dim, f_dim)
  t2 <x_dim> <y_dim> <f_dim> <list xs> <list ys> <table f> <nq> query2*     Interpolation_2D(xs, ys, f, ...)
  h2 ... (as t2)                                              the same, all queries on ONE live object
  t3 <x_dim> <y_dim> <f_dim> <table rows (x y f)> <nq> (I x y)*              Interpolation_2D(data_table, ...), I queries only
  d1 <nq> query*                                              the default-constructed object Interpolation()  (table (-1,0,1) -> (0,0,0))
  d2 <nq> query2*                                             the default-constructed object Interpolation_2D() (3 x 3 zeros on (-1,0,1)^2)
  s1 <nseg> seg*        a SESSION on up to four slots (raw storage / heap objects that are re-used): every segment puts a table into a slot,
                        copies another slot's object or resumes a slot, then sends its requests to the LIVE object of that slot:
       seg = A <mode> <slot> <x_dim> <f_dim> <list xs> <list ys> <nq> query*      mode a: slot = Interpolation(...)   (assignment to the live object)
                                                                                  mode p: destroy + construct in the same storage
                                                                                  mode h: delete + new on the heap
                                                                                  mode s: a function-local object (same stack address each time)
           | C <dst> <src> <nq> query*      slot dst = slot src (copy assignment)
           | R <slot> <nq> query*           no change of the slot
  s2 <nseg> seg*        the same for Interpolation_2D (A <mode> <slot> <x_dim> <y_dim> <f_dim> <list xs> <list ys> <table f> <nq> query2*)
                        Output of s1 / s2: the answers of the live objects, then the answers of a fresh object of the same table to the same
                        primitive calls, made after the session (second half).
 query : I x | D k x | L x | G j m | K x | F x d | V x d
   I x    Interpolate(x)                      D k x  Derivative(x, k)             L x  Locate(x)
   G j m  Interpolate on the (m+1)-point sub-grid x_j + (x_{j+1}-x_j) k/m of segment j (last point x_{j+1})
   K x    Interpolate and Derivative(.,1) at nextafter(x,-inf), x, nextafter(x,+inf)   (6 numbers)
   F x d  D0 at x-d,x,x+d; D1 at x-d,x,x+d; D2 at x-d,x,x+d; D3(x); D4(x)                (11 numbers)
   V x d  D1(x), D2(x), D3(x) FIRST, then Interpolate at x-2d, x-d, x, x+d, x+2d           (8 numbers; the derivatives are requested
          before anything else touches the object, then compared with differences of the returned curve)
 query2: I x y | C i j m   ((m+1)^2 sub-grid of the cell (i,j))
Output: the numbers in order, or EXIT when the library terminates the process."""
import math
import sys
from fractions import Fraction
from vcheck import Case, hx, flist

PID = "C01"
EPS = 2.0 ** -53
TOL = (1e-12, 1e-300)
RULE = ("a case = one table with its list of queries; non-trivial = 1-D table on a non-uniform grid with at least one interior knot where the slope "
        "limiter is active (dy_i != p_i) and at least one where it is inactive, or a 2-D grid with non-uniform spacing on both axes and >= 2x2 cells; "
        "a session (s1/s2) = one case, non-trivial when some slot receives two different tables of which at least one is non-trivial by this rule; "
        "distinct by case text")
LEVEL_TEXT = ("Theorems (Coq, over the reals, unbounded in the table length; all listed in evidence.coverage.theorems). For every table of length N >= 3 with strictly "
              "increasing abscissae: the model of Interpolate returns y_i at x_i; on every segment it stays between y_j and y_{j+1} and is monotone; over a whole run "
              "of knots a..b with monotone data the curve is monotone on [x_a, x_b] (C01_monotone_on_run, induction over the segments), no strict local extremum lies "
              "strictly inside a segment (C01_no_interior_strict_extremum), every value on the domain lies between two tabulated values (C01_global_range); limiter "
              "bounds for first, last and interior knots; value and first derivative agree from both sides at every knot; Locate is total: it answers exactly on "
              "(x_0 - 1% h_0, x_{N-1} + 1% h_{N-2}) with segment 0 / N-2 outside the table and a containing segment inside, Exit elsewhere (C01_locate_total); the curve is "
              "differentiable with derivative Derivative(.,1), hence continuous, at every point where the library answers, end knots and extrapolation zone included "
              "(C01_curve_differentiable_everywhere); Derivative(.,k), k >= 1, is the k-th derivative of the curve inside segments, at the end knots and in the zone "
              "(C01_derivatives_inside, C01_derivatives_at_ends), of the segment polynomial at interior knots, 0 for k >= 4, and Derivative(.,0) = Interpolate for every object "
              "and every arithmetic, doubles included (C01_derivative_order_0, over abstract NumOps); straight-line data and parabola data with inactive limiter are reproduced "
              "exactly, value and all three derivatives, at every query point including the zone (C01_linear_exact_everywhere, C01_parabola_exact_everywhere); on every closed "
              "segment Derivative(.,1) has the sign of the secant slope s_j and |Derivative(.,1)| <= 2|s_j| (C01_derivative_sign_and_bound; the bound of the S4 clause "
              "1d:deriv-sign); in the 1 % extrapolation zone, where 'stays between' cannot hold, the value differs from the end value by at most 3 % of the end segment's "
              "increment (C01_edge_zone_bound; the bound of the S4 clause 1d:edge-zone). Constructors: "
              "the model follows the repaired order of the code (finding F45, /repo 94355d7: length checks, unit conversion of both tables, then the strict-increase loop on "
              "the CONVERTED abscissae). For every arithmetic, the doubles included, with no premise on the multiplication: Interpolation(xs, ys, x_dim, f_dim) returns an "
              "object iff the lengths are equal, N >= 2 and the converted abscissae pass the strict-increase loop, exits iff not, and every object it returns stores a "
              "strictly increasing table of N >= 2 points -- a conversion that rounds two abscissae onto one double or onto inf, inf cannot leave a repeated abscissa in an "
              "object (C01_constructor_tests_converted_abscissae, over abstract NumOps; non-vacuity includes an arithmetic with a rounding multiplication in which given "
              "strictly increasing abscissae are rejected); when x_dim is not > 0 nothing is converted (C01_no_conversion_without_positive_unit); over the reals the guard on "
              "the converted abscissae is equivalent to strict increase of the given ones (C01_constructor_guard_over_reals), so there the constructor builds the object "
              "exactly for equal lengths, N >= 2, strictly increasing abscissae, exits for every other input, and everything it returns comes from such a table; "
              "the row constructor is the list constructor on the two columns and exits on any row of length != 2 "
              "(both in C01_constructors_complete); two-point tables give the chord (C01_two_point_chord). Which double tables collapse under a given x_dim is a fact "
              "about IEEE rounding, not a theorem: the generator class unit-collapse (abscissae 1..3 ulp apart with x_dim 0.6, 0.1, 1/3, ...; tops overflowing to inf, inf; "
              "subnormal abscissae; near misses that must be accepted; 1D lists, rows, and one axis of a 2D grid) checks exit-in-the-constructor on both sides and by S4. 2D: node values at nodes, within the corners' min/max, agreement on shared "
              "cell edges, bilinear functions reproduced; at every point of the domain rectangle the value is the bilinear form of a containing cell and within any bounds of the "
              "data (C01_bilinear_global_range); whatever the grid constructor accepts is a valid grid; the data-table constructor builds the "
              "grid constructor's object for the table of every valid grid, and EVERY table it accepts yields a valid grid with N_x N_y rows that returns each row's f at that "
              "row's (x, y), unit factors included (both in C01_constructors2_sound). The same Gallina terms are extracted and run against the C++ classes on every run "
              "(bit-identical on the generated cases); all clauses are also evaluated on the implementation's output (S4) with a-priori rounding slack. "
              "Seventh pass: for EVERY arithmetic (abstract NumOps, no law about comparisons or operations used, so for the doubles as they are, NaN and inf included), on "
              "whatever object the 1D constructor returns, Locate exits or returns j with j+1 < N, Bisection ends within N iterations and reads inside the table "
              "(C01_bisection_range, induction over the fuel), Interpolate and Derivative(.,k) read x_values[j], a[j]..d[j] in bounds, return a number, and Interpolate exits exactly "
              "when Locate does (C01_queries_in_bounds_every_arithmetic): the model's OOB / Fuel outcomes are unreachable. 2D at every query point: for grids with >= 3 abscissae "
              "per axis Interpolate(x,y) answers exactly on the product of the two open 1 % zones, with the bilinear form of the cell Locate selects (first / last cell outside the "
              "table), and exits elsewhere (C01_interpolate2_total). The default constructors Interpolation() / Interpolation_2D() and operator() of both classes are in the model "
              "(default1, default2, call1, call2; case types d1 / d2): the default objects answer 0 with all derivatives exactly on (-1.01, 1.01) resp. its square and exit "
              "elsewhere (C01_default_objects); operator() is Interpolate (C01_call_operator_is_interpolate). T-tie: libphysica::Sign(double), the sign function of the slope "
              "limiter, is regenerated from the source by tools/cxx2gallina.py on every run and proved equal to the model's sign1 (C01_generated_Sign_is_model, premise: the "
              "literal 0.0 is the constant 0). coverage/C01.md lists function by function what is modelled. "
              "Not theorems: behaviour in floating point (rounding) of the shape clauses -- correspondence run and S4 only (the in-bounds, exit, constructor-guard and "
              "Derivative(.,0) theorems do hold for every arithmetic); joint continuity of the 2D interpolant as a "
              "function of (x, y) is proved in the form 'closed-cell bilinear form + agreement on shared edges', not as a topological continuity statement; the extrapolation "
              "zone of a 2D axis with only two abscissae and which malformed data tables are rejected (the accepted ones are covered by the soundness theorem) are covered by correspondence only; the history "
              "dependence of Locate is property C09 (the model's Locate is the search of a fresh object); here it is covered by correspondence and S4 on live objects: "
              "random walks and long runs of 9..1000 neighbouring requests (sweeps in both directions, repeated points, knot after knot) followed by probes in every "
              "direction (cases h1/h2, tag sweep); the prefactor is C08. std::sort / std::unique are modelled by their specification.")
LEVEL_NOTE = ("Coq 8.16.1 kernel; theorems over R use the standard library's real-number axioms and Coquelicot (listed in the evidence); hand-written model "
              "tied by differential correspondence (extraction with ExtrOcamlBasic only); pow(x,k) for k=2,3 is modelled by powerRZ in R and libm pow in the float instance")
TRUSTED = ["std::pow with exponents 2.0 and 3.0 is modelled by npowi (powerRZ on R, libm pow on doubles)",
           "every query is made on a copy of the freshly constructed object (the search state machine is property C09), except in the history modes h1 / h2 and the sessions s1 / s2 (live, re-used objects)",
           "in the session cases the harness re-uses storage (assignment, placement new, delete/new, a function-local object); that the allocator / compiler hand out the same address again is usual, not guaranteed",
           "std::sort / std::unique in the data-table constructor are modelled by their specification (insertion sort with operator<, first element of each run kept)",
           "std::min / fabs in the slope limiter are modelled by their specification (nmin = (b<a)?b:a, nabs); the T-tie of Sign(double) assumes the source literal 0.0 is the constant 0 (Lit0; proved over R)",
           "Hunt, the jLast / correlated_calls update of Locate, the prefactor setters, Integrate and the extremum functions are not in this model (properties C09, C08); see coverage/C01.md"]
ASSUMPTIONS = ["the shape theorems assume N >= 3, strictly increasing abscissae, real arithmetic; N = 2 tables have the chord theorem only; the constructor guards are characterised completely (1D) resp. soundly (2D data table); rejected malformed 2D tables are covered by correspondence only",
               "C01_interpolate2_total assumes at least three abscissae on each axis; C01_queries_in_bounds_every_arithmetic assumes nothing beyond the constructor having returned the object"]


# ----------------------------------------------------------------------------------------------- generators
def gen_xs(rng, N, mode=None):
    mode = mode or rng.choice(["uniform", "ratio1", "ratio3", "ratio9", "log", "cluster", "dyadic"])
    for _ in range(20):
        if mode == "uniform":
            h = 10 ** rng.uniform(-3, 3); hs = [h] * (N - 1)
        elif mode in ("ratio1", "ratio3", "ratio9"):
            r = {"ratio1": 1.0, "ratio3": 3.0, "ratio9": 9.0}[mode]
            lg = rng.uniform(-2, 2); hs = []
            for _k in range(N - 1):
                lg += rng.uniform(-r, r)
                if rng.random() < 0.2: lg += rng.choice([-r, r])        # the extreme ratio itself
                lg = max(-6.0, min(6.0, lg)); hs.append(10 ** lg)
        elif mode == "log":
            q = 10 ** rng.uniform(0.003, min(1.0, 24.0 / N)); x = 10 ** rng.uniform(-6, 2)
            hs = []
            for _k in range(N - 1): hs.append(x * (q - 1)); x *= q
        elif mode == "cluster":
            hs = []; fine = 10 ** rng.uniform(-7, -3); gap = fine * 10 ** rng.uniform(6, 9)
            for _k in range(N - 1): hs.append(gap if rng.random() < 0.15 else fine * rng.uniform(0.5, 2))
        else:   # dyadic
            hs = [rng.randint(1, 64) / 16.0 for _k in range(N - 1)]
        tot = sum(hs)
        off = rng.choice(["zero", "neg", "mid", "pos", "far"])
        if mode == "log": x0 = hs[0] / max(q - 1, 1e-9) if False else 10 ** rng.uniform(-6, 2)
        elif mode == "dyadic": x0 = rng.randint(-256, 256) / 16.0
        elif off == "zero": x0 = 0.0
        elif off == "neg": x0 = -tot * rng.uniform(1.0, 3.0)
        elif off == "mid": x0 = -tot * rng.uniform(0.2, 0.8)
        elif off == "pos": x0 = tot * rng.uniform(0.0, 2.0)
        else: x0 = rng.choice([-1, 1]) * tot * 10 ** rng.uniform(1, 3)
        xs = [x0]
        for h in hs: xs.append(xs[-1] + h)
        # keep every spacing resolved by the doubles (>= 2^20 ulp), otherwise the table is not the one intended
        if all(b - a > 1e-10 * max(abs(a), abs(b)) for a, b in zip(xs, xs[1:])): return xs, mode
        mode = "ratio3" if mode in ("ratio9", "cluster") else "uniform"
    h = 1.0
    return [float(i) for i in range(N)], "uniform"


def gen_ys(rng, N, xs, mode=None):
    mode = mode or rng.choice(["smooth", "random", "monotone", "plateau", "signchange", "spike", "mixedmag", "zeros", "steps", "convex"])
    sc = 10 ** rng.uniform(-20, 20) if rng.random() < 0.5 else 10 ** rng.uniform(-3, 3)
    L = xs[-1] - xs[0]; x0 = xs[0]
    if mode == "smooth":
        w = rng.uniform(0.5, 12) / L; ph = rng.uniform(0, 6.3); off = rng.choice([0.0, rng.uniform(-3, 3)])
        ys = [sc * (math.sin(w * (x - x0) + ph) + off) for x in xs]
    elif mode == "random": ys = [sc * rng.gauss(0, 1) for _ in xs]
    elif mode == "monotone":
        ys = [0.0]; sg = rng.choice([-1, 1])
        for _ in range(N - 1): ys.append(ys[-1] + sg * sc * (0.0 if rng.random() < 0.1 else 10 ** rng.uniform(-3, 1)))
        o = rng.choice([0.0, -ys[-1] / 2, sc]); ys = [y + o for y in ys]
    elif mode == "plateau":
        ys = []; v = sc * rng.gauss(0, 1)
        while len(ys) < N:
            run = rng.choice([1, 1, 2, 3, 5]); ys += [v] * run; v = sc * rng.gauss(0, 1) if rng.random() < 0.8 else v
        ys = ys[:N]
    elif mode == "signchange": ys = [sc * (-1) ** i * rng.uniform(0.1, 2) for i in range(N)]
    elif mode == "spike":
        base = 10 ** rng.uniform(-20, -5); ys = [base * rng.gauss(0, 1) for _ in xs]
        for _ in range(rng.randint(1, max(1, N // 8))): ys[rng.randrange(N)] = rng.choice([-1, 1]) * 10 ** rng.uniform(5, 20)
    elif mode == "mixedmag": ys = [rng.choice([-1, 1]) * 10 ** rng.uniform(-20, 20) for _ in xs]
    elif mode == "zeros": ys = [0.0 if rng.random() < 0.6 else sc * rng.gauss(0, 1) for _ in xs]
    elif mode == "steps":
        k = rng.randrange(1, N); a, b = sc * rng.gauss(0, 1), sc * rng.gauss(0, 1); ys = [a if i < k else b for i in range(N)]
    else:   # convex: limiter mostly inactive
        c = sc / (L * L); v = x0 - L * rng.uniform(0.5, 3); ys = [c * (x - v) ** 2 for x in xs]
    return ys, mode


def dyadic_table(rng, N, kind):
    """exactly representable line / parabola data"""
    reg = rng.random() < 0.6
    hs = [rng.choice([1, 2, 4]) / 8.0 if reg else rng.randint(1, 48) / 8.0 for _ in range(N - 1)]
    x0 = rng.randint(-64, 64) / 8.0
    if kind == "parabola" and rng.random() < 0.8:     # keep the vertex away so that the limiter stays inactive
        x0 = rng.choice([-1, 1]) * (sum(hs) * rng.choice([1, 2, 4])) + (0 if rng.random() < 0.5 else -sum(hs))
        x0 = round(x0 * 8) / 8.0
    xs = [x0]
    for h in hs: xs.append(xs[-1] + h)
    if kind == "line":
        m = rng.randint(-40, 40) / 8.0; q = rng.randint(-100, 100) / 4.0
        if rng.random() < 0.1: m = 0.0
        ys = [m * x + q for x in xs]
    else:
        al = rng.choice([-1, 1]) * rng.randint(1, 16) / 4.0; be = rng.randint(-16, 16) / 4.0 if rng.random() < 0.3 else 0.0; ga = rng.randint(-20, 20) / 2.0
        ys = [al * x * x + be * x + ga for x in xs]
    return xs, ys


def pick_dims(rng):
    r = rng.random()
    if r < 0.6: return -1.0, -1.0
    if r < 0.7: return 10 ** rng.uniform(-6, 6), -1.0
    if r < 0.8: return -1.0, 10 ** rng.uniform(-6, 6)
    if r < 0.95: return 10 ** rng.uniform(-6, 6), 10 ** rng.uniform(-6, 6)
    return rng.choice([0.0, 1.0, 2.0, 0.5]), rng.choice([0.0, -2.0, 1.0, 4.0])


def scaled(dim, v): return [x * dim for x in v] if dim > 0.0 else list(v)


def queries_for(rng, xs, budget=60):
    """queries aimed at knots, nextafter neighbours, interior points, the 1 % zone (inside the tolerance)"""
    N = len(xs); qs = []
    segs = list(range(N - 1))
    if len(segs) > 10: segs = sorted(set([0, 1, N - 3, N - 2] + rng.sample(segs, 6)))
    knots = list(range(N))
    if len(knots) > 12: knots = sorted(set([0, 1, N - 2, N - 1] + rng.sample(knots, 8)))
    for k in knots:
        qs.append(f"K {hx(xs[k])}"); qs.append(f"L {hx(xs[k])}")
        if 0 < k: qs.append(f"L {hx(math.nextafter(xs[k], -math.inf))}")
        if k < N - 1: qs.append(f"L {hx(math.nextafter(xs[k], math.inf))}")
    for j in segs:
        if N <= 2 or True:
            qs.append(f"G {j} {rng.choice([8, 32])}")
        h = xs[j + 1] - xs[j]
        x = xs[j] + h * rng.uniform(0.1, 0.9); d = h / 64.0
        if xs[j] < x - d and x + d < xs[j + 1]: qs.append(f"F {hx(x)} {hx(d)}")
        x = xs[j] + h * rng.random()
        if xs[j] <= x <= xs[j + 1]:
            qs.append(f"I {hx(x)}"); qs.append(f"L {hx(x)}"); qs.append(f"D {rng.choice([0, 1, 2, 3, 4, 5, 7, 1000])} {hx(x)}")
    # 1 % zone, inside the tolerance
    if N >= 2:
        tl = 1e-2 * (xs[1] - xs[0]); tr = 1e-2 * (xs[N - 1] - xs[N - 2])
        for f in (0.3, 0.9, 0.999):
            xl = xs[0] - f * tl; xr = xs[-1] + f * tr
            if abs(xl - xs[0]) < tl and xl < xs[0]: qs += [f"I {hx(xl)}", f"L {hx(xl)}", f"D 1 {hx(xl)}"]
            if abs(xr - xs[-1]) < tr and xr > xs[-1]: qs += [f"I {hx(xr)}", f"L {hx(xr)}", f"D 2 {hx(xr)}"]
            # every order in the zone (theorems C01_derivatives_at_ends, C01_derivative_order_0); no draw from rng
            if f == 0.9:
                if abs(xl - xs[0]) < tl and xl < xs[0]: qs += [f"D 0 {hx(xl)}", f"D 2 {hx(xl)}", f"D 3 {hx(xl)}"]
                if abs(xr - xs[-1]) < tr and xr > xs[-1]: qs += [f"D 0 {hx(xr)}", f"D 1 {hx(xr)}", f"D 3 {hx(xr)}"]
        # all orders at the two end knots, where the curve is one polynomial on both sides
        for kk in (0, 1, 2, 3): qs += [f"D {kk} {hx(xs[0])}", f"D {kk} {hx(xs[-1])}"]
    return qs


def history_queries(rng, xs, n):
    """a random walk over the segments: short correlated steps (hunting), jumps of 5..30 intervals, landings in the first / last
    interval after a short step, knots and their neighbours, the 1 % zone"""
    N = len(xs); j = rng.randrange(N - 1); qs = []
    for _ in range(n):
        r = rng.random()
        if r < 0.55: j = max(0, min(N - 2, j + rng.choice([-2, -1, -1, 0, 0, 1, 1, 2])))
        elif r < 0.8: j = max(0, min(N - 2, j + rng.choice([-1, 1]) * rng.randint(5, 30)))
        elif r < 0.9: j = rng.choice([0, N - 2])
        else: j = rng.randrange(N - 1)
        w = rng.random(); h = xs[j + 1] - xs[j]
        if w < 0.55: x = min(max(xs[j] + h * rng.random(), xs[j]), xs[j + 1])
        elif w < 0.7: x = xs[j]
        elif w < 0.8: x = xs[j + 1]
        elif w < 0.93:
            k = j + rng.choice([0, 1]); x = xs[k]
            if 0 < k < N - 1: x = math.nextafter(x, rng.choice([-math.inf, math.inf]))
        elif j == 0: x = xs[0] - 1e-2 * (xs[1] - xs[0]) * rng.uniform(0.0, 0.99)
        elif j == N - 2: x = xs[-1] + 1e-2 * (xs[-1] - xs[-2]) * rng.uniform(0.0, 0.99)
        else: x = xs[j] + 0.5 * h
        if locate_ref(xs, x) is None: x = xs[j]
        q = rng.choice(["L", "L", "I", "I", "D 0", "D 1", "D 2", "D 3", "K"])
        qs.append(f"{q} {hx(x)}")
    return qs


RUN_LENGTHS = [9, 10, 11, 31, 32, 33, 63, 64, 65, 66, 67, 100, 127, 128, 129, 130, 200, 255, 256, 257, 300]
RUN_KINDS = ["up", "up", "up", "down", "same-point", "same-point", "same-interval", "zigzag", "up-knots", "down-knots", "up-9-10", "drift"]


def point_in(rng, xs, j, w=None):
    """a request point of segment j (for Locate: the right one at a knot): interior, its left knot, just inside either end"""
    N = len(xs); h = xs[j + 1] - xs[j]; w = rng.random() if w is None else w
    if w < 0.6: x = xs[j] + h * rng.random()
    elif w < 0.8: x = xs[j]
    elif w < 0.9: x = math.nextafter(xs[j + 1], -math.inf)
    else: x = math.nextafter(xs[j], math.inf)
    if not (xs[j] <= x < xs[j + 1]): x = xs[j]
    return x


def sweep_queries(rng, xs, long_runs=False):
    """long runs of requests that are close to one another (a plot / quadrature sweep upward or downward, the same point or the same
    interval again and again, knot after knot, steps of exactly 9 / 10 intervals, a slow drift), of every length around the powers of
    two up to 1000, each followed by probes in EVERY direction: the interval just left / right, 2..11 intervals away, the first and
    last interval, far jumps, knots and their neighbours, the 1 % zones -- then possibly another run on the same object."""
    N = len(xs); qs = []; j = rng.randrange(N - 1); tags = set()
    def ask(x, kinds=("L", "L", "I", "I", "D 0", "D 1", "D 2", "D 3", "K")):
        if locate_ref(xs, x) is None: return
        q = rng.choice(kinds)
        if q == "K" and (locate_ref(xs, math.nextafter(x, -math.inf)) is None or locate_ref(xs, math.nextafter(x, math.inf)) is None): q = "I"
        qs.append(f"{q} {hx(x)}")
    for _phase in range(rng.choice([1, 1, 2, 3])):
        L = rng.choice(RUN_LENGTHS + ([500, 1000, 1025] if long_runs else [])); kind = rng.choice(RUN_KINDS)
        tags.add("run:" + kind); tags.add("len:" + ("<=64" if L <= 64 else "65-129" if L <= 129 else ">129"))
        span = N - 2
        if kind in ("up", "up-knots", "up-9-10", "drift"): j = rng.randrange(max(1, (N - 1) // 2)) if rng.random() < 0.7 else 0
        elif kind in ("down", "down-knots"): j = rng.randrange((N - 1) // 2, N - 1) if rng.random() < 0.7 else N - 2
        else: j = rng.randrange(N - 1)
        x_same = point_in(rng, xs, j); one_kind = rng.choice([None, None, ("L",), ("I",), ("D 1",)])
        pstep = min(1.0, 1.5 * span / float(L))        # the run crosses the whole table once
        for _k in range(L):
            if kind in ("up", "down"):
                st = 0
                if rng.random() < pstep: st = 1 + (rng.choice([0, 0, 0, 1, 3, 8]) if span > 3 * L else 0)
                j = max(0, min(N - 2, j + (st if kind == "up" else -st))); x = point_in(rng, xs, j)
            elif kind == "same-point": x = x_same
            elif kind == "same-interval": x = point_in(rng, xs, j)
            elif kind == "zigzag": j = max(0, min(N - 2, j + rng.choice([-1, 1]))); x = point_in(rng, xs, j)
            elif kind in ("up-knots", "down-knots"):
                if rng.random() < pstep: j = max(0, min(N - 2, j + (1 if kind == "up-knots" else -1)))
                x = xs[j]
            elif kind == "up-9-10":
                st = rng.choice([0, 0, 1, 9, 9, 10]) if rng.random() < min(1.0, 3.0 * span / (9.0 * L)) else 0
                j = max(0, min(N - 2, j + st)); x = point_in(rng, xs, j)
            else: j = max(0, min(N - 2, j + rng.choice([0, 0, 0, 0, 1, 1, 2, -1]))); x = point_in(rng, xs, j)
            ask(x, one_kind or ("L", "I", "I", "D 0", "D 1", "D 2", "D 3"))
        # probes
        for _p in range(rng.choice([2, 4, 6, 10])):
            r = rng.random()
            if r < 0.2: t = j - 1
            elif r < 0.35: t = j - rng.choice([2, 3, 5, 8, 9, 10, 11])
            elif r < 0.45: t = 0
            elif r < 0.55: t = rng.randrange(0, j + 1)
            elif r < 0.62: t = j
            elif r < 0.72: t = j + rng.choice([1, 2, 9, 10, 11])
            elif r < 0.8: t = N - 2
            else: t = rng.randrange(N - 1)
            t = max(0, min(N - 2, t)); w = rng.random()
            if w < 0.75: x = point_in(rng, xs, t)
            elif w < 0.85: x = xs[t + 1] if t + 1 < N - 1 else xs[t]
            elif w < 0.93 and t == 0: x = xs[0] - 1e-2 * (xs[1] - xs[0]) * rng.uniform(0.0, 0.99)
            elif w < 0.93 and t == N - 2: x = xs[-1] + 1e-2 * (xs[-1] - xs[-2]) * rng.uniform(0.0, 0.99)
            elif t == N - 2: x = xs[-1]
            else: x = xs[t] + 0.5 * (xs[t + 1] - xs[t])
            if rng.random() < 0.15 and locate_ref(xs, x) is not None: qs.append(f"G {t} {rng.choice([4, 8])}"); j = t; continue
            ask(x); jj = locate_ref(xs, x)
            if jj is not None: j = jj
    return qs, tuple(sorted(tags))


def line1(op, xd, fd, xs, ys, qs): return f"{op} {hx(xd)} {hx(fd)} {flist(xs)} {flist(ys)} {len(qs)} " + " ".join(qs)


def pick_N(rng, big):
    r = rng.random()
    if r < 0.25: return rng.choice([3, 3, 4, 5])
    if r < 0.7: return rng.randint(6, 40)
    if r < 0.93: return rng.randint(41, 150)
    return rng.randint(151, 400)


# ------------------------------------------------------------------------ tables with coincidences (partial regularity)
# Relative near-miss distances for every coincidence below: exact, then a geometric ladder 1e-16 .. 1e-6 on both sides.
LADDER = [0.0] * 6 + [sg * 10.0 ** -k for k in range(6, 17) for sg in (1, -1)]
STRUCT_X = ["first=mean", "last=mean", "ends=mean", "moved-knot", "first=last", "alternating", "two-block", "sym0", "palindrome",
            "integers", "except-first", "except-last", "geometric2", "first=second"]
STRUCT_Y = ["parabola", "parabola", "parabola", "line", "zero-sum-dyadic", "zero-sum-float", "antisym", "pairs", "odd", "even", "first=last",
            "identity", "neg-identity", "index", "const", "all-zero", "alternating", "zero-prefix", "zero-mean-smooth", "generic", "generic"]


def struct_xs(rng, N, kind=None, dyadic=None):
    """grids that are neither uniform nor generic: some statistic of the spacings coincides with some spacing (first = mean, last = mean,
    first = last, ...), a uniform grid with a few knots moved, symmetric / periodic / integer grids.  dyadic: all abscissae are multiples
    of 1/8 times a power of two (so that line / parabola data on them are exactly representable); otherwise float spacings, where the
    coincidence holds to rounding or is detuned by a relative distance from LADDER."""
    kind = kind or rng.choice(STRUCT_X)
    dy = (rng.random() < 0.65) if dyadic is None else dyadic
    for _try in range(10):
        m = rng.randint(2, 24)
        unit = (lambda: float(rng.randint(1, 40))) if dy else (lambda: 10 ** rng.uniform(-1, 1))
        hs = [unit() for _ in range(N - 1)]

        def transfers(lo, hi, cnt):
            """start from the uniform grid of spacing m and move spacing between the intervals lo..hi-1 (the sum is kept)"""
            h = [float(m)] * (N - 1)
            if hi - lo < 2: return h
            for _ in range(cnt):
                i, j = rng.sample(range(lo, hi), 2)
                amt = float(rng.randint(1, max(1, int(h[j]) - 1))) if dy else h[j] * rng.uniform(0.05, 0.9)
                if h[j] - amt > 0: h[i] += amt; h[j] -= amt
            return h
        if kind == "first=mean": hs = transfers(1, N - 1, rng.choice([1, 2, N]))
        elif kind == "last=mean": hs = transfers(0, N - 2, rng.choice([1, 2, N]))
        elif kind == "ends=mean": hs = transfers(1, N - 2, rng.choice([1, 2, N]))
        elif kind == "moved-knot":
            hs = [float(m)] * (N - 1)
            for _ in range(rng.choice([1, 1, 2])):
                k = rng.randrange(1, N - 1)                      # knot k moves: interval k-1 grows, interval k shrinks (or the reverse)
                amt = float(rng.randint(1, m - 1)) if dy else m * rng.choice([rng.uniform(0.05, 0.9), 10 ** rng.uniform(-9, -2)])
                a, b = (k - 1, k) if rng.random() < 0.5 else (k, k - 1)
                if hs[b] - amt > 0: hs[a] += amt; hs[b] -= amt
        elif kind == "first=last": hs[-1] = hs[0]
        elif kind == "first=second": hs[1] = hs[0]
        elif kind == "alternating":
            a, b = unit(), unit(); hs = [a if i % 2 == 0 else b for i in range(N - 1)]
        elif kind == "two-block":
            a, b = unit(), unit(); k = rng.randrange(1, N - 1); hs = [a if i < k else b for i in range(N - 1)]
        elif kind in ("sym0", "palindrome"):
            for i in range((N - 1) // 2): hs[N - 2 - i] = hs[i]
        elif kind == "integers":
            pts = sorted(rng.sample(range(-3 * N, 3 * N + 1), N)); hs = [float(b - a) for a, b in zip(pts, pts[1:])]
        elif kind == "except-first": hs = [float(m)] * (N - 1); hs[0] = unit()
        elif kind == "except-last": hs = [float(m)] * (N - 1); hs[-1] = unit()
        elif kind == "geometric2":
            q = rng.choice([2.0, 0.5, 4.0]); hs = [(1.0 if q > 1 else 2.0 ** min(N, 40)) * q ** min(i, 40) for i in range(N - 1)]
        if dy: hs = [h / 8.0 for h in hs]
        else:
            dl = rng.choice(LADDER)                              # detune the coincidence by a relative distance from the ladder
            if kind in ("first=mean", "ends=mean", "first=last", "first=second", "except-last"): hs[0] *= 1.0 + dl
            elif kind in ("last=mean", "except-first"): hs[-1] *= 1.0 + dl
        tot = math.fsum(hs)
        if kind == "sym0":
            half = hs[(N - 1) // 2:] if N % 2 == 1 else [hs[(N - 1) // 2] / 2.0] + hs[(N - 1) // 2 + 1:]
            pos = []; acc = 0.0
            for h in half: acc += h; pos.append(acc)
            xs = [-v for v in reversed(pos)] + ([0.0] if N % 2 == 1 else []) + pos
        else:
            if dy: x0 = rng.choice([0.0, rng.randint(-64, 64) / 8.0, -round(tot * 4) / 8.0])
            else: x0 = rng.choice([0.0, -tot * rng.uniform(0.2, 0.8), tot * rng.uniform(-3, 3)])
            if kind == "integers": x0 = float(pts[0])
            xs = [x0]
            for h in hs: xs.append(xs[-1] + h)
        if dy and rng.random() < 0.3:
            k2 = 2.0 ** rng.randint(-30, 30); xs = [x * k2 for x in xs]
        if len(xs) == N and all(b - a > 1e-10 * max(abs(a), abs(b)) for a, b in zip(xs, xs[1:])): return xs, kind, dy
        kind = rng.choice(STRUCT_X)
    return [float(i) for i in range(N)], "uniform", True


def exact_or_none(fr):
    """the double equal to the rational fr, or None"""
    v = float(fr)
    return v if Fraction(v) == fr else None


def struct_ys(rng, xs, kind=None):
    """ordinates with coincidences: exactly representable line / parabola data (limiter inactive), exactly vanishing sum / mean / prefix
    sum, antisymmetric, symmetric, first = last, y = x, constant, identically zero ..., each optionally detuned by the ladder"""
    N = len(xs); kind = kind or rng.choice(STRUCT_Y); L = xs[-1] - xs[0]; c = 0.5 * (xs[0] + xs[-1])
    dl = rng.choice(LADDER); ys = None
    if kind in ("parabola", "line"):
        X = [Fraction(x) for x in xs]
        # a power of two of the order of L / 4096: in units of it the abscissae of a dyadic grid are short integers, so that
        # the ordinates below are exactly representable (checked; otherwise generic ordinates are used instead)
        g = Fraction(2) ** (math.frexp(L)[1] - 12)
        if kind == "line":
            mm = Fraction(rng.randint(-40, 40), 8); qq = Fraction(rng.randint(-100, 100), 4)
            if rng.random() < 0.1: mm = Fraction(0)
            if rng.random() < 0.2: qq = -mm * (X[rng.randrange(N)] / g)                    # a line through zero at a knot
            Y = [mm * (x / g) + qq for x in X]
        else:
            # vertex at or outside an end of the table: |p_i| <= 2 min |s| at every knot, the limiter stays inactive
            D = Fraction(L) * rng.choice([0, Fraction(1, 4), 1, 4]); v = X[0] - D if rng.random() < 0.5 else X[-1] + D
            al = Fraction(rng.choice([-1, 1]) * rng.randint(1, 16), 4); ga = Fraction(rng.randint(-20, 20), 2)
            if rng.random() < 0.3: ga = Fraction(0)
            Y = [al * ((x - v) / g) ** 2 + ga for x in X]
        ys = [exact_or_none(y) for y in Y]
        if any(y is None for y in ys): ys = None; kind = "generic"
        elif rng.random() < 0.3:
            k2 = 2.0 ** rng.randint(-60, 60); ys = [y * k2 for y in ys]
    if kind == "zero-sum-dyadic":
        ys = [rng.randint(-64, 64) / 4.0 for _ in xs]; k = rng.randrange(N); ys[k] = 0.0; ys[k] = -sum(ys)
        k2 = 2.0 ** rng.randint(-60, 60) if rng.random() < 0.4 else 1.0; ys = [y * k2 for y in ys]
    elif kind == "zero-sum-float":
        sc = 10 ** rng.uniform(-20, 20) if rng.random() < 0.4 else 1.0
        ys = [sc * rng.gauss(0, 1) for _ in xs]; acc = 0.0
        for y in ys[:-1]: acc += y
        ys[-1] = -acc * (1.0 + dl)                               # the left-to-right double sum vanishes exactly when dl = 0
    elif kind == "antisym":
        sc = 10 ** rng.uniform(-20, 20) if rng.random() < 0.4 else 1.0
        ys = [sc * rng.gauss(0, 1) for _ in xs]
        for i in range(N // 2): ys[N - 1 - i] = -ys[i] * (1.0 + dl)
        if N % 2 == 1: ys[N // 2] = 0.0
    elif kind == "pairs":
        ys = []
        while len(ys) < N: v = rng.gauss(0, 1) * 10 ** rng.uniform(-3, 3); ys += [v, -v]
        ys = ys[:N]
        if N % 2 == 1: ys[-1] = 0.0
    elif kind == "odd":
        gk = rng.choice(["u", "u3", "sin", "uabs"]); w = 10 ** rng.uniform(-3, 3)
        f = {"u": lambda t: w * t, "u3": lambda t: w * t * t * t, "sin": lambda t: w * math.sin(3 * t / L), "uabs": lambda t: w * t * abs(t)}[gk]
        ys = [f(x - c) for x in xs]
    elif kind == "even":
        gk = rng.choice(["u2", "abs", "cos"]); w = 10 ** rng.uniform(-3, 3)
        f = {"u2": lambda t: w * t * t, "abs": lambda t: w * abs(t), "cos": lambda t: w * math.cos(3 * t / L)}[gk]
        ys = [f(x - c) - (f(xs[0] - c) if rng.random() < 0.3 else 0.0) for x in xs]
    elif kind == "first=last":
        ys, _m = gen_ys(rng, N, xs); ys[-1] = ys[0] * (1.0 + dl)
    elif kind == "identity": ys = [x * (1.0 + dl) for x in xs]
    elif kind == "neg-identity": ys = [-x for x in xs]
    elif kind == "index": ys = [float(i) for i in range(N)]
    elif kind == "const": v = rng.choice([1.0, -1.0, rng.gauss(0, 1) * 10 ** rng.uniform(-20, 20)]); ys = [v] * N
    elif kind == "all-zero": ys = [0.0] * N
    elif kind == "alternating":
        v = rng.choice([1.0, rng.gauss(0, 1) * 10 ** rng.uniform(-20, 20)]); ys = [v if i % 2 == 0 else -v * (1.0 + dl) for i in range(N)]
    elif kind == "zero-prefix":
        ys, _m = gen_ys(rng, N, xs); k = rng.randrange(1, N); acc = 0.0
        for y in ys[:k]: acc += y
        ys[k] = -acc
    elif kind == "zero-mean-smooth":
        ys, _m = gen_ys(rng, N, xs, "smooth"); mu = math.fsum(ys) / N; ys = [y - mu for y in ys]
    if ys is None:
        ys, m2 = gen_ys(rng, N, xs); kind = "generic-" + m2
    return ys, kind


def pow2_dims(rng):
    r = rng.random()
    if r < 0.6: return -1.0, -1.0
    return rng.choice([-1.0, 2.0 ** rng.randint(-20, 20)]), rng.choice([-1.0, 2.0 ** rng.randint(-20, 20)])


def struct_cases_1d(rng, n):
    cs = []
    # every kind of grid with exactly representable parabola data (inactive limiter: the one place where the clause "parabola data are
    # reproduced exactly" decides the interval weights) and with straight-line data, then the random products
    fixed = [(k, N, yk) for k in STRUCT_X for N, yk in ((4, "parabola"), (6, "parabola"), (9, "parabola"), (7, "line"))]
    for it in range(n):
        N = rng.choice([3, 4, 4, 5, 5, 6, 6, 7, 8, 9, 10, 12, 16, 25, 40, 90])
        r = rng.random()
        if it < len(fixed):
            k, N, yk0 = fixed[it]; xs, xk, dy = struct_xs(rng, N, k, True); ys, yk = struct_ys(rng, xs, yk0)
        else:
            if r < 0.75: xs, xk, dy = struct_xs(rng, N)
            else: xs, xk = gen_xs(rng, N); dy = xk == "dyadic"
            ys, yk = struct_ys(rng, xs, None if r < 0.9 else "generic")
        xd, fd = pow2_dims(rng)
        sx = scaled(xd, xs); tags = ("1d", "struct", "x:" + xk, "y:" + yk)
        w = rng.random()
        if w < 0.72: cs.append(Case(line1("t1", xd, fd, xs, ys, queries_for(rng, sx)), tags))
        elif w < 0.86: cs.append(Case(line1("h1", xd, fd, xs, ys, history_queries(rng, sx, 40) + queries_for(rng, sx)), tags + ("history",)))
        else:
            rows = [[x, y] for x, y in zip(xs, ys)]; qs = queries_for(rng, sx)
            cs.append(Case(f"tr {hx(xd)} {hx(fd)} {len(rows)} " + " ".join(flist(r) for r in rows) + f" {len(qs)} " + " ".join(qs), tags + ("rows",)))
    return cs


# 2-D: how the two axes relate to each other
STRUCT_AX = ["same", "same-ends", "same-ends", "same-ends-dims", "mirror", "one-knot", "same-size", "same-first", "same-last", "diff-size-same-ends", "unrelated"]


def inner_points(rng, a, b, n, dy):
    """n distinct increasing points strictly inside (a, b)"""
    for _ in range(20):
        if dy:
            st = math.ulp(max(abs(a), abs(b))) * 2.0 ** 40; st = min(st, (b - a) / (4 * n + 4)); st = 2.0 ** math.floor(math.log2(st))
            K = int((b - a) / st)
            if K - 1 < n: continue
            pts = [a + k * st for k in sorted(rng.sample(range(1, K), n))]
        else: pts = sorted(a + (b - a) * rng.uniform(0.02, 0.98) for _k in range(n))
        v = [a] + pts + [b]
        if all(q - p > 1e-10 * max(abs(p), abs(q)) for p, q in zip(v, v[1:])): return pts
    return [a + (b - a) * (k + 1.0) / (n + 1.0) for k in range(n)]


def struct_cases_2d(rng, n, malformed=True):
    cs = []
    fixed = [(rel, N) for rel in sorted(set(STRUCT_AX)) for N in (3, 5)]      # every relation between the axes at least twice per run
    for it in range(n):
        N = rng.choice([3, 3, 4, 4, 5, 6, 8, 12]); rel = rng.choice(STRUCT_AX)
        if it < len(fixed): rel, N = fixed[it]
        if rng.random() < 0.6: xs, xk, dy = struct_xs(rng, N)
        else: xs, xk = gen_xs(rng, N); dy = False
        xd = yd = fd = -1.0; dl = rng.choice(LADDER)
        if rel == "same": ys = list(xs)
        elif rel in ("same-ends", "same-ends-dims"):
            ys = [xs[0]] + inner_points(rng, xs[0], xs[-1], N - 2, dy) + [xs[-1] * (1.0 + (dl if xs[-1] != 0 and abs(dl) < 1e-7 and not dy else 0.0))]
            if rel == "same-ends-dims":      # the axes coincide at the ends only after the unit factors are applied (powers of two: exact)
                k2 = 2.0 ** rng.randint(-12, 12); ys = [y / k2 for y in ys]; yd = k2
                if rng.random() < 0.5: k3 = 2.0 ** rng.randint(-12, 12); xs = [x / k3 for x in xs]; xd = k3
        elif rel == "mirror":
            ys = [xs[0] + (xs[-1] - xs[N - 1 - i]) for i in range(N)]; ys[0] = xs[0]; ys[-1] = xs[-1]
        elif rel == "one-knot":
            ys = list(xs); k = rng.randrange(1, N - 1); ys[k] = inner_points(rng, xs[k - 1], xs[k + 1], 1, False)[0]
        elif rel == "same-size": ys, _k, _d = struct_xs(rng, N)
        elif rel == "same-first": ys = [xs[0]] + inner_points(rng, xs[0], xs[0] + (xs[-1] - xs[0]) * rng.uniform(0.3, 3), N - 1, False)
        elif rel == "same-last":
            lo = xs[-1] - (xs[-1] - xs[0]) * rng.uniform(0.3, 3); ys = inner_points(rng, lo, xs[-1], N - 1, False) + [xs[-1]]
        elif rel == "diff-size-same-ends":
            M = rng.choice([k for k in (2, 3, 4, 5, 7, 9) if k != N]); ys = [xs[0]] + inner_points(rng, xs[0], xs[-1], M - 2, dy) + [xs[-1]]
        else: ys, _k = gen_xs(rng, rng.choice([2, 3, 5, 8]))
        if not all(b > a for a, b in zip(ys, ys[1:])): ys = list(xs); rel = "same"
        Nx, Ny = len(xs), len(ys)
        sx, sy = scaled(xd, xs), scaled(yd, ys)
        fm = rng.choice(["random", "smooth", "bilinear", "symmetric", "antisymmetric", "zero", "x+y", "plateau", "mixedmag", "zero-sum-rows"])
        sc = 10 ** rng.uniform(-20, 20) if rng.random() < 0.3 else 1.0
        if fm == "bilinear":
            X = [Fraction(v) for v in sx]; Y = [Fraction(v) for v in sy]
            gx = Fraction(2) ** (math.frexp(max(abs(v) for v in sx) or 1.0)[1] - 10); gy = Fraction(2) ** (math.frexp(max(abs(v) for v in sy) or 1.0)[1] - 10)
            A, B, Cc, D = [Fraction(rng.randint(-8, 8), 2) for _k in range(4)]
            f = [[exact_or_none(A + B * (x / gx) + Cc * (y / gy) + D * (x / gx) * (y / gy)) for y in Y] for x in X]
            if any(v is None for row in f for v in row): fm = "random"
        if fm == "random": f = [[sc * rng.gauss(0, 1) for _y in ys] for _x in xs]
        elif fm == "smooth": f = [[sc * math.sin(3 * (x - xs[0]) / (xs[-1] - xs[0]) + 2 * (y - ys[0]) / (ys[-1] - ys[0])) for y in ys] for x in xs]
        elif fm in ("symmetric", "antisymmetric"):
            sgn = 1.0 if fm == "symmetric" else -1.0
            f = [[sc * rng.gauss(0, 1) for _y in ys] for _x in xs]
            for i in range(Nx):
                for j in range(Ny):
                    if i < j and j < Nx and i < Ny: f[j][i] = sgn * f[i][j]
                    if i == j and sgn < 0: f[i][j] = 0.0
        elif fm == "zero": f = [[0.0 for _y in ys] for _x in xs]
        elif fm == "x+y": f = [[x + y for y in sy] for x in sx]
        elif fm == "plateau": f = [[sc * rng.choice([0.0, 1.0, -1.0]) for _y in ys] for _x in xs]
        elif fm == "mixedmag": f = [[rng.choice([-1, 1]) * 10 ** rng.uniform(-20, 20) for _y in ys] for _x in xs]
        elif fm == "zero-sum-rows":
            f = [[float(rng.randint(-64, 64)) for _y in ys] for _x in xs]
            for row in f: row[-1] = 0.0; row[-1] = -sum(row)
        if rng.random() < 0.25: fd = 2.0 ** rng.randint(-20, 20)
        tags = ("2d", "struct", "axes:" + rel, "f:" + fm) + (("bilinear",) if fm == "bilinear" else ())
        cells = [(i, j) for i in range(Nx - 1) for j in range(Ny - 1)]
        w = rng.random()
        if w < 0.2:      # the data-table constructor (rows x, y, f in x-major order); cells and nodes are expanded into I queries
            rows = [[xs[i], ys[j], f[i][j]] for i in range(Nx) for j in range(Ny)]; qs = []; bad = malformed and rng.random() < 0.2
            if bad:
                v = rng.random()
                if v < 0.2: rows.pop(rng.randrange(len(rows)))
                elif v < 0.4: rows = [[xs[i], ys[j], f[i][j]] for j in range(Ny) for i in range(Nx)]       # y-major order
                elif v < 0.55: rows[rng.randrange(len(rows))] = rng.choice([[1.0, 2.0], [1.0, 2.0, 3.0, 4.0], []])
                elif v < 0.7: rows.append(list(rng.choice(rows)))
                elif v < 0.85: rng.shuffle(rows)
                else: rows.reverse()
                tags = ("2d", "struct", "table-ctor", "malformed")
            else: tags += ("table-ctor",)
            for (i, j) in (cells if len(cells) <= 6 else rng.sample(cells, 6)):
                m = 2
                for a in range(m + 1):
                    for b in range(m + 1):
                        x = sx[i + 1] if a == m else sx[i] + (sx[i + 1] - sx[i]) * a / m; y = sy[j + 1] if b == m else sy[j] + (sy[j + 1] - sy[j]) * b / m
                        qs.append(f"I {hx(x)} {hx(y)}")
            cs.append(Case(f"t3 {hx(xd)} {hx(yd)} {hx(fd)} {len(rows)} " + " ".join(flist(r) for r in rows) + f" {len(qs)} " + " ".join(qs), tags))
            continue
        qs = []
        for (i, j) in (cells if len(cells) <= 9 else rng.sample(cells, 9)):
            qs.append(f"C {i} {j} {rng.choice([2, 4])}")
            x = sx[i] + (sx[i + 1] - sx[i]) * rng.random(); y = sy[j] + (sy[j + 1] - sy[j]) * rng.random()
            if sx[i] <= x <= sx[i + 1] and sy[j] <= y <= sy[j + 1]:
                qs.append(f"I {hx(x)} {hx(y)}")
                qs.append(f"I {hx(math.nextafter(sx[i + 1], -math.inf))} {hx(y)}"); qs.append(f"I {hx(sx[i + 1])} {hx(y)}")
                qs.append(f"I {hx(x)} {hx(math.nextafter(sy[j + 1], -math.inf))}"); qs.append(f"I {hx(x)} {hx(sy[j + 1])}")
        nodes = [(i, j) for i in range(Nx) for j in range(Ny)]
        for (i, j) in (nodes if len(nodes) <= 36 else rng.sample(nodes, 36)): qs.append(f"I {hx(sx[i])} {hx(sy[j])}")
        op = "t2" if w < 0.75 else "h2"
        if op == "h2": rng.shuffle(qs); tags += ("history",)
        cs.append(Case(f"{op} {hx(xd)} {hx(yd)} {hx(fd)} {flist(xs)} {flist(ys)} {len(f)} " + " ".join(flist(r) for r in f) + f" {len(qs)} " + " ".join(qs), tags))
    return cs


# tables on which the unit conversion collapses neighbouring abscissae (finding F45, repaired in /repo 94355d7: the strict-increase test runs
# on the CONVERTED abscissae).  Abscissae 1..3 ulp apart, strictly increasing as given, with an x_dim whose rounding multiplication sends
# two of them onto one double; tables whose top (bottom) overflows to inf, inf (-inf, -inf); subnormal abscissae halved onto each other.
# Expected: exit in the constructor.  The near misses (same construction, no two converted abscissae equal) must be accepted.
COLLAPSE_DIMS = [0.6, 0.1, 1.0 / 3.0, 0.3, 0.7, 0.9, 1e-3, 0.15, 2.0 / 3.0, 1.1, 1.7, 3.3, 1e3]


def collapse_table(rng):
    """(xs, ys, xd, kind) with xs strictly increasing as given; kind in collapse / near / overflow / subnormal"""
    r = rng.random()
    N = rng.choice([3, 4, 5, 7, 9, 12])
    if r < 0.7:
        want_near = rng.random() < 0.3
        for _ in range(200):
            xd = rng.choice(COLLAPSE_DIMS) if rng.random() < 0.8 else 10 ** rng.uniform(-3, 3)
            v = rng.choice([1.9, rng.uniform(1.0, 2.0), rng.uniform(0.5, 100.0), -rng.uniform(0.5, 100.0), 10 ** rng.uniform(-8, 8)])
            m = rng.choice([2, 3, 3, 4]); cl = [v]
            for _k in range(m - 1):
                nx = cl[-1]
                for _u in range(rng.choice([1, 1, 2, 3])): nx = math.nextafter(nx, math.inf)
                cl.append(nx)
            w = abs(v) * rng.choice([0.05, 0.5, 1.0]) + 1e-300
            nl = rng.randint(0, N - 1); nr = max(0, N - 1 - nl)
            left = [cl[0] - w * (k + 1) * rng.uniform(0.5, 1.0) - w * k for k in range(nl)][::-1]
            right = [cl[-1] + w * (k + 1) * rng.uniform(0.5, 1.0) + w * k for k in range(nr)]
            xs = left + cl + right
            if not all(b > a for a, b in zip(xs, xs[1:])): continue
            sx = scaled(xd, xs); col = any(b <= a for a, b in zip(sx, sx[1:]))
            if col != want_near:
                k0 = len(left); yv = rng.gauss(0, 1)
                ys = [float(i) * rng.choice([1.0, -0.5]) + rng.gauss(0, 0.1) for i in range(len(xs))]
                if not col:
                    for i in range(max(0, k0 - 1), min(len(xs), k0 + m + 1)): ys[i] = yv          # plateau over the cluster and its neighbours
                return xs, ys, xd, "collapse" if col else "near"
    if rng.random() < 0.75:
        # top (or, mirrored, bottom) of the table overflows: >= 2 converted abscissae are inf (-inf)
        xd = rng.choice([2.0, 10.0, 1e3, 1.0000000000000002, 1.5])
        big = sys.float_info.max / xd; cand = set()
        while len(cand) < rng.choice([2, 2, 3]):
            t = big * (1.0 + rng.uniform(1e-3, 0.5)) if rng.random() < 0.6 else sys.float_info.max * (1.0 - rng.randint(0, 3) * 2.0 ** -53)
            if t < math.inf and t * xd == math.inf: cand.add(t)
        top = sorted(cand)
        lo = sorted(set(rng.uniform(-1.0, 1.0) * big * 0.5 for _ in range(max(1, N - len(top)))))
        xs = lo + top
        if rng.random() < 0.3: xs = [-x for x in xs][::-1]
        return xs, [rng.gauss(0, 1) for _ in xs], xd, "overflow"
    # subnormal abscissae: the conversion scales neighbours down onto one double
    for _ in range(40):
        xd = rng.choice([0.5, 0.25, 0.6, 0.1])
        a = rng.randint(1, 40); xs = [(a + i) * 5e-324 for i in range(N)]
        if rng.random() < 0.5: xs = [x - (a + N // 2) * 5e-324 for x in xs]
        sx = scaled(xd, xs)
        if any(b <= a_ for a_, b in zip(sx, sx[1:])): break
    else: xd = 0.25      # three consecutive multiples of 2^-1074 divided by 4 never stay distinct
    return xs, [rng.gauss(0, 1) for _ in xs], xd, "subnormal"


def collapse_cases(rng, n):
    cs = []
    for _ in range(n):
        xs, ys, xd, kind = collapse_table(rng)
        fd = rng.choice([-1.0, -1.0, 2.0, 0.6])
        sx = scaled(xd, xs); ok = all(b > a for a, b in zip(sx, sx[1:]))
        if ok: qs = [f"{rng.choice(['I', 'L'])} {hx(x)}" for x in sx]
        else: qs = [f"{rng.choice(['I', 'L', 'D 1'])} {hx(rng.choice(sx))}"]
        tags = ("1d", "unit-collapse", kind)
        w = rng.random()
        if w < 0.55: cs.append(Case(line1("t1", xd, fd, xs, ys, qs), tags))
        elif w < 0.7: cs.append(Case(line1("h1", xd, fd, xs, ys, qs), tags))
        elif w < 0.85:
            rows = [[x, y] for x, y in zip(xs, ys)]
            cs.append(Case(f"tr {hx(xd)} {hx(fd)} {len(rows)} " + " ".join(flist(r) for r in rows) + f" {len(qs)} " + " ".join(qs), ("rows",) + tags[1:]))
        elif not ok:
            # the same on one axis of a 2-D grid (Interpolation_2D converts first and hands the converted axis to Interpolation)
            oth = [0.0, 1.0, 3.0]; f = [[rng.gauss(0, 1) for _y in oth] for _x in xs]
            if rng.random() < 0.5:
                cs.append(Case(f"t2 {hx(xd)} {hx(-1.0)} {hx(fd)} {flist(xs)} {flist(oth)} {len(f)} " + " ".join(flist(r) for r in f) + f" 1 I {hx(sx[0])} {hx(0.0)}", ("2d",) + tags[1:]))
            else:
                ft = [[f[i][j] for i in range(len(xs))] for j in range(len(oth))]
                cs.append(Case(f"t2 {hx(-1.0)} {hx(xd)} {hx(fd)} {flist(oth)} {flist(xs)} {len(ft)} " + " ".join(flist(r) for r in ft) + f" 1 I {hx(0.0)} {hx(sx[0])}", ("2d",) + tags[1:]))
        else: cs.append(Case(line1("t1", xd, fd, xs, ys, qs), tags))
    # the reported table of F45
    v = 1.9; xs = [0.0, 1.0, v, math.nextafter(v, 2.0), math.nextafter(math.nextafter(v, 2.0), 2.0), 2.0, 3.0]
    cs.append(Case(line1("t1", 0.6, -1.0, xs, [float(i) for i in range(7)], ["I " + hx(float.fromhex("0x1.23d70a3d70a3ep+0"))]), ("1d", "unit-collapse", "collapse", "F45")))
    return cs


# ------------------------------------------------------------------------------------------------ sessions (object re-use)
def remap(xs, a, b):
    """the grid xs mapped affinely onto [a, b] (end points exact); None when the spacings are no longer resolved"""
    x0, x1 = xs[0], xs[-1]
    v = [a] + [a + (x - x0) * ((b - a) / (x1 - x0)) for x in xs[1:-1]] + [b]
    return v if all(q - p > 1e-10 * max(abs(p), abs(q)) for p, q in zip(v, v[1:])) else None


def variant_grid(rng, xs):
    """another grid related to xs: the same, refined, coarsened, an independent one on the same interval, a shifted / stretched one"""
    N = len(xs); a, b = xs[0], xs[-1]; r = rng.random()
    if r < 0.15: return list(xs), "same-grid"
    if r < 0.35:
        v = []
        for p, q in zip(xs, xs[1:]):
            v.append(p)
            if rng.random() < 0.5:
                m = p + (q - p) * rng.choice([0.5, rng.uniform(0.1, 0.9)])
                if p < m < q and m - p > 1e-10 * abs(m) and q - m > 1e-10 * abs(m): v.append(m)
        return v + [b], "refined"
    if r < 0.55 and N >= 5:
        keep = [0] + sorted(rng.sample(range(1, N - 1), rng.randint(1, N - 3))) + [N - 1]
        return [xs[i] for i in keep], "coarsened"
    if r < 0.85:
        M = rng.choice([3, 4, 5, 8, 13, 30, 2 * N + 1])
        if rng.random() < 0.5: g, _k, _d = struct_xs(rng, M)
        else: g, _k = gen_xs(rng, M)
        v = remap(g, a, b)
        if v: return v, "independent"
        return list(xs), "same-grid"
    L = b - a; sh = L * rng.uniform(-0.4, 0.4); st = rng.choice([1.0, rng.uniform(0.7, 1.5)])
    v = [a + sh + (x - a) * st for x in xs]
    if all(q - p > 1e-10 * max(abs(p), abs(q)) for p, q in zip(v, v[1:])): return v, "shifted"
    return list(xs), "same-grid"


def unit_split(rng, sx, sy):
    """constructor arguments (xd, fd, xs0, ys0) whose converted table is exactly (sx, sy): powers of two"""
    xd = fd = -1.0; xs0, ys0 = list(sx), list(sy)
    if rng.random() < 0.25:
        xd = 2.0 ** rng.randint(-20, 20); xs0 = [x / xd for x in sx]
        if scaled(xd, xs0) != list(sx): xd = -1.0; xs0 = list(sx)
    if rng.random() < 0.25:
        fd = 2.0 ** rng.randint(-20, 20); ys0 = [y / fd for y in sy]
        if scaled(fd, ys0) != list(sy): fd = -1.0; ys0 = list(sy)
    return xd, fd, xs0, ys0


def request_at(rng, sx, x, kind=None):
    """one request at the point x for the (converted) table sx, or None when x is outside what the object answers"""
    j = locate_ref(sx, x)
    if j is None: return None
    kind = kind or rng.choice(["I", "L", "D0", "D1", "D1", "D2", "D3", "D4", "K", "V", "V", "F"])
    if kind in ("V", "F"):
        lo, hi = sx[j], sx[j + 1]
        if not (lo < x < hi): kind = "D" + str(rng.choice([1, 2, 3]))
        else:
            d = min(x - lo, hi - x) / rng.choice([2.5, 4.0, 16.0])
            if not (d > 0 and lo < x - 2 * d and x + 2 * d < hi and x - d < x < x + d): kind = "D" + str(rng.choice([1, 2, 3]))
            else: return f"{kind} {hx(x)} {hx(d)}"
    if kind == "K":
        if locate_ref(sx, math.nextafter(x, -math.inf)) is None or locate_ref(sx, math.nextafter(x, math.inf)) is None: kind = "I"
    if kind[0] == "D": return f"D {kind[1:]} {hx(x)}"
    return f"{kind} {hx(x)}"


MODES = ["a", "a", "p", "p", "h", "s"]


def session_layout(rng, ntab):
    """segments (kind, mode, slot, src, table index): mostly one slot that receives one table after the other (by assignment, by
    construction in place, on the heap, as a function-local object), sometimes a second / third slot interleaved, copies, resumptions"""
    style = rng.choice(["one-slot", "one-slot", "one-slot", "two-slots", "copies", "free"])
    segs = []; filled = {}; ti = 0
    mode0 = rng.choice(MODES)
    while ti < ntab:
        if style == "one-slot": k = 0
        elif style == "two-slots": k = ti % 2 if rng.random() < 0.7 else rng.randrange(2)
        else: k = rng.randrange(3 if style == "free" else 2)
        mode = mode0 if rng.random() < 0.7 else rng.choice(MODES)
        segs.append(("A", mode, k, None, ti)); filled[k] = ti; ti += 1
        if style in ("copies", "free") and rng.random() < 0.5 and filled:
            src = rng.choice(sorted(filled)); dst = rng.randrange(4)
            if dst != src: segs.append(("C", None, dst, src, filled[src])); filled[dst] = filled[src]
        if style != "one-slot" and rng.random() < 0.4 and filled:
            k2 = rng.choice(sorted(filled)); segs.append(("R", None, k2, None, filled[k2]))
    return segs, style


def session_cases_1d(rng, n):
    cs = []
    for _ in range(n):
        ntab = rng.choice([2, 2, 3, 3, 4, 6])
        N = rng.choice([3, 4, 5, 7, 9, 12, 20, 40])
        if rng.random() < 0.5: xs, xk, _dy = struct_xs(rng, N)
        else: xs, xk = gen_xs(rng, N)
        tabs = []; kinds = []
        for t in range(ntab):
            if t == 0: g, gk = list(xs), "base"
            else: g, gk = variant_grid(rng, rng.choice([xs, tabs[-1][0]]))
            if rng.random() < 0.12 and t > 0: ys = list(tabs[-1][1]) if len(tabs[-1][1]) == len(g) else gen_ys(rng, len(g), g)[0]
            elif rng.random() < 0.3: ys, _k = struct_ys(rng, g)
            else: ys, _k = gen_ys(rng, len(g), g)
            tabs.append((g, ys)); kinds.append(gk)
        lo = max(t[0][0] for t in tabs); hi = min(t[0][-1] for t in tabs)
        # the pool of request points: few, so that the same argument meets different tables and different objects again and again
        pool = []
        for _k in range(rng.choice([1, 2, 3, 5])):
            w = rng.random(); g = rng.choice(tabs)[0]
            if w < 0.45 and lo < hi: x = lo + (hi - lo) * rng.random()
            elif w < 0.7: x = rng.choice(g)
            elif w < 0.8: x = math.nextafter(rng.choice(g), rng.choice([-math.inf, math.inf]))
            elif w < 0.9: x = rng.choice([g[0] - 1e-2 * (g[1] - g[0]) * rng.uniform(0, 0.99), g[-1] + 1e-2 * (g[-1] - g[-2]) * rng.uniform(0, 0.99)])
            else: j = rng.randrange(len(g) - 1); x = g[j] + (g[j + 1] - g[j]) * rng.random()
            pool.append(x)
        layout, style = session_layout(rng, ntab)
        parts = []; last = None
        for (kind, mode, k, src, ti) in layout:
            sx, sy = tabs[ti]; qs = []
            # the request that ended the previous segment, repeated verbatim (same kind where the table allows it) right after the change
            if last is not None and rng.random() < 0.6:
                q = request_at(rng, sx, last[1], last[0] if rng.random() < 0.5 else None)
                if q: qs.append(q)
            for _q in range(rng.choice([1, 2, 4, 8])):
                q = request_at(rng, sx, rng.choice(pool))
                if q: qs.append(q)
            if not qs: qs.append(f"I {hx(sx[rng.randrange(len(sx))])}")
            if rng.random() < 0.5:
                # finish on a derivative / value request at a pool point that the next table may meet first
                x = rng.choice(pool); q = request_at(rng, sx, x, rng.choice(["D1", "D2", "D3", "V", "F", "I", "L"]))
                if q: qs.append(q)
            lq = qs[-1].split(); last = ({"D": "D" + lq[1]}.get(lq[0], lq[0]), float.fromhex(lq[2] if lq[0] == "D" else lq[1]))
            if kind == "A":
                xd, fd, xs0, ys0 = unit_split(rng, sx, sy)
                parts.append(f"A {mode} {k} {hx(xd)} {hx(fd)} {flist(xs0)} {flist(ys0)} {len(qs)} " + " ".join(qs))
            elif kind == "C": parts.append(f"C {k} {src} {len(qs)} " + " ".join(qs))
            else: parts.append(f"R {k} {len(qs)} " + " ".join(qs))
        cs.append(Case(f"s1 {len(parts)} " + " ".join(parts), ("1d", "session", "slots:" + style, "x:" + xk) + tuple(sorted(set("grid:" + g for g in kinds)))))
    return cs


def session_cases_2d(rng, n):
    cs = []
    for _ in range(n):
        ntab = rng.choice([2, 2, 3, 4])
        xs, _k = gen_xs(rng, rng.choice([2, 3, 4, 6])) if rng.random() < 0.5 else struct_xs(rng, rng.choice([3, 4, 6]))[:2]
        ys, _k = gen_xs(rng, rng.choice([2, 3, 5])) if rng.random() < 0.5 else struct_xs(rng, rng.choice([3, 5]))[:2]
        tabs = []
        for t in range(ntab):
            gx = list(xs) if t == 0 else variant_grid(rng, xs)[0]; gy = list(ys) if t == 0 else variant_grid(rng, ys)[0]
            fm = rng.choice(["random", "plateau", "mixedmag", "x+y"]); sc = 10 ** rng.uniform(-20, 20) if rng.random() < 0.3 else 1.0
            if fm == "random": f = [[sc * rng.gauss(0, 1) for _y in gy] for _x in gx]
            elif fm == "plateau": f = [[sc * rng.choice([0.0, 1.0, -1.0]) for _y in gy] for _x in gx]
            elif fm == "mixedmag": f = [[rng.choice([-1, 1]) * 10 ** rng.uniform(-20, 20) for _y in gy] for _x in gx]
            else: f = [[x + y for y in gy] for x in gx]
            tabs.append((gx, gy, f))
        pool = []
        for _k in range(rng.choice([1, 2, 4])):
            gx, gy, _f = rng.choice(tabs)
            def pick(g):
                w = rng.random()
                if w < 0.5: j = rng.randrange(len(g) - 1); return g[j] + (g[j + 1] - g[j]) * rng.random()
                if w < 0.85: return rng.choice(g)
                return math.nextafter(rng.choice(g), rng.choice([-math.inf, math.inf]))
            pool.append((pick(gx), pick(gy)))
        layout, style = session_layout(rng, ntab); parts = []
        for (kind, mode, k, src, ti) in layout:
            gx, gy, f = tabs[ti]; qs = []
            for _q in range(rng.choice([1, 2, 4, 8])):
                x, y = rng.choice(pool)
                if locate_ref(gx, x) is not None and locate_ref(gy, y) is not None: qs.append(f"I {hx(x)} {hx(y)}")
            if rng.random() < 0.5 or not qs: qs.append(f"C {rng.randrange(len(gx) - 1)} {rng.randrange(len(gy) - 1)} 2")
            if kind == "A":
                xd = yd = fd = -1.0; x0, y0, f0 = gx, gy, f
                if rng.random() < 0.25:
                    k2 = 2.0 ** rng.randint(-12, 12); t0 = [x / k2 for x in gx]
                    if scaled(k2, t0) == list(gx): xd, x0 = k2, t0
                parts.append(f"A {mode} {k} {hx(xd)} {hx(yd)} {hx(fd)} {flist(x0)} {flist(y0)} {len(f0)} " + " ".join(flist(r) for r in f0) + f" {len(qs)} " + " ".join(qs))
            elif kind == "C": parts.append(f"C {k} {src} {len(qs)} " + " ".join(qs))
            else: parts.append(f"R {k} {len(qs)} " + " ".join(qs))
        cs.append(Case(f"s2 {len(parts)} " + " ".join(parts), ("2d", "session", "slots:" + style)))
    return cs


def default_cases(rng, n):
    """the default constructors Interpolation() / Interpolation_2D(): all request kinds on the domain and in the 1 % zone, and both sides
    of the exit guard (+-1.01, their neighbours, far outside, inf, nan)"""
    ax = list(DEFAULT_AXIS); cs = []
    edge = [-1.01, 1.01, math.nextafter(-1.01, 0.0), math.nextafter(1.01, 0.0), math.nextafter(-1.01, -2.0), math.nextafter(1.01, 2.0),
            -1.0099, 1.0099, -1.02, 1.5, -3.0, math.inf, -math.inf, math.nan, math.nextafter(-1.0, -2.0), math.nextafter(1.0, 2.0)]
    for k in range(n):
        w = k % 4
        if w == 0:
            qs = queries_for(rng, ax)
            for _ in range(6):
                x = rng.uniform(-1.0099, 1.0099); qs += [f"I {hx(x)}", f"D {rng.choice([0, 1, 2, 3, 4, 9])} {hx(x)}", f"L {hx(x)}"]
            cs.append(Case(f"d1 {len(qs)} " + " ".join(qs), ("1d", "default")))
        elif w == 1:
            qs = [f"C {i} {j} {rng.choice([2, 4])}" for i in (0, 1) for j in (0, 1)]
            for _ in range(8):
                qs.append(f"I {hx(rng.uniform(-1.0099, 1.0099))} {hx(rng.uniform(-1.0099, 1.0099))}")
            qs += [f"I {hx(a)} {hx(b)}" for a in ax for b in ax]
            cs.append(Case(f"d2 {len(qs)} " + " ".join(qs), ("2d", "default")))
        elif w == 2:
            x = rng.choice(edge); q = rng.choice(["I", "L", "D 1", "D 0", "D 4", "K"])
            pre = [f"I {hx(rng.uniform(-1.0, 1.0))}"] if rng.random() < 0.5 else []
            cs.append(Case(f"d1 {len(pre) + 1} " + " ".join(pre + [f"{q} {hx(x)}"]), ("1d", "default", "edge-tolerance")))
        else:
            x = rng.choice(edge); y = rng.uniform(-1.0099, 1.0099)
            if rng.random() < 0.5: x, y = y, x
            cs.append(Case(f"d2 1 I {hx(x)} {hx(y)}", ("2d", "default", "edge-tolerance")))
    return cs


def regenerate():
    """T-tie: coq/Gen_C01_Formulas.v (libphysica::Sign(double), the sign function of the slope limiter) is regenerated from
    src/Special_Functions.cpp on every run; coq/C01_GenTie.v proves it equal to [sign1], the term the model's dy_i is written with."""
    import os, vbuild, cxx2gallina
    src = os.path.join(vbuild.REPO, "src", "Special_Functions.cpp")
    try:
        txt = cxx2gallina.translate_all(src, [cxx2gallina.Fn("Sign", ["double"], "g_Sign")], [os.path.join(vbuild.REPO, "include")])
    except cxx2gallina.Unsupported as e:
        raise RuntimeError(f"tools/cxx2gallina.py cannot translate libphysica::Sign(double): {e}")
    ch = cxx2gallina.write_if_changed(os.path.join(vbuild.VERIF, "coq", "Gen_C01_Formulas.v"), txt)
    return "Gen_C01_Formulas.v regenerated from the current source" if ch else ""


def generate(rng, tier):
    big = tier != "quick"; cs = []
    ntab = 6000 if big else 900
    for _ in range(ntab):
        N = pick_N(rng, big)
        kind = rng.random()
        if kind < 0.08:
            xs, ys = dyadic_table(rng, N, "line"); tags = ("1d", "line"); xd, fd = (-1.0, -1.0) if rng.random() < 0.7 else (rng.choice([0.5, 2.0, 4.0]), rng.choice([0.25, 2.0]))
        elif kind < 0.18:
            N = min(N, 60); xs, ys = dyadic_table(rng, N, "parabola"); tags = ("1d", "parabola"); xd, fd = (-1.0, -1.0) if rng.random() < 0.7 else (rng.choice([0.5, 2.0]), rng.choice([0.25, 2.0]))
        else:
            xs, xm = gen_xs(rng, N); ys, ym = gen_ys(rng, N, xs); tags = ("1d", "x:" + xm, "y:" + ym); xd, fd = pick_dims(rng)
        qs = queries_for(rng, scaled(xd, xs))
        cs.append(Case(line1("t1", xd, fd, xs, ys, qs), tags))
    # history mode: one live object, random-order query sequences on small tables
    for _ in range(1500 if big else 150):
        N = rng.randint(5, 40); xs, xm = gen_xs(rng, N); ys, ym = gen_ys(rng, N, xs); xd, fd = pick_dims(rng) if rng.random() < 0.3 else (-1.0, -1.0)
        qs = history_queries(rng, scaled(xd, xs), rng.choice([40, 80, 160]))
        cs.append(Case(line1("h1", xd, fd, xs, ys, qs), ("1d", "history", "x:" + xm, "y:" + ym)))
    # long histories: runs of 9 .. 1000 neighbouring requests on one live object, then probes in every direction (small tables, where
    # every request is near every other one, up to tables of a few hundred points)
    for k in range(600 if big else 56):
        N = rng.choice([3, 4, 5, 8, 10, 11, 12, 20, 40, 40, 80, 150, 300])
        if rng.random() < 0.3: xs, xm, _dy = struct_xs(rng, N)
        else: xs, xm = gen_xs(rng, N)
        ys, ym = gen_ys(rng, N, xs); xd, fd = pick_dims(rng) if rng.random() < 0.3 else (-1.0, -1.0)
        qs, stags = sweep_queries(rng, scaled(xd, xs), long_runs=(big or k % 8 == 0))
        cs.append(Case(line1("h1", xd, fd, xs, ys, qs), ("1d", "history", "sweep", "x:" + xm, "y:" + ym) + stags))
    # NaN argument: Locate terminates with a diagnostic
    for _ in range(60 if big else 12):
        N = rng.choice([3, 5, 9]); xs, xm = gen_xs(rng, N); ys, ym = gen_ys(rng, N, xs)
        q = rng.choice(["I", "L", "D 1", "D 0", "D 4", "K"])
        pre = [f"I {hx(xs[1])}"] if rng.random() < 0.5 else []
        cs.append(Case(line1(rng.choice(["t1", "h1"]), -1.0, -1.0, xs, ys, pre + [f"{q} nan"]), ("1d", "nan")))
    # N = 2 tables (straight line branch of the code; outside the property's quantifier, correspondence + line clause)
    for _ in range(60 if big else 12):
        xs, _m = gen_xs(rng, 2); ys, _m = gen_ys(rng, 2, xs)
        cs.append(Case(line1("t1", -1.0, -1.0, xs, ys, queries_for(rng, xs)), ("1d", "N=2")))
    # rows constructor
    for _ in range(300 if big else 30):
        N = rng.randint(3, 30); xs, xm = gen_xs(rng, N); ys, ym = gen_ys(rng, N, xs); xd, fd = pick_dims(rng)
        rows = [[x, y] for x, y in zip(xs, ys)]; bad = rng.random() < 0.25
        if bad: rows[rng.randrange(N)] = rng.choice([[1.0], [1.0, 2.0, 3.0], []])
        qs = queries_for(rng, scaled(xd, xs), 10) if not bad else ["I " + hx(xs[0])]
        cs.append(Case(f"tr {hx(xd)} {hx(fd)} {len(rows)} " + " ".join(flist(r) for r in rows) + f" {len(qs)} " + " ".join(qs), ("rows", "malformed" if bad else "ok")))
    # the exit guard of Locate: both sides of the 1 % tolerance, far outside, infinities
    for _ in range(1500 if big else 160):
        N = rng.choice([3, 4, 7, 20]); xs, xm = gen_xs(rng, N); ys, ym = gen_ys(rng, N, xs); xd, fd = pick_dims(rng)
        sx = scaled(xd, xs); tl = 1e-2 * (sx[1] - sx[0]); tr = 1e-2 * (sx[-1] - sx[-2])
        side = rng.random() < 0.5; base, t, sgn = (sx[0], tl, -1.0) if side else (sx[-1], tr, 1.0)
        r = rng.random()
        if r < 0.25: x = base + sgn * t
        elif r < 0.4: x = math.nextafter(base + sgn * t, base)
        elif r < 0.55: x = math.nextafter(base + sgn * t, sgn * math.inf)
        elif r < 0.7: x = base + sgn * t * rng.uniform(0.9, 1.1)
        elif r < 0.8: x = base + sgn * t * 10 ** rng.uniform(0, 6)
        elif r < 0.85: x = sgn * math.inf
        elif r < 0.9: x = base + sgn * (sx[-1] - sx[0]) * 1.5
        else: x = math.nextafter(base, sgn * math.inf)
        q = rng.choice(["I", "L", "D 1", "D 0", "D 4"])
        cs.append(Case(line1("t1", xd, fd, xs, ys, [f"{q} {hx(x)}"]), ("1d", "edge-tolerance")))
    # malformed tables
    for _ in range(300 if big else 40):
        N = rng.choice([0, 1, 2, 3, 5, 9]); r = rng.random()
        xs = [float(i) + rng.random() * 0.5 for i in range(N)]; ys = [rng.gauss(0, 1) for _ in range(N)]
        if r < 0.3 and N >= 2:
            k = rng.randrange(1, N); xs[k] = xs[k - 1] if rng.random() < 0.5 else xs[k - 1] - rng.choice([1e-9, 1.0])
        elif r < 0.6: ys = ys[:-1] if (ys and rng.random() < 0.5) else ys + [1.0]
        elif r < 0.7 and N >= 2: xs = xs[::-1]
        cs.append(Case(line1("t1", -1.0, -1.0, xs, ys, ["I " + hx(xs[0] if xs else 0.0)]), ("1d", "malformed")))
    # 2-D grids
    for _ in range(2500 if big else 300):
        Nx, Ny = rng.choice([2, 3, 4, 6, 9, 17]), rng.choice([2, 3, 5, 8, 21])
        r = rng.random()
        if r < 0.15:     # exactly bilinear dyadic data
            xs = [rng.randint(-32, 32) / 8.0]; ys = [rng.randint(-32, 32) / 8.0]
            for _k in range(Nx - 1): xs.append(xs[-1] + rng.randint(1, 16) / 8.0)
            for _k in range(Ny - 1): ys.append(ys[-1] + rng.randint(1, 16) / 8.0)
            A, B, Cc, D = [rng.randint(-8, 8) / 2.0 for _k in range(4)]
            f = [[A + B * x + Cc * y + D * x * y for y in ys] for x in xs]; tags = ("2d", "bilinear"); xd = yd = fd = -1.0
        else:
            xs, xm = gen_xs(rng, Nx); ys, ym = gen_xs(rng, Ny)
            fm = rng.choice(["random", "smooth", "mixedmag", "plateau", "spike"]); sc = 10 ** rng.uniform(-20, 20) if rng.random() < 0.4 else 1.0
            if fm == "random": f = [[sc * rng.gauss(0, 1) for _y in ys] for _x in xs]
            elif fm == "smooth": f = [[sc * math.sin(3 * (x - xs[0]) / (xs[-1] - xs[0]) + 2 * (y - ys[0]) / (ys[-1] - ys[0])) for y in ys] for x in xs]
            elif fm == "mixedmag": f = [[rng.choice([-1, 1]) * 10 ** rng.uniform(-20, 20) for _y in ys] for _x in xs]
            elif fm == "plateau": f = [[sc * rng.choice([0.0, 1.0, -1.0]) for _y in ys] for _x in xs]
            else:
                f = [[1e-12 * rng.gauss(0, 1) for _y in ys] for _x in xs]; f[rng.randrange(Nx)][rng.randrange(Ny)] = 1e15
            tags = ("2d", "x:" + xm, "y:" + ym, "f:" + fm)
            xd, yd, fd = [(-1.0 if rng.random() < 0.6 else 10 ** rng.uniform(-4, 4)) for _k in range(3)]
        sx, sy = scaled(xd, xs), scaled(yd, ys); qs = []
        bad = rng.random() < 0.06
        if bad:
            w = rng.random()
            if w < 0.4: f = f[:-1]
            elif w < 0.7: f[rng.randrange(len(f))] = f[0] + [0.0]
            else: xs[1] = xs[0]
            tags = ("2d", "malformed"); qs = [f"I {hx(sx[0])} {hx(sy[0])}"]
        else:
            cells = [(i, j) for i in range(Nx - 1) for j in range(Ny - 1)]
            for (i, j) in (cells if len(cells) <= 6 else rng.sample(cells, 6)):
                qs.append(f"C {i} {j} {rng.choice([2, 4])}")
                x = sx[i] + (sx[i + 1] - sx[i]) * rng.random(); y = sy[j] + (sy[j + 1] - sy[j]) * rng.random()
                if sx[i] <= x <= sx[i + 1] and sy[j] <= y <= sy[j + 1]:
                    qs.append(f"I {hx(x)} {hx(y)}")
                    # shared edges: just below / on / just above an interior grid line
                    qs.append(f"I {hx(math.nextafter(sx[i + 1], -math.inf))} {hx(y)}"); qs.append(f"I {hx(sx[i + 1])} {hx(y)}")
                    qs.append(f"I {hx(x)} {hx(math.nextafter(sy[j + 1], -math.inf))}"); qs.append(f"I {hx(x)} {hx(sy[j + 1])}")
            for (i, j) in [(0, 0), (Nx - 1, Ny - 1), (0, Ny - 1), (rng.randrange(Nx), rng.randrange(Ny))]:
                qs.append(f"I {hx(sx[i])} {hx(sy[j])}")
            if rng.random() < 0.3:   # 1 % zone / outside
                tl = 1e-2 * (sx[1] - sx[0]); x = sx[0] - tl * rng.choice([0.5, 0.99, 1.01, 3.0])
                qs = qs[:3] + [f"I {hx(x)} {hx(sy[0])}"]
        cs.append(Case(f"t2 {hx(xd)} {hx(yd)} {hx(fd)} {flist(xs)} {flist(ys)} {len(f)} " + " ".join(flist(r) for r in f) + f" {len(qs)} " + " ".join(qs), tags))
    # tables with coincidences: partially regular grids, ordinates with vanishing sums / symmetries, 2-D axes that share size and/or end
    # points, the data-table constructor of Interpolation_2D, live 2-D objects
    cs += struct_cases_1d(rng, 2500 if big else 280)
    cs += struct_cases_2d(rng, 1500 if big else 150)
    cs += collapse_cases(rng, 3000 if big else 300)
    # sessions: objects that already answered requests receive other tables (assignment, construction in the same storage, heap
    # re-allocation, function-local objects), several objects alive at once, copies; the same arguments meet every table
    cs += session_cases_1d(rng, 3000 if big else 260)
    cs += session_cases_2d(rng, 800 if big else 70)
    # the default constructors (last, so that the random streams of the classes above are unchanged)
    cs += default_cases(rng, 400 if big else 48)
    return cs


# ----------------------------------------------------------------------------------------------- parsing
class Rd:
    def __init__(self, line): self.t = line.split(); self.i = 0
    def word(self): w = self.t[self.i]; self.i += 1; return w
    def num(self):
        w = self.word()
        if w == "nan": return math.nan
        if w == "inf": return math.inf
        if w == "-inf": return -math.inf
        return float.fromhex(w)
    def integer(self): return int(self.word())
    def list(self): return [self.num() for _ in range(self.integer())]
    def table(self): return [self.list() for _ in range(self.integer())]


OPS2 = ("t2", "h2", "t3")
DEFAULT_AXIS = (-1.0, 0.0, 1.0)


def grid_of_rows(rows):
    """specification of the data-table constructor: rows (x, y, f) in x-major order over the sorted distinct x and y values.
    Returns (xs, ys, f, well_formed)"""
    if not all(len(r) == 3 for r in rows): return [], [], [], False
    xs = sorted(set(r[0] for r in rows)); ys = sorted(set(r[1] for r in rows))
    if len(xs) * len(ys) != len(rows): return [], [], [], False
    k = 0; f = []
    for x in xs:
        f.append([])
        for y in ys:
            if rows[k][0] != x or rows[k][1] != y: return [], [], [], False
            f[-1].append(rows[k][2]); k += 1
    return xs, ys, f, True


def parse_queries(r, two_d):
    nq = r.integer(); qs = []
    for _ in range(nq):
        q = r.word()
        if two_d:
            qs.append(("I", r.num(), r.num()) if q == "I" else ("C", r.integer(), r.integer(), r.integer()))
        elif q in ("I", "L", "K"): qs.append((q, r.num()))
        elif q == "D": qs.append((q, r.integer(), r.num()))
        elif q == "G": qs.append((q, r.integer(), r.integer()))
        elif q in ("F", "V"): qs.append((q, r.num(), r.num()))
    return qs


def parse_session(r, op):
    """segments of a session, each with the table its slot holds when the requests are made"""
    two_d = op == "s2"; slots = {}; segs = []
    for _ in range(r.integer()):
        kind = r.word(); g = {"kind": kind, "op": "t2" if two_d else "t1"}
        if kind == "A":
            g["mode"] = r.word(); k = r.integer(); t = {}
            if two_d:
                t["xd"], t["yd"], t["fd"] = r.num(), r.num(), r.num(); t["xs0"], t["ys0"] = r.list(), r.list(); t["f0"] = r.table()
            else:
                t["xd"], t["fd"] = r.num(), r.num(); t["xs0"], t["ys0"] = r.list(), r.list()
            slots[k] = t
        elif kind == "C":
            k = r.integer(); src = r.integer(); slots[k] = slots[src]; g["src"] = src
        else: k = r.integer()
        g["slot"] = k; g.update(slots[k]); g["qs"] = parse_queries(r, two_d); segs.append(g)
    return segs


def parse_case(line):
    r = Rd(line); op = r.word(); d = {"op": op}
    if op in ("s1", "s2"):
        d["segs"] = parse_session(r, op); return d
    if op == "d1":      # the specification of Interpolation(): written here independently of the model
        d.update({"op": "t1", "default": True, "xd": -1.0, "fd": -1.0, "xs0": list(DEFAULT_AXIS), "ys0": [0.0, 0.0, 0.0]})
    elif op == "d2":
        d.update({"op": "t2", "default": True, "xd": -1.0, "yd": -1.0, "fd": -1.0, "xs0": list(DEFAULT_AXIS), "ys0": list(DEFAULT_AXIS),
                  "f0": [[0.0] * 3 for _ in range(3)]})
    elif op in ("t1", "h1"):
        d["xd"], d["fd"] = r.num(), r.num(); d["xs0"], d["ys0"] = r.list(), r.list()
    elif op == "tr":
        d["xd"], d["fd"] = r.num(), r.num(); d["rows"] = r.table()
        d["rows_ok"] = all(len(x) == 2 for x in d["rows"])
        d["xs0"] = [x[0] for x in d["rows"]] if d["rows_ok"] else []; d["ys0"] = [x[1] for x in d["rows"]] if d["rows_ok"] else []
    elif op == "t3":
        d["xd"], d["yd"], d["fd"] = r.num(), r.num(), r.num(); rows = r.table(); d["rows"] = rows
        d["xs0"], d["ys0"], d["f0"], d["rows_ok"] = grid_of_rows(rows)
    else:
        d["xd"], d["yd"], d["fd"] = r.num(), r.num(), r.num(); d["xs0"], d["ys0"] = r.list(), r.list(); d["f0"] = r.table()
    d["qs"] = parse_queries(r, d["op"] in OPS2)
    return d


def table_ok(xs0, ys0, xd=-1.0):
    """the constructor's guard: equal lengths, N >= 2, and the CONVERTED abscissae strictly increasing (the test follows the unit conversion)"""
    sx = scaled(xd, xs0)
    return len(xs0) == len(ys0) and len(xs0) >= 2 and all(b > a for a, b in zip(sx, sx[1:]))


def locate_ref(xs, x):
    """specification of Locate on a fresh object: None = exit; otherwise the admissible segment"""
    N = len(xs)
    if math.isnan(x): return None
    if x < xs[0] or x > xs[-1]:
        if abs(x - xs[0]) < 1e-2 * (xs[1] - xs[0]): return 0
        if abs(x - xs[-1]) < 1e-2 * (xs[-1] - xs[-2]): return N - 2
        return None
    lo, hi = 0, N - 1          # largest j <= N-2 with xs[j] <= x
    while hi - lo > 1:
        m = (lo + hi) // 2
        if xs[m] <= x: lo = m
        else: hi = m
    return lo


def nout(q):
    if q[0] in ("I", "L", "D"): return 1
    if q[0] == "G": return q[2] + 1
    if q[0] == "K": return 6
    if q[0] == "F": return 11
    if q[0] == "V": return 8
    return (q[3] + 1) ** 2


def is_int_tok(t):
    return t.lstrip("-").isdigit()


# ----------------------------------------------------------------------------------------------- comparison
def scales_of(d):
    """natural absolute scale of every output number of one table + query list (None: malformed 1-D table)"""
    scales = []
    if d["op"] in OPS2:
        xs, ys = scaled(d["xd"], d["xs0"]), scaled(d["yd"], d["ys0"]); f = [scaled(d["fd"], row) for row in d["f0"]]
        mx = max([abs(v) for row in f for v in row] + [0.0])
        for q in d["qs"]: scales += [mx] * nout(q)
    else:
        xs, ys = scaled(d["xd"], d["xs0"]), scaled(d["fd"], d["ys0"])
        if not table_ok(d["xs0"], d["ys0"], d["xd"]): return None
        h, s = steffen_ref(xs, ys)
        def sc(x, k):
            j = locate_ref(xs, x)
            if j is None: return 0.0
            v = abs(ys[j]) + abs(ys[j + 1]) + abs(ys[j + 1] - ys[j])
            return [v, 40 * abs(s[j]), 54 * abs(s[j]) / h[j], 36 * abs(s[j]) / h[j] ** 2][k] if k < 4 else 0.0
        for q in d["qs"]:
            if q[0] == "I": scales.append(sc(q[1], 0))
            elif q[0] == "L": scales.append(0.0)
            elif q[0] == "D": scales.append(sc(q[2], q[1]))
            elif q[0] == "G": scales += [sc(xs[q[1]] + 0.5 * h[q[1]], 0)] * (q[2] + 1)
            elif q[0] == "K":
                x = q[1]; pts = [math.nextafter(x, -math.inf), x, math.nextafter(x, math.inf)]
                scales += [sc(p, 0) for p in pts] + [sc(p, 1) for p in pts]
            elif q[0] == "F":
                x, dd = q[1], q[2]
                scales += [sc(x, k) for k in (0, 0, 0, 1, 1, 1, 2, 2, 2, 3, 4)]
            elif q[0] == "V":
                scales += [sc(q[1], k) for k in (1, 2, 3, 0, 0, 0, 0, 0)]
    return scales


def compare(c, io, mo, tol):
    """token-wise comparison with the natural absolute scale of each output (a harmless rewrite of the polynomial evaluation
    changes a value by a few ulp of its largest term, not of the possibly cancelling result): 1e-11 of
    |y_j|+|y_{j+1}-y_j| for values, of 40|s_j|, 54|s_j|/h_j, 36|s_j|/h_j^2 for the derivatives of order 1, 2, 3."""
    if io == mo: return True, True, ""
    a, b = io.split(), mo.split()
    if len(a) != len(b): return False, False, f"shape: impl has {len(a)} tokens, model {len(b)}"
    try: d = parse_case(c.line)
    except Exception: return False, False, "unparsable case"
    if d["op"] in ("s1", "s2"):
        scales = []
        for g in d["segs"]:
            sg = scales_of(g)
            if sg is None: return False, False, "outputs differ on a malformed table"
            scales += sg
        scales = scales + scales
    else:
        scales = scales_of(d)
        if scales is None: return False, False, "outputs differ on a malformed table"
    if len(scales) != len(a): return False, False, "output shape does not match the queries"
    for k, (x, y) in enumerate(zip(a, b)):
        if x == y: continue
        if is_int_tok(x) or is_int_tok(y) or not (x.lstrip("-").startswith("0x") and y.lstrip("-").startswith("0x")):
            return False, False, f"token {k}: impl {x} model {y}"
        fx, fy = float.fromhex(x), float.fromhex(y)
        if abs(fx - fy) > tol[0] * max(abs(fx), abs(fy)) + 1e-11 * scales[k] + tol[1]:
            return False, False, f"token {k}: impl {fx!r} model {fy!r} (natural scale {scales[k]:.3g})"
    return True, False, ""


# ----------------------------------------------------------------------------------------------- S4 predicates
def steffen_ref(xs, ys):
    """h, s of the table (the same double operations as the library: one subtraction, one division)"""
    h = [b - a for a, b in zip(xs, xs[1:])]
    s = [(ys[i + 1] - ys[i]) / h[i] for i in range(len(h))]
    return h, s


def seg_slack(ys, j):
    # a h^3, b h^2, c h, d are bounded by 6, 9, 2 times |y_{j+1}-y_j| and |y_j| (limiter bounds); 64 eps per DESIGN 5.3
    return 64 * EPS * (17 * abs(ys[j + 1] - ys[j]) + max(abs(ys[j]), abs(ys[j + 1]))) + 1e-300


def exact_poly(xs, ys):
    """('line', m, q) / ('parabola', al, be, ga) when the doubles lie exactly on one, else None (Fractions)"""
    X = [Fraction(x) for x in xs]; Y = [Fraction(y) for y in ys]
    if len(X) < 2: return None
    m = (Y[1] - Y[0]) / (X[1] - X[0]); q = Y[0] - m * X[0]
    if all(y == m * x + q for x, y in zip(X, Y)): return ("line", m, q)
    if len(X) < 3: return None
    # Newton form through the first three points
    d01 = (Y[1] - Y[0]) / (X[1] - X[0]); d12 = (Y[2] - Y[1]) / (X[2] - X[1]); al = (d12 - d01) / (X[2] - X[0])
    f = lambda x: Y[0] + d01 * (x - X[0]) + al * (x - X[0]) * (x - X[1])
    if all(f(x) == y for x, y in zip(X, Y)): return ("parabola", f)
    return None


def limiter_inactive_exact(xs, ys):
    """exact (rational) test that dy_i = p_i at every knot: same sign as the adjacent secants and |p_i| <= 2 min|s|"""
    X = [Fraction(x) for x in xs]; Y = [Fraction(y) for y in ys]; N = len(X)
    h = [X[i + 1] - X[i] for i in range(N - 1)]; s = [(Y[i + 1] - Y[i]) / h[i] for i in range(N - 1)]
    sg = lambda v: (v > 0) - (v < 0)
    for i in range(N):
        if i == 0: p = s[0] * (1 + h[0] / (h[0] + h[1])) - s[1] * h[0] / (h[0] + h[1]); adj = [s[0]]
        elif i == N - 1: p = s[-1] * (1 + h[-1] / (h[-1] + h[-2])) - s[-2] * h[-1] / (h[-1] + h[-2]); adj = [s[-1]]
        else: p = (s[i - 1] * h[i] + s[i] * h[i - 1]) / (h[i - 1] + h[i]); adj = [s[i - 1], s[i]]
        if any(sg(a) != sg(p) for a in adj): return False
        if abs(p) > 2 * min(abs(a) for a in adj): return False
    return True


def pred_1d(c, d, vals):
    out = []; xs, ys = scaled(d["xd"], d["xs0"]), scaled(d["fd"], d["ys0"]); N = len(xs)
    h, s = steffen_ref(xs, ys)
    poly = None
    if N <= 100:     # every table is tested (cheap: a generic table fails at its third point)
        poly = exact_poly(xs, ys)
        if poly and poly[0] == "parabola" and not limiter_inactive_exact(xs, ys): poly = None
    def polyval(x):
        fx = Fraction(x)
        return float(poly[1] * fx + poly[2]) if poly[0] == "line" else float(poly[1](fx))
    def seg_of(x):
        j = locate_ref(xs, x); return j
    def check_value(x, v, what):
        """clauses on one value of the curve at x (inside the domain or the tolerance zone)"""
        j = seg_of(x)
        if j is None: return
        if not math.isfinite(v):
            out.append(("1d:finite", f"{what}: Interpolate({x!r}) = {v!r} is not finite")); return
        lo, hi = min(ys[j], ys[j + 1]), max(ys[j], ys[j + 1]); sl = seg_slack(ys, j)
        if xs[0] <= x <= xs[-1]:
            if not (lo - sl <= v <= hi + sl):
                out.append(("1d:between", f"{what}: Interpolate({x!r}) = {v!r} is outside [{lo!r},{hi!r}] of its segment {j} (overshoot)"))
        else:   # extrapolation by at most 1 % of the end segment: |phi(u)| <= 0.03 there
            y_end = ys[0] if x < xs[0] else ys[-1]
            if abs(v - y_end) > 0.03 * abs(ys[j + 1] - ys[j]) + sl:
                out.append(("1d:edge-zone", f"{what}: Interpolate({x!r}) = {v!r} is not within 3% of the end value {y_end!r}"))
        if poly:
            ex = polyval(x); tolp = 64 * EPS * (40 * abs(s[j]) * abs(x - xs[j]) + 40 * abs(ys[j + 1] - ys[j]) + abs(ys[j]) + abs(ex)) + 1e-300
            if abs(v - ex) > tolp: out.append(("1d:" + poly[0], f"{what}: {poly[0]} data not reproduced: Interpolate({x!r}) = {v!r}, exact {ex!r}"))
    k = 0
    for q in d["qs"]:
        n = nout(q); o = vals[k:k + n]; k += n
        if len(o) < n: out.append(("1d:shape", "too few output values")); break
        if q[0] == "I": check_value(q[1], o[0], "I")
        elif q[0] == "L":
            x = q[1]; j = o[0]; ref = locate_ref(xs, x)
            if not isinstance(j, int) or not (0 <= j <= N - 2): out.append(("1d:locate-range", f"Locate({x!r}) = {j!r} is not a segment index of a table of {N} points"))
            elif ref is not None and j != ref:
                out.append(("1d:locate", f"Locate({x!r}) = {j}, but the segment containing it (the right one at a knot) is {ref}"))
        elif q[0] == "D":
            kk, x = q[1], q[2]; j = seg_of(x)
            if kk == 0: check_value(x, o[0], "D0")
            elif kk >= 4 and o[0] != 0.0: out.append(("1d:deriv-order>=4", f"Derivative({x!r},{kk}) = {o[0]!r}, the curve is a cubic: 0 expected"))
            elif kk == 1 and j is not None and xs[0] <= x <= xs[-1]:
                # monotone on the segment: the derivative has the sign of the secant slope and is at most 2|s| (theorem C01_derivative_sign_and_bound)
                sl1 = 64 * EPS * 38 * abs(s[j]) + 1e-300
                if o[0] * s[j] < -sl1 * abs(s[j]) or abs(o[0]) > 2 * abs(s[j]) + sl1:
                    out.append(("1d:deriv-sign", f"Derivative({x!r},1) = {o[0]!r} but the secant slope of segment {j} is {s[j]!r}: not monotone"))
        elif q[0] == "G":
            j, m = q[1], q[2]; sl = seg_slack(ys, j); up = ys[j + 1] >= ys[j]
            x0, x1 = xs[j], xs[j + 1]
            pts = [x1 if kk == m else x0 + (x1 - x0) * float(kk) / float(m) for kk in range(m + 1)]
            if o[0] != ys[j]: out.append(("1d:knot", f"Interpolate at the abscissa x[{j}] = {x0!r} returns {o[0]!r}, tabulated {ys[j]!r}"))
            if (j + 1 <= N - 2 and o[m] != ys[j + 1]) or abs(o[m] - ys[j + 1]) > sl:
                out.append(("1d:knot", f"Interpolate at the abscissa x[{j+1}] = {x1!r} returns {o[m]!r}, tabulated {ys[j+1]!r}"))
            for kk in range(m + 1): check_value(pts[kk], o[kk], f"G{j}")
            for kk in range(m):
                if pts[kk + 1] < pts[kk]: continue
                dv = o[kk + 1] - o[kk]
                if (dv < -2 * sl) if up else (dv > 2 * sl):
                    out.append(("1d:monotone", f"not monotone on segment {j}: f({pts[kk]!r}) = {o[kk]!r}, f({pts[kk+1]!r}) = {o[kk+1]!r}, data {ys[j]!r} -> {ys[j+1]!r}")); break
        elif q[0] == "K":
            x = q[1]
            try: kn = xs.index(x)
            except ValueError: continue
            fm, f0, fp, dm, d0, dp = o
            js = [j for j in (kn - 1, kn) if 0 <= j <= N - 2]
            smax = max(abs(s[j]) for j in js); hmin = min(h[j] for j in js); ulp = max(math.nextafter(x, math.inf) - x, x - math.nextafter(x, -math.inf))
            slv = max(seg_slack(ys, j) for j in js)
            if (kn <= N - 2 and f0 != ys[kn]) or abs(f0 - ys[kn]) > slv:
                out.append(("1d:knot", f"Interpolate at the abscissa x[{kn}] = {x!r} returns {f0!r}, tabulated {ys[kn]!r}"))
            for v, nm in ((fm, "below"), (fp, "above")):
                if abs(v - ys[kn]) > slv + 3 * smax * ulp:
                    out.append(("1d:continuity", f"value jumps at the abscissa x[{kn}] = {x!r}: {v!r} just {nm}, tabulated {ys[kn]!r}"))
            sd = 64 * EPS * 38 * smax + 2 * 54 * smax / hmin * ulp + 1e-300
            for v, nm in ((dm, "below"), (dp, "above")):
                if not (abs(v - d0) <= sd):
                    out.append(("1d:c1", f"first derivative jumps at the abscissa x[{kn}] = {x!r}: {v!r} just {nm}, {d0!r} at it (allowed {sd:.3g})"))
            # limiter bounds, observable as Derivative(x_k,1) = dy_k
            se = 64 * EPS * 38 * smax if kn == N - 1 else 0.0
            for j in js:
                if d0 * s[j] < -se * abs(s[j]) or abs(d0) > 2 * abs(s[j]) * (1 + 8 * EPS) + se:
                    out.append(("1d:limiter", f"slope {d0!r} at the abscissa x[{kn}] violates the limiter bounds against the adjacent secant slope {s[j]!r}"))
        elif q[0] == "F":
            x, dd = q[1], q[2]; j = seg_of(x)
            if j is None: continue
            f_m, f_0, f_p, d1m, d10, d1p, d2m, d20, d2p, d3, d4 = o
            for xx, v in ((x - dd, f_m), (x, f_0), (x + dd, f_p)): check_value(xx, v, "F")
            if d4 != 0.0: out.append(("1d:deriv-order>=4", f"Derivative({x!r},4) = {d4!r}, 0 expected"))
            S = abs(s[j]); hj = h[j]; two_d = (x + dd) - (x - dd)
            if two_d > 0:
                sl0 = seg_slack(ys, j)
                e1 = abs((f_p - f_m) / two_d - d3 / 6.0 * (two_d / 2) ** 2 - d10); t1 = 2 * sl0 / two_d + 64 * EPS * 38 * S + 64 * EPS * 36 * S / hj ** 2 * dd * dd + 1e-300
                if not (e1 <= t1): out.append(("1d:deriv1", f"Derivative({x!r},1) = {d10!r} is not the derivative of the returned curve (central difference {((f_p - f_m) / two_d)!r}, cubic term {d3/6.0*(two_d/2)**2!r}; off by {e1:.3g}, allowed {t1:.3g})"))
                e2 = abs((d1p - d1m) / two_d - d20); t2 = 2 * 64 * EPS * 38 * S / two_d + 64 * EPS * 54 * S / hj + 1e-300
                if not (e2 <= t2): out.append(("1d:deriv2", f"Derivative({x!r},2) = {d20!r} is not the derivative of Derivative(.,1) (central difference {((d1p - d1m) / two_d)!r}; off by {e2:.3g}, allowed {t2:.3g})"))
                e3 = abs((d2p - d2m) / two_d - d3); t3 = 2 * 64 * EPS * 54 * S / hj / two_d + 64 * EPS * 36 * S / hj ** 2 + 1e-300
                if not (e3 <= t3): out.append(("1d:deriv3", f"Derivative({x!r},3) = {d3!r} is not the derivative of Derivative(.,2) (central difference {((d2p - d2m) / two_d)!r}; off by {e3:.3g}, allowed {t3:.3g})"))
        elif q[0] == "V":
            # the three derivatives (requested before anything else) against divided differences of the RETURNED curve on the
            # stencil x-2d .. x+2d, which lies inside one segment: the formulas are exact for cubics.  Every value carries the
            # rounding slack of its segment and the effect of the rounded stencil point (|f'| <= 3|s|).
            x, dd = q[1], q[2]; j = seg_of(x)
            d1, d2, d3, fm2, fm1, f0, fp1, fp2 = o
            pts = [x - 2.0 * dd, x - dd, x, x + dd, x + 2.0 * dd]
            if j is None or not dd > 0 or any(seg_of(pt) != j or not (xs[j] <= pt <= xs[j + 1]) for pt in pts): continue
            for pt, v in zip(pts, o[3:]): check_value(pt, v, "V")
            S = abs(s[j]); hj = h[j]
            ev = seg_slack(ys, j) + 3 * S * 2 * math.ulp(max(abs(pt) for pt in pts))
            g1 = (fm2 - 8 * fm1 + 8 * fp1 - fp2) / (12 * dd); t1 = 18 * ev / (12 * dd) + 64 * EPS * 38 * S + 1e-300
            g2 = (-fm2 + 16 * fm1 - 30 * f0 + 16 * fp1 - fp2) / (12 * dd * dd); t2 = 64 * ev / (12 * dd * dd) + 64 * EPS * 54 * S / hj + 1e-300
            g3 = (fp2 - 2 * fp1 + 2 * fm1 - fm2) / (2 * dd ** 3); t3 = 6 * ev / (2 * dd ** 3) + 64 * EPS * 36 * S / hj ** 2 + 1e-300
            for kk, dv, gv, tv in ((1, d1, g1, t1), (2, d2, g2, t2), (3, d3, g3, t3)):
                if not (abs(dv - gv) <= tv):
                    out.append((f"1d:deriv{kk}", f"Derivative({x!r},{kk}) = {dv!r} is not the derivative of the returned curve (divided difference of Interpolate on x-2d..x+2d, d = {dd!r}: {gv!r}; off by {abs(dv - gv):.3g}, allowed {tv:.3g})"))
            sl1 = 64 * EPS * 38 * S + 1e-300
            if d1 * s[j] < -sl1 * S or abs(d1) > 2 * S + sl1:
                out.append(("1d:deriv-sign", f"Derivative({x!r},1) = {d1!r} but the secant slope of segment {j} is {s[j]!r}: not monotone"))
    return out


def pred_2d(c, d, vals):
    out = []; xs, ys = scaled(d["xd"], d["xs0"]), scaled(d["yd"], d["ys0"])
    f = [scaled(d["fd"], row) for row in d["f0"]]
    bil = None
    if len(xs) * len(ys) <= 400:     # every grid is tested (a generic grid fails at the first node outside the corner cell)
        # exact bilinear fit from the corner cell, verified on every node
        X = [Fraction(v) for v in xs]; Y = [Fraction(v) for v in ys]; F = [[Fraction(v) for v in row] for row in f]
        if len(X) >= 2 and len(Y) >= 2:
            D = (F[1][1] - F[1][0] - F[0][1] + F[0][0]) / ((X[1] - X[0]) * (Y[1] - Y[0]))
            B = (F[1][0] - F[0][0]) / (X[1] - X[0]) - D * Y[0]; Cc = (F[0][1] - F[0][0]) / (Y[1] - Y[0]) - D * X[0]
            A = F[0][0] - B * X[0] - Cc * Y[0] - D * X[0] * Y[0]
            g = lambda x, y: A + B * x + Cc * y + D * x * y
            if all(g(X[i], Y[j]) == F[i][j] for i in range(len(X)) for j in range(len(Y))): bil = g
    def check(x, y, v, what):
        i, j = locate_ref(xs, x), locate_ref(ys, y)
        if i is None or j is None: return
        if not (xs[0] <= x <= xs[-1] and ys[0] <= y <= ys[-1]): return
        cor = [f[i][j], f[i + 1][j], f[i + 1][j + 1], f[i][j + 1]]; mx = max(abs(t) for t in cor); sl = 32 * EPS * mx + 1e-300
        if not (min(cor) - sl <= v <= max(cor) + sl):
            out.append(("2d:within-corners", f"{what}: Interpolate({x!r},{y!r}) = {v!r} is outside the corner values {cor!r} of cell ({i},{j})"))
        if x in xs and y in ys:
            fi, fj = xs.index(x), ys.index(y)
            if v != f[fi][fj]: out.append(("2d:node", f"{what}: Interpolate at the node ({x!r},{y!r}) = {v!r}, tabulated {f[fi][fj]!r}"))
        if bil:
            ex = float(bil(Fraction(x), Fraction(y)))
            if abs(v - ex) > 64 * EPS * (4 * mx + abs(ex)) + 1e-300:
                out.append(("2d:bilinear", f"{what}: bilinear data not reproduced: Interpolate({x!r},{y!r}) = {v!r}, exact {ex!r}"))
    k = 0; prev = None
    for q in d["qs"]:
        n = nout(q); o = vals[k:k + n]; k += n
        if len(o) < n: out.append(("2d:shape", "too few output values")); break
        if q[0] == "I":
            x, y, v = q[1], q[2], o[0]; check(x, y, v, "I")
            # edge continuity: consecutive queries (x^-, y), (x, y) or (x, y^-), (x, y) across a grid line
            if prev is not None:
                px, py, pv = prev
                i, j = locate_ref(xs, px), locate_ref(ys, py)
                if i is not None and j is not None and xs[0] <= px <= xs[-1] and ys[0] <= py <= ys[-1]:
                    cor = [f[i][j], f[i + 1][j], f[i + 1][j + 1], f[i][j + 1]]; mx = max(abs(t) for t in cor); spread = max(cor) - min(cor)
                    if py == y and x in xs and math.nextafter(x, -math.inf) == px:
                        lim = 32 * EPS * mx * 2 + 2 * spread / (xs[i + 1] - xs[i]) * (x - px) + 1e-300
                        if abs(v - pv) > lim: out.append(("2d:edge", f"jump across the grid line x = {x!r} at y = {y!r}: {pv!r} just below, {v!r} on it"))
                    if px == x and y in ys and math.nextafter(y, -math.inf) == py:
                        lim = 32 * EPS * mx * 2 + 2 * spread / (ys[j + 1] - ys[j]) * (y - py) + 1e-300
                        if abs(v - pv) > lim: out.append(("2d:edge", f"jump across the grid line y = {y!r} at x = {x!r}: {pv!r} just below, {v!r} on it"))
            prev = (x, y, v)
        else:
            i, j, m = q[1], q[2], q[3]; prev = None
            x0, x1, y0, y1 = xs[i], xs[i + 1], ys[j], ys[j + 1]; t = 0
            for a in range(m + 1):
                x = x1 if a == m else x0 + (x1 - x0) * float(a) / float(m)
                for b in range(m + 1):
                    y = y1 if b == m else y0 + (y1 - y0) * float(b) / float(m)
                    check(x, y, o[t], f"C{i},{j}"); t += 1
    return out


def expected_exit(d):
    """does the request terminate the process by the documented guards? (independent of the model)"""
    if d["op"] in ("s1", "s2"): return any(expected_exit(g) for g in d["segs"])
    if d["op"] == "tr" and not d["rows_ok"]: return True
    if d["op"] == "t3" and not d["rows_ok"]: return True
    if d["op"] in OPS2:
        if len(d["f0"]) != len(d["xs0"]) or any(len(r) != len(d["ys0"]) for r in d["f0"]): return True
        xs, ys = scaled(d["xd"], d["xs0"]), scaled(d["yd"], d["ys0"])
        if not (len(xs) >= 2 and all(b > a for a, b in zip(xs, xs[1:]))): return True       # the axes as stored (converted)
        if not (len(ys) >= 2 and all(b > a for a, b in zip(ys, ys[1:]))): return True
        for q in d["qs"]:
            if q[0] == "I" and (locate_ref(xs, q[1]) is None or locate_ref(ys, q[2]) is None): return True
        return False
    if not table_ok(d["xs0"], d["ys0"], d["xd"]): return True
    xs = scaled(d["xd"], d["xs0"])
    for q in d["qs"]:
        # every point at which the composite request calls the library (K: x and its two neighbours; F: x-d, x, x+d; V: x-2d .. x+2d)
        if q[0] in ("I", "L"): pts = [q[1]]
        elif q[0] == "D": pts = [q[2]]
        elif q[0] == "K": pts = [math.nextafter(q[1], -math.inf), q[1], math.nextafter(q[1], math.inf)]
        elif q[0] == "F": pts = [q[1] - q[2], q[1], q[1] + q[2]]
        elif q[0] == "V": pts = [q[1] - 2.0 * q[2], q[1] - q[2], q[1], q[1] + q[2], q[1] + 2.0 * q[2]]
        else: pts = []
        if any(locate_ref(xs, x) is None for x in pts): return True
    return False


def describe_segment(g):
    how = {"A": "a new table put into the slot (mode %s)" % g.get("mode"), "C": "the object of slot %s copy-assigned" % g.get("src"), "R": "the slot resumed"}[g["kind"]]
    return f"slot {g['slot']}, {how}, N = {len(g['xs0'])}"


def pred_session(c, d, vals):
    """sessions: (1) every answer of a re-used object equals, bit for bit, the answer a fresh object of the same table gives to the
    same call (the classes are deterministic functions of the table; the only state a request leaves behind, the search start of
    Locate, does not change which segment is found); (2) all clauses of the property on the answers of the LIVE objects, with the
    table the slot holds at that moment."""
    out = []; segs = d["segs"]; n = sum(nout(q) for g in segs for q in g["qs"])
    if len(vals) != 2 * n: return [(d["op"] + ":shape", f"{len(vals)} output numbers, {2 * n} expected")]
    live, fresh = vals[:n], vals[n:]; k = 0
    for gi, g in enumerate(segs):
        m = sum(nout(q) for q in g["qs"]); lv = live[k:k + m]; fv = fresh[k:k + m]
        t = 0; bad = False
        for q in g["qs"]:
            w = nout(q)
            for u in range(w):
                a, b = lv[t + u], fv[t + u]
                if not (a == b or (isinstance(a, float) and isinstance(b, float) and math.isnan(a) and math.isnan(b))):
                    out.append((d["op"] + ":reuse", f"segment {gi} ({describe_segment(g)}): request {' '.join(str(v) for v in q)}, output {u}: the live object answers {a!r}, "
                                                   f"a fresh object of the same table answers {b!r} to the same call")); bad = True; break
            if bad: break
            t += w
        sub = pred_2d(c, g, lv) if d["op"] == "s2" else pred_1d(c, g, lv)
        out += [(sig, f"segment {gi} ({describe_segment(g)}): {msg}") for sig, msg in sub]
        k += m
    return out


def predicates(c, io):
    if io.startswith(("CRASH", "SANITIZER", "TIMEOUT", "HARNESSERR", "EXIT0", "EXIT_NODIAG")): return []
    d = parse_case(c.line); ee = expected_exit(d)
    if io.startswith("EXIT"):
        return [] if ee else [(d["op"] + ":exit", "a valid table and query points inside the domain (or its 1 % tolerance) terminated the process")]
    if ee: return [(d["op"] + ":no-exit", "a malformed table or a query point outside the 1 % tolerance was accepted")]
    vals = [int(t) if is_int_tok(t) else (math.nan if t == "nan" else math.inf if t == "inf" else -math.inf if t == "-inf" else float.fromhex(t)) for t in io.split()]
    if d["op"] in ("s1", "s2"): return pred_session(c, d, vals)
    out = pred_2d(c, d, vals) if d["op"] in OPS2 else pred_1d(c, d, vals)
    if d.get("default"):
        # theorem C01_default_objects: a default-constructed object answers 0 (value and every derivative) wherever it answers; exact,
        # because every coefficient of a table of zeros is a signed zero in IEEE arithmetic
        bad = [k for k, v in enumerate(vals) if isinstance(v, float) and not v == 0.0]
        if bad: out.append((("d2" if d["op"] in OPS2 else "d1") + ":zero", f"a default-constructed object returned {vals[bad[0]]!r} (output {bad[0]}), not 0"))
    return out


def nontrivial(c, io):
    if io.startswith(("EXIT", "CRASH")): return False
    d = parse_case(c.line)
    if d["op"] in ("s1", "s2"):
        # a slot that receives two different tables, at least one of them non-trivial by the single-table rule
        per = {}
        for g in d["segs"]:
            if g["kind"] == "A": per.setdefault(g["slot"], []).append(g)
        return any(len(v) >= 2 and any(a["xs0"] != b["xs0"] or a["ys0"] != b["ys0"] for a, b in zip(v, v[1:])) and any(nontrivial_table(a) for a in v) for v in per.values())
    return nontrivial_table(d)


def nontrivial_table(d):
    if d["op"] in OPS2:
        xs, ys = d["xs0"], d["ys0"]
        nu = lambda v: len(v) >= 3 and any(abs((v[i + 2] - v[i + 1]) - (v[i + 1] - v[i])) > 1e-9 * (v[i + 2] - v[i]) for i in range(len(v) - 2))
        return nu(xs) and nu(ys)
    xs, ys = scaled(d["xd"], d["xs0"]), scaled(d["fd"], d["ys0"]); N = len(xs)
    if N < 4: return False
    h, s = steffen_ref(xs, ys)
    if not any(abs(h[i + 1] - h[i]) > 1e-9 * (h[i + 1] + h[i]) for i in range(N - 2)): return False
    act = inact = 0
    for i in range(1, N - 1):
        p = (s[i - 1] * h[i] + s[i] * h[i - 1]) / (h[i - 1] + h[i])
        sg = lambda v: (v > 0) - (v < 0)
        if sg(s[i - 1]) == sg(s[i]) != 0 and abs(p) <= 2 * min(abs(s[i - 1]), abs(s[i])): inact += 1
        else: act += 1
    return act >= 1 and inact >= 1
